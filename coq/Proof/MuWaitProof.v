(* MuWaitProof: proofs about Model/MuWaitModel.v (conditional critical sections).

   Part 0  the view (bit 0 = write lock, bit 1 = queue spinlock, x / 256 = reader count) of the 32-bit word:
           how the C operators act on it (extends Proof/WordView.v with bit 1).
   Part 1  per-site lemmas: every expression of Gen/Sites.v that the model writes to the word is rewritten
           (by [reflexivity] against the GENERATED definition and constants) into a readable normal form and
           characterised by its effect on the view.
   Part 2  list lemmas (ghost owner counts).
   Part 3  the inductive invariant Inv (word = ghost owners, per-pc ownership) and its preservation.
   Part 4  C01w: exclusion, word_agrees, frozen word.  C06: evaluation under the lock.
   Part 5  C05 (mu_wait half). *)
From NsyncBase Require Import CSem.
From NsyncGen Require Import Consts Sites.
From NsyncModel Require Import MuWaitModel MuWaitSpec.
From NsyncProof Require Import WordView.
From Coq Require Import List ZArith Bool Lia PeanoNat.
Import ListNotations.
Local Open Scope Z_scope.

Ltac Zify.zify_post_hook ::= Z.div_mod_to_equations.

(* ================================================================== *)
(* Part 0: the view                                                    *)
(* ================================================================== *)
Definition b1 (x : Z) : Z := (x / 2) mod 2.

Lemma b1_testbit x : b1 x = Z.b2z (Z.testbit x 1).
Proof. unfold b1. rewrite (Z.testbit_spec' x 1) by lia. reflexivity. Qed.

Lemma b1_range x : 0 <= b1 x <= 1.
Proof. unfold b1. lia. Qed.

Lemma land_b1 x m : b1 (Z.land x m) = b1 x * b1 m.
Proof. rewrite !b1_testbit, Z.land_spec. destruct (Z.testbit x 1), (Z.testbit m 1); reflexivity. Qed.

Lemma lor_b1 x s : b1 s = 0 -> b1 (Z.lor x s) = b1 x.
Proof.
  rewrite !b1_testbit, Z.lor_spec. destruct (Z.testbit x 1), (Z.testbit s 1); cbn; intros; try reflexivity; discriminate.
Qed.

Lemma lor_b1_set x s : b1 s = 1 -> b1 (Z.lor x s) = 1.
Proof.
  rewrite !b1_testbit, Z.lor_spec. destruct (Z.testbit x 1), (Z.testbit s 1); cbn; intros; try reflexivity; discriminate.
Qed.

(* a flag mask that touches neither the write lock, nor the spinlock, nor the reader count *)
Definition small3 (c : Z) : Prop := small c /\ b1 c = 0.
(* a flag mask that contains the spinlock bit but not the write lock *)
Definition smallS (c : Z) : Prop := small c /\ b1 c = 1.

Lemma small3_lor a b : small3 a -> small3 b -> small3 (Z.lor a b).
Proof. intros [Sa Ba] [Sb Bb]. split; [now apply small_lor | now rewrite lor_b1]. Qed.
Lemma small3_land_l a b : small3 a -> small3 (Z.land a b).
Proof. intros [Sa Ba]. split; [now apply small_land_l | rewrite land_b1, Ba; reflexivity]. Qed.
Lemma small3_wrap c : small3 c -> small3 (wrap_u 32 c).
Proof. intros [S B]. rewrite wrap32; [split; assumption | now apply small_rng]. Qed.
Lemma smallS_lor_l a b : smallS a -> small b -> smallS (Z.lor a b).
Proof.
  intros [Sa Ba] Sb. split; [now apply small_lor|].
  rewrite Z.lor_comm. now apply lor_b1_set.
Qed.

Ltac sm3 := now (split; [vm_compute; intuition congruence | vm_compute; reflexivity]).
Lemma small3_0 : small3 0.     Proof. sm3. Qed.
Lemma small3_4 : small3 4.     Proof. sm3. Qed.
Lemma small3_8 : small3 8.     Proof. sm3. Qed.
Lemma small3_16 : small3 16.   Proof. sm3. Qed.
Lemma small3_32 : small3 32.   Proof. sm3. Qed.
Lemma small3_36 : small3 36.   Proof. sm3. Qed.
Lemma small3_64 : small3 64.   Proof. sm3. Qed.
Lemma small3_128 : small3 128. Proof. sm3. Qed.
Lemma smallS_2 : smallS 2.     Proof. sm3. Qed.

(* V x y : y is a 32-bit word with the same view as x *)
Definition V (x y : Z) : Prop := SL x y /\ b1 y = b1 x.

Lemma V_refl x : rng x -> V x x.
Proof. intros. split; [now apply SL_refl | reflexivity]. Qed.
Lemma V_trans x y z : V x y -> V y z -> V x z.
Proof. intros [A B] [C D]. split; [eapply SL_trans; eassumption | congruence]. Qed.
Lemma V_wrap x y : V x y -> V x (wrap_u 32 y).
Proof. intros [A B]. rewrite wrap32; [split; assumption | apply A]. Qed.

Lemma b1_compl c : 0 <= c < 256 -> b1 (4294967295 - c) = 1 - b1 c.
Proof. unfold b1. intros. lia. Qed.

Lemma V_land_clear x y c : V x y -> small3 c -> V x (Z.land y (4294967295 - c)).
Proof.
  intros [A B] [Sc Bc]. split; [now apply SL_land_clear|].
  rewrite land_b1, b1_compl by apply Sc. rewrite Bc, B. lia.
Qed.
Lemma V_lor_set x y s : V x y -> small3 s -> V x (Z.lor y s).
Proof. intros [A B] [Ss Bs]. split; [now apply SL_lor_set | now rewrite lor_b1]. Qed.
Lemma V_wland x y c : V x y -> small3 c -> V x (wrap_u 32 (Z.land y (4294967295 - c))).
Proof. intros. now apply V_wrap, V_land_clear. Qed.
Lemma V_wlor x y s : V x y -> small3 s -> V x (wrap_u 32 (Z.lor y s)).
Proof. intros. now apply V_wrap, V_lor_set. Qed.

(* same lock view, spinlock bit cleared / set *)
Definition Vclr (x y : Z) : Prop := SL x y /\ b1 y = 0.
Definition Vset (x y : Z) : Prop := SL x y /\ b1 y = 1.

Lemma Vclr_wland x y c : SL x y -> smallS c -> Vclr x (wrap_u 32 (Z.land y (4294967295 - c))).
Proof.
  intros A [Sc Bc]. pose proof (SL_land_clear _ _ c A Sc) as L.
  rewrite wrap32 by apply L. split; [assumption|].
  rewrite land_b1, b1_compl by apply Sc. rewrite Bc. lia.
Qed.
Lemma Vset_wlor x y s : SL x y -> smallS s -> Vset x (wrap_u 32 (Z.lor y s)).
Proof.
  intros A [Ss Bs]. pose proof (SL_lor_set _ _ s A Ss) as L.
  rewrite wrap32 by apply L. split; [assumption | now apply lor_b1_set].
Qed.
Lemma Vset_V x y z : Vset x y -> V y z -> Vset x z.
Proof. intros [A B] [[C1 C2] D]. split; [eapply SL_trans; [exact A | split; assumption] | congruence]. Qed.
Lemma V_SL x y : V x y -> SL x y. Proof. intros [A _]; exact A. Qed.

(* arithmetic on the lock fields keeps bit 1 *)
Lemma add1_b1 x : x mod 2 = 0 -> b1 (x + 1) = b1 x.   Proof. unfold b1; intros; lia. Qed.
Lemma sub1_b1 x : x mod 2 = 1 -> b1 (x - 1) = b1 x.   Proof. unfold b1; intros; lia. Qed.
Lemma add256_b1 x : b1 (x + 256) = b1 x.               Proof. unfold b1; lia. Qed.
Lemma sub256_b1 x : b1 (x - 256) = b1 x.               Proof. unfold b1; lia. Qed.

(* x & 0xffffff00 *)
Lemma land_high x : rng x -> Z.land x 4294967040 = 256 * (x / 256).
Proof.
  intros R. unfold rng in R.
  assert (Z.land x 4294967040 / 256 = x / 256) as D.
  { rewrite land_div256. change (4294967040 / 256) with 16777215. apply land_ones24. lia. }
  assert (Z.land x 4294967040 mod 256 = 0) as M.
  { change 256 with (2 ^ 8). rewrite <- Z.land_ones by lia. rewrite <- Z.land_assoc.
    change (Z.land 4294967040 (Z.ones 8)) with 0. apply Z.land_0_r. }
  assert (0 <= Z.land x 4294967040) by (apply Z.land_nonneg; lia). lia.
Qed.

Lemma zero_test_b1 old M : b1 M = 1 -> wrap_u 32 (Z.land old M) = 0 -> b1 old = 0.
Proof.
  intros HM H. unfold wrap_u in H. change (2 ^ 32) with 4294967296 in H.
  pose proof (land_b1 old M) as L. rewrite HM in L.
  assert (b1 (Z.land old M) = 0) by (unfold b1; lia). lia.
Qed.

(* ================================================================== *)
(* Part 2: lists and counts                                            *)
(* ================================================================== *)
Local Open Scope nat_scope.

Lemma length_lupd {A} (l : list A) k v : length (lupd l k v) = length l.
Proof. revert k; induction l; intros [|k]; simpl; auto. Qed.
Lemma nth_lupd_same {A} (l : list A) k v d : k < length l -> nth k (lupd l k v) d = v.
Proof. revert k; induction l; intros [|k] H; simpl in *; try lia; auto. apply IHl; lia. Qed.
Lemma nth_lupd_other {A} (l : list A) k k' v d : k' <> k -> nth k' (lupd l k v) d = nth k' l d.
Proof. revert k k'; induction l; intros [|k] [|k'] H; simpl; auto; try lia. Qed.
Lemma lupd_lupd {A} (l : list A) k a b : lupd (lupd l k a) k b = lupd l k b.
Proof. revert k; induction l; intros [|k]; simpl; auto. now rewrite IHl. Qed.
Lemma filter_lupd {A} (p : A -> bool) (l : list A) k v d : k < length l ->
  length (filter p (lupd l k v)) + Nat.b2n (p (nth k l d)) = length (filter p l) + Nat.b2n (p v).
Proof.
  revert k; induction l as [|a l IH]; intros [|k] H; simpl in *; try lia.
  - destruct (p a), (p v); simpl; lia.
  - specialize (IH k ltac:(lia)). destruct (p a); simpl; lia.
Qed.
Lemma filter_le {A} (p : A -> bool) (l : list A) : length (filter p l) <= length l.
Proof. induction l; simpl; [lia|]. destruct (p a); simpl; lia. Qed.

Local Open Scope Z_scope.

Definition pm (m : mode) (s : tstate) : bool :=
  match held s, m with Some W, W | Some R, R => true | _, _ => false end.
Definition cntp (p : tstate -> bool) (l : list tstate) : Z := Z.of_nat (length (filter p l)).
Definition cnt (m : mode) := cntp (pm m).
Definition cntS := cntp spin.

Lemma cntp_lupd p l t s' : (t < length l)%nat ->
  cntp p (lupd l t s') = cntp p l - b2z (p (nth t l dflt_t)) + b2z (p s').
Proof.
  intros H. unfold cntp. pose proof (filter_lupd p l t s' dflt_t H) as E.
  destruct (p (nth t l dflt_t)), (p s'); cbn [Nat.b2n b2z] in *; lia.
Qed.
Lemma cntp_range p l : 0 <= cntp p l <= Z.of_nat (length l).
Proof. unfold cntp. pose proof (filter_le p l). lia. Qed.
Lemma cntp_pos p l t : p dflt_t = false -> (t < length l)%nat -> p (nth t l dflt_t) = true -> 1 <= cntp p l.
Proof.
  intros D H P. pose proof (cntp_lupd p l t dflt_t H) as E. rewrite P, D in E. cbn [b2z] in E.
  pose proof (cntp_range p (lupd l t dflt_t)). lia.
Qed.
Lemma cntp_two p l t1 t2 : p dflt_t = false -> (t1 < length l)%nat -> (t2 < length l)%nat -> t1 <> t2 ->
  p (nth t1 l dflt_t) = true -> p (nth t2 l dflt_t) = true -> 2 <= cntp p l.
Proof.
  intros D H1 H2 N P1 P2. pose proof (cntp_lupd p l t1 dflt_t H1) as E. rewrite P1, D in E. cbn [b2z] in E.
  assert (1 <= cntp p (lupd l t1 dflt_t)).
  { apply (cntp_pos p _ t2 D); [now rewrite length_lupd | now rewrite nth_lupd_other by auto]. }
  lia.
Qed.

(* ================================================================== *)
(* Part 1: the sites                                                   *)
(* ================================================================== *)

(* How one word write relates the view before (x; ghost lock bits h and spinlock s of the writing thread)
   and after (x', h', s'). *)
Definition ltrans (x : Z) (h : option mode) (x' : Z) (h' : option mode) : Prop :=
  match h, h' with
  | None, None | Some W, Some W | Some R, Some R => x' mod 2 = x mod 2 /\ x' / 256 = x / 256
  | None, Some W => x mod 2 = 0 /\ x / 256 = 0 /\ x' mod 2 = 1 /\ x' / 256 = 0
  | None, Some R => x mod 2 = 0 /\ x' mod 2 = 0 /\ x' / 256 = x / 256 + 1
  | Some W, None => x' mod 2 = 0 /\ x' / 256 = x / 256
  | Some R, None => x' mod 2 = x mod 2 /\ x' / 256 = x / 256 - 1
  | Some R, Some W => x mod 2 = 0 /\ x / 256 = 1 /\ x' mod 2 = 1 /\ x' / 256 = 0     (* conversion in unlock_slow *)
  | Some W, Some R => x / 256 = 0 /\ x' mod 2 = 0 /\ x' / 256 = 1                     (* downgrade after a timeout *)
  end.
Definition strans (x : Z) (s : bool) (x' : Z) (s' : bool) : Prop :=
  match s, s' with
  | false, false | true, true => b1 x' = b1 x
  | false, true => b1 x = 0 /\ b1 x' = 1
  | true, false => b1 x' = 0
  end.
Definition trans (x : Z) (h : option mode) (s : bool) (x' : Z) (h' : option mode) (s' : bool) : Prop :=
  rng x' /\ ltrans x h x' h' /\ strans x s x' s'.

Ltac trs := cbv beta iota delta [ltrans strans].

Lemma trans_V x y h s : V x y -> trans x h s y h s.
Proof.
  intros [(Ry & My & Dy) B]. split; [assumption|]. split.
  - destruct h as [[|]|]; trs; auto.
  - destruct s; trs; auto.
Qed.
Lemma trans_refl x h s : rng x -> trans x h s x h s.
Proof. intros. now apply trans_V, V_refl. Qed.
(* same lock view, spinlock released / acquired *)
Lemma trans_Vclr x y h : Vclr x y -> trans x h true y h false.
Proof.
  intros [(Ry & My & Dy) B]. split; [assumption|]. split; [destruct h as [[|]|]; trs; auto | exact B].
Qed.
Lemma trans_Vset x y h : b1 x = 0 -> Vset x y -> trans x h false y h true.
Proof.
  intros B0 [(Ry & My & Dy) B]. split; [assumption|]. split; [destruct h as [[|]|]; trs; auto | split; assumption].
Qed.

(* ----- arithmetic steps ----- *)
Lemma add1_v old : rng old -> old mod 2 = 0 ->
  let y := wrap_u 32 (old + 1) in rng y /\ y mod 2 = 1 /\ b1 y = b1 old /\ y / 256 = old / 256.
Proof. intros R E. cbv zeta. rewrite wrap32 by (unfold rng in *; lia). unfold rng, b1 in *. lia. Qed.
Lemma sub1_v old : rng old -> old mod 2 = 1 ->
  let y := wrap_u 32 (old - 1) in rng y /\ y mod 2 = 0 /\ b1 y = b1 old /\ y / 256 = old / 256.
Proof. intros R E. cbv zeta. rewrite wrap32 by (unfold rng in *; lia). unfold rng, b1 in *. lia. Qed.
Lemma add256_v old : rng old -> old / 256 + 1 < 16777216 ->
  let y := wrap_u 32 (old + 256) in rng y /\ y mod 2 = old mod 2 /\ b1 y = b1 old /\ y / 256 = old / 256 + 1.
Proof. intros R E. cbv zeta. rewrite wrap32 by (unfold rng in *; lia). unfold rng, b1 in *. lia. Qed.
Lemma sub256_v old : rng old -> 1 <= old / 256 ->
  let y := wrap_u 32 (old - 256) in rng y /\ y mod 2 = old mod 2 /\ b1 y = b1 old /\ y / 256 = old / 256 - 1.
Proof. intros R E. cbv zeta. rewrite wrap32 by (unfold rng in *; lia). unfold rng, b1 in *. lia. Qed.
Lemma sub255_v old : rng old -> old mod 2 = 0 -> old / 256 = 1 ->
  let y := wrap_u 32 (old - 255) in rng y /\ y mod 2 = 1 /\ b1 y = b1 old /\ y / 256 = 0.
Proof. intros R E D. cbv zeta. rewrite wrap32 by (unfold rng in *; lia). unfold rng, b1 in *. lia. Qed.
Lemma sub0_v old : rng old -> wrap_u 32 (old - 0) = old.
Proof. intros R. rewrite Z.sub_0_r. now apply wrap32. Qed.
Lemma add3_v old : rng old -> old mod 2 = 0 -> b1 old = 0 ->
  let y := wrap_u 32 (wrap_u 32 (old + 1) + 2) in rng y /\ y mod 2 = 1 /\ b1 y = 1 /\ y / 256 = old / 256.
Proof.
  intros R E B. cbv zeta. rewrite (wrap32 (old + 1)) by (unfold rng, b1 in *; lia).
  rewrite wrap32 by (unfold rng, b1 in *; lia). unfold rng, b1 in *. lia.
Qed.

(* y0 has view (m0, s0, r0); y is V-related to y0 *)
Lemma view_V y0 y : V y0 y -> rng y /\ y mod 2 = y0 mod 2 /\ b1 y = b1 y0 /\ y / 256 = y0 / 256.
Proof. intros [(R & M & D) B]. auto. Qed.

(* ----- acquiring CASes: ((old + add) & ~c) ----- *)
Lemma acq_gen m old c s : rng old -> old / 256 + 1 < 16777216 -> old mod 2 = 0 -> (m = W -> old / 256 = 0) -> small3 c ->
  trans old None s (wrap_u 32 (Z.land (wrap_u 32 (old + match m with W => 1 | R => 256 end)) (4294967295 - c))) (Some m) s.
Proof.
  intros R D E DW Sc. destruct m.
  - destruct (add1_v old R E) as (Ry & My & By & Dy).
    destruct (view_V _ _ (V_wland _ _ c (V_refl _ Ry) Sc)) as (R' & M' & B' & D').
    split; [exact R'|]. split; [trs; specialize (DW eq_refl); lia | destruct s; trs; congruence].
  - destruct (add256_v old R D) as (Ry & My & By & Dy).
    destruct (view_V _ _ (V_wland _ _ c (V_refl _ Ry) Sc)) as (R' & M' & B' & D').
    split; [exact R'|]. split; [trs; lia | destruct s; trs; congruence].
Qed.

(* ----- releasing CASes: ((old - add) & ~c) ----- *)
Lemma rel_gen m old c s : rng old -> match m with W => old mod 2 = 1 | R => 1 <= old / 256 end -> small3 c ->
  trans old (Some m) s (wrap_u 32 (Z.land (wrap_u 32 (old - match m with W => 1 | R => 256 end)) (4294967295 - c))) None s.
Proof.
  intros R H Sc. destruct m.
  - destruct (sub1_v old R H) as (Ry & My & By & Dy).
    destruct (view_V _ _ (V_wland _ _ c (V_refl _ Ry) Sc)) as (R' & M' & B' & D').
    split; [exact R'|]. split; [trs; lia | destruct s; trs; congruence].
  - destruct (sub256_v old R H) as (Ry & My & By & Dy).
    destruct (view_V _ _ (V_wland _ _ c (V_refl _ Ry) Sc)) as (R' & M' & B' & D').
    split; [exact R'|]. split; [trs; lia | destruct s; trs; congruence].
Qed.

Lemma zero_test_W old : rng old -> wrap_u 32 (Z.land old 4294967105) = 0 -> old mod 2 = 0 /\ old / 256 = 0.
Proof.
  intros R H. split.
  - apply (zero_test_even old 4294967105); [reflexivity | assumption].
  - apply (zero_test_noreaders old 4294967105); [assumption | reflexivity | assumption].
Qed.
Lemma zero_test_R old : wrap_u 32 (Z.land old 97) = 0 -> old mod 2 = 0.
Proof. apply zero_test_even. reflexivity. Qed.

(* ----- lock / rlock / trylock / rtrylock ----- *)
Lemma trans_acq0 m v : v = match m with W => 1 | R => 256 end -> trans 0 None false v (Some m) false.
Proof. intros ->. destruct m; now vm_compute. Qed.
Lemma fast_new_trans m : trans 0 None false (fast_new m) (Some m) false.
Proof. apply trans_acq0. destruct m; reflexivity. Qed.
Lemma try_new_trans m : trans 0 None false (try_new m) (Some m) false.
Proof. apply trans_acq0. destruct m; reflexivity. Qed.

Lemma fast_new2_eq m old : fast_new2 m old =
  wrap_u 32 (Z.land (wrap_u 32 (old + match m with W => 1 | R => 256 end)) (4294967295 - match m with W => 32 | R => 0 end)).
Proof. destruct m; reflexivity. Qed.
Lemma fast_guard2_eq m old : fast_guard2 m old = negb (negb (wrap_u 32 (Z.land old (match m with W => 4294967105 | R => 97 end)) =? 0)).
Proof. destruct m; reflexivity. Qed.
Lemma try_new2_eq m old : try_new2 m old =
  wrap_u 32 (Z.land (wrap_u 32 (old + match m with W => 1 | R => 256 end)) (4294967295 - match m with W => 32 | R => 0 end)).
Proof. destruct m; reflexivity. Qed.
Lemma try_guard2_eq m old : try_guard2 m old = (wrap_u 32 (Z.land old (match m with W => 4294967105 | R => 97 end)) =? 0).
Proof. destruct m; reflexivity. Qed.

Lemma guard_mask_facts m old : rng old -> wrap_u 32 (Z.land old (match m with W => 4294967105 | R => 97 end)) = 0 ->
  old mod 2 = 0 /\ (m = W -> old / 256 = 0).
Proof.
  intros R G. destruct m.
  - destruct (zero_test_W old R G). auto.
  - split; [now apply zero_test_R | discriminate].
Qed.

Lemma fast_new2_trans m old : rng old -> old / 256 + 1 < 16777216 -> fast_guard2 m old = true ->
  trans old None false (fast_new2 m old) (Some m) false.
Proof.
  intros R D G. rewrite fast_guard2_eq, negb_involutive in G. apply Z.eqb_eq in G.
  destruct (guard_mask_facts m old R G). rewrite fast_new2_eq.
  apply acq_gen; auto. destruct m; [apply small3_32 | apply small3_0].
Qed.
Lemma try_new2_trans m old : rng old -> old / 256 + 1 < 16777216 -> try_guard2 m old = true ->
  trans old None false (try_new2 m old) (Some m) false.
Proof.
  intros R D G. rewrite try_guard2_eq in G. apply Z.eqb_eq in G.
  destruct (guard_mask_facts m old R G). rewrite try_new2_eq.
  apply acq_gen; auto. destruct m; [apply small3_32 | apply small3_0].
Qed.

(* ----- nsync_mu_lock_slow_ ----- *)
Definition zta_ok (m : mode) (z : Z) : Prop :=
  z = lt_zero_to_acquire (lt_of m) \/ z = band (lt_zero_to_acquire (lt_of m)) clr_mask.
Definition lsl_ok (m : mode) (l : lsl) : Prop :=
  zta_ok m (zta l) /\ (clr l = 0 \/ clr l = MU_DESIG_WAKER) /\ (longw l = 0 \/ longw l = MU_LONG_WAIT).

Lemma zta_ok_facts m z : zta_ok m z -> z mod 2 = 1 /\ (m = W -> z / 256 = 16777215).
Proof.
  intros [-> | ->]; destruct m; (split; [reflexivity | intros E; first [discriminate E | reflexivity]]).
Qed.
Lemma zta_ok_next m z : zta_ok m z -> zta_ok m (band z clr_mask).
Proof. intros [-> | ->]; right; [reflexivity | destruct m; reflexivity]. Qed.
Lemma lsl_ok_init m : lsl_ok m (ls_init m).
Proof. unfold lsl_ok, ls_init; cbn [zta clr longw]. split; [left; reflexivity | auto]. Qed.
Lemma lsl_ok_init_desig m : lsl_ok m (ls_init_desig m).
Proof. unfold lsl_ok, ls_init_desig; cbn [zta clr longw]. split; [right; reflexivity | auto]. Qed.
Lemma small_clr l m : lsl_ok m l -> small3 (clr l) /\ small3 (longw l).
Proof. intros (_ & [-> | ->] & [-> | ->]); split; sm3. Qed.

Lemma lock_slow_cas1_new_eq old m c lw :
  nsync_mu_lock_slow_cas1_new old (lt_of m) c lw =
  wrap_u 32 (Z.land (wrap_u 32 (old + match m with W => 1 | R => 256 end))
                    (4294967295 - wrap_u 32 (Z.lor (wrap_u 32 (Z.lor c lw)) (match m with W => 32 | R => 0 end)))).
Proof. destruct m; reflexivity. Qed.
Lemma lock_slow_cas1_guard_eq old z : nsync_mu_lock_slow_cas1_guard old z = (wrap_u 32 (Z.land old z) =? 0).
Proof. reflexivity. Qed.

Lemma lock_slow_cas1_trans m l old : rng old -> old / 256 + 1 < 16777216 -> lsl_ok m l ->
  nsync_mu_lock_slow_cas1_guard old (zta l) = true ->
  trans old None false (nsync_mu_lock_slow_cas1_new old (lt_of m) (clr l) (longw l)) (Some m) false.
Proof.
  intros R D Hl G. destruct (small_clr l m Hl) as [Sc Sl]. destruct Hl as (Hz & _ & _).
  rewrite lock_slow_cas1_guard_eq in G. apply Z.eqb_eq in G.
  destruct (zta_ok_facts m _ Hz) as [Zodd ZW].
  pose proof (zero_test_even old _ Zodd G) as E.
  rewrite lock_slow_cas1_new_eq. apply acq_gen; auto.
  - intros ->. apply (zero_test_noreaders old (zta l)); auto.
  - apply small3_wrap, small3_lor; [apply small3_wrap, small3_lor; assumption | destruct m; [apply small3_32 | apply small3_0]].
Qed.

Lemma lock_slow_cas2_new_eq old lw m c :
  nsync_mu_lock_slow_cas2_new old lw (lt_of m) c =
  wrap_u 32 (Z.land (wrap_u 32 (Z.lor (wrap_u 32 (Z.lor (wrap_u 32 (Z.lor old 2)) lw)) (match m with W => 36 | R => 4 end)))
                    (4294967295 - wrap_u 32 (Z.lor c 128))).
Proof. destruct m; reflexivity. Qed.
Lemma lock_slow_cas2_guard_eq old z :
  nsync_mu_lock_slow_cas2_guard old z = negb (wrap_u 32 (Z.land old z) =? 0) && (wrap_u 32 (Z.land old 2) =? 0).
Proof. reflexivity. Qed.
Lemma spin_clear_of_test old : wrap_u 32 (Z.land old 2) = 0 -> b1 old = 0.
Proof. apply zero_test_b1. reflexivity. Qed.

Lemma lock_slow_cas2_trans m l old h : rng old -> lsl_ok m l -> nsync_mu_lock_slow_cas2_guard old (zta l) = true ->
  trans old h false (nsync_mu_lock_slow_cas2_new old (longw l) (lt_of m) (clr l)) h true.
Proof.
  intros R Hl G. destruct (small_clr l m Hl) as [Sc Sl]. rewrite lock_slow_cas2_new_eq.
  rewrite lock_slow_cas2_guard_eq in G. apply andb_true_iff in G. destruct G as [_ G]. apply Z.eqb_eq in G.
  apply trans_Vset; [now apply spin_clear_of_test|].
  eapply Vset_V; [apply (Vset_wlor old old 2 (SL_refl _ R) smallS_2)|].
  assert (V (wrap_u 32 (Z.lor old 2)) (wrap_u 32 (Z.lor old 2))) as V0 by (apply V_refl, wrap32_rng).
  apply V_wland; [| apply small3_wrap, small3_lor; [assumption | apply small3_128]].
  apply V_wlor; [| destruct m; [apply small3_36 | apply small3_4]].
  apply V_wlor; [| assumption]. exact V0.
Qed.

(* ----- mu_release_spinlock ----- *)
Lemma release_spinlock_new_eq old : mu_release_spinlock_cas1_new old = wrap_u 32 (Z.land old (4294967295 - 2)).
Proof. reflexivity. Qed.
Lemma release_spinlock_trans old h : rng old -> trans old h true (mu_release_spinlock_cas1_new old) h false.
Proof. intros R. rewrite release_spinlock_new_eq. apply trans_Vclr, Vclr_wland; [now apply SL_refl | apply smallS_2]. Qed.

(* ----- nsync_spin_test_and_set_ (&mu->word, MU_SPINLOCK, set, clear) ----- *)
Lemma spin_tas_new_eq old st cl : nsync_spin_test_and_set_cas1_new old st cl = wrap_u 32 (Z.land (wrap_u 32 (Z.lor old st)) (4294967295 - cl)).
Proof. reflexivity. Qed.
Lemma spin_tas_guard_eq old : nsync_spin_test_and_set_cas1_guard old MU_SPINLOCK = negb (negb (wrap_u 32 (Z.land old 2) =? 0)).
Proof. reflexivity. Qed.
Lemma spin_tas_trans old st cl h : rng old -> nsync_spin_test_and_set_cas1_guard old MU_SPINLOCK = true ->
  smallS st -> small3 cl -> trans old h false (nsync_spin_test_and_set_cas1_new old st cl) h true.
Proof.
  intros R G Ss Sc. rewrite spin_tas_guard_eq, negb_involutive in G. apply Z.eqb_eq in G.
  rewrite spin_tas_new_eq. apply trans_Vset; [now apply spin_clear_of_test|].
  eapply Vset_V; [apply (Vset_wlor old old st (SL_refl _ R) Ss)|].
  apply V_wland; [apply V_refl, wrap32_rng | assumption].
Qed.

(* ----- nsync_mu_unlock / nsync_mu_runlock / nsync_mu_unlock_without_wakeup ----- *)
Lemma ufast_trans m : trans (ufast_old m) (Some m) false (ufast_new m) None false.
Proof. destruct m; now vm_compute. Qed.
Lemma uwfast_trans : trans nsync_mu_unlock_without_wakeup_cas1_old (Some W) false nsync_mu_unlock_without_wakeup_cas1_new None false.
Proof. now vm_compute. Qed.
Lemma unlock_new2_eq m old : unlock_new2 m old =
  match m with W => wrap_u 32 (Z.land (wrap_u 32 (old - 1)) (4294967295 - 128)) | R => wrap_u 32 (old - 256) end.
Proof. destruct m; reflexivity. Qed.
Lemma trans_arith old h s y h' : rng y -> b1 y = b1 old -> ltrans old h y h' -> trans old h s y h' s.
Proof. intros R B L. split; [assumption|]. split; [assumption | destruct s; trs; assumption]. Qed.
Lemma unlock_new2_trans m old : rng old -> match m with W => old mod 2 = 1 | R => 1 <= old / 256 end ->
  trans old (Some m) false (unlock_new2 m old) None false.
Proof.
  intros R H. rewrite unlock_new2_eq. destruct m.
  - apply (rel_gen W); auto using small3_128.
  - destruct (sub256_v old R H) as (Ry & My & By & Dy). apply trans_arith; auto. trs. lia.
Qed.
Lemma uw_new2_eq old : nsync_mu_unlock_without_wakeup_cas2_new old = wrap_u 32 (old - 1).
Proof. reflexivity. Qed.
Lemma uw_new2_trans old : rng old -> old mod 2 = 1 ->
  trans old (Some W) false (nsync_mu_unlock_without_wakeup_cas2_new old) None false.
Proof.
  intros R H. rewrite uw_new2_eq. destruct (sub1_v old R H) as (Ry & My & By & Dy). apply trans_arith; auto. trs. lia.
Qed.

(* ----- nsync_mu_unlock_slow_ ----- *)
Lemma unlock_slow_cas1_new_eq old m :
  nsync_mu_unlock_slow_cas1_new old (lt_of m) =
  wrap_u 32 (Z.land (wrap_u 32 (old - match m with W => 1 | R => 256 end)) (4294967295 - match m with W => 128 | R => 0 end)).
Proof. destruct m; reflexivity. Qed.
Lemma unlock_slow_cas1_trans m old : rng old -> match m with W => old mod 2 = 1 | R => 1 <= old / 256 end ->
  trans old (Some m) false (nsync_mu_unlock_slow_cas1_new old (lt_of m)) None false.
Proof.
  intros R H. rewrite unlock_slow_cas1_new_eq. apply rel_gen; auto. destruct m; [apply small3_128 | apply small3_0].
Qed.

Lemma unlock_slow_cas2_new_eq old e : nsync_mu_unlock_slow_cas2_new old e = wrap_u 32 (Z.lor (wrap_u 32 (Z.lor (wrap_u 32 (old - e)) 2)) 8).
Proof. reflexivity. Qed.
Lemma unlock_slow_cas2_guard_facts old : rng old -> nsync_mu_unlock_slow_cas2_guard old = true -> b1 old = 0 /\ old / 256 <= 1.
Proof.
  intros R G. unfold nsync_mu_unlock_slow_cas2_guard in G.
  apply andb_true_iff in G. destruct G as [G1 G2]. apply Z.eqb_eq in G2.
  split; [now apply spin_clear_of_test|].
  apply negb_true_iff in G1. apply orb_false_iff in G1. destruct G1 as [G1 _].
  apply orb_false_iff in G1. destruct G1 as [_ G1].
  change (4294967295 - wrap_u 32 (wrap_u 32 (wrap_s 32 (Z.shiftl 1 8)) - wrap_u 32 1)) with 4294967040 in G1.
  change (wrap_u 32 (wrap_s 32 (Z.shiftl 1 8))) with 256 in G1.
  rewrite land_high in G1 by assumption. rewrite wrap32 in G1 by (unfold rng in *; lia).
  rewrite Z.gtb_ltb in G1. apply Z.ltb_ge in G1. lia.
Qed.
(* the four ways the first CAS of the slow path gives (or keeps, or converts) the lock *)
Definition early_of (m : mode) (testing : bool) : Z :=
  if testing then wrap_u 32 (lt_add_to_acquire (lt_of m) - MU_WLOCK) else lt_add_to_acquire (lt_of m).
Lemma unlock_slow_cas2_trans m testing old : rng old ->
  match m with W => old mod 2 = 1 | R => 1 <= old / 256 /\ old mod 2 = 0 end ->
  nsync_mu_unlock_slow_cas2_guard old = true ->
  trans old (Some m) false (nsync_mu_unlock_slow_cas2_new old (early_of m testing)) (if testing then Some W else None) true.
Proof.
  intros R H G. destruct (unlock_slow_cas2_guard_facts old R G) as [B0 D1].
  rewrite unlock_slow_cas2_new_eq.
  assert (forall y, rng y -> b1 y = b1 old ->
            let z := wrap_u 32 (Z.lor (wrap_u 32 (Z.lor y 2)) 8) in rng z /\ z mod 2 = y mod 2 /\ b1 z = 1 /\ z / 256 = y / 256) as K.
  { intros y Ry By. cbv zeta.
    pose proof (Vset_wlor y y 2 (SL_refl _ Ry) smallS_2) as V1.
    pose proof (Vset_V _ _ _ V1 (V_wlor _ _ 8 (V_refl _ (wrap32_rng _)) small3_8)) as [(Rz & Mz & Dz) Bz]. auto. }
  destruct m, testing; unfold early_of.
  - (* W, testing: early = 0 *)
    change (wrap_u 32 (lt_add_to_acquire (lt_of MuWaitModel.W) - MU_WLOCK)) with 0. rewrite sub0_v by assumption.
    destruct (K old R eq_refl) as (Rz & Mz & Bz & Dz). split; [assumption|]. split; trs; auto.
  - change (lt_add_to_acquire (lt_of MuWaitModel.W)) with 1.
    destruct (sub1_v old R H) as (Ry & My & By & Dy). destruct (K _ Ry By) as (Rz & Mz & Bz & Dz).
    split; [assumption|]. split; trs; [lia | auto].
  - (* R, testing: the last reader converts itself to a writer *)
    change (wrap_u 32 (lt_add_to_acquire (lt_of MuWaitModel.R) - MU_WLOCK)) with 255. destruct H as [H E].
    destruct (sub255_v old R E ltac:(lia)) as (Ry & My & By & Dy). destruct (K _ Ry By) as (Rz & Mz & Bz & Dz).
    split; [assumption|]. split; trs; [lia | auto].
  - change (lt_add_to_acquire (lt_of MuWaitModel.R)) with 256. destruct H as [H E].
    destruct (sub256_v old R H) as (Ry & My & By & Dy). destruct (K _ Ry By) as (Rz & Mz & Bz & Dz).
    split; [assumption|]. split; trs; [lia | auto].
Qed.

(* the last CAS of the slow path *)
Definition usl_ok (u : usl) : Prop := (late u = 0 \/ late u = MU_WLOCK) /\ small3 (set_on u) /\ smallS (clear_on u).
Lemma unlock_slow_cas3_new_eq old lt s c :
  nsync_mu_unlock_slow_cas3_new old lt s c = wrap_u 32 (Z.land (wrap_u 32 (Z.lor (wrap_u 32 (old - lt)) s)) (4294967295 - c)).
Proof. reflexivity. Qed.
Lemma unlock_slow_cas3_trans u old : rng old -> usl_ok u -> (late u = MU_WLOCK -> old mod 2 = 1) ->
  trans old (if late u =? 0 then None else Some W) true
        (nsync_mu_unlock_slow_cas3_new old (late u) (set_on u) (clear_on u)) None false.
Proof.
  intros R (L & Ss & Sc) HW. rewrite unlock_slow_cas3_new_eq.
  assert (forall y, rng y -> let z := wrap_u 32 (Z.land (wrap_u 32 (Z.lor y (set_on u))) (4294967295 - clear_on u)) in
            rng z /\ z mod 2 = y mod 2 /\ b1 z = 0 /\ z / 256 = y / 256) as K.
  { intros y Ry. cbv zeta. destruct Ss as [Ss _].
    pose proof (SL_wlor y y (set_on u) (SL_refl _ Ry) Ss) as S1.
    destruct (Vclr_wland _ _ (clear_on u) S1 Sc) as [(Rz & Mz & Dz) Bz]. auto. }
  destruct L as [L | L]; rewrite L.
  - change (0 =? 0) with true. cbv iota. rewrite sub0_v by assumption. destruct (K old R) as (Rz & Mz & Bz & Dz).
    split; [assumption|]. split; trs; auto.
  - change (MU_WLOCK =? 0) with false. cbv iota. change MU_WLOCK with 1 in *. destruct (sub1_v old R (HW L)) as (Ry & My & By & Dy).
    destruct (K _ Ry) as (Rz & Mz & Bz & Dz). split; [assumption|]. split; trs; [lia | auto].
Qed.

(* ----- nsync_mu_wait_with_deadline: the CAS that releases the spinlock (and the lock) ----- *)
Lemma mw_cas1_new_eq old add : nsync_mu_wait_with_deadline_cas1_new old add = wrap_u 32 (Z.land (wrap_u 32 (old - add)) (4294967295 - 2)).
Proof. reflexivity. Qed.
Lemma mw_cas1_trans m old add : rng old -> match m with W => old mod 2 = 1 | R => 1 <= old / 256 end ->
  add = 0 \/ add = lt_add_to_acquire (lt_of m) ->
  trans old (Some m) true (nsync_mu_wait_with_deadline_cas1_new old add) (if add =? 0 then Some m else None) false.
Proof.
  intros R H A. rewrite mw_cas1_new_eq.
  assert (forall y, rng y -> let z := wrap_u 32 (Z.land y (4294967295 - 2)) in rng z /\ z mod 2 = y mod 2 /\ b1 z = 0 /\ z / 256 = y / 256) as K.
  { intros y Ry. cbv zeta. destruct (Vclr_wland y y 2 (SL_refl _ Ry) smallS_2) as [(Rz & Mz & Dz) Bz]. auto. }
  destruct A as [-> | ->].
  - change (0 =? 0) with true. cbv iota. rewrite sub0_v by assumption. destruct (K old R) as (Rz & Mz & Bz & Dz).
    split; [assumption|]. split; [destruct m; trs; auto | exact Bz].
  - destruct m.
    + change (lt_add_to_acquire (lt_of MuWaitModel.W)) with 1. change (1 =? 0) with false. cbv iota.
      destruct (sub1_v old R H) as (Ry & My & By & Dy). destruct (K _ Ry) as (Rz & Mz & Bz & Dz).
      split; [assumption|]. split; trs; [lia | auto].
    + change (lt_add_to_acquire (lt_of MuWaitModel.R)) with 256. change (256 =? 0) with false. cbv iota.
      destruct (sub256_v old R H) as (Ry & My & By & Dy). destruct (K _ Ry) as (Rz & Mz & Bz & Dz).
      split; [assumption|]. split; trs; [lia | auto].
Qed.

(* ----- mu_try_acquire_after_timeout_or_cancel ----- *)
Lemma mt_cas1_new_eq old :
  mu_try_acquire_after_timeout_or_cancel_cas1_new old = wrap_u 32 (Z.land (wrap_u 32 (wrap_u 32 (old + 1) + 2)) (4294967295 - 32)).
Proof. reflexivity. Qed.
Lemma mt_cas1_guard_eq old :
  mu_try_acquire_after_timeout_or_cancel_cas1_guard old = negb (negb (wrap_u 32 (Z.land old 4294967043) =? 0)).
Proof. reflexivity. Qed.
Definition try_ok (old : Z) : Prop := rng old /\ old mod 2 = 0 /\ b1 old = 0 /\ old / 256 = 0.
Lemma mt_cas1_guard_facts old : rng old -> mu_try_acquire_after_timeout_or_cancel_cas1_guard old = true -> try_ok old.
Proof.
  intros R G. rewrite mt_cas1_guard_eq, negb_involutive in G. apply Z.eqb_eq in G. split; [assumption|].
  split; [apply (zero_test_even old 4294967043); [reflexivity | assumption]|].
  split; [apply (zero_test_b1 old 4294967043); [reflexivity | assumption]|].
  apply (zero_test_noreaders old 4294967043); [assumption | reflexivity | assumption].
Qed.
Lemma mt_cas1_view old : try_ok old ->
  let y := mu_try_acquire_after_timeout_or_cancel_cas1_new old in rng y /\ y mod 2 = 1 /\ b1 y = 1 /\ y / 256 = 0.
Proof.
  intros (R & E & B & D). cbv zeta. rewrite mt_cas1_new_eq.
  destruct (add3_v old R E B) as (Ry & My & By & Dy).
  destruct (view_V _ _ (V_wland _ _ 32 (V_refl _ Ry) small3_32)) as (R' & M' & B' & D'). split; [assumption|]. lia.
Qed.
Lemma mt_cas1_trans old : try_ok old ->
  trans old None false (mu_try_acquire_after_timeout_or_cancel_cas1_new old) (Some W) true.
Proof.
  intros H. destruct (mt_cas1_view old H) as (R' & M' & B' & D'). destruct H as (R & E & B & D).
  split; [assumption|]. split; trs; auto.
Qed.
Lemma mt_cas2_new_eq old : mu_try_acquire_after_timeout_or_cancel_cas2_new old = wrap_u 32 (Z.lor old 32).
Proof. reflexivity. Qed.
Lemma mt_cas2_trans old h s : rng old -> trans old h s (mu_try_acquire_after_timeout_or_cancel_cas2_new old) h s.
Proof. intros R. rewrite mt_cas2_new_eq. apply trans_V, V_wlor; [now apply V_refl | apply small3_32]. Qed.
Lemma mt_cas2_guard_facts old : mu_try_acquire_after_timeout_or_cancel_cas2_guard old = true -> b1 old = 0.
Proof.
  unfold mu_try_acquire_after_timeout_or_cancel_cas2_guard. intros G. apply Z.eqb_eq in G.
  revert G. apply zero_test_b1. reflexivity.
Qed.
(* the release stores write a value derived from the word read BEFORE the acquiring CAS *)
Lemma mt_store2_new_eq old m :
  mu_try_acquire_after_timeout_or_cancel_store2_new old (lt_of m) =
  wrap_u 32 (wrap_u 32 (Z.land old (4294967295 - 32)) + match m with W => 1 | R => 256 end).
Proof. destruct m; reflexivity. Qed.
Lemma mt_store3_new_eq old : mu_try_acquire_after_timeout_or_cancel_store3_new old = wrap_u 32 (Z.land old (4294967295 - 32)).
Proof. reflexivity. Qed.
Lemma mt_store2_trans x old m : try_ok old -> x mod 2 = 1 -> x / 256 = 0 ->
  trans x (Some W) true (mu_try_acquire_after_timeout_or_cancel_store2_new old (lt_of m)) (Some m) false.
Proof.
  intros (R & E & B & D) Mx Dx. rewrite mt_store2_new_eq.
  destruct (view_V _ _ (V_wland _ _ 32 (V_refl _ R) small3_32)) as (R' & M' & B' & D').
  destruct m.
  - assert (wrap_u 32 (Z.land old (4294967295 - 32)) mod 2 = 0) as E' by lia.
    destruct (add1_v _ R' E') as (Ry & My & By & Dy). split; [assumption|]. split; trs; lia.
  - assert (wrap_u 32 (Z.land old (4294967295 - 32)) / 256 + 1 < 16777216) as E' by lia.
    destruct (add256_v _ R' E') as (Ry & My & By & Dy). split; [assumption|]. split; trs; lia.
Qed.
Lemma mt_store3_trans x old : try_ok old -> x / 256 = 0 ->
  trans x (Some W) true (mu_try_acquire_after_timeout_or_cancel_store3_new old) None false.
Proof.
  intros (R & E & B & D) Dx. rewrite mt_store3_new_eq.
  destruct (view_V _ _ (V_wland _ _ 32 (V_refl _ R) small3_32)) as (R' & M' & B' & D').
  split; [assumption|]. split; trs; lia.
Qed.

(* ================================================================== *)
(* Part 3: the invariant                                               *)
(* ================================================================== *)
Definition own (s : tstate) (h : option mode) (sp : bool) : Prop := held s = h /\ spin s = sp /\ conv s = false.
(* inside nsync_mu_wait_with_deadline *)
Definition in_mw (s : tstate) (P : mwl -> Prop) : Prop := exists x, mw s = Some x /\ P x.
Definition mw_m (s : tstate) (m : mode) : Prop := forall x, mw s = Some x -> mw_mode x = m /\ mw_have x = false.
Definition mw_nh (s : tstate) : Prop := forall x, mw s = Some x -> mw_have x = false.

(* the unlocker's ownership during and after the scan: lt = late_release_mu *)
Definition own_ok (s : tstate) (lt : Z) : Prop :=
  (lt = MU_WLOCK /\ held s = Some W /\ conv s = true) \/ (lt = 0 /\ held s = None /\ conv s = false).
Definition uscan_ok (lt : Z) (u : uscan) : Prop :=
  u_late u = lt /\ small3 (u_set u) /\ (u_test u = true -> lt = MU_WLOCK) /\ (lt = 0 \/ lt = MU_WLOCK).
(* p is a pc of the scan of nsync_mu_unlock_slow_ (or of its final CAS) consistent with "spinlock owned = sp" *)
Definition scan_pc_ok (sp : bool) (lt : Z) (p : pc) : Prop :=
  match p with
  | Crash _ => True
  | RelLoad (KScan _ u) _ | RelCas (KScan _ u) _ => sp = true /\ u_test u = true /\ uscan_ok lt u
  | SpinLoad (KScan _ u) _ => sp = false /\ u_test u = true /\ uscan_ok lt u
  | SpinCas (KScan _ u) old => sp = false /\ u_test u = true /\ uscan_ok lt u /\
                               nsync_spin_test_and_set_cas1_guard old MU_SPINLOCK = true
  | UsEval _ u => sp = false /\ u_test u = true /\ uscan_ok lt u
  | RmLoad (KScan _ u) | RmCas (KScan _ u) _ => sp = negb (u_test u) /\ uscan_ok lt u
  | UsRelLoad _ u _ | UsRelCas _ u _ => sp = true /\ usl_ok u /\ late u = lt
  | _ => False
  end.
Definition scanning (s : tstate) : Prop := mw_nh s /\ exists lt, own_ok s lt /\ scan_pc_ok (spin s) lt (t_pc s).
Definition try_frozen (s : tstate) (old : Z) : Prop :=
  in_mw s (fun x => own s (Some W) true /\ mw_have x = false /\ mw_semout x <> 0) /\ try_ok old.
Definition mt_pre (s : tstate) : Prop := in_mw s (fun x => own s None false /\ mw_have x = false /\ mw_semout x <> 0).

Definition pc_ok (s : tstate) : Prop :=
  match t_pc s with
  | Idle => spin s = false /\ conv s = false /\ mw s = None
  | Crash _ => True
  | LkFast _ | LkLoad _ | TryFast _ | TryLoad _ => own s None false /\ mw s = None
  | LkCas2 m old => own s None false /\ mw s = None /\ fast_guard2 m old = true
  | TryCas2 m old => own s None false /\ mw s = None /\ try_guard2 m old = true
  | LsLoad m l | LsWaitLoad m l | LsSemP m l => own s None false /\ mw_m s m /\ lsl_ok m l
  | LsCasAcq m l old => own s None false /\ mw_m s m /\ lsl_ok m l /\ nsync_mu_lock_slow_cas1_guard old (zta l) = true
  | LsCasEnq m l old => own s None false /\ mw_m s m /\ lsl_ok m l /\ nsync_mu_lock_slow_cas2_guard old (zta l) = true
  | LsStoreWaiting m l => own s None true /\ mw_m s m /\ lsl_ok m l
  | RelLoad (KLs m l) _ | RelCas (KLs m l) _ => own s None true /\ mw_m s m /\ lsl_ok m l
  | RelLoad (KScan _ _) _ | RelCas (KScan _ _) _ | SpinLoad (KScan _ _) _ | SpinCas (KScan _ _) _
  | RmLoad (KScan _ _) | RmCas (KScan _ _) _ | UsEval _ _ | UsRelLoad _ _ _ | UsRelCas _ _ _ => scanning s
  | SpinLoad KWait _ => in_mw s (fun x => own s (Some (mw_mode x)) false /\ mw_have x = false)
  | SpinCas KWait old => in_mw s (fun x => own s (Some (mw_mode x)) false /\ mw_have x = false) /\
                         nsync_spin_test_and_set_cas1_guard old MU_SPINLOCK = true
  | RmLoad (KTry old) | RmCas (KTry old) _ | MtLoadW old | MtLoadRc old | MtStoreW old | MtStore2 old | MtStore3 old =>
      try_frozen s old
  | RelLoad _ _ | RelCas _ _ | SpinLoad _ _ | SpinCas _ _ | RmLoad _ | RmCas _ _ => False
  | UlFast m | UlLoad m | UlCas2 m _ => own s (Some m) false /\ mw s = None
  | UwFast | UwLoad | UwCas2 _ => own s (Some W) false /\ mw s = None
  | UsLoad m | UsCasRel m _ => own s (Some m) false /\ mw_nh s
  | UsCasSpin m old => own s (Some m) false /\ mw_nh s /\ nsync_mu_unlock_slow_cas2_guard old = true
  | UsWakeStore _ _ | UsWakeV _ _ _ => own s None false /\ mw_nh s
  | SetC _ _ _ => own s (Some W) false /\ mw s = None
  | MwLoad => spin s = false /\ conv s = false /\ held s <> None /\ mw s <> None
  | MwEval | MwStoreWaiting | MwRcLoad => in_mw s (fun x => own s (Some (mw_mode x)) false)
  | MwRelLoad => in_mw s (fun x => own s (Some (mw_mode x)) true /\ mw_have x = false)
  | MwRelCas old add => in_mw s (fun x => own s (Some (mw_mode x)) true /\ mw_have x = false /\
                                         (add = 0 \/ add = lt_add_to_acquire (lt_of (mw_mode x))))
  | MwLoadW1 | MwLoadW3 => in_mw s (fun x => (own s None false /\ mw_have x = false) \/
                                             (own s (Some (mw_mode x)) false /\ mw_have x = true /\ mw_semout x <> 0))
  | MwSemP => in_mw s (fun x => own s None false /\ mw_have x = false)
  | MwLoadW2 | MtLoad _ => mt_pre s
  | MtCas1 old => mt_pre s /\ mu_try_acquire_after_timeout_or_cancel_cas1_guard old = true
  | MtCas2 old => mt_pre s /\ mu_try_acquire_after_timeout_or_cancel_cas2_guard old = true
  end.

Definition agrees (x : Z) (l : list tstate) : Prop :=
  rng x /\ x mod 2 = cnt W l /\ x / 256 = cnt R l /\ (x mod 2 = 1 -> x / 256 = 0) /\ b1 x = cntS l.

(* ----- the scan produces only scan pcs and touches neither the word nor the thread states ----- *)
Lemma small3_set_ww s : small3 s -> small3 (set_ww s).
Proof. intros H. unfold set_ww, band, bor. apply small3_land_l, small3_lor; [assumption | apply small3_32]. Qed.
Lemma small3_clear_af s : small3 s -> small3 (band s (bnot32 MU_ALL_FALSE)).
Proof. intros H. unfold band. now apply small3_land_l. Qed.

Lemma uscan_ok_rest lt u r : uscan_ok lt u -> uscan_ok lt (set_rest u r).
Proof. intros H; exact H. Qed.
Lemma uscan_ok_uset lt u s : uscan_ok lt u -> small3 s -> uscan_ok lt (set_uset u s).
Proof. intros (A & B & C & D) S. unfold uscan_ok, set_uset; cbn [u_late u_set u_test]. auto. Qed.

Lemma inner_ok w m lt : forall rest u, uscan_ok lt u ->
  match inner w m u rest with
  | InPc p => scan_pc_ok (negb (u_test u)) lt p
  | InEnd u' => uscan_ok lt u' /\ u_test u' = u_test u
  end.
Proof.
  induction rest as [|p tl IH]; intros u Hu; cbn [inner].
  - split; [apply uscan_ok_rest; exact Hu | reflexivity].
  - assert (match wcond w p with
            | Some _ => if u_test u then InPc (UsEval m (set_rest u (p :: tl))) else InPc (Crash 5)
            | None => if wakeable w u p then InPc (RmLoad (KScan m (set_rest u (p :: tl))))
                      else inner w m (set_uset u (set_ww (u_set u))) tl
            end = match wcond w p with
            | Some _ => if u_test u then InPc (UsEval m (set_rest u (p :: tl))) else InPc (Crash 5)
            | None => if wakeable w u p then InPc (RmLoad (KScan m (set_rest u (p :: tl))))
                      else inner w m (set_uset u (set_ww (u_set u))) tl
            end) as _ by reflexivity.
    assert (forall r, r = (match wcond w p with
            | Some _ => if u_test u then InPc (UsEval m (set_rest u (p :: tl))) else InPc (Crash 5)
            | None => if wakeable w u p then InPc (RmLoad (KScan m (set_rest u (p :: tl))))
                      else inner w m (set_uset u (set_ww (u_set u))) tl
            end) ->
            match r with InPc p0 => scan_pc_ok (negb (u_test u)) lt p0 | InEnd u' => uscan_ok lt u' /\ u_test u' = u_test u end) as K.
    { intros r ->. destruct (wcond w p).
      - destruct (u_test u) eqn:T; cbn; [repeat split; auto; apply Hu | exact I].
      - destruct (wakeable w u p).
        + cbn. split; [reflexivity | exact Hu].
        + specialize (IH (set_uset u (set_ww (u_set u))) (uscan_ok_uset _ _ _ Hu (small3_set_ww _ (proj1 (proj2 Hu))))).
          exact IH. }
    destruct (u_wty u) as [[|]|]; [split; [exact Hu | reflexivity] | apply K; reflexivity | apply K; reflexivity].
Qed.

Lemma smallS_finalize (wk dn : list nat) (st : Z) :
  smallS (let c0 := MU_SPINLOCK in
          let c1 := match wk with [] => bor c0 MU_DESIG_WAKER | _ => c0 end in
          let c2 := if band st MU_ALL_FALSE =? 0 then bor c1 MU_ALL_FALSE else c1 in
          match dn with [] => bor c2 (bor (bor (bor MU_WAITING MU_WRITER_WAITING) MU_CONDITION) MU_ALL_FALSE) | _ => c2 end).
Proof.
  cbv zeta. unfold bor.
  assert (small 8) as S8 by now vm_compute. assert (small 128) as S128 by now vm_compute.
  assert (small (Z.lor (Z.lor (Z.lor MU_WAITING MU_WRITER_WAITING) MU_CONDITION) MU_ALL_FALSE)) as SX by now vm_compute.
  pose proof smallS_2 as S2. change MU_SPINLOCK with 2. change MU_DESIG_WAKER with 8. change MU_ALL_FALSE with 128 in *.
  destruct wk, dn, (band st 128 =? 0); (split; [vm_compute; intuition congruence | vm_compute; reflexivity]).
Qed.

Lemma finalize_ok w m lt u : uscan_ok lt u ->
  word (fst (finalize w m u)) = word w /\ thr (fst (finalize w m u)) = thr w /\ scan_pc_ok true lt (snd (finalize w m u)).
Proof.
  intros (A & B & C & D). unfold finalize. cbn [fst snd]. split; [reflexivity|]. split; [reflexivity|].
  cbn [scan_pc_ok]. split; [reflexivity|]. split; [| exact A].
  unfold usl_ok. cbn [late set_on clear_on]. split; [rewrite A; exact D|]. split; [exact B|]. apply smallS_finalize.
Qed.

Lemma round_end_ok w lt u : uscan_ok lt u ->
  word (fst (round_end w u)) = word w /\ thr (fst (round_end w u)) = thr w /\ uscan_ok lt (snd (round_end w u)) /\
  u_test (snd (round_end w u)) = u_test u.
Proof. intros H. unfold round_end. cbn. repeat split; apply H. Qed.

Lemma end_inner_set_ok lt u : uscan_ok lt u -> uscan_ok lt (end_inner_set u) /\ u_test (end_inner_set u) = u_test u.
Proof.
  intros H. unfold end_inner_set. destruct (u_rest u); [split; [exact H | reflexivity]|].
  split; [| reflexivity]. apply uscan_ok_uset; [exact H | apply small3_clear_af, H].
Qed.

Lemma scan_from_ok lt m : forall fuel w u, uscan_ok lt u ->
  word (fst (scan_from fuel w m u)) = word w /\ thr (fst (scan_from fuel w m u)) = thr w /\
  scan_pc_ok true lt (snd (scan_from fuel w m u)).
Proof.
  induction fuel as [|f IH]; intros w u Hu; cbn [scan_from].
  - cbn. auto.
  - destruct (u_new u) as [|p rest] eqn:En; [now apply finalize_ok|].
    set (t' := adjust_test w u p).
    set (u1 := mk_us t' (u_late u) (u_done u) (p :: rest) (p :: rest) (u_wake u) (u_wty u) (u_set u)).
    assert (uscan_ok lt u1) as H1.
    { destruct Hu as (A & B & C & D). unfold uscan_ok, u1; cbn [u_late u_set u_test].
      split; [exact A|]. split; [exact B|]. split; [| exact D].
      unfold t', adjust_test. intros T. apply andb_true_iff in T. apply C, T. }
    destruct t' eqn:Et.
    + cbn [fst snd scan_pc_ok]. repeat split; auto; apply H1.
    + pose proof (inner_ok w m lt (p :: rest) u1 H1) as K.
      destruct (inner w m u1 (p :: rest)) as [p0 | u2].
      * cbn [fst snd]. unfold u1 in K. cbn [u_test negb] in K. auto.
      * destruct K as [K1 K2]. destruct (end_inner_set_ok lt u2 K1) as [E1 E2].
        destruct (round_end_ok w lt _ E1) as (R1 & R2 & R3 & R4).
        destruct (round_end w (end_inner_set u2)) as [w2 u3]. cbn [fst snd] in *.
        destruct (IH w2 u3 R3) as (S1 & S2 & S3). rewrite S1, S2, R1, R2. auto.
Qed.

Lemma after_inner_ok w m lt sp r :
  match r with InPc p => scan_pc_ok sp lt p | InEnd u => uscan_ok lt u /\ sp = negb (u_test u) end ->
  word (fst (after_inner w m r)) = word w /\ thr (fst (after_inner w m r)) = thr w /\
  scan_pc_ok sp lt (snd (after_inner w m r)).
Proof.
  destruct r as [p | u]; cbn [after_inner].
  - cbn. auto.
  - intros [Hu Hs]. destruct (end_inner_set_ok lt u Hu) as [E1 E2].
    destruct (u_test (end_inner_set u)) eqn:T.
    + cbn [fst snd scan_pc_ok]. rewrite <- E2 in Hs. cbn [negb] in Hs.
      split; [reflexivity|]. split; [reflexivity|]. split; [exact Hs|]. split; [exact T | exact E1].
    + destruct (round_end_ok w lt _ E1) as (R1 & R2 & R3 & R4).
      destruct (round_end w (end_inner_set u)) as [w2 u3]. cbn [fst snd] in *.
      destruct (scan_from_ok lt m 3 w2 u3 R3) as (S1 & S2 & S3). rewrite S1, S2, R1, R2.
      rewrite <- E2 in Hs. cbn [negb] in Hs. subst sp. auto.
Qed.

Lemma pc_ok_dflt : pc_ok dflt_t.
Proof. unfold pc_ok, dflt_t; cbn. auto. Qed.

Section Invariant.
Variable n : nat.
Hypothesis Hn : Z.of_nat n < 16777215.

Definition InvL (x : Z) (l : list tstate) : Prop :=
  length l = n /\ agrees x l /\ forall t, pc_ok (nth t l dflt_t).
Definition Inv (w : world) : Prop := InvL (word w) (thr w).

Lemma InvL_upd x l t s' x' : InvL x l -> (t < n)%nat -> pc_ok s' ->
  trans x (held (nth t l dflt_t)) (spin (nth t l dflt_t)) x' (held s') (spin s') -> InvL x' (lupd l t s').
Proof.
  intros (Hlen & (Rx & HW & HR & HX & HS) & Hpc) Ht Hs' (Rx' & Hl & Hsp).
  split; [now rewrite length_lupd|]. split.
  - unfold agrees, cnt, cntS in *. rewrite !cntp_lupd by lia.
    pose proof (cntp_range (pm W) l) as CW. pose proof (cntp_range (pm R) l) as CR. pose proof (cntp_range spin l) as CS.
    pose proof (cntp_pos (pm W) l t eq_refl ltac:(lia)) as PW. pose proof (cntp_pos (pm R) l t eq_refl ltac:(lia)) as PR.
    pose proof (cntp_pos spin l t eq_refl ltac:(lia)) as PS.
    pose proof (b1_range x) as Bx. pose proof (b1_range x') as Bx'.
    unfold pm in *. unfold rng in *. unfold ltrans, strans in *.
    destruct (held (nth t l dflt_t)) as [[|]|], (held s') as [[|]|];
      destruct (spin (nth t l dflt_t)), (spin s');
      cbv beta iota delta [b2z] in *; try contradiction;
      try specialize (PW eq_refl); try specialize (PR eq_refl); try specialize (PS eq_refl); clear Hpc Hs'; lia.
  - intros t'. destruct (Nat.eq_dec t' t) as [->|N].
    + rewrite nth_lupd_same by lia. assumption.
    + rewrite nth_lupd_other by assumption. apply Hpc.
Qed.

Lemma Inv_step w w' t : Inv w -> (t < n)%nat ->
  thr w' = lupd (thr w) t (get w' t) -> pc_ok (get w' t) ->
  trans (word w) (held (get w t)) (spin (get w t)) (word w') (held (get w' t)) (spin (get w' t)) -> Inv w'.
Proof. intros H Ht E P T. unfold Inv. rewrite E. apply (InvL_upd (word w) (thr w) t (get w' t) (word w')); assumption. Qed.

Lemma get_oob w t : (length (thr w) <= t)%nat -> get w t = dflt_t.
Proof. intros. unfold get. now apply nth_overflow. Qed.
Lemma Inv_rng w : Inv w -> rng (word w).
Proof. intros (_ & (R & _) & _). exact R. Qed.
Lemma Inv_readers w : Inv w -> word w / 256 + 1 < 16777216.
Proof. intros (L & (_ & _ & HR & _) & _). pose proof (cntp_range (pm R) (thr w)). unfold cnt in *. lia. Qed.
Lemma Inv_held w t m : Inv w -> held (get w t) = Some m ->
  match m with W => word w mod 2 = 1 /\ word w / 256 = 0 | R => 1 <= word w / 256 /\ word w mod 2 = 0 end.
Proof.
  intros (L & (Rx & HW & HR & HX & HS) & _) H. unfold get in H.
  assert (t < length (thr w))%nat as Ht.
  { destruct (Nat.lt_ge_cases t (length (thr w))) as [|G]; [assumption|].
    rewrite nth_overflow in H by assumption. discriminate H. }
  pose proof (cntp_range (pm W) (thr w)). unfold cnt in *.
  destruct m.
  - assert (pm W (nth t (thr w) dflt_t) = true) as Q by (unfold pm; rewrite H; reflexivity).
    pose proof (cntp_pos (pm W) (thr w) t eq_refl Ht Q) as P. lia.
  - assert (pm R (nth t (thr w) dflt_t) = true) as Q by (unfold pm; rewrite H; reflexivity).
    pose proof (cntp_pos (pm R) (thr w) t eq_refl Ht Q) as P. lia.
Qed.


(* ----- the effect of the model's world updates on (word, thread t's state) ----- *)
Definition TS (t : nat) (w0 w : world) (x : Z) (s : tstate) : Prop :=
  word w = x /\ thr w = lupd (thr w0) t s /\ (t < length (thr w0))%nat.
Lemma lupd_nth {A} (l : list A) k d : lupd l k (nth k l d) = l.
Proof. revert k; induction l; intros [|k]; simpl; auto. now rewrite IHl. Qed.
Lemma TS_base t w : (t < length (thr w))%nat -> TS t w w (word w) (get w t).
Proof. intros H. unfold TS, get. rewrite lupd_nth. auto. Qed.
Lemma TS_get t w0 w x s : TS t w0 w x s -> get w t = s.
Proof. intros (_ & E & L). unfold get. rewrite E. now apply nth_lupd_same. Qed.
Lemma TS_eq t w0 w w' x s : TS t w0 w x s -> word w' = word w -> thr w' = thr w -> TS t w0 w' x s.
Proof. intros (A & B & C) E1 E2. unfold TS. rewrite E1, E2. auto. Qed.
Lemma TS_set_t t w0 w x s s' : TS t w0 w x s -> TS t w0 (set_t w t s') x s'.
Proof. intros (A & B & C). unfold TS, set_t, set_thr; cbn [word thr]. rewrite B, lupd_lupd. auto. Qed.
Lemma TS_set_word t w0 w x s v : TS t w0 w x s -> TS t w0 (set_word w v) v s.
Proof. intros (A & B & C). unfold TS, set_word; cbn [word thr]. auto. Qed.
Lemma TS_set_pc t w0 w x s p : TS t w0 w x s ->
  TS t w0 (set_pc w t p) x (mk_t p (t_ops s) (held s) (conv s) (spin s) (mw s) (last_ret s)).
Proof. intros H. unfold set_pc. rewrite (TS_get _ _ _ _ _ H). now apply (TS_set_t _ _ _ _ s). Qed.
Lemma TS_set_own t w0 w x s h c sp : TS t w0 w x s ->
  TS t w0 (set_own w t h c sp) x (mk_t (t_pc s) (t_ops s) h c sp (mw s) (last_ret s)).
Proof. intros H. unfold set_own. rewrite (TS_get _ _ _ _ _ H). now apply (TS_set_t _ _ _ _ s). Qed.
Lemma TS_set_held t w0 w x s h : TS t w0 w x s ->
  TS t w0 (set_held w t h) x (mk_t (t_pc s) (t_ops s) h (conv s) (spin s) (mw s) (last_ret s)).
Proof. intros H. unfold set_held. rewrite (TS_get _ _ _ _ _ H). now apply TS_set_own. Qed.
Lemma TS_set_spin t w0 w x s sp : TS t w0 w x s ->
  TS t w0 (set_spin w t sp) x (mk_t (t_pc s) (t_ops s) (held s) (conv s) sp (mw s) (last_ret s)).
Proof. intros H. unfold set_spin. rewrite (TS_get _ _ _ _ _ H). now apply TS_set_own. Qed.
Lemma TS_set_mw t w0 w x s y : TS t w0 w x s ->
  TS t w0 (set_mw w t y) x (mk_t (t_pc s) (t_ops s) (held s) (conv s) (spin s) y (last_ret s)).
Proof. intros H. unfold set_mw. rewrite (TS_get _ _ _ _ _ H). now apply (TS_set_t _ _ _ _ s). Qed.
Definition mw_of (s : tstate) : mwl := match mw s with Some x => x | None => dflt_mw end.
Lemma TS_get_mw t w0 w x s : TS t w0 w x s -> get_mw w t = mw_of s.
Proof. intros H. unfold get_mw. now rewrite (TS_get _ _ _ _ _ H). Qed.
Lemma TS_upd_mw t w0 w x s f : TS t w0 w x s ->
  TS t w0 (upd_mw w t f) x (mk_t (t_pc s) (t_ops s) (held s) (conv s) (spin s) (Some (f (mw_of s))) (last_ret s)).
Proof. intros H. unfold upd_mw. rewrite (TS_get_mw _ _ _ _ _ H). now apply TS_set_mw. Qed.
Lemma TS_released t w0 w x s : TS t w0 w x s ->
  TS t w0 (released w t) x (mk_t (t_pc s) (t_ops s) None (conv s) (spin s) (mw s) (last_ret s)).
Proof. apply TS_set_held. Qed.
Lemma TS_acquire t w0 w x s m : TS t w0 w x s ->
  TS t w0 (acquire w t m) x (mk_t (match mw s with Some _ => MwEval | None => Idle end) (t_ops s) (Some m) (conv s) (spin s) (mw s) (last_ret s)).
Proof.
  intros H. unfold acquire. pose proof (TS_set_held _ _ _ _ _ (Some m) H) as H1.
  rewrite (TS_get _ _ _ _ _ H1). cbn [mw].
  assert (forall p, TS t w0 (set_pc (set_held w t (Some m)) t p) x (mk_t p (t_ops s) (Some m) (conv s) (spin s) (mw s) (last_ret s))) as K
    by (intro; apply (TS_set_pc _ _ _ _ _ _ H1)).
  destruct (mw s); apply K.
Qed.
Lemma TS_ret_unlock t w0 w x s : TS t w0 w x s ->
  TS t w0 (ret_unlock w t) x (mk_t (match mw s with Some _ => MwLoadW1 | None => Idle end) (t_ops s) (held s) (conv s) (spin s) (mw s) (last_ret s)).
Proof.
  intros H. unfold ret_unlock. rewrite (TS_get _ _ _ _ _ H).
  assert (forall p, TS t w0 (set_pc w t p) x (mk_t p (t_ops s) (held s) (conv s) (spin s) (mw s) (last_ret s))) as K
    by (intro; now apply TS_set_pc).
  destruct (mw s); apply K.
Qed.
Lemma TS_mw_return t w0 w x s r : TS t w0 w x s ->
  TS t w0 (mw_return w t r) x (mk_t Idle (t_ops s) (held s) (conv s) (spin s) None (Some r)).
Proof. intros H. unfold mw_return. rewrite (TS_get _ _ _ _ _ H). now apply (TS_set_t _ _ _ _ s). Qed.
(* updates of the rest of the world *)
Lemma TS_world t w0 w w' x s : TS t w0 w x s -> word w' = word w -> thr w' = thr w -> TS t w0 w' x s.
Proof. apply TS_eq. Qed.
Lemma TS_mw_after_eval t w0 w x s res : TS t w0 w x s ->
  TS t w0 (mw_after_eval w t res) x
     (if nsync_mu_wait_with_deadline_store1_guard (mw_outcome (mw_of s)) (b2z res)
      then mk_t MwStoreWaiting (t_ops s) (held s) (conv s) (spin s) (mw s) (last_ret s)
      else mk_t Idle (t_ops s) (held s) (conv s) (spin s) None (Some (if res then 0 else mw_outcome (mw_of s)))).
Proof.
  intros H. unfold mw_after_eval. rewrite (TS_get_mw _ _ _ _ _ H).
  destruct (nsync_mu_wait_with_deadline_store1_guard _ _).
  - apply TS_set_pc. eapply TS_world; [exact H | reflexivity | reflexivity].
  - now apply TS_mw_return.
Qed.

Ltac ts_solve :=
  repeat lazymatch goal with
  | |- TS _ ?w0 ?w0 _ _ => apply TS_base
  | |- TS _ _ (set_pc _ _ _) _ _ => eapply TS_set_pc
  | |- TS _ _ (set_t _ _ _) _ _ => eapply TS_set_t
  | |- TS _ _ (set_word _ _) _ _ => eapply TS_set_word
  | |- TS _ _ (set_own _ _ _ _ _) _ _ => eapply TS_set_own
  | |- TS _ _ (set_held _ _ _) _ _ => eapply TS_set_held
  | |- TS _ _ (set_spin _ _ _) _ _ => eapply TS_set_spin
  | |- TS _ _ (set_mw _ _ _) _ _ => eapply TS_set_mw
  | |- TS _ _ (upd_mw _ _ _) _ _ => eapply TS_upd_mw
  | |- TS _ _ (released _ _) _ _ => eapply TS_released
  | |- TS _ _ (acquire _ _ _) _ _ => eapply TS_acquire
  | |- TS _ _ (ret_unlock _ _) _ _ => eapply TS_ret_unlock
  | |- TS _ _ (mw_return _ _ _) _ _ => eapply TS_mw_return
  | |- TS _ _ (mw_after_eval _ _ _) _ _ => eapply TS_mw_after_eval
  | |- TS _ _ (set_queue ?w _) _ _ => eapply (TS_world _ _ w); [| reflexivity | reflexivity]
  | |- TS _ _ (set_waiting ?w _ _) _ _ => eapply (TS_world _ _ w); [| reflexivity | reflexivity]
  | |- TS _ _ (set_sem ?w _ _) _ _ => eapply (TS_world _ _ w); [| reflexivity | reflexivity]
  | |- TS _ _ (set_winfo ?w _ _ _ _) _ _ => eapply (TS_world _ _ w); [| reflexivity | reflexivity]
  | |- TS _ _ (set_rcount ?w _ _) _ _ => eapply (TS_world _ _ w); [| reflexivity | reflexivity]
  | |- TS _ _ (set_rings ?w _) _ _ => eapply (TS_world _ _ w); [| reflexivity | reflexivity]
  | |- TS _ _ (set_pst ?w _ _ _) _ _ => eapply (TS_world _ _ w); [| reflexivity | reflexivity]
  | |- TS _ _ (add_ev ?w _) _ _ => eapply (TS_world _ _ w); [| reflexivity | reflexivity]
  | |- TS _ _ (log_eval ?w _ _ _ _) _ _ => eapply (TS_world _ _ w); [| reflexivity | reflexivity]
  | |- TS _ _ (w_merge ?w _ _) _ _ => eapply (TS_world _ _ w); [| reflexivity | reflexivity]
  end.

Lemma Inv_TS w w' t x' s' : Inv w -> (t < n)%nat -> TS t w w' x' s' -> pc_ok s' ->
  trans (word w) (held (get w t)) (spin (get w t)) x' (held s') (spin s') -> Inv w'.
Proof.
  intros H Ht (A & B & C) P T. unfold Inv. rewrite A, B. apply (InvL_upd (word w)); assumption.
Qed.

(* what one step of thread t guarantees besides the invariant:
   - it cannot change the word if t owns neither lock bits nor the spinlock while the word has both WLOCK and SPINLOCK set;
   - if it ends inside the frozen window of mu_try_acquire_after_timeout_or_cancel with pre-CAS word old', either it
     was already there (and the word is unchanged) or the word now is what the acquiring CAS computes from old';
   - the other threads' states are untouched. *)
Definition SOK (t : nat) (w w' : world) : Prop :=
  Inv w' /\
  (held (get w t) = None -> spin (get w t) = false -> word w mod 2 = 1 -> b1 (word w) = 1 -> word w' = word w) /\
  (forall old', frozen_old (t_pc (get w' t)) = Some old' ->
     (frozen_old (t_pc (get w t)) = Some old' /\ word w' = word w) \/
     word w' = mu_try_acquire_after_timeout_or_cancel_cas1_new old') /\
  (forall t', t' <> t -> get w' t' = get w t').
Lemma SOK_refl t w : Inv w -> SOK t w w.
Proof. intros H. split; [exact H|]. split; [auto|]. split; [intros; left; auto | auto]. Qed.
Lemma SOK_TS w w' t x' s' : Inv w -> (t < n)%nat -> TS t w w' x' s' -> pc_ok s' ->
  trans (word w) (held (get w t)) (spin (get w t)) x' (held s') (spin s') ->
  (held (get w t) = None -> spin (get w t) = false -> word w mod 2 = 1 -> b1 (word w) = 1 -> x' = word w) ->
  (forall old', frozen_old (t_pc s') = Some old' ->
     (frozen_old (t_pc (get w t)) = Some old' /\ x' = word w) \/ x' = mu_try_acquire_after_timeout_or_cancel_cas1_new old') ->
  SOK t w w'.
Proof.
  intros H Ht HT P T E2 E1. split; [exact (Inv_TS _ _ _ _ _ H Ht HT P T)|].
  pose proof (TS_get _ _ _ _ _ HT) as Eg. destruct HT as (A & B & C).
  split; [rewrite A; exact E2|]. split; [rewrite Eg, A; exact E1|].
  intros t' N. unfold get. rewrite B. now apply nth_lupd_other.
Qed.
Ltac tsimpl Hs := unfold get; rewrite ?Hs; unfold mw_of; cbn [t_pc t_ops held conv spin mw last_ret].
Ltac step_to0 H0 Hs Hlen Ht :=
  cbn [fst];
  eapply (Inv_TS _ _ _ _ _ H0 Ht);
  [ ts_solve; rewrite Hlen; exact Ht
  | tsimpl Hs; unfold pc_ok; cbn [t_pc]
  | tsimpl Hs ].

Ltac e2_default Hs := tsimpl Hs; intros; first [reflexivity | discriminate | congruence].
Ltac e1_default Hs :=
  tsimpl Hs; try (match goal with |- context [t_pc (if ?g then _ else _)] => destruct g end; cbn [t_pc]);
  cbn [frozen_old]; intros ? HF; first [discriminate HF | left; split; [exact HF | reflexivity]].
Ltac step_to H0 Hs Hlen Ht :=
  cbn [fst];
  eapply (SOK_TS _ _ _ _ _ H0 Ht);
  [ ts_solve; rewrite Hlen; exact Ht
  | tsimpl Hs; unfold pc_ok; cbn [t_pc]
  | tsimpl Hs
  | e2_default Hs
  | e1_default Hs ].
(* the same, leaving the two extra obligations to the caller *)
Ltac step_to4 H0 Hs Hlen Ht :=
  cbn [fst];
  eapply (SOK_TS _ _ _ _ _ H0 Ht);
  [ ts_solve; rewrite Hlen; exact Ht
  | tsimpl Hs; unfold pc_ok; cbn [t_pc]
  | tsimpl Hs
  | tsimpl Hs
  | tsimpl Hs; cbn [frozen_old] ].

Ltac ownt := unfold try_frozen, mt_pre, own, in_mw, mw_m, mw_nh; cbn [held spin conv mw].

Lemma begin_op_inv w t : Inv w -> Inv (begin_op w t).
Proof.
  intros H0. unfold begin_op. cbv zeta.
  destruct (Nat.lt_ge_cases t n) as [Ht|Ht].
  2:{ rewrite get_oob by (destruct H0 as (-> & _); exact Ht). exact H0. }
  pose proof H0 as (Hlen & _ & Hok). specialize (Hok t).
  destruct (get w t) as [p ops h cv sp mx lr] eqn:Hs. unfold get in Hs. rewrite Hs in Hok.
  cbn [t_pc t_ops held conv spin mw last_ret].
  destruct p; try exact H0. destruct ops as [|o rest]; try exact H0.
  unfold pc_ok in Hok; cbn [t_pc spin conv mw] in Hok. destruct Hok as (-> & -> & ->).
  destruct o as [m|m| | |f a b|c e d k], h as [[|]|]; cbv beta iota;
    (step_to0 H0 Hs Hlen Ht; [ ownt; auto; try (repeat split; congruence) | apply trans_refl, (Inv_rng _ H0) ]).
Qed.

Ltac cas_split w :=
  unfold cas;
  match goal with |- context [word w =? ?e] => destruct (Z.eqb_spec (word w) e) as [Hcas|Hcas] end;
  cbv beta iota; cbn [fst snd].
Ltac dmw H := unfold try_frozen, mt_pre, in_mw in H; cbn [mw] in H.
Ltac same Rw := first [ apply trans_refl; exact Rw | idtac ].
Ltac destr_own H := unfold own in H; cbn [held spin conv] in H; destruct H as (-> & -> & ->).

Lemma mode_of_word w h : rng (word w) ->
  match h with W => word w mod 2 = 1 /\ word w / 256 = 0 | R => 1 <= word w / 256 /\ word w mod 2 = 0 end ->
  (band (word w) MU_ANY_LOCK =? 0) = false /\
  (if negb (band (word w) MU_RHELD_IF_NON_ZERO =? 0) then R else W) = h.
Proof.
  intros Rw H. unfold band. change MU_RHELD_IF_NON_ZERO with 4294967040. change MU_ANY_LOCK with 4294967041.
  rewrite land_high by assumption.
  assert (Z.land (word w) 4294967041 / 256 = word w / 256) as D.
  { rewrite land_div256. change (4294967041 / 256) with 16777215. apply land_ones24. unfold rng in Rw. lia. }
  assert (Z.land (word w) 4294967041 mod 2 = word w mod 2) as M.
  { rewrite land_mod2. change (4294967041 mod 2) with 1. lia. }
  destruct h; destruct H as [H1 H2].
  - split; [apply Z.eqb_neq; intros E; rewrite E in M; cbn in M; lia|].
    destruct (Z.eqb_spec (256 * (word w / 256)) 0); [reflexivity | lia].
  - split; [apply Z.eqb_neq; intros E; rewrite E in D; cbn in D; lia|].
    destruct (Z.eqb_spec (256 * (word w / 256)) 0); [lia | reflexivity].
Qed.


Lemma scan_pc_ok_pc_ok s lt : scan_pc_ok (spin s) lt (t_pc s) -> own_ok s lt -> mw_nh s -> pc_ok s.
Proof.
  unfold pc_ok, scanning. destruct (t_pc s) eqn:E; cbn [scan_pc_ok]; try contradiction;
    try (destruct k; try contradiction); intros; eauto.
Qed.

(* like step_to, for a world w3 produced by the scan with word w3 = word w2 (A1) and thr w3 = thr w2 (A2) *)
Lemma scan_pc_not_frozen sp lt p : scan_pc_ok sp lt p -> frozen_old p = None.
Proof. destruct p; cbn; try contradiction; try reflexivity; destruct k; cbn; try contradiction; reflexivity. Qed.
Ltac step_to3 H0 Hs Hlen Ht A1 A2 A3 :=
  cbn [fst];
  eapply (SOK_TS _ _ _ _ _ H0 Ht);
  [ eapply TS_set_pc; eapply TS_eq; [| exact A1 | exact A2]; ts_solve; rewrite Hlen; exact Ht
  | tsimpl Hs
  | tsimpl Hs
  | tsimpl Hs; intros; first [reflexivity | congruence | idtac]
  | tsimpl Hs; intros ? HF; rewrite (scan_pc_not_frozen _ _ _ A3) in HF; discriminate HF ].


Lemma smallS_spin_set (c : cond) :
  smallS (bor (bor MU_SPINLOCK MU_WAITING) (match c with Some _ => MU_CONDITION | None => 0 end)).
Proof. destruct c; (split; [vm_compute; intuition congruence | vm_compute; reflexivity]). Qed.


Lemma inner_ok' w m lt rest u : uscan_ok lt u ->
  match inner w m u rest with
  | InPc p => scan_pc_ok (negb (u_test u)) lt p
  | InEnd u' => uscan_ok lt u' /\ negb (u_test u) = negb (u_test u')
  end.
Proof.
  intros Hu. pose proof (inner_ok w m lt rest u Hu) as H. destruct (inner w m u rest); [exact H|].
  destruct H as [H1 H2]. split; [exact H1 | now rewrite H2].
Qed.

Lemma inner_res w m lt rest u : uscan_ok lt u -> u_test u = true ->
  match inner w m u rest with
  | InPc p0 => scan_pc_ok false lt p0
  | InEnd u' => uscan_ok lt u' /\ false = negb (u_test u')
  end.
Proof. intros Hu Ht. pose proof (inner_ok' w m lt rest u Hu) as H. rewrite Ht in H. exact H. Qed.
Lemma held_rel_pre (x : Z) m :
  match m with W => x mod 2 = 1 /\ x / 256 = 0 | R => 1 <= x / 256 /\ x mod 2 = 0 end ->
  match m with W => x mod 2 = 1 | R => 1 <= x / 256 end.
Proof. destruct m; intros [A B]; assumption. Qed.
Lemma held_rel_pre2 (x : Z) m :
  match m with W => x mod 2 = 1 /\ x / 256 = 0 | R => 1 <= x / 256 /\ x mod 2 = 0 end ->
  match m with W => x mod 2 = 1 | R => 1 <= x / 256 /\ x mod 2 = 0 end.
Proof. destruct m; intros [A B]; auto. Qed.


Lemma etimedout_nz : ETIMEDOUT <> 0. Proof. discriminate. Qed.
Lemma ecanceled_nz : ECANCELED <> 0. Proof. discriminate. Qed.


Lemma fast_guard2_even m old : rng old -> fast_guard2 m old = true -> old mod 2 = 0.
Proof. intros R G. rewrite fast_guard2_eq, negb_involutive in G. apply Z.eqb_eq in G. apply (guard_mask_facts m old R G). Qed.
Lemma try_guard2_even m old : rng old -> try_guard2 m old = true -> old mod 2 = 0.
Proof. intros R G. rewrite try_guard2_eq in G. apply Z.eqb_eq in G. apply (guard_mask_facts m old R G). Qed.
Lemma ls_cas1_even m l old : lsl_ok m l -> nsync_mu_lock_slow_cas1_guard old (zta l) = true -> old mod 2 = 0.
Proof.
  intros (Hz & _) G. rewrite lock_slow_cas1_guard_eq in G. apply Z.eqb_eq in G.
  destruct (zta_ok_facts m _ Hz) as [Zodd _]. exact (zero_test_even old _ Zodd G).
Qed.
Lemma ls_cas2_b1 old z : nsync_mu_lock_slow_cas2_guard old z = true -> b1 old = 0.
Proof.
  intros G. rewrite lock_slow_cas2_guard_eq in G. apply andb_true_iff in G. destruct G as [_ G]. apply Z.eqb_eq in G.
  now apply spin_clear_of_test.
Qed.

Lemma step_thr_ok w0 t c : Inv w0 -> SOK t (begin_op w0 t) (fst (step_thr w0 t c)).
Proof.
  intros H0. apply (begin_op_inv _ t) in H0.
  unfold step_thr. set (w := begin_op w0 t) in *. clearbody w. clear w0. cbv zeta.
  destruct (Nat.lt_ge_cases t n) as [Ht|Ht].
  2:{ rewrite get_oob by (destruct H0 as (-> & _); exact Ht). apply SOK_refl; exact H0. }
  pose proof H0 as (Hlen & _ & Hok). specialize (Hok t).
  pose proof (Inv_rng _ H0) as Rw. pose proof (Inv_readers _ H0) as Dw.
  pose proof (Inv_held w t) as Hheld. specialize (fun m => Hheld m H0).
  destruct (get w t) as [p ops h cv sp mx lr] eqn:Hs. unfold get in Hs. rewrite Hs in Hok.
  unfold pc_ok in Hok. cbn [t_pc t_ops held conv spin mw last_ret] in *.
  destruct p.
  - (* Idle *) apply SOK_refl; exact H0.
  - (* LkFast *) destruct Hok as (Ho & ->). destr_own Ho. cas_split w.
    + step_to4 H0 Hs Hlen Ht; [ownt; auto | rewrite Hcas; apply fast_new_trans
        | intros _ _ M1 _; rewrite Hcas in M1; discriminate M1 | intros ? HF; discriminate HF].
    + step_to H0 Hs Hlen Ht; [ownt; auto | same Rw].
  - (* LkLoad *) destruct Hok as (Ho & ->). destr_own Ho. destruct (fast_guard2 m (word w)) eqn:G; cbn [fst].
    + step_to H0 Hs Hlen Ht; [ownt; auto | same Rw].
    + step_to H0 Hs Hlen Ht; [ownt; split; [auto|]; split; [intros ? HH; discriminate HH | apply lsl_ok_init] | same Rw].
  - (* LkCas2 *) destruct Hok as (Ho & -> & G). destr_own Ho. cas_split w.
    + step_to4 H0 Hs Hlen Ht; [ownt; auto | subst old; apply fast_new2_trans; assumption
        | intros _ _ M1 _; exfalso; subst old; pose proof (fast_guard2_even _ _ Rw G); lia | intros ? HF; discriminate HF].
    + step_to H0 Hs Hlen Ht; [ownt; split; [auto|]; split; [intros ? HH; discriminate HH | apply lsl_ok_init] | same Rw].
  - (* TryFast *) destruct Hok as (Ho & ->). destr_own Ho. cas_split w.
    + step_to4 H0 Hs Hlen Ht; [ownt; auto | rewrite Hcas; apply try_new_trans
        | intros _ _ M1 _; rewrite Hcas in M1; discriminate M1 | intros ? HF; discriminate HF].
    + step_to H0 Hs Hlen Ht; [ownt; auto | same Rw].
  - (* TryLoad *) destruct Hok as (Ho & ->). destr_own Ho. destruct (try_guard2 m (word w)) eqn:G; cbn [fst].
    + step_to H0 Hs Hlen Ht; [ownt; auto | same Rw].
    + step_to H0 Hs Hlen Ht; [ownt; auto | same Rw].
  - (* TryCas2 *) destruct Hok as (Ho & -> & G). destr_own Ho. cas_split w.
    + step_to4 H0 Hs Hlen Ht; [ownt; auto | subst old; apply try_new2_trans; assumption
        | intros _ _ M1 _; exfalso; subst old; pose proof (try_guard2_even _ _ Rw G); lia | intros ? HF; discriminate HF].
    + step_to H0 Hs Hlen Ht; [ownt; auto | same Rw].
  - (* LsLoad *) destruct Hok as (Ho & Hm & Hl). destr_own Ho.
    destruct (nsync_mu_lock_slow_cas1_guard (word w) (zta l)) eqn:G1; cbn [fst].
    + step_to H0 Hs Hlen Ht; [ownt; auto | same Rw].
    + destruct (nsync_mu_lock_slow_cas2_guard (word w) (zta l)) eqn:G2; cbn [fst].
      * step_to H0 Hs Hlen Ht; [ownt; auto | same Rw].
      * apply SOK_refl; exact H0.
  - (* LsCasAcq *) destruct Hok as (Ho & Hm & Hl & G). destr_own Ho. cas_split w.
    + destruct mx as [x|].
      * destruct (Hm x eq_refl) as [Hm1 Hm2].
        step_to4 H0 Hs Hlen Ht; [ownt; exists x; split; [reflexivity | rewrite Hm1; auto]
                                | subst old; apply lock_slow_cas1_trans; assumption
                                | intros _ _ M1 _; exfalso; subst old; pose proof (ls_cas1_even _ _ _ Hl G); lia
                                | intros ? HF; discriminate HF].
      * step_to4 H0 Hs Hlen Ht; [ownt; auto | subst old; apply lock_slow_cas1_trans; assumption
                                | intros _ _ M1 _; exfalso; subst old; pose proof (ls_cas1_even _ _ _ Hl G); lia
                                | intros ? HF; discriminate HF].
    + step_to H0 Hs Hlen Ht; [ownt; auto | same Rw].
  - (* LsCasEnq *) destruct Hok as (Ho & Hm & Hl & G). destr_own Ho. cas_split w.
    + step_to4 H0 Hs Hlen Ht; [ownt; auto | subst old; apply lock_slow_cas2_trans; assumption
        | intros _ _ _ B1; exfalso; subst old; pose proof (ls_cas2_b1 _ _ G); lia | intros ? HF; discriminate HF].
    + step_to H0 Hs Hlen Ht; [ownt; auto | same Rw].
  - (* LsStoreWaiting *) destruct Hok as (Ho & Hm & Hl). destr_own Ho. cbn [fst].
    step_to H0 Hs Hlen Ht; [ownt; auto | same Rw].
  - (* LsWaitLoad *) destruct Hok as (Ho & Hm & Hl). destr_own Ho. destruct (waiting w t); cbn [fst].
    + step_to H0 Hs Hlen Ht; [ownt; auto | same Rw].
    + step_to H0 Hs Hlen Ht; [| same Rw].
      ownt. split; [auto|]. split; [exact Hm|]. destruct Hl as (Hz & Hc & Hw).
      unfold lsl_ok; cbn [zta clr longw]. split; [apply zta_ok_next; assumption|].
      split; [right; reflexivity|].
      destruct (wrap_u 32 (wcount l + 1) =? LONG_WAIT_THRESHOLD); auto.
  - (* LsSemP *) destruct Hok as (Ho & Hm & Hl). destr_own Ho. destruct (0 <? sem w t); cbn [fst].
    + step_to H0 Hs Hlen Ht; [ownt; auto | same Rw].
    + apply SOK_refl; exact H0.

  - (* RelLoad *) destruct k; try contradiction; cbn [fst].
    + destruct Hok as (Ho & Hm & Hl). destr_own Ho. step_to H0 Hs Hlen Ht; [ownt; auto | same Rw].
    + destruct Hok as (Hnh & lt & Hown & Hsc). step_to H0 Hs Hlen Ht; [| same Rw].
      split; [exact Hnh | exists lt; split; [exact Hown | exact Hsc]].
  - (* RelCas *) destruct k; try contradiction.
    + destruct Hok as (Ho & Hm & Hl). destr_own Ho. cas_split w.
      * step_to H0 Hs Hlen Ht; [ownt; auto | subst old; apply release_spinlock_trans; assumption].
      * step_to H0 Hs Hlen Ht; [ownt; auto | same Rw].
    + destruct Hok as (Hnh & lt & Hown & Hsc). cbn [scan_pc_ok spin] in Hsc. destruct Hsc as (-> & Hte & Hu).
      cas_split w.
      * match goal with |- context [after_inner ?w2 ?mm ?r] =>
          pose proof (inner_ok w2 m lt (u_rest u) u Hu) as Hin; rewrite Hte in Hin; cbn [negb] in Hin;
          assert (match r with InPc p => scan_pc_ok false lt p | InEnd u' => uscan_ok lt u' /\ false = negb (u_test u') end) as Hr
            by (destruct r; [exact Hin | destruct Hin as [Q1 Q2]; split; [exact Q1 | rewrite Q2; reflexivity]]);
          destruct (after_inner_ok w2 mm lt false r Hr) as (A1 & A2 & A3);
          destruct (after_inner w2 mm r) as [w3 p'] end.
        cbn [fst snd] in *. step_to3 H0 Hs Hlen Ht A1 A2 A3.
        -- apply (scan_pc_ok_pc_ok _ lt); [exact A3 | exact Hown | exact Hnh].
        -- subst old. apply release_spinlock_trans; assumption.
      * step_to H0 Hs Hlen Ht; [| same Rw].
        split; [exact Hnh | exists lt; split; [exact Hown | cbn [scan_pc_ok spin t_pc]; auto]].

  - (* SpinLoad *) destruct k; try contradiction.
    + destruct Hok as (Hnh & lt & Hown & Hsc). cbn [scan_pc_ok spin] in Hsc. destruct Hsc as (-> & Hte & Hu).
      destruct (nsync_spin_test_and_set_cas1_guard (word w) MU_SPINLOCK) eqn:G; cbn [fst];
        (step_to H0 Hs Hlen Ht; [| same Rw]);
        (split; [exact Hnh | exists lt; split; [exact Hown | cbn [scan_pc_ok spin t_pc]; auto]]).
    + destruct (nsync_spin_test_and_set_cas1_guard (word w) MU_SPINLOCK) eqn:G; cbn [fst];
        (step_to H0 Hs Hlen Ht; [| same Rw]); auto.
  - (* SpinCas *) destruct k; try contradiction.
    + (* the scan re-takes the spinlock *)
      destruct Hok as (Hnh & lt & Hown & Hsc). cbn [scan_pc_ok spin] in Hsc. destruct Hsc as (-> & Hte & Hu & G).
      unfold spin_set. cbv beta iota. cas_split w.
      * match goal with |- context [round_end ?w2 u] =>
          destruct (round_end_ok w2 lt u Hu) as (R1 & R2 & R3 & R4);
          destruct (round_end w2 u) as [w3 u3] end.
        cbn [fst snd] in *.
        destruct (scan_from_ok lt m 3 w3 u3 R3) as (S1 & S2 & S3).
        destruct (scan_from 3 w3 m u3) as [w4 p']. cbn [fst snd] in *.
        rewrite R1 in S1. rewrite R2 in S2. step_to3 H0 Hs Hlen Ht S1 S2 S3.
        -- apply (scan_pc_ok_pc_ok _ lt); [exact S3 | exact Hown | exact Hnh].
        -- subst old. apply spin_tas_trans; auto using smallS_2, small3_0.
        -- exfalso. destruct Hu as (_ & _ & C & _). specialize (C Hte).
           destruct Hown as [(_ & E & _) | (E & _)]; [cbn [held] in E; congruence | rewrite C in E; discriminate E].
      * step_to H0 Hs Hlen Ht; [| same Rw].
        split; [exact Hnh | exists lt; split; [exact Hown | cbn [scan_pc_ok spin t_pc]; auto]].
    + (* nsync_mu_wait_with_deadline takes the spinlock and queues itself *)
      dmw Hok. destruct Hok as ((x & Hx & Ho & Hh) & G). subst mx. destr_own Ho.
      unfold spin_set. cbv beta iota. cas_split w.
      * match goal with |- context [upd_mw (if ?b then _ else _)] => destruct b end.
        -- step_to H0 Hs Hlen Ht; [ownt; eexists; split; [reflexivity|]; cbn [mw_mode mw_have]; auto|].
           subst old. apply spin_tas_trans; auto using small3_128. apply smallS_spin_set.
        -- step_to H0 Hs Hlen Ht; [ownt; eexists; split; [reflexivity|]; cbn [mw_mode mw_have]; auto|].
           subst old. apply spin_tas_trans; auto using small3_128. apply smallS_spin_set.
      * step_to H0 Hs Hlen Ht; [ownt; exists x; auto | same Rw].
  - (* RmLoad *) destruct k; try contradiction; cbn [fst].
    + destruct Hok as (Hnh & lt & Hown & Hsc). step_to H0 Hs Hlen Ht; [| same Rw].
      split; [exact Hnh | exists lt; split; [exact Hown | exact Hsc]].
    + step_to H0 Hs Hlen Ht; [exact Hok | same Rw].
  - (* RmCas *) destruct k; try contradiction.
    + destruct Hok as (Hnh & lt & Hown & Hsc). cbn [scan_pc_ok spin] in Hsc. destruct Hsc as (-> & Hu).
      destruct (rcount w (List.hd t (u_rest u)) =? oldv); cbn [fst].
      * destruct (remove_from _ _ _ _ (u_new u) (List.hd t (u_rest u))) as [nl rg].
        match goal with |- context [after_inner ?w2 ?mm (inner ?w2 ?mm ?u' ?rest)] =>
          assert (uscan_ok lt u') as Hu' by exact Hu;
          pose proof (inner_ok w2 mm lt rest u' Hu') as Hin;
          assert (match inner w2 mm u' rest with InPc p => scan_pc_ok (negb (u_test u)) lt p
                  | InEnd u'' => uscan_ok lt u'' /\ negb (u_test u) = negb (u_test u'') end) as Hr
            by (destruct (inner w2 mm u' rest); [exact Hin | destruct Hin as [Q1 Q2]; split; [exact Q1 | rewrite Q2; reflexivity]]);
          destruct (after_inner_ok w2 mm lt (negb (u_test u)) _ Hr) as (A1 & A2 & A3);
          destruct (after_inner w2 mm (inner w2 mm u' rest)) as [w3 p'] end.
        cbn [fst snd] in *. step_to3 H0 Hs Hlen Ht A1 A2 A3.
        -- apply (scan_pc_ok_pc_ok _ lt); [exact A3 | exact Hown | exact Hnh].
        -- same Rw.
      * step_to H0 Hs Hlen Ht; [| same Rw].
        split; [exact Hnh | exists lt; split; [exact Hown | cbn [scan_pc_ok spin t_pc]; auto]].
    + destruct (rcount w t =? oldv); cbn [fst].
      * destruct (remove_from _ _ _ _ (queue _) t) as [nl rg].
        step_to H0 Hs Hlen Ht; [exact Hok | same Rw].
      * step_to H0 Hs Hlen Ht; [exact Hok | same Rw].

  - (* UlFast *) destruct Hok as (Ho & ->). destr_own Ho. cas_split w.
    + step_to H0 Hs Hlen Ht; [auto | rewrite Hcas; apply ufast_trans].
    + step_to H0 Hs Hlen Ht; [ownt; auto | same Rw].
  - (* UlLoad *) destruct Hok as (Ho & ->). destr_own Ho.
    destruct (unlock_try_cas2 m (word w)); [| destruct (unlock_bad m (word w))]; cbn [fst];
      (step_to H0 Hs Hlen Ht; [ownt; auto; try (repeat split; auto; intros ? HH; discriminate HH) | same Rw]).
  - (* UlCas2 *) destruct Hok as (Ho & ->). destr_own Ho. pose proof (held_rel_pre _ _ (Hheld m eq_refl)) as Hp. cas_split w.
    + step_to H0 Hs Hlen Ht; [auto | subst old; apply unlock_new2_trans; assumption].
    + step_to H0 Hs Hlen Ht; [ownt; repeat split; auto; intros ? HH; discriminate HH | same Rw].
  - (* UwFast *) destruct Hok as (Ho & ->). destr_own Ho. cas_split w.
    + step_to H0 Hs Hlen Ht; [auto | rewrite Hcas; apply uwfast_trans].
    + step_to H0 Hs Hlen Ht; [ownt; auto | same Rw].
  - (* UwLoad *) destruct Hok as (Ho & ->). destr_own Ho.
    destruct (nsync_mu_unlock_without_wakeup_cas2_guard (word w)); [| destruct (uw_bad (word w))]; cbn [fst];
      (step_to H0 Hs Hlen Ht; [ownt; auto; try (repeat split; auto; intros ? HH; discriminate HH) | same Rw]).
  - (* UwCas2 *) destruct Hok as (Ho & ->). destr_own Ho. pose proof (held_rel_pre (word w) W (Hheld W eq_refl)) as Hp. cbv beta iota in Hp. cas_split w.
    + step_to H0 Hs Hlen Ht; [auto | subst old; apply uw_new2_trans; assumption].
    + step_to H0 Hs Hlen Ht; [ownt; repeat split; auto; intros ? HH; discriminate HH | same Rw].
  - (* UsLoad *) destruct Hok as (Ho & Hnh). destr_own Ho.
    destruct (nsync_mu_unlock_slow_cas1_guard (word w));
      [| destruct (nsync_mu_unlock_slow_cas2_guard (word w)) eqn:G2]; cbn [fst]; try (apply SOK_refl; exact H0);
      (step_to H0 Hs Hlen Ht; [ownt; auto | same Rw]).
  - (* UsCasRel *) destruct Hok as (Ho & Hnh). destr_own Ho. pose proof (held_rel_pre _ _ (Hheld m eq_refl)) as Hp. cas_split w.
    + destruct mx as [x|].
      * step_to H0 Hs Hlen Ht; [ownt; exists x; split; [reflexivity | left; auto]
                               | subst old; apply unlock_slow_cas1_trans; assumption].
      * step_to H0 Hs Hlen Ht; [auto | subst old; apply unlock_slow_cas1_trans; assumption].
    + step_to H0 Hs Hlen Ht; [ownt; auto | same Rw].
  - (* UsCasSpin *) destruct Hok as (Ho & Hnh & G). destr_own Ho. pose proof (held_rel_pre2 _ _ (Hheld m eq_refl)) as Hp.
    cas_split w.
    + subst old. pose proof (unlock_slow_cas2_trans m (has (word w) MU_CONDITION) (word w) Rw Hp G) as Htr.
      unfold early_of in Htr.
      destruct (has (word w) MU_CONDITION).
      * match goal with |- context [scan_from 3 ?w2 m ?u] =>
          assert (uscan_ok MU_WLOCK u) as Hu by (unfold uscan_ok; cbn [u_late u_set u_test]; auto using small3_128);
          destruct (scan_from_ok MU_WLOCK m 3 w2 u Hu) as (S1 & S2 & S3);
          destruct (scan_from 3 w2 m u) as [w4 p'] end.
        cbn [fst snd] in *. step_to3 H0 Hs Hlen Ht S1 S2 S3; [| exact Htr].
        apply (scan_pc_ok_pc_ok _ MU_WLOCK); [exact S3 | left; cbn [held conv]; auto | exact Hnh].
      * match goal with |- context [scan_from 3 ?w2 m ?u] =>
          assert (uscan_ok 0 u) as Hu by (unfold uscan_ok; cbn [u_late u_set u_test]; repeat split; auto using small3_128; try discriminate; apply small3_128);
          destruct (scan_from_ok 0 m 3 w2 u Hu) as (S1 & S2 & S3);
          destruct (scan_from 3 w2 m u) as [w4 p'] end.
        cbn [fst snd] in *. step_to3 H0 Hs Hlen Ht S1 S2 S3; [| exact Htr].
        apply (scan_pc_ok_pc_ok _ 0); [exact S3 | right; cbn [held conv]; auto | exact Hnh].
    + step_to H0 Hs Hlen Ht; [ownt; auto | same Rw].
  - (* UsEval *) destruct Hok as (Hnh & lt & Hown & Hsc). cbn [scan_pc_ok spin] in Hsc. destruct Hsc as (-> & Hte & Hu).
    destruct (u_rest u) as [|p tl] eqn:Er; [step_to H0 Hs Hlen Ht; [exact I | same Rw]|].
    destruct (wcond w p) as [[f a]|]; [| step_to H0 Hs Hlen Ht; [exact I | same Rw]].
    match goal with |- context [after_inner ?w2 ?mm ?r] =>
      assert (match r with InPc p0 => scan_pc_ok false lt p0 | InEnd u' => uscan_ok lt u' /\ false = negb (u_test u') end) as Hr;
      [ destruct (pst w f a); cbv beta iota;
        [ match goal with |- context [wakeable ?ww u p] => destruct (wakeable ww u p) end; cbv beta iota;
          [ cbn [scan_pc_ok]; rewrite Hte; auto
          | apply inner_res; [apply uscan_ok_uset; [exact Hu | apply small3_set_ww, Hu] | exact Hte] ]
        | apply inner_res; assumption ]
      | destruct (after_inner_ok w2 mm lt false r Hr) as (A1 & A2 & A3);
        destruct (after_inner w2 mm r) as [w3 p'] ] end.
    cbn [fst snd] in *. step_to3 H0 Hs Hlen Ht A1 A2 A3; [| same Rw].
    apply (scan_pc_ok_pc_ok _ lt); [exact A3 | exact Hown | exact Hnh].

  - (* UsRelLoad *) destruct Hok as (Hnh & lt & Hown & Hsc). step_to H0 Hs Hlen Ht; [| same Rw].
    split; [exact Hnh | exists lt; split; [exact Hown | exact Hsc]].
  - (* UsRelCas *) destruct Hok as (Hnh & lt & Hown & Hsc). cbn [scan_pc_ok spin] in Hsc. destruct Hsc as (-> & Hu & Hl).
    cas_split w.
    + assert (h = (if late u =? 0 then None else Some W) /\ (late u = MU_WLOCK -> old mod 2 = 1)) as [Eh HW].
      { subst old. destruct Hown as [(E1 & E2 & E3) | (E1 & E2 & E3)]; cbn [held] in E2; rewrite Hl, E1; subst h.
        - split; [reflexivity | intros _; apply (Hheld W eq_refl)].
        - split; [reflexivity | discriminate]. }
      subst old.
      pose proof (unlock_slow_cas3_trans u (word w) Rw Hu HW) as Htr. rewrite <- Eh in Htr.
      destruct (wake u) as [|q rest].
      * destruct mx as [x|].
        -- step_to H0 Hs Hlen Ht; [ownt; exists x; split; [reflexivity | left; auto] | exact Htr].
        -- step_to H0 Hs Hlen Ht; [auto | exact Htr].
      * step_to H0 Hs Hlen Ht; [ownt; auto | exact Htr].
    + step_to H0 Hs Hlen Ht; [| same Rw].
      split; [exact Hnh | exists lt; split; [exact Hown | cbn [scan_pc_ok spin t_pc]; auto]].
  - (* UsWakeStore *) destruct Hok as (Ho & Hnh). destr_own Ho. destruct (wake u) as [|q rest].
    + destruct mx as [x|]; (step_to H0 Hs Hlen Ht; [| same Rw]); [ownt; exists x; split; [reflexivity | left; auto] | auto].
    + step_to H0 Hs Hlen Ht; [ownt; auto | same Rw].
  - (* UsWakeV *) destruct Hok as (Ho & Hnh). destr_own Ho. destruct (wake u) as [|q rest].
    + destruct mx as [x|]; (step_to H0 Hs Hlen Ht; [| same Rw]); [ownt; exists x; split; [reflexivity | left; auto] | auto].
    + step_to H0 Hs Hlen Ht; [ownt; auto | same Rw].
  - (* SetC *) destruct Hok as (Ho & ->). destr_own Ho. step_to H0 Hs Hlen Ht; [auto | same Rw].
  - (* MwLoad *) destruct Hok as (-> & -> & Hh & Hm). destruct h as [h|]; [| congruence]. destruct mx as [x|]; [| congruence].
    destruct (mode_of_word w h Rw (Hheld h eq_refl)) as [E1 E2]. rewrite E1, E2. cbv iota.
    match goal with |- context [mw_cond (get_mw ?ww t)] =>
      assert (get_mw ww t = mk_mw h (mw_cond x) (mw_eq x) (mw_dl x) (mw_canc x) (mw_first x) (mw_rc x) (mw_hadw x)
                                  (mw_semout x) (mw_have x) (mw_outcome x) (mw_tmo x) (mw_ent x)) as Eg
        by (erewrite (TS_get_mw t w); [| ts_solve; rewrite Hlen; exact Ht]; tsimpl Hs; reflexivity);
      rewrite Eg end.
    cbn [mw_cond]. destruct (mw_cond x).
    + step_to H0 Hs Hlen Ht; [ownt; eexists; split; [reflexivity | cbn [mw_mode]; auto] | same Rw].
    + step_to H0 Hs Hlen Ht; [| destruct (nsync_mu_wait_with_deadline_store1_guard _ _); cbn [held spin]; same Rw].
      destruct (nsync_mu_wait_with_deadline_store1_guard _ _); unfold pc_ok; cbn [t_pc]; ownt;
        [eexists; split; [reflexivity | cbn [mw_mode]; auto] | auto].

  - (* MwEval *) dmw Hok. destruct Hok as (x & Hx & Ho). subst mx. destr_own Ho.
    unfold get_mw, get. rewrite Hs. cbn [mw]. destruct (mw_cond x) as [[f a]|].
    + step_to H0 Hs Hlen Ht; [| destruct (nsync_mu_wait_with_deadline_store1_guard _ _); cbn [held spin]; same Rw].
      destruct (nsync_mu_wait_with_deadline_store1_guard _ _); unfold pc_ok; cbn [t_pc]; ownt; [eexists; split; [reflexivity | auto] | auto].
    + step_to H0 Hs Hlen Ht; [| destruct (nsync_mu_wait_with_deadline_store1_guard _ _); cbn [held spin]; same Rw].
      destruct (nsync_mu_wait_with_deadline_store1_guard _ _); unfold pc_ok; cbn [t_pc]; ownt; [eexists; split; [reflexivity | auto] | auto].
  - (* MwStoreWaiting *) dmw Hok. destruct Hok as (x & Hx & Ho). subst mx. destr_own Ho.
    step_to H0 Hs Hlen Ht; [ownt; eexists; split; [reflexivity | auto] | same Rw].
  - (* MwRcLoad *) dmw Hok. destruct Hok as (x & Hx & Ho). subst mx. destr_own Ho.
    step_to H0 Hs Hlen Ht; [ownt; eexists; split; [reflexivity | cbn [mw_mode mw_have]; auto] | same Rw].
  - (* MwRelLoad *) dmw Hok. destruct Hok as (x & Hx & Ho & Hh). subst mx. destr_own Ho.
    unfold get_mw, get. rewrite Hs. cbn [mw].
    step_to H0 Hs Hlen Ht; [ownt; eexists; split; [reflexivity|] | same Rw].
    split; [auto|]. split; [exact Hh|].
    destruct ((band (wrap_u 32 (word w - lt_add_to_acquire (lt_of (mw_mode x)))) MU_ANY_LOCK =? 0) && mw_hadw x && (band (word w) MU_DESIG_WAKER =? 0)); auto.
  - (* MwRelCas *) dmw Hok. destruct Hok as (x & Hx & Ho & Hh & Hadd). subst mx. destr_own Ho.
    pose proof (held_rel_pre _ _ (Hheld (mw_mode x) eq_refl)) as Hp. cas_split w.
    + subst old. pose proof (mw_cas1_trans (mw_mode x) (word w) add Rw Hp Hadd) as Htr.
      destruct (add =? 0).
      * match goal with |- context [mw_mode (get_mw ?ww t)] =>
          assert (get_mw ww t = x) as Eg by (erewrite (TS_get_mw t w); [| ts_solve; rewrite Hlen; exact Ht]; tsimpl Hs; reflexivity);
          rewrite Eg end.
        step_to H0 Hs Hlen Ht; [ownt; split; [auto|]; intros y Hy; injection Hy as <-; exact Hh | exact Htr].
      * step_to H0 Hs Hlen Ht; [ownt; eexists; split; [reflexivity | left; auto] | exact Htr].
    + step_to H0 Hs Hlen Ht; [ownt; eexists; split; [reflexivity | auto] | same Rw].
  - (* MwLoadW1 *) dmw Hok. destruct Hok as (x & Hx & Ho). subst mx.
    unfold get_mw, get. rewrite Hs. cbn [mw].
    destruct (waiting w t).
    + destruct (Z.eqb_spec (mw_semout x) 0) as [Es|Es].
      * destruct Ho as [(Ho & Hh) | (Ho & Hh & Hne)]; [| contradiction]. destr_own Ho.
        step_to H0 Hs Hlen Ht; [ownt; eexists; split; [reflexivity | auto] | same Rw].
      * step_to H0 Hs Hlen Ht; [ownt; eexists; split; [reflexivity | exact Ho] | same Rw].
    + destruct (mw_have x) eqn:Eh.
      * destruct Ho as [(Ho & Hh) | (Ho & Hh & Hne)]; [discriminate|]. destr_own Ho.
        step_to H0 Hs Hlen Ht; [ownt; eexists; split; [reflexivity | auto] | same Rw].
      * destruct Ho as [(Ho & Hh) | (Ho & Hh & Hne)]; [| discriminate]. destr_own Ho.
        step_to H0 Hs Hlen Ht; [| same Rw].
        ownt. split; [auto|]. split; [intros y Hy; injection Hy as <-; auto | apply lsl_ok_init_desig].
  - (* MwSemP *) dmw Hok. destruct Hok as (x & Hx & Ho & Hh). subst mx. destr_own Ho.
    unfold get_mw, get. rewrite Hs. cbn [mw]. destruct c.
    + destruct (0 <? sem w t); [| apply SOK_refl; exact H0].
      step_to H0 Hs Hlen Ht; [ownt; eexists; split; [reflexivity | left; auto] | same Rw].
    + destruct (mw_dl x) as [d|]; [| apply SOK_refl; exact H0]. destruct (d <=? clock w); [| apply SOK_refl; exact H0].
      step_to H0 Hs Hlen Ht; [ownt; eexists; split; [reflexivity | cbn [mw_have mw_semout]; auto using etimedout_nz] | same Rw].
    + destruct (mw_canc x && note w); [| apply SOK_refl; exact H0].
      step_to H0 Hs Hlen Ht; [ownt; eexists; split; [reflexivity | cbn [mw_have mw_semout]; auto using ecanceled_nz] | same Rw].
  - (* MwLoadW2 *) dmw Hok. destruct Hok as (x & Hx & Ho & Hh & Hne). subst mx. destr_own Ho. destruct (waiting w t).
    + step_to H0 Hs Hlen Ht; [ownt; eexists; split; [reflexivity | auto] | same Rw].
    + step_to H0 Hs Hlen Ht; [ownt; eexists; split; [reflexivity | left; auto] | same Rw].
  - (* MwLoadW3 *) dmw Hok. destruct Hok as (x & Hx & Ho). subst mx.
    step_to H0 Hs Hlen Ht; [ownt; eexists; split; [reflexivity | exact Ho] | same Rw].
  - (* MtLoad *) dmw Hok. destruct Hok as (x & Hx & Ho & Hh & Hne). subst mx. destr_own Ho.
    destruct (mu_try_acquire_after_timeout_or_cancel_cas1_guard (word w)) eqn:G1;
      [| destruct (mu_try_acquire_after_timeout_or_cancel_cas2_guard (word w)) eqn:G2];
      (step_to H0 Hs Hlen Ht; [ownt; try split; try (eexists; split; [reflexivity | auto]); auto | same Rw]).
  - (* MtCas1 *) dmw Hok. destruct Hok as ((x & Hx & Ho & Hh & Hne) & G). subst mx. destr_own Ho. cas_split w.
    + subst old. pose proof (mt_cas1_guard_facts _ Rw G) as Hto.
      step_to4 H0 Hs Hlen Ht; [ownt; split; [eexists; split; [reflexivity | auto] | exact Hto] | apply mt_cas1_trans; exact Hto
        | intros _ _ M1 _; exfalso; destruct Hto as (_ & E & _); lia | intros ? HF; injection HF as <-; right; reflexivity].
    + destruct (mu_try_acquire_after_timeout_or_cancel_cas2_guard old) eqn:G2;
        (step_to H0 Hs Hlen Ht; [ownt; try split; try (eexists; split; [reflexivity | auto]); auto | same Rw]).
  - (* MtCas2 *) dmw Hok. destruct Hok as ((x & Hx & Ho & Hh & Hne) & G). subst mx. destr_own Ho. cas_split w.
    + step_to4 H0 Hs Hlen Ht; [ownt; eexists; split; [reflexivity | auto] | subst old; apply mt_cas2_trans; assumption
        | intros _ _ _ B1; exfalso; subst old; pose proof (mt_cas2_guard_facts _ G); lia | intros ? HF; discriminate HF].
    + step_to H0 Hs Hlen Ht; [ownt; eexists; split; [reflexivity | auto] | same Rw].
  - (* MtLoadW *) destruct (waiting w t); (step_to H0 Hs Hlen Ht; [exact Hok | same Rw]).
  - (* MtLoadRc *) unfold get_mw, get. rewrite Hs. cbn [mw].
    match goal with |- context [if ?b then _ else _] => destruct b end; (step_to H0 Hs Hlen Ht; [exact Hok | same Rw]).
  - (* MtStoreW *) step_to H0 Hs Hlen Ht; [exact Hok | same Rw].
  - (* MtStore2 *) dmw Hok. destruct Hok as ((x & Hx & Ho & Hh & Hne) & Hto). subst mx. destr_own Ho.
    unfold get_mw, get. rewrite Hs. cbn [mw]. destruct (Hheld W eq_refl) as [Hm1 Hm2].
    step_to H0 Hs Hlen Ht; [ownt; eexists; split; [reflexivity | right; cbn [mw_mode mw_have mw_semout]; auto]
                           | apply mt_store2_trans; assumption].
  - (* MtStore3 *) dmw Hok. destruct Hok as ((x & Hx & Ho & Hh & Hne) & Hto). subst mx. destr_own Ho.
    destruct (Hheld W eq_refl) as [Hm1 Hm2].
    step_to H0 Hs Hlen Ht; [ownt; eexists; split; [reflexivity | left; auto] | apply mt_store3_trans; assumption].
  - (* Crash *) apply SOK_refl; exact H0.
Qed.
End Invariant.

(* ================================================================== *)
(* Part 4: C01w (exclusion, word_agrees, frozen word), C06 (evaluation under the lock) *)
(* ================================================================== *)
Definition frozen_word (w : world) : Prop :=
  forall t old, frozen_old (t_pc (get w t)) = Some old -> word w = mu_try_acquire_after_timeout_or_cancel_cas1_new old.
Definition FInv (n : nat) (w : world) : Prop := Inv n w /\ frozen_word w.

Lemma begin_op_get_other w t t' : t' <> t -> get (begin_op w t) t' = get w t'.
Proof.
  intros N. unfold begin_op. destruct (t_pc (get w t)); try reflexivity. destruct (t_ops (get w t)); try reflexivity.
  destruct (match o with OLock m => _ | _ => _ end) as [p x].
  unfold get, set_t, set_thr; cbn [thr]. now apply nth_lupd_other.
Qed.
Lemma begin_op_word w t : word (begin_op w t) = word w.
Proof.
  unfold begin_op. destruct (t_pc (get w t)); try reflexivity. destruct (t_ops (get w t)); try reflexivity.
  destruct (match o with OLock m => _ | _ => _ end) as [p x]. reflexivity.
Qed.
Lemma begin_op_frozen w t : frozen_word w -> frozen_word (begin_op w t).
Proof.
  intros F t' old H. rewrite begin_op_word. destruct (Nat.eq_dec t' t) as [->|N].
  - apply (F t old). revert H. unfold begin_op.
    destruct (t_pc (get w t)) eqn:Ep; try (rewrite Ep; auto; fail).
    destruct (t_ops (get w t)); [rewrite Ep; auto|].
    destruct (match o with OLock m => _ | _ => _ end) as [p x] eqn:Eo.
    destruct (Nat.lt_ge_cases t (length (thr w))) as [L|L].
    + unfold get at 1, set_t, set_thr; cbn [thr]. rewrite nth_lupd_same by exact L. cbn [t_pc].
      destruct o as [m|m| | |f a b|c e d k], (held (get w t)) as [[|]|]; injection Eo as <- <-; cbn; discriminate.
    + assert (get w t = dflt_t) as E by (unfold get; now apply nth_overflow). rewrite E in Ep. cbn in Ep.
      unfold get at 1, set_t, set_thr; cbn [thr].
      assert (forall {A} (l : list A) k v, (length l <= k)%nat -> lupd l k v = l) as LU.
      { intros A ll; induction ll as [|a0 ll IHll]; intros [|k] v Hk; simpl in *; auto; try lia. f_equal. apply IHll. lia. }
      rewrite LU by exact L. fold (get w t). rewrite E. cbn. discriminate.
  - rewrite begin_op_get_other in H by exact N. apply (F t' old H).
Qed.

Lemma Inv_spin n w t : Inv n w -> spin (get w t) = true -> b1 (word w) = 1.
Proof.
  intros (L & (Rx & HW & HR & HX & HS) & _) H. unfold get in H.
  assert (t < length (thr w))%nat as Ht.
  { destruct (Nat.lt_ge_cases t (length (thr w))) as [|G]; [assumption|]. rewrite nth_overflow in H by assumption. discriminate H. }
  pose proof (cntp_pos spin (thr w) t eq_refl Ht H) as P. pose proof (b1_range (word w)). unfold cntS in HS. lia.
Qed.
(* while a thread owns WLOCK and the spinlock, every other thread owns nothing *)
Lemma Inv_sole n w t t' : Inv n w -> held (get w t) = Some W -> spin (get w t) = true -> t' <> t ->
  held (get w t') = None /\ spin (get w t') = false.
Proof.
  intros (L & (Rx & HW & HR & HX & HS) & _) H1 H2 N. unfold get in *.
  assert (t < length (thr w))%nat as Ht.
  { destruct (Nat.lt_ge_cases t (length (thr w))) as [|G]; [assumption|]. rewrite nth_overflow in H1 by assumption. discriminate H1. }
  destruct (Nat.lt_ge_cases t' (length (thr w))) as [Ht'|Ht']; [| rewrite nth_overflow by assumption; auto].
  assert (pm W (nth t (thr w) dflt_t) = true) as Q1 by (unfold pm; rewrite H1; reflexivity).
  pose proof (cntp_pos (pm W) (thr w) t eq_refl Ht Q1) as P1.
  pose proof (b1_range (word w)) as Bx. unfold cnt, cntS in *.
  split.
  - destruct (held (nth t' (thr w) dflt_t)) as [[|]|] eqn:E; [| |reflexivity]; exfalso.
    + assert (pm W (nth t' (thr w) dflt_t) = true) as Q2 by (unfold pm; rewrite E; reflexivity).
      pose proof (cntp_two (pm W) (thr w) t t' eq_refl Ht Ht' ltac:(auto) Q1 Q2). lia.
    + assert (pm R (nth t' (thr w) dflt_t) = true) as Q2 by (unfold pm; rewrite E; reflexivity).
      pose proof (cntp_pos (pm R) (thr w) t' eq_refl Ht' Q2). lia.
  - destruct (spin (nth t' (thr w) dflt_t)) eqn:E; [exfalso | reflexivity].
    pose proof (cntp_two spin (thr w) t t' eq_refl Ht Ht' ltac:(auto) H2 E). lia.
Qed.

Lemma frozen_pc_owner n w t old : Inv n w -> frozen_old (t_pc (get w t)) = Some old ->
  held (get w t) = Some W /\ spin (get w t) = true.
Proof.
  intros (_ & _ & Hpc) H. specialize (Hpc t). fold (get w t) in Hpc. unfold pc_ok in Hpc.
  destruct (t_pc (get w t)); try discriminate H; try (destruct k; try discriminate H);
    destruct Hpc as ((x & _ & (A & B & _) & _) & _); auto.
Qed.

Lemma step_thr_finv n (Hn : Z.of_nat n < 16777215) w t c : FInv n w -> FInv n (fst (step_thr w t c)).
Proof.
  intros [HI HF]. pose proof (step_thr_ok n Hn w t c HI) as (I' & E2 & E1 & E3).
  pose proof (begin_op_inv n w t HI) as HIb. pose proof (begin_op_frozen w t HF) as HFb.
  split; [exact I'|]. intros t' old H. destruct (Nat.eq_dec t' t) as [->|N].
  - destruct (E1 old H) as [[A B] | A]; [| exact A]. rewrite B. apply (HFb t old A).
  - rewrite (E3 t' N) in H. rewrite <- (HFb t' old H).
    destruct (frozen_pc_owner n _ t' old HIb H) as [O1 O2].
    destruct (Inv_sole n _ t' t HIb O1 O2 ltac:(auto)) as [P1 P2].
    apply E2; auto.
    + apply (Inv_held n _ t' W HIb O1).
    + apply (Inv_spin n _ t' HIb O2).
Qed.

Lemma step_finv n (Hn : Z.of_nat n < 16777215) w a : FInv n w -> FInv n (fst (step w a)).
Proof.
  intros H. destruct a as [t c|dt| |p]; cbn [step].
  - now apply step_thr_finv.
  - destruct (0 <=? dt); exact H.
  - exact H.
  - destruct (note w); exact H.
Qed.
Lemma run_finv n (Hn : Z.of_nat n < 16777215) sched : forall w, FInv n w -> FInv n (run w sched).
Proof.
  unfold run. induction sched as [|a rest IH]; intros w H; cbn [fold_left]; [exact H|]. apply IH, step_finv; assumption.
Qed.

Lemma cntp_init p progs : p (mk_t Idle [] None false false None None) = false ->
  (forall ops, p (mk_t Idle ops None false false None None) = p (mk_t Idle [] None false false None None)) ->
  cntp p (map (fun ops => mk_t Idle ops None false false None None) progs) = 0.
Proof.
  intros D E. unfold cntp. induction progs as [|o l IH]; [reflexivity|]. cbn [map filter]. rewrite E, D. exact IH.
Qed.
Lemma init_finv progs cl c0 : FInv (length progs) (init progs cl c0).
Proof.
  split.
  - unfold Inv, InvL, init; cbn [word thr]. split; [apply map_length|]. split.
    + unfold agrees, cnt, cntS. rewrite !cntp_init by reflexivity. now vm_compute.
    + intros t. change dflt_t with ((fun ops => mk_t Idle ops None false false None None) []). rewrite map_nth.
      unfold pc_ok; cbn. auto.
  - intros t old H. unfold init, get in H; cbn [thr] in H.
    change dflt_t with ((fun ops => mk_t Idle ops None false false None None) []) in H. rewrite map_nth in H. discriminate H.
Qed.
Lemma reachable_finv progs cl c0 sched :
  Z.of_nat (length progs) < 2 ^ 24 - 1 -> FInv (length progs) (run (init progs cl c0) sched).
Proof. intros H. apply run_finv; [exact H | apply init_finv]. Qed.

Lemma agrees_word_agrees w : agrees (word w) (thr w) -> word_agrees w.
Proof.
  intros (Rx & HW & HR & HX & HS). unfold word_agrees.
  change (count_held w W) with (cnt W (thr w)). change (count_held w R) with (cnt R (thr w)).
  change (count_spin w) with (cntS (thr w)). rewrite bit0_mod2. unfold rng in Rx. change (2 ^ 32) with 4294967296.
  rewrite b1_testbit in HS.
  split; [lia|]. split; [destruct (Z.eqb_spec (word w mod 2) 1); lia|]. split; [exact HR|]. split.
  - destruct (Z.eqb_spec (word w mod 2) 1); [intros _; auto | intros D; discriminate D].
  - destruct (Z.testbit (word w) 1); exact HS.
Qed.

Lemma word_agrees_reachable : forall progs cl c0 sched,
  Z.of_nat (length progs) < 2 ^ 24 - 1 -> word_agrees (run (init progs cl c0) sched).
Proof. intros. apply agrees_word_agrees. apply (reachable_finv progs cl c0 sched H). Qed.

Lemma excl_of_inv n w : Inv n w -> excl w.
Proof.
  intros (L & (Rx & HW & HR & HX & HS) & _) t1 t2 H1 H2 P1 P2. unfold nthreads, holds, get in *.
  destruct (Nat.eq_dec t1 t2) as [|N]; [assumption | exfalso].
  pose proof (cntp_range (pm W) (thr w)). pose proof (cntp_range (pm R) (thr w)). unfold cnt in *.
  assert (pm W (nth t1 (thr w) dflt_t) = true) as Q1 by (unfold pm; now rewrite P1).
  destruct P2 as [P2 | P2].
  - assert (pm W (nth t2 (thr w) dflt_t) = true) as Q2 by (unfold pm; now rewrite P2).
    pose proof (cntp_two (pm W) (thr w) t1 t2 eq_refl H1 H2 N Q1 Q2). lia.
  - assert (pm R (nth t2 (thr w) dflt_t) = true) as Q2 by (unfold pm; now rewrite P2).
    pose proof (cntp_pos (pm W) (thr w) t1 eq_refl H1 Q1). pose proof (cntp_pos (pm R) (thr w) t2 eq_refl H2 Q2). lia.
Qed.
Lemma excl_reachable : forall progs cl c0 sched,
  Z.of_nat (length progs) < 2 ^ 24 - 1 -> excl (run (init progs cl c0) sched).
Proof. intros. apply (excl_of_inv (length progs)). apply (reachable_finv progs cl c0 sched H). Qed.

Lemma frozen_reachable : forall progs cl c0 sched,
  Z.of_nat (length progs) < 2 ^ 24 - 1 -> frozen (run (init progs cl c0) sched).
Proof.
  intros progs cl c0 sched H t old Hf. destruct (reachable_finv progs cl c0 sched H) as [HI HF].
  destruct (frozen_pc_owner _ _ t old HI Hf) as [A B]. unfold holds. split; [exact A | split; [exact B | exact (HF t old Hf)]].
Qed.
Lemma frozen_stable_reachable : forall progs cl c0 sched,
  Z.of_nat (length progs) < 2 ^ 24 - 1 -> frozen_stable (run (init progs cl c0) sched).
Proof.
  intros progs cl c0 sched H t old Hf t' c N. set (w := run (init progs cl c0) sched) in *.
  destruct (reachable_finv progs cl c0 sched H) as [HI HF]. fold w in HI, HF. cbn [step].
  pose proof (step_thr_ok _ H w t' c HI) as (_ & E2 & _ & _).
  pose proof (begin_op_inv _ w t' HI) as HIb.
  rewrite begin_op_word in E2.
  assert (frozen_old (t_pc (get (begin_op w t') t)) = Some old) as Hfb by (rewrite begin_op_get_other by auto; exact Hf).
  destruct (frozen_pc_owner _ _ t old HIb Hfb) as [O1 O2].
  destruct (Inv_sole _ _ t t' HIb O1 O2 N) as [P1 P2].
  apply E2; auto.
  - pose proof (Inv_held _ _ t W HIb O1) as [A _]. rewrite begin_op_word in A. exact A.
  - pose proof (Inv_spin _ _ t HIb O2) as A. rewrite begin_op_word in A. exact A.
Qed.

(* ----- C06: a condition is evaluated only by a thread that owns lock bits; nobody else is a writer ----- *)
Lemma other_holders n w t : Inv n w -> held (get w t) <> None -> forall t', t' <> t -> held (get w t') <> Some W.
Proof.
  intros HI Hh t' N E. destruct (held (get w t)) as [m|] eqn:Em; [| congruence].
  pose proof (excl_of_inv n w HI) as X. destruct HI as (L & _).
  assert (forall u m', held (get w u) = Some m' -> (u < nthreads w)%nat) as LT.
  { intros u m' Hu. unfold nthreads, get in *. destruct (Nat.lt_ge_cases u (length (thr w))); [assumption|].
    rewrite nth_overflow in Hu by assumption. discriminate Hu. }
  apply N. apply (X t' t (LT _ _ E) (LT _ _ Em) E). destruct m; [left | right]; exact Em.
Qed.

Lemma eval_under_lock_inv n (Hn : Z.of_nat n < 16777215) w t c : Inv n w -> eval_under_lock w t c.
Proof.
  intros HI He. cbv zeta. pose proof (begin_op_inv n w t HI) as HIb.
  assert (held (get (begin_op w t) t) <> None) as Hh.
  { cbn [step] in He. unfold step_thr in He. cbv zeta in He.
    pose proof HIb as (_ & _ & Hpc). specialize (Hpc t). fold (get (begin_op w t) t) in Hpc. unfold pc_ok in Hpc.
    destruct (t_pc (get (begin_op w t) t)) eqn:Ep; cbn [snd is_eval] in He;
      repeat match type of He with
             | is_eval (snd (let '(_, _) := ?x in _)) = true => destruct x
             | is_eval (snd (if ?b then _ else _)) = true => destruct b
             | is_eval (snd (match ?x with _ => _ end)) = true => destruct x
             end; cbn [snd is_eval] in He; try discriminate He.
    all: try (destruct Hpc as (_ & lt & Hown & Hsc); rewrite Ep in Hsc; cbn [scan_pc_ok] in Hsc; destruct Hsc as (_ & Hte & (_ & _ & C & _));
              specialize (C Hte); destruct Hown as [(_ & E & _) | (E & _)]; [rewrite E; discriminate | rewrite C in E; discriminate E]).
    all: try (destruct Hpc as (x & _ & (E & _)); rewrite E; discriminate). }
  split; [exact Hh|]. intros t' N Hw. unfold holds in Hw.
  apply (other_holders n _ t HIb Hh t' N). rewrite begin_op_get_other by exact N. exact Hw.
Qed.
Lemma eval_under_lock_reachable : forall progs cl c0 sched t c,
  Z.of_nat (length progs) < 2 ^ 24 - 1 -> eval_under_lock (run (init progs cl c0) sched) t c.
Proof. intros. apply (eval_under_lock_inv (length progs) H). apply (reachable_finv progs cl c0 sched H). Qed.

(* ================================================================== *)
(* Part 5: C05 (nsync_mu_wait_with_deadline half)                      *)
(* ================================================================== *)
(* thread steps never touch the clock or the note; only SetC touches the protected state *)
Definition env_eq (w w' : world) : Prop := clock w' = clock w /\ note w' = note w /\ pst w' = pst w.
Lemma env_refl w : env_eq w w. Proof. repeat split. Qed.
Lemma env_trans a b c : env_eq a b -> env_eq b c -> env_eq a c.
Proof. unfold env_eq. intros (A1 & A2 & A3) (B1 & B2 & B3). repeat split; congruence. Qed.
Lemma scan_from_env m : forall fuel w u, env_eq w (fst (scan_from fuel w m u)).
Proof.
  induction fuel as [|f IH]; intros w u; cbn [scan_from]; [apply env_refl|].
  destruct (u_new u); [unfold finalize; cbn [fst]; repeat split|].
  destruct (adjust_test w u n); [apply env_refl|].
  destruct (inner w m _ _); [apply env_refl|].
  destruct (round_end w (end_inner_set u0)) as [w2 u3] eqn:E.
  apply (env_trans _ w2); [| apply IH].
  unfold round_end in E. injection E as <- _. repeat split.
Qed.
Lemma after_inner_env w m r : env_eq w (fst (after_inner w m r)).
Proof.
  destruct r; cbn [after_inner]; [apply env_refl|].
  destruct (u_test (end_inner_set u)); [apply env_refl|].
  destruct (round_end w (end_inner_set u)) as [w2 u3] eqn:E.
  apply (env_trans _ w2); [| apply scan_from_env].
  unfold round_end in E. injection E as <- _. repeat split.
Qed.

Lemma begin_op_env w t : env_eq w (begin_op w t).
Proof.
  unfold begin_op. destruct (t_pc (get w t)); try apply env_refl. destruct (t_ops (get w t)); try apply env_refl.
  destruct (match o with OLock m => _ | _ => _ end) as [p x]. repeat split.
Qed.

Lemma acquire_env w t m : env_eq w (acquire w t m).
Proof. unfold acquire. destruct (mw _); repeat split. Qed.
Lemma ret_unlock_env w t : env_eq w (ret_unlock w t).
Proof. unfold ret_unlock. destruct (mw _); repeat split. Qed.
Lemma mw_after_eval_env w t r : env_eq w (mw_after_eval w t r).
Proof. unfold mw_after_eval. destruct (nsync_mu_wait_with_deadline_store1_guard _ _); repeat split. Qed.

Ltac env_crunch :=
  repeat match goal with
  | |- context [after_inner ?w2 ?m ?r] =>
      let H := fresh "HE" in pose proof (after_inner_env w2 m r) as H; destruct (after_inner w2 m r); cbn [fst] in H
  | |- context [scan_from ?f ?w2 ?m ?u] =>
      let H := fresh "HE" in pose proof (scan_from_env m f w2 u) as H; destruct (scan_from f w2 m u); cbn [fst] in H
  | |- context [acquire ?w2 ?t ?m] =>
      let H := fresh "HE" in let wa := fresh "wa" in
      pose proof (acquire_env w2 t m) as H; set (wa := acquire w2 t m) in *; clearbody wa
  | |- context [ret_unlock ?w2 ?t] =>
      let H := fresh "HE" in let wa := fresh "wa" in
      pose proof (ret_unlock_env w2 t) as H; set (wa := ret_unlock w2 t) in *; clearbody wa
  | |- context [mw_after_eval ?w2 ?t ?r] =>
      let H := fresh "HE" in let wa := fresh "wa" in
      pose proof (mw_after_eval_env w2 t r) as H; set (wa := mw_after_eval w2 t r) in *; clearbody wa
  | |- context [round_end ?w2 ?u] => unfold round_end
  | |- context [cas ?w ?a ?b] => unfold cas
  | |- context [if ?b then _ else _] => destruct b
  | |- context [let '(_, _) := ?x in _] => destruct x
  | |- context [match ?x with _ => _ end] => destruct x
  end.
Ltac env_fin :=
  cbn [fst];
  repeat match goal with H : env_eq _ _ |- _ => destruct H as (? & ? & ?) end;
  simpl in *;
  repeat split; try (intros; congruence); try reflexivity.

Lemma step_thr_env w t c :
  let w' := fst (step_thr w t c) in
  clock w' = clock w /\ note w' = note w /\
  ((forall f a b, t_pc (get (begin_op w t) t) <> SetC f a b) -> pst w' = pst w).
Proof.
  cbv zeta. destruct (begin_op_env w t) as (B1 & B2 & B3). rewrite <- B1, <- B2, <- B3.
  unfold step_thr. set (wb := begin_op w t). clearbody wb. cbv zeta.
  destruct (t_pc (get wb t)); env_crunch; env_fin.
  intros H. exfalso. exact (H f a b eq_refl).
Qed.

(* the scan never touches the word or the thread states (no invariant needed) *)
Definition wt_eq (w w' : world) : Prop := word w' = word w /\ thr w' = thr w.
Lemma wt_trans a b c : wt_eq a b -> wt_eq b c -> wt_eq a c.
Proof. unfold wt_eq. intros (A1 & A2) (B1 & B2). split; congruence. Qed.
Lemma scan_from_wt m : forall fuel w u, wt_eq w (fst (scan_from fuel w m u)).
Proof.
  induction fuel as [|f IH]; intros w u; cbn [scan_from]; [split; reflexivity|].
  destruct (u_new u); [unfold finalize; cbn [fst]; split; reflexivity|].
  destruct (adjust_test w u n); [split; reflexivity|].
  destruct (inner w m _ _); [split; reflexivity|].
  destruct (round_end w (end_inner_set u0)) as [w2 u3] eqn:E.
  apply (wt_trans _ w2); [| apply IH].
  unfold round_end in E. injection E as <- _. split; reflexivity.
Qed.
Lemma after_inner_wt w m r : wt_eq w (fst (after_inner w m r)).
Proof.
  destruct r; cbn [after_inner]; [split; reflexivity|].
  destruct (u_test (end_inner_set u)); [split; reflexivity|].
  destruct (round_end w (end_inner_set u)) as [w2 u3] eqn:E.
  apply (wt_trans _ w2); [| apply scan_from_wt].
  unfold round_end in E. injection E as <- _. split; reflexivity.
Qed.


Definition not_mwload (p : pc) : Prop := p <> MwLoad.
Lemma inner_pc w m : forall rest u, match inner w m u rest with InPc p => p <> MwLoad | InEnd _ => True end.
Proof.
  induction rest as [|q tl IH]; intros u; cbn [inner]; [exact I|].
  destruct (u_wty u) as [[|]|]; [exact I | |];
    (destruct (wcond w q); [destruct (u_test u); discriminate | destruct (wakeable w u q); [discriminate | apply IH]]).
Qed.
Lemma scan_from_pc m : forall fuel w u, snd (scan_from fuel w m u) <> MwLoad.
Proof.
  induction fuel as [|f IH]; intros w u; cbn [scan_from]; [discriminate|].
  destruct (u_new u); [unfold finalize; cbn [snd]; discriminate|].
  destruct (adjust_test w u n); [discriminate|].
  match goal with |- context [inner ?a ?b ?c ?d] => pose proof (inner_pc a b d c) as K; destruct (inner a b c d) end; [exact K|].
  destruct (round_end w (end_inner_set u0)) as [w2 u3]. apply IH.
Qed.
Lemma after_inner_pc w m r : match r with InPc p => p <> MwLoad | InEnd _ => True end -> snd (after_inner w m r) <> MwLoad.
Proof.
  destruct r; cbn [after_inner]; [auto|]. intros _.
  destruct (u_test (end_inner_set u)); [discriminate|].
  destruct (round_end w (end_inner_set u)) as [w2 u3]. apply scan_from_pc.
Qed.
(* inside these pcs the thread is inside nsync_mu_wait_with_deadline *)
Definition needs_mw (p : pc) : bool :=
  match p with
  | MwLoad | MwEval | MwStoreWaiting | MwRcLoad | MwRelLoad | MwRelCas _ _ | MwLoadW1 | MwSemP | MwLoadW2 | MwLoadW3
  | MtLoad _ | MtCas1 _ | MtCas2 _ | MtLoadW _ | MtLoadRc _ | MtStoreW _ | MtStore2 _ | MtStore3 _
  | SpinLoad KWait _ | SpinCas KWait _ | RmLoad (KTry _) | RmCas (KTry _) _ => true
  | _ => false
  end.
Lemma pc_ok_mw s : pc_ok s -> needs_mw (t_pc s) = true -> mw s <> None.
Proof.
  unfold pc_ok. destruct (t_pc s); cbn [needs_mw]; try discriminate; try (destruct k; try discriminate);
    unfold try_frozen, mt_pre, in_mw; intros H _;
    repeat match goal with H : _ /\ _ |- _ => destruct H | H : exists _, _ |- _ => destruct H end; congruence.
Qed.

(* how one step of thread t changes its nsync_mu_wait_with_deadline locals (s before, s' after; wb the world before) *)
Definition mw_rel (wb : world) (s s' : tstate) : Prop :=
  t_pc s' <> MwLoad /\ (forall y, t_pc s = Crash y -> t_pc s' = Crash y) /\
  match mw s' with
  | Some x' => exists x, mw s = Some x /\
      mw_cond x' = mw_cond x /\ mw_eq x' = mw_eq x /\ mw_dl x' = mw_dl x /\ mw_canc x' = mw_canc x /\ mw_ent x' = mw_ent x /\
      ((t_pc s <> MwLoad /\ mw_mode x' = mw_mode x) \/
       (t_pc s = MwLoad /\ mw_mode x' = if negb (band (word wb) MU_RHELD_IF_NON_ZERO =? 0) then R else W) \/
       (exists y, t_pc s' = Crash y)) /\
      ((mw_semout x' = mw_semout x /\ mw_tmo x' = mw_tmo x) \/ (mw_semout x' = 0 /\ mw_tmo x' = mw_tmo x) \/
       (mw_semout x' = ETIMEDOUT /\ exists d, mw_dl x = Some d /\ d <= clock wb /\ mw_tmo x' = Some (clock wb)) \/
       (mw_semout x' = ECANCELED /\ mw_canc x = true /\ note wb = true /\ mw_tmo x' = mw_tmo x)) /\
      (mw_outcome x' = mw_outcome x \/ mw_outcome x' = mw_semout x)
  | None =>
      match mw s with
      | None => True
      | Some x =>      (* the call returns *)
          (t_pc s = MwLoad \/ t_pc s = MwEval) /\ held s' = held s /\
          exists res, res = cond_true wb (mw_cond x) /\
                      nsync_mu_wait_with_deadline_store1_guard (mw_outcome x) (b2z res) = false /\
                      last_ret s' = Some (if res then 0 else mw_outcome x)
      end
  end.

(* (the tactic of Part 3, which was local to its section) *)
Ltac ts_solve :=
  repeat lazymatch goal with
  | |- TS _ ?w0 ?w0 _ _ => apply TS_base
  | |- TS _ _ (set_pc _ _ _) _ _ => eapply TS_set_pc
  | |- TS _ _ (set_t _ _ _) _ _ => eapply TS_set_t
  | |- TS _ _ (set_word _ _) _ _ => eapply TS_set_word
  | |- TS _ _ (set_own _ _ _ _ _) _ _ => eapply TS_set_own
  | |- TS _ _ (set_held _ _ _) _ _ => eapply TS_set_held
  | |- TS _ _ (set_spin _ _ _) _ _ => eapply TS_set_spin
  | |- TS _ _ (set_mw _ _ _) _ _ => eapply TS_set_mw
  | |- TS _ _ (upd_mw _ _ _) _ _ => eapply TS_upd_mw
  | |- TS _ _ (released _ _) _ _ => eapply TS_released
  | |- TS _ _ (acquire _ _ _) _ _ => eapply TS_acquire
  | |- TS _ _ (ret_unlock _ _) _ _ => eapply TS_ret_unlock
  | |- TS _ _ (mw_return _ _ _) _ _ => eapply TS_mw_return
  | |- TS _ _ (mw_after_eval _ _ _) _ _ => eapply TS_mw_after_eval
  | |- TS _ _ (set_queue ?w _) _ _ => eapply (TS_world _ _ w); [| reflexivity | reflexivity]
  | |- TS _ _ (set_waiting ?w _ _) _ _ => eapply (TS_world _ _ w); [| reflexivity | reflexivity]
  | |- TS _ _ (set_sem ?w _ _) _ _ => eapply (TS_world _ _ w); [| reflexivity | reflexivity]
  | |- TS _ _ (set_winfo ?w _ _ _ _) _ _ => eapply (TS_world _ _ w); [| reflexivity | reflexivity]
  | |- TS _ _ (set_rcount ?w _ _) _ _ => eapply (TS_world _ _ w); [| reflexivity | reflexivity]
  | |- TS _ _ (set_rings ?w _) _ _ => eapply (TS_world _ _ w); [| reflexivity | reflexivity]
  | |- TS _ _ (set_pst ?w _ _ _) _ _ => eapply (TS_world _ _ w); [| reflexivity | reflexivity]
  | |- TS _ _ (add_ev ?w _) _ _ => eapply (TS_world _ _ w); [| reflexivity | reflexivity]
  | |- TS _ _ (log_eval ?w _ _ _ _) _ _ => eapply (TS_world _ _ w); [| reflexivity | reflexivity]
  | |- TS _ _ (w_merge ?w _ _) _ _ => eapply (TS_world _ _ w); [| reflexivity | reflexivity]
  end.

Ltac mw_crunch t :=
  repeat match goal with
  | |- context [cas ?w ?a ?b] => unfold cas
  | |- context [if ?b then _ else _] => destruct b eqn:?
  | |- context [after_inner ?w2 ?m ?r] =>
      let H := fresh "HW" in let K := fresh "HP" in
      pose proof (after_inner_wt w2 m r) as H;
      pose proof (after_inner_pc w2 m r ltac:(first [apply inner_pc | cbn; discriminate])) as K;
      destruct (after_inner w2 m r); cbn [fst snd] in H, K
  | |- context [scan_from ?f ?w2 ?m ?u] =>
      let H := fresh "HW" in let K := fresh "HP" in
      pose proof (scan_from_wt m f w2 u) as H; pose proof (scan_from_pc m f w2 u) as K;
      destruct (scan_from f w2 m u); cbn [fst snd] in H, K
  | |- context [round_end ?w2 ?u] => unfold round_end
  | |- context [let '(_, _) := ?x in _] => destruct x
  | |- context [match ?x with _ => _ end] => destruct x eqn:?
  end.

Ltac mw_leaf t wb Es Lb :=
  cbn [fst];
  repeat match goal with
         | H : context [get_mw ?W t] |- _ =>
             tryif constr_eq W wb then fail
             else (let E := fresh in eassert (E : TS t wb W _ _) by (ts_solve; exact Lb);
                   rewrite (TS_get_mw _ _ _ _ _ E) in H; clear E)
         end;
  lazymatch goal with
  | |- mw_rel _ _ (get ?W _) =>
      first [ constr_eq W wb
            | let H := fresh "HT" in
              eassert (H : TS t wb W _ _) by
                (first [ ts_solve; exact Lb
                       | eapply TS_set_pc; eapply TS_eq;
                         [ | match goal with HW : wt_eq _ _ |- _ => exact (proj1 HW) end
                           | match goal with HW : wt_eq _ _ |- _ => exact (proj2 HW) end ];
                         ts_solve; exact Lb ]);
              rewrite (TS_get _ _ _ _ _ H); clear H ]
  end;
  unfold get_mw, get in *; rewrite ?Es in *; unfold mw_of in *; cbn [t_pc t_ops held conv spin mw last_ret] in *.

Ltac rw_eqns :=
  repeat match goal with
         | H : ?b = true |- context [?b] => rewrite H
         | H : ?b = false |- context [?b] => rewrite H
         | H : mw_cond _ = _ |- context [mw_cond _] => rewrite H
         end.
Ltac mw_fin Hn :=
  try match goal with |- context [if ?g then _ else _] => destruct g eqn:? end;
  unfold mw_rel; cbn [t_pc t_ops held conv spin mw last_ret];
  (split; [ first [discriminate | assumption] | ]);
  (split; [ intros ? HH; first [discriminate HH | exact HH] | ]);
  match goal with mx : option mwl |- _ => destruct mx as [x|] | _ => idtac end;
  cbn [mw_mode mw_cond mw_eq mw_dl mw_canc mw_first mw_rc mw_hadw mw_semout mw_have mw_outcome mw_tmo mw_ent] in *;
  first [ exact I
        | exfalso; apply Hn; reflexivity
        | eexists; split; [reflexivity|];
          cbn [mw_mode mw_cond mw_eq mw_dl mw_canc mw_first mw_rc mw_hadw mw_semout mw_have mw_outcome mw_tmo mw_ent];
          rw_eqns;
          repeat (split; [solve [auto | left; split; [discriminate | reflexivity] | right; right; eexists; reflexivity]|]); solve [auto]
        | (* the call returns *)
          split; [solve [auto]|]; split; [reflexivity|]; eexists; split; [reflexivity|];
          simpl in *; rw_eqns; simpl; split; [solve [auto | congruence] | reflexivity]
        | (* the timed P of nsync_sem_wait_with_cancel_ expired / was cancelled *)
          match goal with xx : mwl |- _ => exists xx end; split; [reflexivity|];
          repeat (split; [solve [auto | left; split; [discriminate | reflexivity] | right; right; eexists; reflexivity]|]); split; [| solve [auto]];
          right; right;
          first [ left; split; [reflexivity|]; eexists; split; [eassumption|]; split; [apply Z.leb_le; assumption | reflexivity]
                | right; split; [reflexivity|];
                  match goal with H : _ && _ = true |- _ => apply andb_true_iff in H; destruct H end; auto ]
        | idtac ].

Lemma step_thr_mw w t c : (t < length (thr w))%nat ->
  (needs_mw (t_pc (get (begin_op w t) t)) = true -> mw (get (begin_op w t) t) <> None) ->
  mw_rel (begin_op w t) (get (begin_op w t) t) (get (fst (step_thr w t c)) t).
Proof.
  intros Lt Hn. assert (t < length (thr (begin_op w t)))%nat as Lb.
  { unfold begin_op. destruct (t_pc (get w t)); try exact Lt. destruct (t_ops (get w t)); try exact Lt.
    destruct (match o with OLock m => _ | _ => _ end) as [p x]. unfold set_t, set_thr; cbn [thr]. now rewrite length_lupd. }
  unfold step_thr. set (wb := begin_op w t) in *. clearbody wb. cbv zeta.
  destruct (get wb t) as [p ops h cv sp mx lr] eqn:Es. cbn [t_pc mw] in *.
  destruct p.
  all: mw_crunch t.
  all: mw_leaf t wb Es Lb.
  all: mw_fin Hn.
Qed.

(* ----- the invariant on the locals of nsync_mu_wait_with_deadline ----- *)
(* v (a value of sem_outcome / outcome) is justified *)
Definition J (w : world) (x : mwl) (v : Z) : Prop :=
  v = 0 \/
  (v = ETIMEDOUT /\ exists d ck, mw_dl x = Some d /\ mw_tmo x = Some ck /\ d <= ck <= clock w) \/
  (v = ECANCELED /\ mw_canc x = true /\ note w = true).
Definition mwok (w : world) (s : tstate) : Prop :=
  forall x, mw s = Some x ->
    J w x (mw_semout x) /\ J w x (mw_outcome x) /\
    (t_pc s = MwLoad -> held s = mw_ent x /\ held s <> None) /\
    (t_pc s <> MwLoad -> (forall y, t_pc s <> Crash y) -> mw_ent x = Some (mw_mode x)).
Definition MInv (n : nat) (w : world) : Prop := Inv n w /\ forall t, mwok w (get w t).

Lemma J_mono w w' x v : clock w <= clock w' -> (note w = true -> note w' = true) -> J w x v -> J w' x v.
Proof.
  intros C N [H | [(H & d & ck & A & B & D) | (H & A & B)]]; [left; exact H | right; left | right; right].
  - split; [exact H|]. exists d, ck. repeat split; auto; lia.
  - auto.
Qed.
Lemma mwok_env w w' s : clock w <= clock w' -> (note w = true -> note w' = true) -> mwok w s -> mwok w' s.
Proof.
  intros C N H x Hx. destruct (H x Hx) as (A & B & D). split; [eapply J_mono; eauto|]. split; [eapply J_mono; eauto | exact D].
Qed.

Lemma begin_op_minv n w t : MInv n w -> MInv n (begin_op w t).
Proof.
  intros [HI HM]. split; [now apply begin_op_inv|]. intros t'.
  destruct (begin_op_env w t) as (C & N & _).
  apply (mwok_env w); [lia | congruence |].
  destruct (Nat.eq_dec t' t) as [->|Ne]; [| rewrite begin_op_get_other by exact Ne; apply HM].
  specialize (HM t). unfold begin_op. destruct (t_pc (get w t)) eqn:Ep; try exact HM.
  destruct (t_ops (get w t)) as [|o rest] eqn:Eo; try exact HM.
  destruct (Nat.lt_ge_cases t (length (thr w))) as [L|L].
  2:{ assert (get w t = dflt_t) as E by (unfold get; now apply nth_overflow). rewrite E in Eo. discriminate Eo. }
  destruct (match o with OLock m => _ | _ => _ end) as [p x] eqn:Ex.
  unfold get at 1, set_t, set_thr; cbn [thr]. rewrite nth_lupd_same by exact L.
  intros y Hy. cbn [mw t_pc held] in *. subst x.
  destruct o as [m|m| | |f a b|c0 e d k], (held (get w t)) as [[|]|]; injection Ex as <- Ey; try discriminate Ey;
    subst y; cbn [mw_semout mw_outcome mw_ent mw_mode];
    (split; [left; reflexivity|]; split; [left; reflexivity|]; split; [intros _; split; [reflexivity | discriminate] | intros F; exfalso; apply F; reflexivity]).
Qed.

Lemma guard_false_res o : nsync_mu_wait_with_deadline_store1_guard o (b2z false) = false -> o <> 0.
Proof.
  unfold nsync_mu_wait_with_deadline_store1_guard. cbn [b2z]. change (znz 0) with false. cbn [negb].
  rewrite andb_true_r. intros H E. subst o. discriminate H.
Qed.

Lemma step_thr_minv n (Hn : Z.of_nat n < 16777215) w t c : MInv n w -> MInv n (fst (step_thr w t c)).
Proof.
  intros HM0. pose proof (begin_op_minv n w t HM0) as [HIb HMb]. destruct HM0 as [HI _].
  pose proof (step_thr_ok n Hn w t c HI) as (I' & _ & _ & E3).
  destruct (step_thr_env w t c) as (C & N & _). destruct (begin_op_env w t) as (Cb & Nb & _).
  split; [exact I'|]. intros t'.
  destruct (Nat.eq_dec t' t) as [->|Ne].
  2:{ rewrite (E3 t' Ne). apply (mwok_env (begin_op w t)); [lia | congruence | apply HMb]. }
  destruct (Nat.lt_ge_cases t (length (thr w))) as [L|L].
  2:{ assert (get (begin_op w t) t = dflt_t) as E.
      { unfold begin_op. rewrite (get_oob w t L). cbn [t_pc t_ops dflt_t]. apply get_oob; exact L. }
      assert (fst (step_thr w t c) = begin_op w t) as Ew by (unfold step_thr; cbv zeta; rewrite E; reflexivity).
      rewrite Ew, E. intros x Hx. discriminate Hx. }
  assert (needs_mw (t_pc (get (begin_op w t) t)) = true -> mw (get (begin_op w t) t) <> None) as Hnm.
  { apply pc_ok_mw. destruct HIb as (_ & _ & P). apply P. }
  pose proof (step_thr_mw w t c L Hnm) as (Hpc & Hcr & Hrel).
  specialize (HMb t). set (wb := begin_op w t) in *. set (w' := fst (step_thr w t c)) in *.
  intros x' Hx'. rewrite Hx' in Hrel.
  destruct Hrel as (x & Hx & _ & _ & Edl & Ecanc & Eent & Hmode & Hsem & Hout).
  destruct (HMb x Hx) as (J1 & J2 & EntL & EntN).
  assert (clock wb = clock w') as CC by lia.
  assert (note wb = note w') as NN by congruence.
  assert (J w' x' (mw_semout x')) as J1'.
  { destruct Hsem as [(E1 & E2) | [(E1 & E2) | [(E1 & d & Ed & Le & E2) | (E1 & Ec & Nt & E2)]]]; rewrite E1.
    - destruct J1 as [H | [(H & d & ck & A & B & D) | (H & A & B)]]; [left; exact H | right; left | right; right].
      + split; [exact H|]. exists d, ck. rewrite Edl, E2. repeat split; auto; lia.
      + rewrite Ecanc. split; [exact H|]. split; [exact A | congruence].
    - left; reflexivity.
    - right; left. split; [reflexivity|]. exists d, (clock wb). rewrite Edl, E2. repeat split; auto; lia.
    - right; right. rewrite Ecanc. split; [reflexivity|]. split; [exact Ec | congruence]. }
  assert (forall v, J wb x v -> J w' x' v) as Jtr.
  { intros v [H | [(H & d & ck & A & B & D) | (H & A & B)]]; [left; exact H | right; left | right; right].
    - split; [exact H|].
      destruct Hsem as [(E1 & E2) | [(E1 & E2) | [(E1 & d' & Ed & Le & E2) | (E1 & Ec & Nt & E2)]]].
      + exists d, ck. rewrite Edl, E2. repeat split; auto; lia.
      + exists d, ck. rewrite Edl, E2. repeat split; auto; lia.
      + exists d, (clock wb). rewrite Edl, E2. rewrite A in Ed. injection Ed as <-. repeat split; auto; lia.
      + exists d, ck. rewrite Edl, E2. repeat split; auto; lia.
    - rewrite Ecanc. split; [exact H|]. split; [exact A | congruence]. }
  split; [exact J1'|]. split; [destruct Hout as [-> | ->]; apply Jtr; assumption|].
  split; [intros F; contradiction|]. intros _ Ncr. rewrite Eent.
  destruct Hmode as [(Np & ->) | [(Ep & ->) | (y & Ey)]];
    [apply EntN; [exact Np | intros y Ey; apply (Ncr y), Hcr, Ey] | | exfalso; apply (Ncr y Ey)].
  destruct (EntL Ep) as [Eh Hne]. destruct (held (get wb t)) as [hm|] eqn:Ehm; [| congruence].
  pose proof (Inv_held n wb t hm HIb Ehm) as Hv.
  destruct (mode_of_word n wb hm (Inv_rng n wb HIb) Hv) as [_ ->]. congruence.
Qed.


Lemma step_minv n (Hn : Z.of_nat n < 16777215) w a : MInv n w -> MInv n (fst (step w a)).
Proof.
  intros H. destruct a as [t c|dt| |p]; cbn [step].
  - now apply step_thr_minv.
  - destruct (Z.leb_spec 0 dt); [| exact H]. destruct H as [HI HM]. split; [exact HI|].
    intros t. apply (mwok_env w); cbn [clock note set_clock fst]; [lia | auto | apply HM].
  - destruct H as [HI HM]. split; [exact HI|]. intros t. apply (mwok_env w); cbn [clock note set_note fst]; [lia | auto | apply HM].
  - destruct (note w); [| exact H]. destruct H as [HI HM]. split; [exact HI|]. intros t. apply HM.
Qed.
Lemma run_minv n (Hn : Z.of_nat n < 16777215) sched : forall w, MInv n w -> MInv n (run w sched).
Proof.
  unfold run. induction sched as [|a rest IH]; intros w H; cbn [fold_left]; [exact H|]. apply IH, step_minv; assumption.
Qed.
Lemma init_minv progs cl c0 : MInv (length progs) (init progs cl c0).
Proof.
  split; [apply init_finv|]. intros t x H. unfold init, get in H; cbn [thr] in H.
  change dflt_t with ((fun ops => mk_t Idle ops None false false None None) []) in H. rewrite map_nth in H. discriminate H.
Qed.
Lemma reachable_minv progs cl c0 sched :
  Z.of_nat (length progs) < 2 ^ 24 - 1 -> MInv (length progs) (run (init progs cl c0) sched).
Proof. intros H. apply run_minv; [exact H | apply init_minv]. Qed.

(* C05 at every return of nsync_mu_wait_with_deadline *)
Lemma C05_post_inv n (Hn : Z.of_nat n < 16777215) w t c x r : MInv n w -> mw_returns w t c x r -> C05_post w t c x r.
Proof.
  intros HM0 (Hx & Hx' & Hr). pose proof (begin_op_minv n w t HM0) as [HIb HMb]. destruct HM0 as [HI _].
  cbn [step] in Hx', Hr. unfold C05_post. cbn [step]. cbv zeta.
  destruct (step_thr_env w t c) as (C & N & P). destruct (begin_op_env w t) as (Cb & Nb & Pb).
  assert (t < length (thr w))%nat as L.
  { destruct (Nat.lt_ge_cases t (length (thr w))) as [|G]; [assumption|].
    assert (get (begin_op w t) t = dflt_t) as E.
    { unfold begin_op. rewrite (get_oob w t G). cbn [t_pc t_ops dflt_t]. apply get_oob; exact G. }
    rewrite E in Hx. discriminate Hx. }
  assert (needs_mw (t_pc (get (begin_op w t) t)) = true -> mw (get (begin_op w t) t) <> None) as Hnm.
  { apply pc_ok_mw. destruct HIb as (_ & _ & Q). apply Q. }
  pose proof (step_thr_mw w t c L Hnm) as (_ & _ & Hrel). rewrite Hx', Hx in Hrel.
  destruct Hrel as (Hp & Hh & res & Eres & Hg & Hlr).
  destruct (HMb t x Hx) as (J1 & J2 & EntL & EntN).
  set (wb := begin_op w t) in *. set (w' := fst (step_thr w t c)) in *.
  assert (pst w' = pst wb) as PP.
  { rewrite Pb. apply P. intros f a b E. fold wb in E. destruct Hp as [Hp | Hp]; rewrite Hp in E; discriminate E. }
  rewrite Hr in Hlr. injection Hlr as ->.
  assert (held (get wb t) = mw_ent x /\ mw_ent x <> None) as [Eh Ene].
  { destruct Hp as [Hp | Hp]; [destruct (EntL Hp) as [E1 E2]; split; [exact E1 | rewrite <- E1; exact E2]|].
    assert (mw_ent x = Some (mw_mode x)) as E by (apply EntN; intros; rewrite Hp; discriminate).
    destruct HIb as (_ & _ & Q). specialize (Q t). fold (get wb t) in Q. unfold pc_ok in Q. rewrite Hp in Q.
    destruct Q as (y & Hy & (A & _)). rewrite Hx in Hy. injection Hy as <-. rewrite A, E. split; [reflexivity | discriminate]. }
  split; [rewrite Hh; exact Eh|]. split; [exact Ene|].
  assert (cond_true w' (mw_cond x) = res) as Ec.
  { rewrite Eres. unfold cond_true. rewrite PP. reflexivity. }
  assert (res = false -> mw_outcome x <> 0) as Ho by (intros ->; now apply guard_false_res).
  assert (clock w' = clock wb) as CC by lia. assert (note w' = note wb) as NN by congruence.
  split; [rewrite Ec; destruct res; [split; reflexivity | split; [intros E; exfalso; apply (Ho eq_refl E) | discriminate]]|].
  destruct res.
  - split; [auto|]. split; intros E; discriminate E.
  - specialize (Ho eq_refl).
    destruct J2 as [H | [(H & d & ck & A & B & D) | (H & A & B)]]; [contradiction | |].
    + split; [auto|]. split; [intros _; exists d, ck; rewrite CC; auto | rewrite H; discriminate].
    + split; [auto|]. split; [rewrite H; discriminate | intros _; rewrite NN; auto].
Qed.
Lemma C05_post_reachable : forall progs cl c0 sched t c x r,
  Z.of_nat (length progs) < 2 ^ 24 - 1 ->
  mw_returns (run (init progs cl c0) sched) t c x r -> C05_post (run (init progs cl c0) sched) t c x r.
Proof. intros. apply (C05_post_inv (length progs)); [assumption | now apply reachable_minv | assumption]. Qed.

(* ================================================================== *)
(* Part 6: non-vacuity examples                                        *)
(* ================================================================== *)
Definition exT (t : nat) : actor := Thr t CNormal.
(* T0 waits in read mode on a false condition, T1 is a second reader, T2 a writer that sets the condition *)
Definition ex_progsA : list (list op) :=
  [[OLock R; OMuWait (Some (0%nat, 0%nat)) false None false; OUnlock]; [OLock R; OUnlock];
   [OLock W; OSetCond 0 0 true; OUnlock]].
Definition ex_schedA : list actor := [exT 0] ++ repeat (exT 1) 3 ++ repeat (exT 0) 8 ++ repeat (exT 1) 6.
(* T0 waits in write mode with deadline 5 on a condition nobody makes true *)
Definition ex_progsB : list (list op) :=
  [[OLock W; OMuWait (Some (0%nat, 0%nat)) false (Some 5) false; OUnlock]; [OLock R; OUnlock]].
Definition ex_schedB : list actor := repeat (exT 0) 10 ++ [Tick 10; Thr 0 CTimeout] ++ repeat (exT 0) 3.

(* the last reader has converted itself to a writer and is about to evaluate T0's condition *)
Lemma example_converted : exists progs sched,
  let w := run (init progs (fun a => a) 0) sched in
  holds w 1%nat W /\ conv (get w 1%nat) = true /\ (exists m u, t_pc (get w 1%nat) = UsEval m u /\ u_rest u = [0%nat]) /\
  is_eval (snd (step w (exT 1))) = true /\ excl w.
Proof.
  exists ex_progsA, ex_schedA. cbv zeta.
  split; [vm_compute; reflexivity|]. split; [vm_compute; reflexivity|].
  split; [vm_compute; eexists; eexists; split; reflexivity|]. split; [vm_compute; reflexivity|].
  apply excl_reachable. vm_compute. reflexivity.
Qed.
(* ... and once a writer has made the condition true and unlocked, the waiter returns 0 holding the read lock again *)
Lemma example_wait_returns : exists progs sched,
  let w := run (init progs (fun a => a) 0) sched in
  last_ret (get w 0%nat) = Some 0 /\ holds w 0%nat R /\ pst w 0%nat 0%nat = true.
Proof.
  exists ex_progsA, (ex_schedA ++ repeat (exT 1) 8 ++ repeat (exT 2) 33 ++ repeat (exT 0) 4). cbv zeta.
  split; [vm_compute; reflexivity|]. split; vm_compute; reflexivity.
Qed.
(* a timed-out waiter inside the frozen window of mu_try_acquire_after_timeout_or_cancel *)
Lemma example_frozen : exists progs sched old,
  let w := run (init progs (fun a => a) 0) sched in
  frozen_old (t_pc (get w 0%nat)) = Some old /\ queue w = [0%nat] /\ frozen w.
Proof.
  exists ex_progsB, ex_schedB, 20. cbv zeta.
  split; [vm_compute; reflexivity|]. split; [vm_compute; reflexivity|].
  apply frozen_reachable. vm_compute. reflexivity.
Qed.
(* ... which then returns ETIMEDOUT holding the write lock *)
Definition ex_x : mwl := mk_mw W (Some (0%nat, 0%nat)) false (Some 5) false false 0 false ETIMEDOUT true ETIMEDOUT (Some 10) (Some W).
Lemma example_timeout_return : exists progs sched x,
  let w := run (init progs (fun a => a) 0) sched in
  mw_returns w 0%nat CNormal x ETIMEDOUT /\ C05_post w 0%nat CNormal x ETIMEDOUT.
Proof.
  exists ex_progsB, (ex_schedB ++ repeat (exT 0) 8), ex_x. cbv zeta.
  assert (mw_returns (run (init ex_progsB (fun a => a) 0) (ex_schedB ++ repeat (exT 0) 8)) 0%nat CNormal ex_x ETIMEDOUT) as H
    by (split; [vm_compute; reflexivity | split; vm_compute; reflexivity]).
  split; [exact H|]. apply C05_post_reachable; [vm_compute; reflexivity | exact H].
Qed.

(* ================================================================== *)
(* Part 7: the MU_ALL_FALSE bit, site by site (C06_allfalse, partial)  *)
(* ================================================================== *)
Definition af (x : Z) : bool := Z.testbit x 7.

Lemma has_af x : has x MU_ALL_FALSE = af x.
Proof.
  unfold has, band, af. change MU_ALL_FALSE with (2 ^ 7).
  assert (Z.land x (2 ^ 7) = if Z.testbit x 7 then 2 ^ 7 else 0) as E.
  { apply Z.bits_inj'. intros k Hk. rewrite Z.land_spec, Z.pow2_bits_eqb by lia.
    destruct (Z.eqb_spec 7 k) as [<-|N].
    - rewrite andb_true_r. destruct (Z.testbit x 7) eqn:T; [symmetry; apply Z.pow2_bits_true; lia | symmetry; apply Z.bits_0].
    - rewrite andb_false_r. destruct (Z.testbit x 7); [symmetry; apply Z.pow2_bits_false; lia | symmetry; apply Z.bits_0]. }
  rewrite E. destruct (Z.testbit x 7); reflexivity.
Qed.
Lemma af_wrap y : af (wrap_u 32 y) = af y.
Proof. unfold af, wrap_u. apply Z.mod_pow2_bits_low. lia. Qed.
Lemma af_land x m : af (Z.land x m) = af x && af m.   Proof. apply Z.land_spec. Qed.
Lemma af_lor x m : af (Z.lor x m) = af x || af m.     Proof. apply Z.lor_spec. Qed.
Lemma af_compl k : 0 <= k < 4294967296 -> af (4294967295 - k) = negb (af k).
Proof.
  intros R. unfold af. change 4294967295 with (Z.ones 32).
  rewrite Z.sub_nocarry_ldiff.
  - rewrite Z.ldiff_spec, Z.ones_spec_low by lia. reflexivity.
  - apply Z.bits_inj'. intros i Hi. rewrite Z.ldiff_spec, Z.bits_0.
    destruct (Z.ltb_spec i 32).
    + rewrite Z.ones_spec_low by lia. apply andb_false_r.
    + rewrite (Z.bits_above_log2 k i); [reflexivity | lia |].
      destruct (Z.eq_dec k 0) as [->|]; [cbn; lia|].
      assert (Z.log2 k < 32) by (apply Z.log2_lt_pow2; lia). lia.
Qed.
Lemma af_wrap_compl k : af (4294967295 - wrap_u 32 k) = negb (af k).
Proof. rewrite af_compl by apply wrap32_rng. now rewrite af_wrap. Qed.
Lemma af_sub1 x : x mod 2 = 1 -> af (x - 1) = af x.
Proof.
  intros H. unfold af. rewrite !Z.testbit_eqb by lia. change (2 ^ 7) with 128.
  f_equal. lia.
Qed.

(* every enqueue clears MU_ALL_FALSE *)
Lemma af_lock_slow_enqueue old lw m c : has (nsync_mu_lock_slow_cas2_new old lw (lt_of m) c) MU_ALL_FALSE = false.
Proof.
  rewrite has_af, lock_slow_cas2_new_eq, af_wrap, af_land, af_wrap_compl, af_lor.
  change (af 128) with true. rewrite orb_true_r. apply andb_false_r.
Qed.
Lemma af_wait_enqueue old st : has (nsync_spin_test_and_set_cas1_new old st MU_ALL_FALSE) MU_ALL_FALSE = false.
Proof.
  rewrite has_af, spin_tas_new_eq, af_wrap, af_land. change MU_ALL_FALSE with 128.
  rewrite af_compl by lia. change (af 128) with true. apply andb_false_r.
Qed.
(* nsync_mu_unlock (write mode) clears it on every path that releases the lock without scanning ... *)
Lemma af_unlock_fast : has nsync_mu_unlock_cas1_new MU_ALL_FALSE = false.
Proof. reflexivity. Qed.
Lemma af_unlock_cas2 old : has (nsync_mu_unlock_cas2_new old) MU_ALL_FALSE = false.
Proof.
  rewrite has_af, (unlock_new2_eq W old : nsync_mu_unlock_cas2_new old = _), af_wrap, af_land.
  rewrite af_compl by lia. change (af 128) with true. apply andb_false_r.
Qed.
Lemma af_unlock_slow_cas1_W old : has (nsync_mu_unlock_slow_cas1_new old (lt_of W)) MU_ALL_FALSE = false.
Proof.
  rewrite has_af, (unlock_slow_cas1_new_eq old W), af_wrap, af_land.
  rewrite af_compl by lia. change (af 128) with true. apply andb_false_r.
Qed.
(* ... while nsync_mu_unlock_without_wakeup and nsync_mu_runlock leave it as it is *)
Lemma af_unlock_nowakeup_cas2 old : rng old -> old mod 2 = 1 ->
  has (nsync_mu_unlock_without_wakeup_cas2_new old) MU_ALL_FALSE = has old MU_ALL_FALSE.
Proof. intros R H. rewrite !has_af, uw_new2_eq, af_wrap. now apply af_sub1. Qed.
Lemma af_runlock_cas2 old : has (nsync_mu_runlock_cas2_new old) MU_ALL_FALSE = has old MU_ALL_FALSE.
Proof.
  rewrite !has_af. change (nsync_mu_runlock_cas2_new old) with (wrap_u 32 (old - 256)). rewrite af_wrap.
  unfold af. rewrite !Z.testbit_eqb by lia. change (2 ^ 7) with 128. f_equal. lia.
Qed.
(* the last CAS of nsync_mu_unlock_slow_ decides the bit from what the scan found, whatever the word held before:
   set iff the scan kept MU_ALL_FALSE in set_on_release (every waiter it looked at had a false condition, it looked at all
   of them, and it left no unconditional or runnable waiter behind) and some waiter remains queued *)
Lemma af_finalize w m u old : rng old -> (u_late u = 0 \/ (u_late u = MU_WLOCK /\ old mod 2 = 1)) -> 0 <= u_set u < 256 ->
  match snd (finalize w m u) with
  | UsRelLoad _ f _ =>
      has (nsync_mu_unlock_slow_cas3_new old (late f) (set_on f) (clear_on f)) MU_ALL_FALSE =
      has (u_set u) MU_ALL_FALSE && match u_done u with [] => false | _ => true end
  | _ => False
  end.
Proof.
  intros R HL Rs. unfold finalize. cbn [snd late set_on clear_on].
  rewrite !has_af, unlock_slow_cas3_new_eq, af_wrap, af_land, af_wrap, af_lor.
  assert (af (wrap_u 32 (old - u_late u)) = af old) as E.
  { rewrite af_wrap. destruct HL as [-> | [-> H]]; [now rewrite Z.sub_0_r | now apply af_sub1]. }
  rewrite E.
  assert (forall c, 0 <= c < 256 -> af (4294967295 - c) = negb (af c)) as K by (intros; apply af_compl; lia).
  assert (has (u_set u) MU_ALL_FALSE = af (u_set u)) as Hs by apply has_af. unfold has in Hs.
  destruct (u_wake u), (u_done u); destruct (band (u_set u) MU_ALL_FALSE =? 0) eqn:B; cbn [negb] in Hs; rewrite <- Hs;
    cbv beta iota; rewrite K by (vm_compute; split; [discriminate | reflexivity]);
    match goal with |- context [af ?c] => let v := eval vm_compute in (af c) in change (af c) with v end;
    cbn [negb]; rewrite ?andb_false_r, ?andb_true_r, ?orb_false_r, ?orb_true_r; reflexivity.
Qed.
