(* NoteProof14: the in-call form of C09's progress statement (fourth review, LOW): when some thread is INSIDE a call and not in
   nsync_note_wait's semaphore wait, some thread INSIDE a call takes a world-changing step (`live`), which is what the ranking proof
   establishes; C09_no_stuck_strong's conclusion (an unfinished thread changes the world) is also met by a thread that merely begins
   its next call. *)
From NsyncBase Require Import CSem.
From NsyncModel Require Import NoteModel.
From NsyncProof Require Import NoteProof NoteProof2 NoteProof3 NoteProof4 NoteProof5 NoteProof6 NoteProof7 NoteProof8 NoteProof9 NoteProof10 NoteProof11 NoteProof12 NoteProof13.
From Coq Require Import List ZArith Bool Lia.
Import ListNotations.

Theorem no_stuck_incall w : reachable w -> broken (gh w) = false ->
  (exists t f rest, stk w t = f :: rest /\ ~ (exists n dl d rest', stk w t = AWait n dl (S1 d) :: rest')) ->
  live w.
Proof.
  intros R B (t & f & rest & Hst & Hns).
  pose proof (InvC_reachable w R) as C. pose proof (InvS_reachable w R B) as S.
  pose proof (InvA_reachable w R) as I. pose proof (InvT_reachable w R) as T.
  apply progress_live; auto. apply (incall_progress w C B S t f rest Hst).
  intros n dl d ->. apply Hns. eauto.
Qed.
