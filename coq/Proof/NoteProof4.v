(* NoteProof4: private notes, the client contract and the theorems behind Properties_C09.v (continues Proof/NoteProof3.v). *)
From Coq Require Import String.
From NsyncBase Require Import CSem.
From NsyncGen Require Import Consts Sites.
From NsyncModel Require Import NoteModel.
From NsyncProof Require Import NoteProof NoteProof2 NoteProof3.
From Coq Require Import List ZArith Bool Lia Arith.
Import ListNotations.
Local Open Scope Z_scope.

(* a note nobody can reach through the tree *)
Definition isolated (w : world) (x : nat) : Prop := (x < nnext w)%nat /\ parent (nt w x) = None /\ children (nt w x) = [].

Lemma par_lt w : InvA w -> forall m p, (m < nnext w)%nat -> parent (nt w m) = Some p -> (p < nnext w)%nat.
Proof. intros I m p Hm Hp. destruct (ia_par _ I m p Hm Hp). auto. Qed.

Lemma lref_lt w t x : InvA w -> (forall f, In f (stk w t) -> fokU w f) -> lref_of w t x -> (x < nnext w)%nat.
Proof. intros I Fk (g & Hg & Hx). eapply lrefs_lt; eauto using ia_fok, par_lt. Qed.

Lemma no_new_ref w t c x :
  InvA w -> tree_ok w -> (forall f, In f (stk w t) -> fokU w f) ->
  isolated w x -> ~ lref_of w t x -> ~ lref_of (fst (step1 w t c)) t x.
Proof.
  intros I (T1 & T2 & _) Fk (Hx & Hp & Hc) Hn H.
  destruct (step1_lrefs w t c x (ia_shape _ I t) H) as [H1|[(m & _ & Hm & [Hr|Hr])|H1]].
  - auto.
  - pose proof (lref_lt w t m I Fk Hm) as Hml. specialize (T1 m x Hml Hr). rewrite Hc in T1. destruct T1.
  - pose proof (lref_lt w t m I Fk Hm) as Hml. specialize (T2 m x Hml Hr). congruence.
  - lia.
Qed.

Lemma isolated_keep w t c x :
  InvA w -> InvH w -> tree_ok w -> (forall f, In f (stk w t) -> fokU w f) ->
  isolated w x -> ~ lref_of w t x -> prot_same (nt (fst (step1 w t c)) x) (nt w x).
Proof.
  intros I H T Fk Iso Hn.
  destruct (step1_guard2 w t c x) as [G|[(f & Hf & [G|(n & s & ->)])|[[G1 G2]|[(par & dl & p & e & G)|G]]]]; auto; exfalso.
  - apply Hn. exists f. split; [apply top_In; auto|apply owns_lrefs; auto].
  - apply Hn. eexists. split; [apply top_In; eauto|cbn; auto].
  - pose proof (InvH_step1 w t c I H) as H'. apply (ih_own _ H') in G2. unfold owned in G2. apply in_flat_map in G2.
    destruct G2 as (g & Hg & Hx). eapply (no_new_ref w t c x); eauto. exists g. split; auto using owns_lrefs.
  - apply Hn. eexists. split; [apply top_In; eauto|cbn; destruct par; cbn; auto].
  - destruct Iso. lia.
Qed.

(* ------------------------------------------------------------------------------------------------ *)
(* Private notes: under construction, or retired (their free () is next, or has run) *)
Definition unlinked (s : newst) (x : nat) : Prop := s = WD x \/ exists p e, s = W2 x p e \/ s = W3 x p e.
Record priv_ok (w : world) : Prop := mk_priv {
  p_uc : uc_priv w;
  p_ucf : forall t par dl s x, In (ANew par dl s) (stk w t) -> uc_of (ANew par dl s) = Some x ->
          children (nt w x) = [] /\ (unlinked s x -> parent (nt w x) = None) /\
          (forall p, s = W4 x p -> parent (nt w x) = None \/ parent (nt w x) = Some p);
  p_ret : forall t par x, In (FF x F13 par) (stk w t) -> isolated w x /\ forall t', t' <> t -> ~ lref_of w t' x;
  p_dead : forall x, In x (freed (gh w)) -> isolated w x /\ forall t, ~ lref_of w t x;
  p_k1 : forall t t' n s par, t <> t' -> In (FF n s par) (stk w t) -> call_note (stk w t') <> Some n }.
Record InvU (w : world) : Prop := mk_InvU {
  iu_tree : tree_ok w;
  iu_fr : forall t f, In f (stk w t) -> fokU w f;
  iu_disc : disc_ok w;
  iu_priv : priv_ok w }.

(* the call a frame belongs to *)
Lemma bottom_of st g : shape st -> In g st -> bottom_ok g -> bottom st = Some g.
Proof.
  induction st as [|f r IH]; intros Sh Hin Hb; [destruct Hin|].
  destruct Hin as [->|Hin].
  - rewrite (shape_bottom _ _ Sh Hb). reflexivity.
  - destruct r as [|h r']; [destruct Hin|]. cbn [bottom]. apply IH; auto. eapply shape_tail; eauto.
Qed.
Lemma call_note_bottom st g n : shape st -> In g st -> bottom_ok g -> frame_note g = Some n -> call_note st = Some n.
Proof. intros Sh Hin Hb Hn. unfold call_note. rewrite (bottom_of st g Sh Hin Hb). exact Hn. Qed.
(* a frame of nsync_note_notified_deadline_ / notify / a top-level note_notify_child works on the note the call names,
   or on the note the thread's nsync_note_new is constructing *)
Definition own_target (f : frame) (n : nat) : Prop :=
  match f with FD m _ => m = n | FN m _ _ _ => m = n | FC m None _ => m = n | _ => False end.
Lemma own_target_call st f n :
  shape st -> In f st -> own_target f n -> call_note st = Some n \/ exists g, In g st /\ uc_of g = Some n.
Proof.
  revert f. induction st as [|g r IH]; intros f Sh Hin Ht; [destruct Hin|].
  assert (forall f', In f' r -> own_target f' n -> call_note (g :: r) = Some n \/ exists g0, In g0 (g :: r) /\ uc_of g0 = Some n) as Rec.
  { intros f' Hf' Ht'. destruct r as [|h r']; [destruct Hf'|].
    destruct (IH f' (shape_tail _ _ Sh) Hf' Ht') as [E|(g0 & Hg0 & E)]; [left|right; exists g0; split; [right|]; auto].
    unfold call_note in *. cbn [bottom]. exact E. }
  destruct Hin as [->|Hin]; [|eauto].
  destruct r as [|h r'].
  - cbn in Sh. destruct f; cbn in Sh, Ht; try contradiction.
  - pose proof Sh as Sh0. cbn in Sh. destruct Sh as [L Sh'].
    destruct f; cbn in Ht; try contradiction.
    + (* FD above an API frame *) subst n0.
      destruct h; cbn in L; try contradiction; try (destruct s0; try contradiction); subst.
      * left; eapply call_note_bottom; [exact Sh0 | right; left; reflexivity | exact Logic.I | reflexivity].
      * left; eapply call_note_bottom; [exact Sh0 | right; left; reflexivity | exact Logic.I | reflexivity].
      * right. eexists. split; [right; left; reflexivity|reflexivity].
      * left; eapply call_note_bottom; [exact Sh0 | right; left; reflexivity | exact Logic.I | reflexivity].
      * left; eapply call_note_bottom; [exact Sh0 | right; left; reflexivity | exact Logic.I | reflexivity].
      * left; eapply call_note_bottom; [exact Sh0 | right; left; reflexivity | exact Logic.I | reflexivity].
    + (* FN above FD or ANotify *) subst n0.
      destruct h; cbn in L; try contradiction; try (destruct s0; try contradiction); subst.
      * eapply Rec; [left; reflexivity|reflexivity].
      * left; eapply call_note_bottom; [exact Sh0 | right; left; reflexivity | exact Logic.I | reflexivity].
    + (* FC n None above FN n N9 None *) destruct par; try contradiction. subst n0.
      destruct h; cbn in L; try contradiction; try (destruct s0; try contradiction); destruct L as [-> E]; try discriminate.
      eapply Rec; [left; reflexivity|reflexivity].
Qed.

(* The heart of C09_no_uaf: when nsync_note_free (x) is about to release x's lock for the last time, no other thread has a
   live pointer to x. *)
Lemma retire_unref w t x par t' g :
  InvA w -> InvH w -> InvU w -> In (FF x F12 par) (stk w t) -> t' <> t -> In g (stk w t') -> ~ In x (lrefs g).
Proof.
  intros I H U Hf Ht Hg Hx.
  destruct U as [(T1 & T2 & _) Fk _ P].
  pose proof (Fk _ _ Hf) as F12f. cbn in F12f. destruct F12f as ((Hpar & Hchl) & _).
  assert (lock (nt w x) = Some t) as Hlk by (apply (ih_own _ H); eapply owns_owned; eauto; cbn; auto).
  assert (forall y, In y (owns g) -> y <> x) as NotOwned.
  { intros y Hy ->. assert (lock (nt w x) = Some t') by (apply (ih_own _ H); eapply owns_owned; eauto). congruence. }
  assert (forall m, (m < nnext w)%nat -> parent (nt w m) <> Some x) as NoChild.
  { intros m Hm E. specialize (T1 m x Hm E). rewrite Hchl in T1. destruct T1. }
  assert (forall m, (m < nnext w)%nat -> ~ In x (children (nt w m))) as NotChild.
  { intros m Hm E. specialize (T2 m x Hm E). congruence. }
  assert (call_note (stk w t') <> Some x) as K by (eapply (p_k1 _ P t t'); eauto).
  assert (forall f, In f (stk w t') -> uc_of f <> Some x) as NoUc.
  { intros f Hf' E. eapply (p_uc _ P t' f x Hf' E t (FF x F12 par)); auto. cbn. auto. }
  assert (forall f, In f (stk w t') -> own_target f x -> False) as NoOwn.
  { intros f Hf' Ho. destruct (own_target_call _ f x (ia_shape _ I t') Hf' Ho) as [E|(g0 & Hg0 & E)]; [auto|eapply NoUc; eauto]. }
  assert (forall f n, In f (stk w t') -> bottom_ok f -> frame_note f = Some n -> n <> x) as NoBottom.
  { intros f n Hf' Hb Hn ->. apply K. eapply call_note_bottom; eauto using ia_shape. }
  pose proof (Fk _ _ Hg) as FU. pose proof (ia_fok _ I _ _ Hg) as FA.
  destruct g as [n s|n s par' inc|n par' s|n s par'|n|n|par' dl s|n dl s|n]; cbn [lrefs] in Hx.
  - (* FD *) destruct Hx as [->|[]]. eapply NoOwn; eauto. reflexivity.
  - (* FN *) destruct Hx as [->|Hx]; [eapply NoOwn; eauto; reflexivity|].
    destruct par' as [p|]; [|destruct s; cbn in Hx; destruct Hx].
    cbn in FU, FA. destruct FU as (_ & _ & _ & Fp). destruct FA as (Hn & _).
    assert (p = x) as -> by (destruct s; cbn in Hx; try destruct Hx as [->|[]]; try contradiction; reflexivity).
    destruct s; cbn in Hx; try contradiction.
    + eapply NoChild; [exact Hn | apply Fp; tauto].
    + eapply NoChild; [exact Hn | apply Fp; tauto].
    + eapply NoChild; [exact Hn | apply Fp; tauto].
    + eapply NoChild; [exact Hn | apply Fp; tauto].
    + eapply (NotOwned x); cbn; auto.
    + eapply (NotOwned x); cbn; auto.
  - (* FC *) cbn in FU, FA. destruct FU as (Fp & Fl). destruct FA as (Hn & _ & _ & Fc).
    destruct Hx as [->|Hx].
    + destruct par' as [p|].
      * specialize (Fp p eq_refl). congruence.
      * eapply NoOwn; eauto. reflexivity.
    + apply in_app_or in Hx. destruct Hx as [Hx|Hx].
      * destruct par' as [p|]; [|destruct Hx]. destruct Hx as [->|[]]. eapply NoChild; eauto.
      * destruct s; cbn in Hx; try contradiction.
        -- destruct Fl as (Hc & Hnx & _). destruct Hx as [->|Hx]; [eapply NotChild; eauto|].
           destruct nx as [c'|]; [|destruct Hx]. destruct Hx as [->|[]]. eapply NotChild; eauto.
        -- destruct Fl as (Hc & Hnx & _). destruct Hx as [->|Hx]; [eapply NotChild; eauto|].
           destruct nx as [c'|]; [|destruct Hx]. destruct Hx as [->|[]]. eapply NotChild; eauto.
        -- destruct Hx as [->|Hx]; [eapply (NotOwned x); cbn; auto|].
           destruct nx as [c'|]; [|destruct Hx]. destruct Hx as [->|[]]. eapply NotChild; eauto.
  - (* FF *) cbn in FU, FA. destruct FU as (Fp & Fl & _). destruct FA as (Hn & _ & Fc).
    destruct Hx as [->|Hx]; [eapply NoBottom; eauto; cbn; auto|].
    apply in_app_or in Hx. destruct Hx as [Hx|Hx].
    + destruct par' as [p|]; [|destruct s; cbn in Hx; destruct Hx].
      assert (p = x) as -> by (destruct s; cbn in Hx; try destruct Hx as [->|[]]; try contradiction; reflexivity).
      destruct s; cbn in Hx; try contradiction; try (destruct Fp as [Fp _]; eapply NoChild; [exact Hn | apply Fp; reflexivity]).
      eapply (NotOwned x); cbn; auto.
    + destruct s; cbn in Hx; try contradiction.
      all: try (destruct Fl as (Hc & Hnx & _); destruct Hx as [->|Hx]; [eapply NotChild; eauto|];
                destruct nx as [c'|]; [|destruct Hx]; destruct Hx as [->|[]]; eapply NotChild; eauto).
      destruct Hx as [->|Hx]; [eapply (NotOwned x); cbn; auto|].
      destruct nx as [c'|]; [|destruct Hx]. destruct Hx as [->|[]]. eapply NotChild; eauto.
  - destruct Hx as [->|[]]. eapply NoBottom; eauto; cbn; auto.
  - destruct Hx as [->|[]]. eapply NoBottom; eauto; cbn; auto.
  - (* ANew *) cbn in FA. destruct FA as (Fp & _ & Fs).
    apply in_app_or in Hx. destruct Hx as [Hx|Hx].
    + destruct par' as [p|]; [|destruct Hx]. destruct Hx as [->|[]]. eapply NoBottom; eauto; cbn; auto.
    + destruct s; cbn in Hx; try contradiction.
      * destruct Hx as [->|[]]. eapply NoUc; [exact Hg|reflexivity].
      * destruct Fs as (_ & _ & _ & _ & ->). destruct Hx as [->|[->|[]]]; [eapply NoUc; [exact Hg|reflexivity]|eapply NoBottom; [exact Hg|exact Logic.I|reflexivity|reflexivity]].
      * destruct Fs as (_ & _ & _ & _ & ->). destruct Hx as [->|[->|[]]]; [eapply NoUc; [exact Hg|reflexivity]|eapply NoBottom; [exact Hg|exact Logic.I|reflexivity|reflexivity]].
      * destruct Fs as (_ & ->). destruct Hx as [->|[->|[]]]; [eapply NoUc; [exact Hg|reflexivity]|eapply NoBottom; [exact Hg|exact Logic.I|reflexivity|reflexivity]].
  - destruct Hx as [->|[]]. eapply NoBottom; eauto; cbn; auto.
  - destruct Hx as [->|[]]. eapply NoBottom; eauto; cbn; auto.
Qed.

(* small facts about the stepping thread's stack *)
Lemma step1_FF_persist w t c n s par :
  shape (stk w t) -> In (FF n s par) (stk (fst (step1 w t c)) t) ->
  (exists s0 par0, In (FF n s0 par0) (stk w t)) /\
  (s = F13 -> stk w t = [FF n F12 par] /\ parent (nt (fst (step1 w t c)) n) = parent (nt w n) /\
              children (nt (fst (step1 w t c)) n) = children (nt w n)).
Proof.
  intros Sh. remember (fst (step1 w t c)) as w' eqn:Hw'. revert Hw'. unfold stk in Sh.
  leaves.
  all: intros ->; cbn [fst] in *.
  all: change (stk w t) with (stack (thr w t)); rewrite ?Hst.
  all: try (unfold stk; rewrite Hst; intros []).
  all: bottom_nil Sh.
  all: rets Sh.
  all: rewrite ?stk_setst, ?stk_finish.
  all: intros Hin; cbn [In] in Hin.
  all: try contradiction.
  all: repeat match goal with H : _ \/ _ |- _ => destruct H as [H|H] end; try contradiction; try discriminate.
  all: try (inversion Hin; subst).
  all: split; [try solve [do 2 eexists; cbn [In]; eauto 6] | intros E; try discriminate E].
  all: try solve [split; [reflexivity|]; unfold nt; nsimpl; auto].
  (* an FF frame deeper in the stack: it is the bottom frame, the top is its callee *)
  all: try solve [do 2 eexists; right; eassumption].
  all: try solve [exfalso; subst;
                  match goal with Hi : In (FF _ F13 _) ?l |- _ =>
                    let Hc := fresh in
                    assert (Hc : incall (FF n F13 par)) by (eapply shape_incall; [|exact Hi]; first [exact Sh | eapply shape_tail; exact Sh | eapply shape_tail; eapply shape_tail; exact Sh]);
                    exact Hc end].
Qed.

Lemma step1_callnote w t c :
  shape (stk w t) -> stk (fst (step1 w t c)) t = [] \/ call_note (stk (fst (step1 w t c)) t) = call_note (stk w t).
Proof.
  intros Sh. remember (fst (step1 w t c)) as w' eqn:Hw'. revert Hw'. unfold stk in Sh.
  leaves.
  all: intros ->; cbn [fst] in *.
  all: try (right; reflexivity).
  all: change (stk w t) with (stack (thr w t)); rewrite ?Hst.
  all: bottom_nil Sh.
  all: rets Sh.
  all: rewrite ?stk_setst, ?stk_finish.
  all: try (left; reflexivity).
  all: right; unfold call_note; cbn [bottom frame_note]; try reflexivity.
  all: try (match goal with |- context [match ?l with [] => _ | _ :: _ => _ end] => is_var l; destruct l; reflexivity end).
Qed.

Lemma gh_finish w t o r : freed (gh (finish w t o r)) = freed (gh w) /\ broken (gh (finish w t o r)) = broken (gh w) /\ nthr (finish w t o r) = nthr w.
Proof. unfold finish. destruct o, r; cbn; auto. Qed.
Lemma gh_ret_D w t r v : freed (gh (ret_D w t r v)) = freed (gh w) /\ broken (gh (ret_D w t r v)) = broken (gh w) /\ nthr (ret_D w t r v) = nthr w.
Proof. unfold ret_D. split_match; cbn; auto; apply gh_finish. Qed.
Lemma gh_ret_N w t r : freed (gh (ret_N w t r)) = freed (gh w) /\ broken (gh (ret_N w t r)) = broken (gh w) /\ nthr (ret_N w t r) = nthr w.
Proof. unfold ret_N. split_match; cbn; auto; first [apply gh_ret_D | apply gh_finish]. Qed.
Lemma gh_ret_C w t r : freed (gh (ret_C w t r)) = freed (gh w) /\ broken (gh (ret_C w t r)) = broken (gh w) /\ nthr (ret_C w t r) = nthr w.
Proof. unfold ret_C. split_match; cbn; auto. Qed.

Lemma g1_ret_D w t r v : freed (gh (ret_D w t r v)) = freed (gh w). Proof. apply (proj1 (gh_ret_D w t r v)). Qed.
Lemma g2_ret_D w t r v : broken (gh (ret_D w t r v)) = broken (gh w). Proof. apply (proj1 (proj2 (gh_ret_D w t r v))). Qed.
Lemma g3_ret_D w t r v : nthr (ret_D w t r v) = nthr w. Proof. apply (proj2 (proj2 (gh_ret_D w t r v))). Qed.
Lemma g1_ret_N w t r : freed (gh (ret_N w t r)) = freed (gh w). Proof. apply (proj1 (gh_ret_N w t r)). Qed.
Lemma g2_ret_N w t r : broken (gh (ret_N w t r)) = broken (gh w). Proof. apply (proj1 (proj2 (gh_ret_N w t r))). Qed.
Lemma g3_ret_N w t r : nthr (ret_N w t r) = nthr w. Proof. apply (proj2 (proj2 (gh_ret_N w t r))). Qed.
Lemma g1_ret_C w t r : freed (gh (ret_C w t r)) = freed (gh w). Proof. apply (proj1 (gh_ret_C w t r)). Qed.
Lemma g2_ret_C w t r : broken (gh (ret_C w t r)) = broken (gh w). Proof. apply (proj1 (proj2 (gh_ret_C w t r))). Qed.
Lemma g3_ret_C w t r : nthr (ret_C w t r) = nthr w. Proof. apply (proj2 (proj2 (gh_ret_C w t r))). Qed.
Lemma g1_finish w t o r : freed (gh (finish w t o r)) = freed (gh w). Proof. apply (proj1 (gh_finish w t o r)). Qed.
Lemma g2_finish w t o r : broken (gh (finish w t o r)) = broken (gh w). Proof. apply (proj1 (proj2 (gh_finish w t o r))). Qed.
Lemma g3_finish w t o r : nthr (finish w t o r) = nthr w. Proof. apply (proj2 (proj2 (gh_finish w t o r))). Qed.
Ltac gh_norm := repeat (progress (rewrite ?g1_ret_D, ?g2_ret_D, ?g3_ret_D, ?g1_ret_N, ?g2_ret_N, ?g3_ret_N, ?g1_ret_C, ?g2_ret_C, ?g3_ret_C, ?g1_finish, ?g2_finish, ?g3_finish; cbn [gh nthr setst set_thr set_tw set_sem set_note set_gh acquire release g_set_crashed g_add_freed freed broken])).

Lemma step1_ghost w t c :
  broken (gh (fst (step1 w t c))) = broken (gh w) /\ nthr (fst (step1 w t c)) = nthr w /\
  (forall x, In x (freed (gh (fst (step1 w t c)))) -> In x (freed (gh w)) \/
     exists par, stk w t = FF x F13 par :: tl (stk w t) /\ parent (nt (fst (step1 w t c)) x) = parent (nt w x) /\
                 children (nt (fst (step1 w t c)) x) = children (nt w x)).
Proof.
  remember (fst (step1 w t c)) as w' eqn:Hw'. revert Hw'.
  leaves.
  all: intros ->; cbn [fst] in *.
  all: change (stk w t) with (stack (thr w t)); rewrite ?Hst.
  all: gh_norm.
  all: try (split; [reflexivity|split; [reflexivity|let y := fresh in let Hy := fresh in intros y Hy; left; exact Hy]]).
  all: split; [reflexivity|split; [reflexivity|]].
  all: let y := fresh "y" in let Hy := fresh "Hy" in intros y [<-|Hy]; [right; eexists; split; [reflexivity|unfold nt; nsimpl; auto] | left; exact Hy].
Qed.

(* ------------------------------------------------------------------------------------------------ *)
(* InvU is preserved by the steps *)
Lemma lref_other t w w' t' x : ext t w w' -> t' <> t -> lref_of w' t' x <-> lref_of w t' x.
Proof. intros E Ht. unfold lref_of. rewrite (stk_other _ _ _ _ E Ht). tauto. Qed.

Lemma isolated_step w t c x :
  InvA w -> InvH w -> InvU w -> isolated w x -> ~ lref_of w t x ->
  isolated (fst (step1 w t c)) x /\ ~ lref_of (fst (step1 w t c)) t x.
Proof.
  intros I H U Iso Hn. pose proof (isolated_keep w t c x I H (iu_tree _ U) (iu_fr _ U t) Iso Hn) as (E1 & E2 & _).
  split; [|eapply no_new_ref; eauto using iu_tree, iu_fr].
  destruct Iso as (Hx & Hp & Hc). pose proof (step1_nnext_le w t c). repeat split; [lia|congruence|congruence].
Qed.

(* the tree, the frames and the counts *)
Lemma InvU_step1_core w t c :
  InvA w -> InvH w -> InvU w ->
  tree_ok (fst (step1 w t c)) /\ (forall t0 f, In f (stk (fst (step1 w t c)) t0) -> fokU (fst (step1 w t c)) f) /\
  disc_ok (fst (step1 w t c)).
Proof.
  intros I H U. pose proof (step1_ext w t c) as E. destruct U as [T Fk D P].
  split; [|split].
  - apply step1_tree; [exact I|exact T|apply Fk|]. intros par dl n p e rest Hst.
    destruct (p_ucf _ P t par dl (W3 n p e) n) as (_ & Hu & _); [rewrite Hst; left; reflexivity|reflexivity|].
    apply Hu. right. exists p, e. auto.
  - intros t0 f Hf. destruct (Nat.eq_dec t0 t) as [->|Ht].
    + apply step1_framesU; auto; [apply (ih_own _ H) | apply (ih_nodup _ H) | apply Fk].
    + rewrite (stk_other _ _ _ _ E Ht) in Hf. eapply fokU_other; eauto using p_uc.
  - apply disc_ok_step1; auto.
Qed.

(* the stepping thread's own nsync_note_new frame *)
Lemma step1_new_frame w t c par dl s x :
  shape (stk w t) -> In (ANew par dl s) (stk (fst (step1 w t c)) t) -> uc_of (ANew par dl s) = Some x ->
  (x = nnext w /\ s = WD x /\ parent (nt (fst (step1 w t c)) x) = None /\ children (nt (fst (step1 w t c)) x) = []) \/
  (exists s0, In (ANew par dl s0) (stk w t) /\ uc_of (ANew par dl s0) = Some x /\
     (parent (nt (fst (step1 w t c)) x) = parent (nt w x) \/ parent (nt (fst (step1 w t c)) x) = None \/
      exists p e, s0 = W3 x p e /\ s = W4 x p /\ parent (nt (fst (step1 w t c)) x) = Some p) /\
     (unlinked s x -> unlinked s0 x) /\ (forall p, s = W4 x p -> s0 = W4 x p \/ exists e, s0 = W3 x p e)).
Proof.
  intros Sh. remember (fst (step1 w t c)) as w' eqn:Hw'. revert Hw'. unfold stk in Sh.
  leaves.
  all: intros ->; cbn [fst] in *.
  all: change (stk w t) with (stack (thr w t)); rewrite ?Hst.
  all: try (unfold stk; rewrite Hst; intros []).
  all: try (unfold stk; rewrite Hst; intros Hin Hu; right; exists s; auto 10).
  all: bottom_nil Sh.
  all: rets Sh.
  all: rewrite ?stk_setst, ?stk_finish.
  all: intros Hin Hu; cbn [In] in Hin.
  all: try contradiction.
  all: repeat match goal with H : _ \/ _ |- _ => destruct H as [H|H] end; try contradiction; try discriminate.
  all: try (inversion Hin; subst; cbn [uc_of] in Hu; inversion Hu; subst).
  (* deep: the frame is unchanged *)
  all: try solve [right; exists s; split; [cbn [In]; tauto|]; split; [exact Hu|]; split; [|split; auto];
                  unfold nt; nsimpl; auto].
  (* W1 *)
  all: try solve [left; repeat split; unfold nt; cbn; rewrite fupd_same; reflexivity].
  (* stage changes *)
  all: try solve [right; eexists; split; [cbn [In]; eauto 6|]; split; [reflexivity|]; split; [left; unfold nt; nsimpl; auto|];
                  split; [unfold unlinked; intros; eauto 8 | intros; try discriminate; eauto]].
  all: try solve [right; eexists; split; [cbn [In]; eauto 6|]; split; [reflexivity|]; split; [unfold nt; nsimpl; eauto 8|];
                  split; [unfold unlinked; intros [E|(q & e' & [E|E])]; discriminate | intros q E; inversion E; subst; eauto]].
Qed.

Lemma uc_lt w t f x : InvA w -> In f (stk w t) -> uc_of f = Some x -> (x < nnext w)%nat.
Proof.
  intros I Hf Hu. pose proof (ia_fok _ I _ _ Hf) as F. destruct f; cbn in Hu; try discriminate.
  destruct s; inversion Hu; subst; cbn in F; tauto.
Qed.

(* a note under construction by another thread stays out of reach *)
Lemma uc_unref_step w t c t0 f x :
  InvA w -> InvH w -> InvU w -> t0 <> t -> In f (stk w t0) -> uc_of f = Some x -> ~ lref_of (fst (step1 w t c)) t x.
Proof.
  intros I H U Ht Hf Hu Hl. pose proof (iu_priv _ U) as P.
  assert (~ lref_of w t x) as Hn by (intros (g & Hg & Hx); eapply (p_uc _ P t0 f x Hf Hu t g); eauto).
  pose proof (uc_lt _ _ _ _ I Hf Hu) as Hx.
  destruct f as [| | | | | |par dl s| |]; cbn in Hu; try discriminate.
  destruct (p_ucf _ P t0 par dl s x Hf Hu) as (Hc & Hunl & Hw4).
  destruct (iu_tree _ U) as (T1 & T2 & _).
  destruct (step1_lrefs w t c x (ia_shape _ I t) Hl) as [H1|[(m & Hmo & Hm & [Hr|Hr])|H1]]; [auto| | |lia].
  - pose proof (lref_lt w t m I (iu_fr _ U t) Hm) as Hml. specialize (T1 m x Hml Hr). rewrite Hc in T1. destruct T1.
  - pose proof (lref_lt w t m I (iu_fr _ U t) Hm) as Hml. specialize (T2 m x Hml Hr).
    destruct s; cbn in Hu; inversion Hu; subst.
    + rewrite Hunl in T2 by (left; reflexivity). discriminate.
    + rewrite Hunl in T2 by (right; eauto). discriminate.
    + rewrite Hunl in T2 by (right; eauto). discriminate.
    + destruct (Hw4 p eq_refl) as [E|E]; rewrite E in T2; [discriminate|]. inversion T2; subst m.
      pose proof (InvH_step1 w t c I H) as H'. pose proof (step1_ext w t c) as E'.
      apply (ih_own _ H') in Hmo.
      assert (In p (owned (fst (step1 w t c)) t0)) as Ho.
      { unfold owned. rewrite (stk_other _ _ _ _ E' Ht). apply in_flat_map. eexists. split; [exact Hf|cbn; auto]. }
      apply (ih_own _ H') in Ho. congruence.
Qed.

Lemma priv_ok_step1 w t c : InvA w -> InvH w -> InvU w -> priv_ok (fst (step1 w t c)).
Proof.
  intros I H U. pose proof (iu_priv _ U) as P. pose proof (step1_ext w t c) as E.
  pose proof (InvA_step1 w t c I) as I'. pose proof (InvH_step1 w t c I H) as H'.
  assert (forall t0, t0 <> t -> stk (fst (step1 w t c)) t0 = stk w t0) as So by (intros; eapply stk_other; eauto).
  split.
  - (* notes under construction stay private *)
    intros t0 f x Hf Hu t' g Ht' Hg Hx.
    destruct (Nat.eq_dec t0 t) as [->|Ht0].
    + (* the stepping thread constructs x *)
      assert (t' <> t) as Ht by congruence. rewrite (So t' Ht) in Hg.
      destruct (step1_uc w t c f x (ia_shape _ I t) Hf Hu) as [(f0 & Hf0 & Hu0)|[-> _]].
      * eapply (p_uc _ P t f0 x Hf0 Hu0 t' g); eauto.
      * assert (nnext w < nnext w)%nat; [|lia]. eapply lrefs_lt; eauto using ia_fok, iu_fr, par_lt.
    + rewrite (So t0 Ht0) in Hf. destruct (Nat.eq_dec t' t) as [->|Ht].
      * eapply (uc_unref_step w t c t0 f x); eauto. exists g. auto.
      * rewrite (So t' Ht) in Hg. eapply (p_uc _ P t0 f x Hf Hu t' g); eauto.
  - (* ... and untouched by the others *)
    intros t0 par dl s x Hf Hu.
    destruct (Nat.eq_dec t0 t) as [->|Ht0].
    + destruct (step1_new_frame w t c par dl s x (ia_shape _ I t) Hf Hu) as [(-> & -> & Hp & Hc)|(s0 & Hf0 & Hu0 & Hpar & Hun & Hw4)].
      * split; [exact Hc|]. split; [auto|]. intros p Ep. discriminate.
      * destruct (p_ucf _ P t par dl s0 x Hf0 Hu0) as (Hc0 & Hun0 & Hw40).
        split; [|split].
        -- (* nobody gives x a child *)
           destruct (children (nt (fst (step1 w t c)) x)) as [|c0 r] eqn:Ec; [reflexivity|]. exfalso.
           assert (In c0 (children (nt (fst (step1 w t c)) x))) as Hin by (rewrite Ec; left; reflexivity).
           destruct (step1_children w t c x c0 Hin) as [Hold|[(par1 & dl1 & e1 & Htop)|(n & nx & Htop)]].
           ++ rewrite Hc0 in Hold. destruct Hold.
           ++ (* the thread's only nsync_note_new frame is the one constructing x *)
              apply top_In in Htop. pose proof (ia_shape _ I t) as Sh.
              pose proof (bottom_of _ _ Sh Htop Logic.I) as B1. pose proof (bottom_of _ _ Sh Hf0 Logic.I) as B2.
              rewrite B1 in B2. inversion B2; subst. cbn in Hu0. inversion Hu0; subst c0.
              pose proof (ia_fok _ I _ _ Hf0) as F. cbn in F. destruct F as (_ & _ & Hn & _ & _ & Hcp & Hpq).
              pose proof (ia_lt _ I x x Hn). rewrite Hcp, Hpq in H0. specialize (H0 eq_refl). lia.
           ++ apply top_In in Htop. pose proof (ia_shape _ I t) as Sh.
              pose proof (bottom_of _ _ Sh Htop Logic.I) as B1. pose proof (bottom_of _ _ Sh Hf0 Logic.I) as B2.
              rewrite B1 in B2. discriminate.
        -- intros Hs. specialize (Hun Hs). specialize (Hun0 Hun).
           destruct Hpar as [Ep|[Ep|(p & e & -> & -> & _)]]; [congruence|exact Ep|].
           destruct Hs as [Es|(q & e' & [Es|Es])]; discriminate.
        -- intros p ->. destruct (Hw4 p eq_refl) as [ -> | (e & ->) ].
           ++ destruct (Hw40 p eq_refl) as [E0|E0]; destruct Hpar as [Ep|[Ep|(q & e' & Eq & _)]]; try discriminate; try (left; congruence); try (right; congruence); auto.
           ++ specialize (Hun0 ltac:(right; eauto)). destruct Hpar as [Ep|[Ep|(q & e' & Eq & _ & Ep)]]; [left; congruence|auto|].
              inversion Eq; subst. auto.
    + rewrite (So t0 Ht0) in Hf. destruct (p_ucf _ P t0 par dl s x Hf Hu) as (Hc0 & Hun0 & Hw40).
      assert (~ lref_of w t x) as Hn by (intros (g & Hg & Hx); eapply (p_uc _ P t0 _ x Hf Hu t g); eauto).
      assert (~ lref_of (fst (step1 w t c)) t x) as Hn' by (eapply uc_unref_step; eauto).
      assert (prot_same (nt (fst (step1 w t c)) x) (nt w x)) as (Ep & Ec & _).
      { destruct (step1_guard2 w t c x) as [G|[(f & Htop & [G|(n & s1 & ->)])|[[G1 G2]|[(par1 & dl1 & p1 & e1 & G)|G]]]]; auto; exfalso.
        - apply Hn. exists f. split; [apply top_In; auto|apply owns_lrefs; auto].
        - apply Hn. eexists. split; [apply top_In; eauto|cbn; auto].
        - apply (ih_own _ H') in G2. unfold owned in G2. apply in_flat_map in G2.
          destruct G2 as (g & Hg & Hx). apply Hn'. exists g. split; auto using owns_lrefs.
        - apply top_In in G. assert (t = t0) by (eapply (ia_uc _ I t t0); eauto; reflexivity). congruence.
        - pose proof (uc_lt _ _ _ _ I Hf Hu). lia. }
      rewrite Ep, Ec. auto.
  - (* a note whose free () is next *)
    intros t0 par x Hf.
    destruct (Nat.eq_dec t0 t) as [->|Ht0].
    + destruct (step1_FF_persist w t c x F13 par (ia_shape _ I t) Hf) as [_ Hs]. destruct (Hs eq_refl) as (Hst & Ep & Ec).
      assert (In (FF x F12 par) (stk w t)) as Hf0 by (rewrite Hst; left; reflexivity).
      pose proof (iu_fr _ U _ _ Hf0) as F. cbn in F. destruct F as ((Hp & Hc) & _).
      pose proof (ia_fok _ I _ _ Hf0) as FA. cbn in FA. destruct FA as (Hx & _).
      split.
      * pose proof (step1_nnext_le w t c). repeat split; [lia|congruence|congruence].
      * intros t' Ht' (g & Hg & Hxg). rewrite (So t' Ht') in Hg. eapply (retire_unref w t x par t' g); eauto.
    + rewrite (So t0 Ht0) in Hf. destruct (p_ret _ P t0 par x Hf) as [Iso Hun].
      destruct (isolated_step w t c x I H U Iso (Hun t ltac:(congruence))) as [Iso' Hn'].
      split; [exact Iso'|]. intros t' Ht'. destruct (Nat.eq_dec t' t) as [->|Ht]; [exact Hn'|].
      rewrite (lref_other _ _ _ _ _ E Ht). auto.
  - (* freed notes *)
    intros x Hx. destruct (step1_ghost w t c) as (_ & _ & Hfr).
    destruct (Hfr x Hx) as [Hold|(par & Hst & Ep & Ec)].
    + destruct (p_dead _ P x Hold) as [Iso Hun].
      destruct (isolated_step w t c x I H U Iso (Hun t)) as [Iso' Hn'].
      split; [exact Iso'|]. intros t'. destruct (Nat.eq_dec t' t) as [->|Ht]; [exact Hn'|].
      rewrite (lref_other _ _ _ _ _ E Ht). auto.
    + assert (In (FF x F13 par) (stk w t)) as Hf0 by (rewrite Hst; left; reflexivity).
      destruct (p_ret _ P t par x Hf0) as [(Hxl & Hp & Hc) Hun].
      split.
      * pose proof (step1_nnext_le w t c). repeat split; [lia|congruence|congruence].
      * intros t'. destruct (Nat.eq_dec t' t) as [->|Ht].
        -- (* the freeing thread's call has returned *)
           pose proof (ia_shape _ I t) as Sh. rewrite Hst in Sh. pose proof (shape_bottom _ _ Sh Logic.I) as Hnil.
           intros (g & Hg & _). revert Hg. unfold step1, get, stk. unfold stk in Hst. rewrite Hst. cbn [fst step_F].
           change (stack (thr (finish (set_gh (set_note w x (set_alive (nt w x) false)) (g_add_freed (gh (set_note w x (set_alive (nt w x) false))) x)) t (OFree x) RNone) t)) with (stk (finish (set_gh (set_note w x (set_alive (nt w x) false)) (g_add_freed (gh (set_note w x (set_alive (nt w x) false))) x)) t (OFree x) RNone) t).
           rewrite stk_finish. intros [].
        -- rewrite (lref_other _ _ _ _ _ E Ht). auto.
  - (* the contract: a note being freed is named by no other thread's call *)
    intros t1 t2 n s par Ht12 Hf.
    destruct (Nat.eq_dec t1 t) as [->|Ht1].
    + destruct (step1_FF_persist w t c n s par (ia_shape _ I t) Hf) as [(s0 & par0 & Hf0) _].
      rewrite (So t2 ltac:(congruence)). eapply (p_k1 _ P t t2); eauto.
    + rewrite (So t1 Ht1) in Hf. destruct (Nat.eq_dec t2 t) as [->|Ht2].
      * destruct (step1_callnote w t c (ia_shape _ I t)) as [E0|E0]; [rewrite E0; cbn; discriminate|].
        rewrite E0. eapply (p_k1 _ P t1 t); eauto.
      * rewrite (So t2 Ht2). eapply (p_k1 _ P t1 t2); eauto.
Qed.

(* ------------------------------------------------------------------------------------------------ *)
(* The whole invariant, under the client contract *)
Definition nthr_ok (w : world) : Prop := forall t, (nthr w <= t)%nat -> stk w t = [] /\ prog (thr w t) = [].
Definition InvC (w : world) : Prop := InvA w /\ InvH w /\ nthr_ok w /\ (broken (gh w) = false -> InvU w).

Lemma InvU_step1 w t c : InvA w -> InvH w -> InvU w -> InvU (fst (step1 w t c)).
Proof.
  intros I H U. destruct (InvU_step1_core w t c I H U) as (T & F & D).
  split; auto. apply priv_ok_step1; auto.
Qed.
Lemma step1_idle w t c : stk w t = [] -> fst (step1 w t c) = w.
Proof. intros E. unfold step1, get. unfold stk in E. rewrite E. reflexivity. Qed.
Lemma nthr_ok_step1 w t c : nthr_ok w -> nthr_ok (fst (step1 w t c)).
Proof.
  intros N t0 Ht0. destruct (step1_ghost w t c) as (_ & En & _). rewrite En in Ht0. destruct (N t0 Ht0) as [Es Ep].
  destruct (Nat.eq_dec t0 t) as [->|Hne].
  - rewrite (step1_idle w t c Es). auto.
  - destruct (x_thr _ _ _ (step1_ext w t c) t0 Hne) as (E1 & E2 & _). unfold stk. rewrite E1, E2. auto.
Qed.
Lemma InvC_step1 w t c : InvC w -> InvC (fst (step1 w t c)).
Proof.
  intros (I & H & N & U). split; [apply InvA_step1; auto|]. split; [apply InvH_step1; auto|]. split; [apply nthr_ok_step1; auto|].
  destruct (step1_ghost w t c) as (Eb & _). rewrite Eb. intros B. apply InvU_step1; auto.
Qed.

(* tick *)
Lemma InvU_tick w d : InvU w -> InvU (tick w d).
Proof.
  intros [T F D [P1 P2 P3 P4 P5]]. split; [exact T|exact F|exact D|]. split; auto.
Qed.
Lemma InvC_tick w d : InvC w -> InvC (tick w d).
Proof. intros (I & H & N & U). split; [apply InvA_tick; auto|]. split; [apply InvH_tick; auto|]. split; [exact N|]. intros B. apply InvU_tick. auto. Qed.

(* begin_call *)
Lemma begin_broken w t :
  broken (gh (begin_call w t)) = false ->
  broken (gh w) = false /\
  (stk w t = [] -> forall o rest n, prog (thr w t) = o :: rest -> op_note o = Some n -> (n < nnext w)%nat -> contract_ok w t o = true).
Proof.
  unfold begin_call, get, stk.
  destruct (stack (thr w t)) eqn:Hs.
  2:{ intros B. split; [exact B|]. intros; discriminate. }
  destruct (prog (thr w t)) as [|o rest] eqn:Hp.
  { intros B. split; [exact B|]. intros; discriminate. }
  destruct (op_note o) as [n|] eqn:Hop.
  - destruct (Nat.ltb_spec n (nnext w)).
    + cbn [gh set_gh]. destruct (contract_ok w t o) eqn:Ec.
      * intros B. assert (broken (gh w) = false) as B0 by (destruct o; exact B).
        split; [exact B0|]. intros _ o' rest' n' E; inversion E; subst. auto.
      * intros B. exfalso. destruct o; cbn in B; discriminate.
    + cbn. intros B. split; [exact B|]. intros _ o' rest' n' E Hn' Hlt; inversion E; subst. rewrite Hop in Hn'. inversion Hn'; subst. lia.
  - intros B. assert (broken (gh w) = false) as B0 by (destruct o; try exact B; destruct par; exact B).
    split; [exact B0|]. intros _ o' rest' n' E Hn'; inversion E; subst. congruence.
Qed.
Lemma begin_freed w t : freed (gh (begin_call w t)) = freed (gh w).
Proof. apply (to_gh _ _ _ (tonly_begin t w)). Qed.
Lemma begin_nthr w t : nthr (begin_call w t) = nthr w.
Proof. apply (to_nthr _ _ _ (tonly_begin t w)). Qed.

Lemma bottom_rev st : bottom st = hd_error (rev st).
Proof.
  induction st as [|f r IH]; [reflexivity|]. destruct r as [|g r'].
  - reflexivity.
  - change (bottom (f :: g :: r')) with (bottom (g :: r')). rewrite IH. cbn [rev].
    destruct (rev r' ++ [g]) eqn:E; [destruct (rev r'); discriminate|]. reflexivity.
Qed.
Lemma cur_note_call s : cur_note s = call_note (stack s).
Proof. unfold cur_note, call_note. rewrite bottom_rev. destruct (rev (stack s)); reflexivity. Qed.
Lemma any_other_false w t p : any_other w t p = false -> forall k, (k < nthr w)%nat -> k <> t -> p (thr w k) = false.
Proof.
  unfold any_other. intros H k Hk Hne.
  destruct (p (thr w k)) eqn:E; [|reflexivity]. exfalso.
  assert (existsb (fun k0 => negb (k0 =? t)%nat && p (thr w k0)) (seq 0 (nthr w)) = true); [|congruence].
  apply existsb_exists. exists k. split; [apply in_seq; lia|]. rewrite E. destruct (Nat.eqb_spec k t); [congruence|reflexivity].
Qed.

Lemma fokU_notes w w' f : notes w' = notes w -> fokU w f -> fokU w' f.
Proof. intros E. destruct f; cbn; unfold nx_in, nt; rewrite ?E; auto. Qed.
Lemma lref_init o x : (exists f, In f (init_stack o) /\ In x (lrefs f)) -> op_note o = Some x.
Proof.
  intros (f & Hf & Hx). destruct o; cbn in Hf;
    repeat match goal with H : _ \/ _ |- _ => destruct H as [H|H] end; try contradiction; subst f; cbn in Hx;
    try (destruct par; cbn in Hx); repeat match goal with H : _ \/ _ |- _ => destruct H as [H|H] end; try contradiction; subst; reflexivity.
Qed.

Lemma cur_free_in w k x s par : shape (stk w k) -> In (FF x s par) (stk w k) -> cur_free (thr w k) = Some x.
Proof.
  intros Sh Hin. pose proof (bottom_of _ _ Sh Hin Logic.I) as B. rewrite bottom_rev in B. unfold cur_free. unfold stk in B.
  destruct (rev (stack (thr w k))); cbn in B; inversion B; subst. reflexivity.
Qed.
Lemma cur_new_in w k f x : shape (stk w k) -> In f (stk w k) -> uc_of f = Some x -> cur_new (thr w k) = Some x.
Proof.
  intros Sh Hin Hu. destruct f; cbn in Hu; try discriminate.
  pose proof (bottom_of _ _ Sh Hin Logic.I) as B. rewrite bottom_rev in B. unfold cur_new. unfold stk in B.
  destruct (rev (stack (thr w k))); cbn in B; inversion B; subst. destruct s; inversion Hu; subst; reflexivity.
Qed.
Lemma call_note_init o : call_note (init_stack o) = op_note o.
Proof. destruct o; reflexivity. Qed.

Lemma InvU_begin w t :
  InvA w -> InvH w -> nthr_ok w -> InvU w -> broken (gh (begin_call w t)) = false -> InvU (begin_call w t).
Proof.
  intros I H N U B. pose proof (tonly_begin t w) as T.
  pose proof (to_notes _ _ _ T) as En. pose proof (to_next _ _ _ T) as Ex.
  assert (forall t0, t0 <> t -> stk (begin_call w t) t0 = stk w t0) as So.
  { intros t0 Ht0. destruct (to_thr _ _ _ T t0 Ht0) as (E & _). exact E. }
  destruct (begin_broken w t B) as [B0 Bc].
  destruct U as [Tr Fk D P].
  assert (stk (begin_call w t) t = stk w t \/ (stk w t = [] /\ exists o rest, prog (thr w t) = o :: rest /\ stk (begin_call w t) t = init_stack o /\
                    (forall n, op_note o = Some n -> (n < nnext w)%nat))) as [Es|(Es1 & o & rest & Hp & Es2 & Hlt)].
  { destruct (begin_stack w t) as [Es|[[Es1 Es2]|Es]]; auto. left. congruence. }
  - (* the stack of t does not change *)
    assert (forall t0, stk (begin_call w t) t0 = stk w t0) as Sa by (intros t0; destruct (Nat.eq_dec t0 t) as [->|]; auto).
    assert (forall t0 x, lref_of (begin_call w t) t0 x <-> lref_of w t0 x) as La by (intros; unfold lref_of; rewrite Sa; tauto).
    split.
    + apply (tree_ok_same w); auto. intros m. unfold nt. rewrite En. auto.
    + intros t0 f. rewrite Sa. intros Hf. eapply fokU_notes; eauto.
    + intros t0 x. unfold tcount, nt. rewrite En. setoid_rewrite Sa. apply D.
    + destruct P as [P1 P2 P3 P4 P5]. split.
      * intros t0 f x. rewrite Sa. intros Hf Hu t' g Ht' . rewrite Sa. eauto.
      * intros t0 par dl s x. rewrite Sa. unfold nt. rewrite En. apply P2.
      * intros t0 par x. rewrite Sa. intros Hf. destruct (P3 t0 par x Hf) as [Iso Hun]. unfold isolated, nt in *. rewrite En, Ex.
        split; auto. intros t' Ht'. rewrite La. auto.
      * intros x. rewrite begin_freed. intros Hx. destruct (P4 x Hx) as [Iso Hun]. unfold isolated, nt in *. rewrite En, Ex.
        split; auto. intros t'. rewrite La. auto.
      * intros t1 t2 n s par Hne. rewrite !Sa. eauto.
  - (* a call starts *)
    assert (forall x, scount (init_stack o) x = 0%nat) as Z by (intros x; destruct o; reflexivity).
    assert (forall f, In f (init_stack o) -> fokU (begin_call w t) f) as Fi.
    { intros f Hf. destruct o; cbn in Hf; repeat match goal with Hq : _ \/ _ |- _ => destruct Hq as [Hq|Hq] end; try contradiction; subst f; cbn; auto. }
    assert (forall f, In f (init_stack o) -> uc_of f = None) as Nuc.
    { intros f Hf. destruct o; cbn in Hf; repeat match goal with Hq : _ \/ _ |- _ => destruct Hq as [Hq|Hq] end; try contradiction; subst f; reflexivity. }
    assert (forall t0 x, t0 <> t -> lref_of (begin_call w t) t0 x <-> lref_of w t0 x) as Lo by (intros; unfold lref_of; rewrite So; tauto).
    (* what the contract gives for the note the call names *)
    assert (forall n, op_note o = Some n ->
              ~ In n (freed (gh w)) /\
              (forall k, k <> t -> cur_free (thr w k) <> Some n) /\ (forall k, k <> t -> cur_new (thr w k) <> Some n) /\
              (forall m, o = OFree m -> forall k, k <> t -> call_note (stk w k) <> Some n)) as Con.
    { intros n Hn. specialize (Bc Es1 o rest n Hp Hn (Hlt n Hn)). unfold contract_ok in Bc. rewrite Hn in Bc.
      apply andb_prop in Bc. destruct Bc as [Bc B4]. apply andb_prop in Bc. destruct Bc as [Bc B3]. apply andb_prop in Bc. destruct Bc as [B1 B2].
      apply negb_true_iff in B1, B2, B3.
      assert (forall (cur : tstate -> option nat), (forall s0, stack s0 = [] -> cur s0 = None) ->
                any_other w t (fun s0 => opt_is (cur s0) n) = false -> forall k, k <> t -> cur (thr w k) <> Some n) as AO.
      { intros cur Hnil Hp0 k Hk E. destruct (Nat.lt_ge_cases k (nthr w)) as [Hlt0|Hge].
        - pose proof (any_other_false w t _ Hp0 k Hlt0 Hk) as F. cbn in F. rewrite E in F. cbn in F. rewrite Nat.eqb_refl in F. discriminate.
        - destruct (N k Hge) as [Hs _]. unfold stk in Hs. rewrite (Hnil _ Hs) in E. discriminate. }
      split; [intros Hin; apply mem_nat_In in Hin; congruence|].
      split; [apply AO; auto; intros s0 E0; unfold cur_free; rewrite E0; reflexivity|].
      split; [apply AO; auto; intros s0 E0; unfold cur_new; rewrite E0; reflexivity|].
      intros m -> k Hk. cbn in B4. apply negb_true_iff in B4. unfold stk. rewrite <- cur_note_call.
      apply AO; auto. intros s0 E0. unfold cur_note. rewrite E0. reflexivity. }
    assert (forall x, lref_of (begin_call w t) t x -> op_note o = Some x) as Lt.
    { intros x Hl. apply lref_init. unfold lref_of in Hl. rewrite Es2 in Hl. exact Hl. }
    split.
    + apply (tree_ok_same w); auto. intros m. unfold nt. rewrite En. auto.
    + intros t0 f Hf. destruct (Nat.eq_dec t0 t) as [->|Ht0]; [rewrite Es2 in Hf; auto|].
      rewrite (So t0 Ht0) in Hf. eapply fokU_notes; eauto.
    + assert (forall t0 x, tcount (begin_call w t) t0 x = tcount w t0 x) as Tc.
      { intros t0 x. unfold tcount. destruct (Nat.eq_dec t0 t) as [->|Ht0]; [rewrite Es1, Es2; apply Z|rewrite So; auto]. }
      intros t0 x. rewrite Tc. unfold nt. rewrite En. intros Hpos. destruct (D t0 x Hpos) as [D1 D2].
      split; [exact D1|]. intros t' Ht'. rewrite Tc. auto.
    + destruct P as [P1 P2 P3 P4 P5]. split.
      * intros t0 f x Hf Hu t' g Ht' Hg Hx.
        destruct (Nat.eq_dec t0 t) as [->|Ht0]; [rewrite Es2 in Hf; rewrite (Nuc f Hf) in Hu; discriminate|].
        rewrite (So t0 Ht0) in Hf. destruct (Nat.eq_dec t' t) as [->|Ht].
        -- assert (op_note o = Some x) as Ho by (apply Lt; exists g; auto).
           destruct (Con x Ho) as (_ & _ & C3 & _). apply (C3 t0 Ht0). eapply cur_new_in; eauto using ia_shape.
        -- rewrite (So t' Ht) in Hg. eapply (P1 t0 f x Hf Hu t' g); eauto.
      * intros t0 par dl s x Hf Hu. unfold nt. rewrite En.
        destruct (Nat.eq_dec t0 t) as [->|Ht0]; [rewrite Es2 in Hf; rewrite (Nuc _ Hf) in Hu; discriminate|].
        rewrite (So t0 Ht0) in Hf. apply (P2 t0 par dl s x Hf Hu).
      * intros t0 par x Hf.
        destruct (Nat.eq_dec t0 t) as [->|Ht0].
        { rewrite Es2 in Hf. destruct o; cbn in Hf; repeat match goal with Hq : _ \/ _ |- _ => destruct Hq as [Hq|Hq] end; try contradiction; discriminate. }
        rewrite (So t0 Ht0) in Hf. destruct (P3 t0 par x Hf) as [Iso Hun]. unfold isolated, nt in *. rewrite En, Ex. split; auto.
        intros t' Ht'. destruct (Nat.eq_dec t' t) as [->|Ht]; [|rewrite Lo; auto].
        intros Hl. destruct (Con x (Lt x Hl)) as (_ & C2 & _). apply (C2 t0 Ht0). eapply cur_free_in; eauto using ia_shape.
      * intros x. rewrite begin_freed. intros Hx. destruct (P4 x Hx) as [Iso Hun]. unfold isolated, nt in *. rewrite En, Ex. split; auto.
        intros t'. destruct (Nat.eq_dec t' t) as [->|Ht]; [|rewrite Lo; auto].
        intros Hl. destruct (Con x (Lt x Hl)) as (C1 & _). auto.
      * intros t1 t2 n s par Hne Hf.
        destruct (Nat.eq_dec t1 t) as [->|Ht1].
        -- rewrite Es2 in Hf. assert (o = OFree n) as Eo.
           { destruct o; cbn in Hf; repeat match goal with Hq : _ \/ _ |- _ => destruct Hq as [Hq|Hq] end; try contradiction; try discriminate. inversion Hf; reflexivity. }
           rewrite (So t2 ltac:(congruence)). destruct (Con n ltac:(subst o; reflexivity)) as (_ & _ & _ & C4). apply (C4 n Eo). congruence.
        -- rewrite (So t1 Ht1) in Hf. destruct (Nat.eq_dec t2 t) as [->|Ht2].
           ++ rewrite Es2, call_note_init. intros Ho. destruct (Con n Ho) as (_ & C2 & _). apply (C2 t1 Ht1). eapply cur_free_in; eauto using ia_shape.
           ++ rewrite (So t2 Ht2). eauto.
Qed.

Lemma nthr_ok_begin w t : nthr_ok w -> nthr_ok (begin_call w t).
Proof.
  intros N t0 Ht0. rewrite begin_nthr in Ht0. destruct (N t0 Ht0) as [Es Ep].
  destruct (Nat.eq_dec t0 t) as [->|Hne].
  - assert (begin_call w t = w) as -> by (unfold begin_call, get; unfold stk in Es; rewrite Es, Ep; reflexivity). auto.
  - destruct (to_thr _ _ _ (tonly_begin t w) t0 Hne) as (E1 & E2 & _). unfold stk. rewrite E1, E2. auto.
Qed.
Lemma InvC_begin w t : InvC w -> InvC (begin_call w t).
Proof.
  intros (I & H & N & U). split; [apply InvA_begin; auto|]. split; [apply InvH_begin; auto|]. split; [apply nthr_ok_begin; auto|].
  intros B. apply InvU_begin; auto. apply U. apply (begin_broken w t B).
Qed.
Lemma InvC_exec w a : InvC w -> InvC (exec w a).
Proof.
  intros C. destruct a as [t c|d]; cbn [exec]; [|apply InvC_tick; auto].
  rewrite step_step1. apply InvC_step1, InvC_begin, C.
Qed.
Lemma InvC_run sched : forall w, InvC w -> InvC (run w sched).
Proof. induction sched as [|a r IH]; intros w C; cbn; auto. apply IH, InvC_exec, C. Qed.
Lemma InvC_init c0 progs : 0 <= c0 -> InvC (init c0 progs).
Proof.
  intros H0.
  assert (forall t, stk (init c0 progs) t = []) as S.
  { intros t. unfold stk, init. cbn. destruct (nth_in_or_default t (map (fun p => mk_t [] p [] 0 O false) progs) dflt) as [H|H].
    - apply in_map_iff in H. destruct H as (p & <- & _). reflexivity.
    - rewrite H. reflexivity. }
  split; [apply InvA_init; auto|]. split; [apply InvH_init|]. split.
  - intros t Ht. split; [apply S|]. unfold init in *. cbn in *. rewrite nth_overflow; [reflexivity|]. rewrite map_length. exact Ht.
  - intros _. split.
    + repeat split; intros a; intros; cbn in *; lia.
    + intros t f. rewrite S. intros [].
    + intros t x. unfold tcount. rewrite S. cbn. lia.
    + split.
      * intros t f x. rewrite S. intros [].
      * intros t par dl s x. rewrite S. intros [].
      * intros t par x. rewrite S. intros [].
      * intros x [].
      * intros t t' n s par _. rewrite S. intros [].
Qed.
Theorem InvC_reachable w : reachable w -> InvC w.
Proof. intros (c0 & progs & sched & H0 & ->). apply InvC_run, InvC_init, H0. Qed.

(* ================= C09: no use after free ================= *)
Theorem no_uaf w t x :
  reachable w -> broken (gh (begin_call w t)) = false -> In x (touches w t) -> ~ In x (freed (gh w)).
Proof.
  intros R B Hx Hf. pose proof (InvC_begin w t (InvC_reachable w R)) as (I & H & N & U). specialize (U B).
  destruct (touches_lrefs w t x Hx) as (f & Htop & Hl).
  rewrite <- (begin_freed w t) in Hf. destruct (p_dead _ (iu_priv _ U) x Hf) as [_ Hun].
  apply (Hun t). exists f. split; [apply top_In; auto|exact Hl].
Qed.

(* ================= C09: adoption ================= *)
(* the step of nsync_note_free (n) that decides about child c (stage F7: the load of parent->notified) *)
Lemma adopt_step w t c n c0 nx p rest :
  tree_ok w -> (c0 < nnext w)%nat -> (n < nnext w)%nat -> In c0 (children (nt w n)) -> parent (nt w n) = Some p ->
  stk w t = FF n (F7 c0 nx) (Some p) :: rest ->
  let w' := fst (step1 w t c) in
  (flag (nt w p) = 0 -> parent (nt w' c0) = Some p /\ In c0 (children (nt w' p)) /\ ~ In c0 (children (nt w' n))) /\
  (flag (nt w p) <> 0 -> stk w' t = FC c0 (Some n) C1 :: FF n (FR c0 nx) (Some p) :: rest).
Proof.
  intros (T1 & T2 & T3 & T0) Hc Hn Hin Hpar Hst w'. unfold w', step1, get. unfold stk in Hst. rewrite Hst. cbn [step_F].
  assert (p < n)%nat by (eapply T0; eauto). assert (n < c0)%nat by (eapply T0; eauto).
  split.
  - intros E. rewrite E. cbn [Z.eqb negb fst]. unfold adopt. cbv zeta. unfold nt. nsimpl; try lia.
    split; [reflexivity|]. split; [apply in_or_app; right; left; reflexivity|]. apply remove_nat_notin. apply T3; auto.
  - intros E. destruct (Z.eqb_spec (flag (nt w p)) 0); [congruence|]. cbn [negb fst]. rewrite stk_setst. reflexivity.
Qed.

Lemma step1_free_post w t c n r :
  shape (stk w t) -> hist (thr (fst (step1 w t c)) t) = (OFree n, r) :: hist (thr w t) -> In n (freed (gh (fst (step1 w t c)))).
Proof.
  intros Sh. remember (fst (step1 w t c)) as w' eqn:Hw'. revert Hw'. unfold stk in Sh.
  leaves.
  all: intros ->; cbn [fst] in *.
  all: try (intros H; exfalso; exact (cons_neq _ _ H)).
  all: bottom_nil Sh.
  all: rets Sh.
  all: hist_norm.
  all: try (intros H; exfalso; exact (cons_neq _ _ H)).
  all: intros H; inversion H; subst.
  all: gh_norm; left; reflexivity.
Qed.

(* when nsync_note_free (n) returns, n is out of the tree: no parent, no children, nobody points to it *)
Lemma free_returns w t c n :
  reachable w -> broken (gh (begin_call w t)) = false ->
  returned w (fst (step w t c)) t (OFree n) RNone ->
  let w' := fst (step w t c) in
  In n (freed (gh w')) /\ parent (nt w' n) = None /\ children (nt w' n) = [] /\ forall t', ~ lref_of w' t' n.
Proof.
  intros R B Hr w'.
  pose proof (InvC_reachable _ R) as C. pose proof (InvC_begin w t C) as C1.
  pose proof (InvC_step1 _ t c C1) as (I' & H' & N' & U'). rewrite <- step_step1 in *. fold w' in I', H', N', U'.
  assert (broken (gh w') = false) as B' by (unfold w'; rewrite step_step1; destruct (step1_ghost (begin_call w t) t c) as (E & _); rewrite E; exact B).
  specialize (U' B').
  assert (In n (freed (gh w'))) as Hf.
  { unfold returned, get in Hr. unfold w'. rewrite step_step1 in *.
    destruct (begin_hist w t) as [E|(o & E & Es)].
    - rewrite <- E in Hr. clear E. revert Hr. set (w1 := begin_call w t).
      intros Hr. eapply step1_free_post; eauto. apply (ia_shape _ (proj1 C1)).
    - exfalso. unfold step1, get in Hr. unfold stk in Es. rewrite Es in Hr. cbn in Hr. rewrite E in Hr. inversion Hr. }
  destruct (p_dead _ (iu_priv _ U') n Hf) as [(Hx & Hp & Hc) Hun]. auto.
Qed.
