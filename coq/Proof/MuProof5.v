(* MuProof5: C14, the GLOBAL half -- who owns MU_LONG_WAIT, who clears it, and what it buys the long waiter.

   Part A  definitions used by the statements of Props/Properties_C14c.v:
             lw_enq_step / lw_acq_step / slow_acq_step  (classification of one step, read off the pc and the word)
             ghost (enqd, exc), gstep, runG, ghost_of    (a history ghost computed ALONGSIDE the model; the model is
                                                           not touched)
             enq_since / exc_since                        (the same facts as plain statements about the schedule)
   Part B  thread-local facts carried by the pcs (LInv): the masks of nsync_mu_unlock_slow_ never contain
           MU_LONG_WAIT; clear = 0 implies the unreduced zero_to_acquire
   Part C  the exact one-step transition of bit 6 (MU_LONG_WAIT) of the word: step_b6
   Part D  long_wait is sticky until the acquisition; the ghost invariant GInv and its preservation
   Part E  the ghost read as history: enqd <-> enq_since, exc -> exc_since
   Part F  the lemmas used by Props/Properties_C14c.v (owner, who clears / sets, no fresh overtake, single victim,
           the overtaker has itself waited, fresh arrivals queue behind)
   Part G  examples (vm_compute): non-vacuity; the exception window is real; the numeric bound on the victim's sleeps
           is REFUTED both for a reader victim (3 threads) and for a writer victim among readers (5 threads, no
           barging writer at all), with a single escalated victim and the bit set all the time: every overtaker has
           itself waited (readers are woken together, and the first of them to acquire clears MU_DESIG_WAKER while
           the other woken threads have not run yet); the gap between reaching the threshold and the first enqueue

   Builds on MuProof (Inv), MuProof2 (frames, barrier), MuProof3 (flag bits of the written values), MuProof4. *)
From NsyncBase Require Import CSem.
From NsyncGen Require Import Consts Sites.
From NsyncModel Require Import MuModel MuSpec.
From NsyncProof Require Import WordView MuProof MuProof2 MuProof3 MuProof4.
From Coq Require Import List ZArith Bool Lia PeanoNat Permutation.
Import ListNotations.
Local Open Scope Z_scope.

Ltac Zify.zify_post_hook ::= Z.div_mod_to_equations.

(* ================================================================== *)
(* Part A: definitions                                                 *)
(* ================================================================== *)

(* MU_LONG_WAIT of the mutex word *)
Definition b6 (w : world) : bool := Z.testbit (word w) 6.

Lemma b6_has w : has (word w) MU_LONG_WAIT = b6 w.
Proof. apply has_longwait. Qed.

(* the step of t from w is the enqueue CAS of nsync_mu_lock_slow_ (site 503), performed with long_wait = MU_LONG_WAIT,
   and it succeeds *)
Definition lw_enq_step (w : world) (t : nat) : bool :=
  match P w t with LsCasEnq _ l old => (longw l =? MU_LONG_WAIT) && (word w =? old) | _ => false end.
(* the step of t from w is the acquiring CAS of nsync_mu_lock_slow_ (site 502) and it succeeds ... *)
Definition slow_acq_step (w : world) (t : nat) : bool :=
  match P w t with LsCasAcq _ _ old => word w =? old | _ => false end.
(* ... performed by a thread whose own long_wait is MU_LONG_WAIT *)
Definition lw_acq_step (w : world) (t : nat) : bool :=
  match P w t with LsCasAcq _ l old => (longw l =? MU_LONG_WAIT) && (word w =? old) | _ => false end.

(* history ghost, one pair of flags per thread:
   enqd t  t has performed a successful enqueue CAS with MU_LONG_WAIT in its current nsync_mu_lock_slow_ call and
           has not acquired since ("between its enqueue CAS and its acquisition")
   exc t   since t's latest such CAS, ANOTHER thread whose long_wait is MU_LONG_WAIT has acquired (and thereby
           cleared the bit): the exception window of t is open *)
Record ghost := mk_g { enqd : nat -> bool; exc : nat -> bool }.
Definition g0 : ghost := mk_g (fun _ => false) (fun _ => false).
Definition gstep (w : world) (t : nat) (g : ghost) : ghost :=
  mk_g (fun x => if Nat.eqb x t
                 then (if lw_enq_step w t then true else if slow_acq_step w t then false else enqd g x)
                 else enqd g x)
       (fun x => if Nat.eqb x t
                 then (if lw_enq_step w t then false else exc g x)
                 else exc g x || lw_acq_step w t).
Definition stepG (c : world * ghost) (t : nat) : world * ghost := (fst (step (fst c) t), gstep (fst c) t (snd c)).
Definition runG (c : world * ghost) (sched : list nat) : world * ghost := fold_left stepG sched c.
Definition ghost_of (progs : list (list op)) (sched : list nat) : ghost := snd (runG (init progs, g0) sched).

(* the same, as statements about the schedule: *)
(* somewhere in sched, t made a successful enqueue CAS with MU_LONG_WAIT, and no later step of t in sched is a
   successful acquiring CAS of nsync_mu_lock_slow_ *)
Definition enq_since (progs : list (list op)) (sched : list nat) (t : nat) : Prop :=
  exists s1 s2, sched = s1 ++ t :: s2 /\ lw_enq_step (run (init progs) s1) t = true /\
    forall s3 s4, s2 = s3 ++ t :: s4 -> slow_acq_step (run (init progs) (s1 ++ t :: s3)) t = false.
(* somewhere in sched, a thread u <> t whose long_wait is MU_LONG_WAIT acquired, and no later step of t in sched is a
   successful enqueue CAS with MU_LONG_WAIT *)
Definition exc_since (progs : list (list op)) (sched : list nat) (t : nat) : Prop :=
  exists s1 u s2, sched = s1 ++ u :: s2 /\ u <> t /\ lw_acq_step (run (init progs) s1) u = true /\
    forall s3 s4, s2 = s3 ++ t :: s4 -> lw_enq_step (run (init progs) (s1 ++ u :: s3)) t = false.

Lemma runG_fst sched : forall c, fst (runG c sched) = run (fst c) sched.
Proof.
  unfold runG, run. induction sched as [|t rest IH]; intros c; cbn [fold_left]; [reflexivity|].
  rewrite IH. reflexivity.
Qed.

Lemma runG_snoc c s t : runG c (s ++ [t]) = stepG (runG c s) t.
Proof. unfold runG. rewrite fold_left_app. reflexivity. Qed.

Lemma ghost_of_snoc progs s t :
  ghost_of progs (s ++ [t]) = gstep (run (init progs) s) t (ghost_of progs s).
Proof.
  unfold ghost_of. rewrite runG_snoc. unfold stepG. cbn [snd]. rewrite runG_fst. reflexivity.
Qed.

Lemma lw_acq_slow w t : lw_acq_step w t = true -> slow_acq_step w t = true.
Proof.
  unfold lw_acq_step, slow_acq_step. destruct (P w t); try discriminate.
  intros H. apply andb_true_iff in H. apply H.
Qed.

Lemma lw_acq_of_lw w t : lw_pc (P w t) = true -> lw_acq_step w t = slow_acq_step w t.
Proof.
  unfold lw_acq_step, slow_acq_step, lw_pc. destruct (P w t); cbn [lsl_of]; try reflexivity.
  intros ->. reflexivity.
Qed.

Lemma lw_acq_lw w t : lw_acq_step w t = true -> lw_pc (P w t) = true.
Proof.
  unfold lw_acq_step, lw_pc. destruct (P w t); cbn [lsl_of]; try discriminate.
  intros H. apply andb_true_iff in H. apply H.
Qed.

Lemma lw_enq_lw w t : lw_enq_step w t = true -> lw_pc (P w t) = true.
Proof.
  unfold lw_enq_step, lw_pc. destruct (P w t); cbn [lsl_of]; try discriminate.
  intros H. apply andb_true_iff in H. apply H.
Qed.

(* the classification does not depend on whether the pending operation has been begun *)
Lemma step_kind_begin w t :
  lw_enq_step (begin_op w t) t = lw_enq_step w t /\
  slow_acq_step (begin_op w t) t = slow_acq_step w t /\
  lw_acq_step (begin_op w t) t = lw_acq_step w t.
Proof.
  unfold lw_enq_step, slow_acq_step, lw_acq_step, P. rewrite begin_op_word.
  destruct (begin_op_pc_cases w t) as [E | (E0 & _ & E)].
  - rewrite E. auto.
  - rewrite E0. destruct (t_pc (get (begin_op w t) t)); try (elim E; fail); auto.
Qed.

(* ================================================================== *)
(* Part B: thread-local facts                                          *)
(* ================================================================== *)

Definition lslL (m : mode) (l : lsl) : Prop := clr l = 0 -> zta l = lt_zero_to_acquire (lt_of m) /\ wcount l = 0.

Definition pcL (p : pc) : Prop :=
  match p with
  | UsRelLoad _ u | UsRelCas _ u _ => Z.testbit (set_on u) 6 = false /\ Z.testbit (clear_on u) 6 = false
  | LsLoad m l | LsCasAcq m l _ | LsCasEnq m l _ | LsStoreWaiting m l | LsRelLoad m l | LsRelCas m l _
  | LsWaitLoad m l | LsSemP m l => lslL m l
  | _ => True
  end.

Definition LInv (w : world) : Prop := forall t, pcL (P w t).

Lemma us_after_scan_L w u keep : us_after_scan w = (u, keep) ->
  Z.testbit (set_on u) 6 = false /\ Z.testbit (clear_on u) 6 = false.
Proof.
  unfold us_after_scan.
  pose proof (scan_pres (fun s => Z.testbit s 6 = false) (wtype w) (queue w)) as Hs.
  specialize (Hs ltac:(intros s A; unfold band; rewrite Z.land_spec, A; reflexivity)).
  specialize (Hs ltac:(intros s A; unfold band, bor; rewrite Z.land_spec, Z.lor_spec, A; reflexivity)).
  specialize (Hs None [] [] MU_ALL_FALSE eq_refl).
  destruct (scan (wtype w) (queue w) None [] [] MU_ALL_FALSE) as [[wk kp] so].
  cbn [fst snd] in *. cbv beta iota zeta. intros E. injection E as <- _. cbn [set_on clear_on].
  split; [exact Hs|].
  destruct kp, wk, (band so MU_ALL_FALSE =? 0); reflexivity.
Qed.

Lemma lslL_init m : lslL m (ls_init m).
Proof. intros _. split; reflexivity. Qed.

Lemma init_linv progs : LInv (init progs).
Proof. intros t. rewrite init_P. exact I. Qed.

Lemma begin_op_linv w t : LInv w -> LInv (begin_op w t).
Proof.
  intros HL x. unfold P. destruct (Nat.eq_dec x t) as [->|N].
  - destruct (begin_op_pc_cases w t) as [E | (_ & _ & E)]; [rewrite E; apply HL|].
    destruct (t_pc (get (begin_op w t) t)); try (elim E; fail); exact I.
  - rewrite begin_op_frame by exact N. apply HL.
Qed.

Lemma coa6 m : Z.testbit (coa m) 6 = false.  Proof. destruct m; reflexivity. Qed.
Lemma sww6 m : Z.testbit (sww m) 6 = false.  Proof. destruct m; reflexivity. Qed.
Lemma cur6 m : Z.testbit (cur m) 6 = false.  Proof. destruct m; reflexivity. Qed.

(* ================================================================== *)
(* Part C: the transition of MU_LONG_WAIT                              *)
(* ================================================================== *)

Section LongWait.
Variable n : nat.

Lemma step_b6 w0 t : Inv n w0 -> LInv w0 ->
  LInv (fst (step w0 t)) /\
  b6 (fst (step w0 t)) = (if lw_enq_step w0 t then true else if lw_acq_step w0 t then false else b6 w0).
Proof.
  intros H0 HL.
  assert (forall x, x <> t -> pcL (P (fst (step w0 t)) x)) as Others.
  { intros x N. unfold P. rewrite step_frame by exact N. apply HL. }
  cut (pcL (P (fst (step w0 t)) t) /\
       b6 (fst (step w0 t)) = (if lw_enq_step w0 t then true else if lw_acq_step w0 t then false else b6 w0)).
  { intros [A B]. split; [|exact B]. intros x. destruct (Nat.eq_dec x t) as [->|N]; auto. }
  clear Others.
  destruct (step_kind_begin w0 t) as (E1 & _ & E3). rewrite <- E1, <- E3. clear E1 E3.
  replace (b6 w0) with (b6 (begin_op w0 t)) by (unfold b6; now rewrite begin_op_word).
  apply (begin_op_linv _ t) in HL. apply (begin_op_inv _ _ t) in H0.
  unfold step. revert H0 HL. generalize (begin_op w0 t). intros w H0 HL. cbv zeta.
  unfold lw_enq_step, lw_acq_step, b6, P.
  destruct (Nat.lt_ge_cases t (length (thr w))) as [Ht|Ht].
  2:{ rewrite !(get_oob w t Ht). change (t_pc dflt_t) with Idle. cbv iota. cbn [fst]. rewrite ?(get_oob w t Ht).
      change (t_pc dflt_t) with Idle. split; [exact I | reflexivity]. }
  pose proof H0 as (Hlen & (Rw & _ & _ & HX) & Hok). specialize (Hok t).
  pose proof (Inv_held n w t) as Hheld. specialize (fun m => Hheld m H0).
  specialize (HL t). unfold P in HL.
  destruct (get w t) as [p ops h sl lt] eqn:Hs.
  pose proof Hs as Hs'. unfold get in Hs'. rewrite Hs' in Hok.
  unfold pc_ok in Hok. cbn [t_pc t_ops held sleeps last_try] in *.
  assert (1 <= 6 < 8) as K6 by lia.
  destruct p as [ | m | m | m old | m | m | m old | m l | m l old | m l old | m l | m l | m l old | m l | m l
                | m | m | m old | m | m old | m old | m u | m u old | m u | m q u | why ].
  - (* Idle *) cbn [fst]. rewrite Hs. split; [exact I | reflexivity].
  - (* LkFast *) cas_split w; normt Hs' Ht; cbn [word pcL]; (split; [exact I|]); [|reflexivity].
    rewrite Hcas. rewrite fb_fast_new by lia. reflexivity.
  - (* LkLoad *) destruct (fast_guard2 m (word w)); cbn [fst]; normt Hs' Ht; cbn [word pcL];
      (split; [first [exact I | apply lslL_init] | reflexivity]).
  - (* LkCas2 *) destruct Hok as [_ G]. cas_split w; normt Hs' Ht; cbn [word pcL];
      (split; [first [exact I | apply lslL_init]|]); [|reflexivity].
    subst old. rewrite fb_fast_new2 by (first [exact G | lia]). rewrite coa6. apply andb_true_r.
  - (* TryFast *) cas_split w; normt Hs' Ht; cbn [word pcL]; (split; [exact I|]); [|reflexivity].
    rewrite Hcas. rewrite fb_try_new by lia. reflexivity.
  - (* TryLoad *) destruct (try_guard2 m (word w)); cbn [fst]; normt Hs' Ht; cbn [word pcL]; (split; [exact I | reflexivity]).
  - (* TryCas2 *) destruct Hok as [_ G]. cas_split w; normt Hs' Ht; cbn [word pcL]; (split; [exact I|]); [|reflexivity].
    subst old. rewrite fb_try_new2 by (first [exact G | lia]). rewrite coa6. apply andb_true_r.
  - (* LsLoad *)
    destruct (nsync_mu_lock_slow_cas1_guard (word w) (zta l)); cbn [fst];
      [| destruct (nsync_mu_lock_slow_cas2_guard (word w) (zta l)); cbn [fst]];
      try (rewrite Hs; cbn [t_pc pcL]; split; [exact HL | reflexivity]);
      normt Hs' Ht; cbn [word pcL]; (split; [exact HL | reflexivity]).
  - (* LsCasAcq *) destruct Hok as (_ & Hl & G). cas_split w; normt Hs' Ht; cbn [word pcL].
    + split; [exact I|]. subst old. rewrite andb_true_r.
      rewrite fb_lock_slow_cas1 by (first [assumption | lia]). rewrite coa6, orb_false_r.
      destruct Hl as (_ & [-> | ->] & [-> | ->]); destruct (Z.testbit (word w) 6); reflexivity.
    + split; [exact HL|]. rewrite andb_false_r. reflexivity.
  - (* LsCasEnq *) destruct Hok as (_ & Hl). cas_split w; normt Hs' Ht; cbn [word pcL].
    + split; [exact HL|]. subst old. rewrite andb_true_r.
      rewrite fb_lock_slow_cas2 by lia. rewrite sww6.
      destruct Hl as (_ & [-> | ->] & [-> | ->]); destruct (Z.testbit (word w) 6); reflexivity.
    + split; [exact HL|]. rewrite andb_false_r. reflexivity.
  - (* LsStoreWaiting *) cbn [fst]. normt Hs' Ht. cbn [word pcL]. split; [exact HL | reflexivity].
  - (* LsRelLoad *) cbn [fst]. normt Hs' Ht. cbn [word pcL]. split; [exact HL | reflexivity].
  - (* LsRelCas *) cas_split w; normt Hs' Ht; cbn [word pcL]; (split; [exact HL|]); [|reflexivity].
    subst old. rewrite fb_release_spinlock by lia. apply andb_true_r.
  - (* LsWaitLoad *) destruct (waiting w t); cbn [fst]; normt Hs' Ht; cbn [word pcL]; (split; [|reflexivity]); [exact HL|].
    intros E. cbn [clr] in E. vm_compute in E. discriminate E.
  - (* LsSemP *) destruct (0 <? sem w t); cbn [fst].
    + normt Hs' Ht. cbn [word pcL]. split; [exact HL | reflexivity].
    + rewrite Hs. cbn [t_pc pcL]. split; [exact HL | reflexivity].
  - (* UlFast *) cas_split w; normt Hs' Ht; cbn [word pcL]; (split; [exact I|]); [|reflexivity].
    rewrite Hcas, fb_ufast_new. destruct m; reflexivity.
  - (* UlLoad *)
    destruct (unlock_try_cas2 m (word w)); [| destruct (unlock_bad m (word w))]; cbn [fst];
      normt Hs' Ht; cbn [word pcL]; (split; [exact I | reflexivity]).
  - (* UlCas2 *) subst h. specialize (Hheld m eq_refl). cas_split w; normt Hs' Ht; cbn [word pcL]; (split; [exact I|]); [|reflexivity].
    subst old. rewrite fb_unlock_new2 by (first [assumption | lia]). rewrite cur6. apply andb_true_r.
  - (* UsLoad *)
    destruct (has (word w) MU_CONDITION);
      [| destruct (nsync_mu_unlock_slow_cas1_guard (word w));
         [| destruct (nsync_mu_unlock_slow_cas2_guard (word w))]]; cbn [fst];
      try (rewrite Hs; cbn [t_pc pcL]; split; [exact I | reflexivity]);
      normt Hs' Ht; cbn [word pcL]; (split; [exact I | reflexivity]).
  - (* UsCasRel *) subst h. specialize (Hheld m eq_refl). cas_split w; normt Hs' Ht; cbn [word pcL]; (split; [exact I|]); [|reflexivity].
    subst old. rewrite fb_unlock_slow_cas1 by (first [assumption | lia]). rewrite cur6. apply andb_true_r.
  - (* UsCasSpin *) subst h. specialize (Hheld m eq_refl). cas_split w.
    + destruct (us_after_scan _) as [u keep] eqn:E. apply us_after_scan_L in E.
      cbn [fst]. normt Hs' Ht. cbn [word pcL]. split; [exact E|].
      subst old. rewrite fb_unlock_slow_cas2 by (first [assumption | lia]). rewrite !orb_false_r. reflexivity.
    + normt Hs' Ht. cbn [word pcL]. split; [exact I | reflexivity].
  - (* UsRelLoad *) cbn [fst]. normt Hs' Ht. cbn [word pcL]. split; [exact HL | reflexivity].
  - (* UsRelCas *) destruct Hok as (_ & (Hlate & _)). destruct HL as [S6 C6]. cas_split w; normt Hs' Ht; cbn [word pcL].
    + split; [destruct (wake u); exact I|].
      subst old. rewrite fb_unlock_slow_cas3 by (first [assumption | lia]). rewrite S6, C6, orb_false_r. apply andb_true_r.
    + split; [split; assumption | reflexivity].
  - (* UsWakeStore *) destruct (wake u) as [|p rest]; cbn [fst]; normt Hs' Ht; cbn [word pcL]; (split; [exact I | reflexivity]).
  - (* UsWakeV *) cbn [fst]. normt Hs' Ht. cbn [word pcL]. split; [destruct (wake u); exact I | reflexivity].
  - (* Crash *) cbn [fst]. rewrite Hs. split; [exact I | reflexivity].
Qed.

End LongWait.

(* ================================================================== *)
(* Part D: stickiness of long_wait, the ghost invariant                *)
(* ================================================================== *)

(* once a thread's long_wait is MU_LONG_WAIT it stays so until the thread's acquiring CAS succeeds *)
Lemma step_lw_sticky w0 t : lw_pc (P w0 t) = true -> slow_acq_step w0 t = false ->
  lw_pc (P (fst (step w0 t)) t) = true.
Proof.
  unfold slow_acq_step, P. intros HP HA.
  assert (t_pc (get w0 t) <> Idle) as NI by (intros E; rewrite E in HP; discriminate HP).
  pose proof (get_inb w0 t NI) as Ht.
  unfold step. rewrite begin_op_nonidle by exact NI. cbv zeta.
  destruct (get w0 t) as [p ops h sl lt] eqn:Hs. pose proof Hs as Hs'. unfold get in Hs'. cbn [t_pc] in *.
  destruct p; try discriminate HP; cbn [lw_pc lsl_of] in HP.
  - (* LsLoad *) brk; cbn [fst]; rewrite ?Hs; normt Hs' Ht; cbn [lw_pc lsl_of]; exact HP.
  - (* LsCasAcq *) unfold cas. rewrite HA. cbn [fst]. normt Hs' Ht. exact HP.
  - (* LsCasEnq *) unfold cas; brk; cbn [fst]; normt Hs' Ht; exact HP.
  - (* LsStoreWaiting *) cbn [fst]. normt Hs' Ht. exact HP.
  - (* LsRelLoad *) cbn [fst]. normt Hs' Ht. exact HP.
  - (* LsRelCas *) unfold cas; brk; cbn [fst]; normt Hs' Ht; exact HP.
  - (* LsWaitLoad *) destruct (waiting w0 t); cbn [fst]; normt Hs' Ht; cbn [lw_pc lsl_of longw]; [exact HP|].
    destruct (wrap_u 32 (wcount l + 1) =? LONG_WAIT_THRESHOLD); [reflexivity | exact HP].
  - (* LsSemP *) destruct (0 <? sem w0 t); cbn [fst]; rewrite ?Hs; normt Hs' Ht; exact HP.
Qed.

(* the enqueue CAS with MU_LONG_WAIT leaves the thread in nsync_mu_lock_slow_ with long_wait = MU_LONG_WAIT *)
Lemma step_enq_lw w0 t : lw_enq_step w0 t = true -> lw_pc (P (fst (step w0 t)) t) = true.
Proof.
  intros HE. pose proof (lw_enq_lw _ _ HE) as HP. apply step_lw_sticky; [exact HP|].
  unfold lw_enq_step, slow_acq_step in *. destruct (P w0 t); try discriminate HE. reflexivity.
Qed.

(* a successful acquiring CAS of nsync_mu_lock_slow_ acquires and ends the call *)
Lemma step_slow_acq w0 t : slow_acq_step w0 t = true ->
  held (get (fst (step w0 t)) t) <> None /\ P (fst (step w0 t)) t = Idle.
Proof.
  unfold slow_acq_step, P. intros HA.
  assert (t_pc (get w0 t) <> Idle) as NI by (intros E; rewrite E in HA; discriminate HA).
  pose proof (get_inb w0 t NI) as Ht.
  unfold step. rewrite begin_op_nonidle by exact NI. cbv zeta.
  destruct (get w0 t) as [p ops h sl lt] eqn:Hs. pose proof Hs as Hs'. unfold get in Hs'. cbn [t_pc] in *.
  destruct p; try discriminate HA. unfold cas. rewrite HA. cbn [fst]. normt Hs' Ht. split; [discriminate | reflexivity].
Qed.

Definition GInv (w : world) (g : ghost) : Prop :=
  (forall t, enqd g t = true -> lw_pc (P w t) = true) /\
  (forall t, enqd g t = true -> b6 w = true \/ exc g t = true) /\
  (b6 w = true -> exists t, enqd g t = true).

Lemma init_ginv progs : GInv (init progs) g0.
Proof. split; [discriminate|]. split; [discriminate|]. discriminate. Qed.

Section GhostInvariant.
Variable n : nat.
Hypothesis Hn : Z.of_nat n < 16777215.

Lemma step_ginv w t g : Inv n w -> LInv w -> GInv w g -> GInv (fst (step w t)) (gstep w t g).
Proof.
  intros H0 HL (G1 & G2 & G3).
  destruct (step_b6 n w t H0 HL) as [_ Hb].
  split; [|split].
  - intros x. cbn [gstep enqd]. destruct (Nat.eqb_spec x t) as [->|N].
    + destruct (lw_enq_step w t) eqn:E1; [intros _; apply step_enq_lw, E1|].
      destruct (slow_acq_step w t) eqn:E2; [discriminate|].
      intros E. apply step_lw_sticky; auto.
    + intros E. unfold P. rewrite step_frame by exact N. apply G1, E.
  - intros x. rewrite Hb. cbn [gstep enqd exc]. destruct (Nat.eqb_spec x t) as [->|N].
    + destruct (lw_enq_step w t) eqn:E1; [left; reflexivity|].
      destruct (slow_acq_step w t) eqn:E2; [discriminate|].
      destruct (lw_acq_step w t) eqn:E3; [apply lw_acq_slow in E3; congruence|].
      apply G2.
    + intros E. destruct (lw_enq_step w t); [left; reflexivity|].
      destruct (lw_acq_step w t); [right; apply orb_true_r|].
      rewrite orb_false_r. apply G2, E.
  - rewrite Hb. destruct (lw_enq_step w t) eqn:E1.
    + intros _. exists t. cbn [gstep enqd]. rewrite Nat.eqb_refl, E1. reflexivity.
    + destruct (lw_acq_step w t) eqn:E3; [discriminate|].
      intros B. destruct (G3 B) as [x Hx]. exists x. cbn [gstep enqd].
      destruct (Nat.eqb_spec x t) as [->|N]; [|exact Hx]. rewrite E1.
      rewrite <- (lw_acq_of_lw w t (G1 t Hx)), E3. exact Hx.
Qed.

Lemma runG_inv sched : forall w g, Inv n w -> LInv w -> GInv w g ->
  let c := runG (w, g) sched in Inv n (fst c) /\ LInv (fst c) /\ GInv (fst c) (snd c).
Proof.
  unfold runG. induction sched as [|t rest IH]; intros w g H0 HL HG; cbn [fold_left]; [cbn [fst snd]; auto|].
  unfold stepG at 2. cbn [fst snd]. apply IH.
  - apply step_inv; assumption.
  - apply (step_b6 n); assumption.
  - apply step_ginv; assumption.
Qed.

End GhostInvariant.

Lemma reachable_ginv progs sched : Z.of_nat (length progs) < 2 ^ 24 - 1 ->
  let w := run (init progs) sched in
  Inv (length progs) w /\ LInv w /\ GInv w (ghost_of progs sched).
Proof.
  intros H. cbv zeta.
  pose proof (runG_inv (length progs) H sched (init progs) g0 (init_inv progs) (init_linv progs) (init_ginv progs)) as X.
  cbv zeta in X. rewrite runG_fst in X. exact X.
Qed.

(* ================================================================== *)
(* Part E: the ghost read as history                                   *)
(* ================================================================== *)

Lemma snoc_split {A} (s : list A) x s1 y s2 : s ++ [x] = s1 ++ y :: s2 ->
  (s2 = [] /\ s = s1 /\ x = y) \/ exists s2', s2 = s2' ++ [x] /\ s = s1 ++ y :: s2'.
Proof.
  induction s2 as [|z s2' _] using rev_ind; intros E.
  - left. apply app_inj_tail in E. destruct E. auto.
  - right. rewrite app_comm_cons, app_assoc in E. apply app_inj_tail in E. destruct E as [E1 E2].
    subst z. exists s2'. auto.
Qed.

Lemma snoc_mid {A} (s1 : list A) y s2 x : (s1 ++ y :: s2) ++ [x] = s1 ++ y :: (s2 ++ [x]).
Proof. rewrite <- app_assoc. reflexivity. Qed.

Lemma enq_since_snoc progs s u t : enq_since progs (s ++ [u]) t <->
  (u = t /\ lw_enq_step (run (init progs) s) t = true) \/
  (enq_since progs s t /\ (u = t -> slow_acq_step (run (init progs) s) t = false)).
Proof.
  split.
  - intros (s1 & s2 & E & He & Hno). destruct (snoc_split _ _ _ _ _ E) as [(-> & -> & ->) | (s2' & -> & ->)].
    + left. auto.
    + right. split.
      * exists s1, s2'. split; [reflexivity|]. split; [exact He|].
        intros s3 s4 ->. apply (Hno s3 (s4 ++ [u])). rewrite <- app_assoc. reflexivity.
      * intros ->. apply (Hno s2' []). reflexivity.
  - intros [[-> He] | [(s1 & s2 & -> & He & Hno) Hu]].
    + exists s, []. split; [reflexivity|]. split; [exact He|]. intros s3 s4 E. destruct s3; discriminate E.
    + exists s1, (s2 ++ [u]). split; [apply snoc_mid|]. split; [exact He|].
      intros s3 s4 E. destruct (snoc_split _ _ _ _ _ E) as [(-> & -> & ->) | (s4' & -> & ->)].
      * apply Hu. reflexivity.
      * apply (Hno s3 s4'). reflexivity.
Qed.

Lemma exc_since_snoc progs s v t : exc_since progs (s ++ [v]) t <->
  (v <> t /\ lw_acq_step (run (init progs) s) v = true) \/
  (exc_since progs s t /\ (v = t -> lw_enq_step (run (init progs) s) t = false)).
Proof.
  split.
  - intros (s1 & u & s2 & E & Nu & Ha & Hno). destruct (snoc_split _ _ _ _ _ E) as [(-> & -> & ->) | (s2' & -> & ->)].
    + left. auto.
    + right. split.
      * exists s1, u, s2'. split; [reflexivity|]. split; [exact Nu|]. split; [exact Ha|].
        intros s3 s4 ->. apply (Hno s3 (s4 ++ [v])). rewrite <- app_assoc. reflexivity.
      * intros ->. apply (Hno s2' []). reflexivity.
  - intros [[Nv Ha] | [(s1 & u & s2 & -> & Nu & Ha & Hno) Hv]].
    + exists s, v, []. split; [reflexivity|]. split; [exact Nv|]. split; [exact Ha|].
      intros s3 s4 E. destruct s3; discriminate E.
    + exists s1, u, (s2 ++ [v]). split; [apply snoc_mid|]. split; [exact Nu|]. split; [exact Ha|].
      intros s3 s4 E. destruct (snoc_split _ _ _ _ _ E) as [(-> & -> & ->) | (s4' & -> & ->)].
      * apply Hv. reflexivity.
      * apply (Hno s3 s4'). reflexivity.
Qed.

(* enqd is exactly "between its enqueue CAS with MU_LONG_WAIT and its acquisition" *)
Lemma enqd_history progs sched t : enqd (ghost_of progs sched) t = true <-> enq_since progs sched t.
Proof.
  induction sched as [|u s IH] using rev_ind.
  - split; [discriminate|]. intros (s1 & s2 & E & _). destruct s1; discriminate E.
  - rewrite ghost_of_snoc, enq_since_snoc, <- IH. cbn [gstep enqd].
    destruct (Nat.eqb_spec t u) as [<-|N].
    + destruct (lw_enq_step (run (init progs) s) t) eqn:E1; [tauto|].
      destruct (slow_acq_step (run (init progs) s) t) eqn:E2.
      * split; [discriminate|]. intros [[_ H] | [_ H]]; [discriminate H | discriminate (H eq_refl)].
      * split; [auto|]. intros [[_ H] | [H _]]; [discriminate H | exact H].
    + split; [intros H; right; split; [exact H | intros E; congruence]|].
      intros [[E _] | [H _]]; [congruence | exact H].
Qed.

(* exc is exactly "another long waiter has acquired since t's latest enqueue CAS with MU_LONG_WAIT" *)
Lemma exc_history progs sched t : exc (ghost_of progs sched) t = true <-> exc_since progs sched t.
Proof.
  induction sched as [|v s IH] using rev_ind.
  - split; [discriminate|]. intros (s1 & u & s2 & E & _). destruct s1; discriminate E.
  - rewrite ghost_of_snoc, exc_since_snoc, <- IH. cbn [gstep exc].
    destruct (Nat.eqb_spec t v) as [<-|N].
    + destruct (lw_enq_step (run (init progs) s) t) eqn:E1.
      * split; [discriminate|]. intros [[H _] | [_ H]]; [now elim H | discriminate (H eq_refl)].
      * split; [auto|]. intros [[H _] | [H _]]; [now elim H | exact H].
    + rewrite orb_true_iff. split.
      * intros [H | H]; [right; split; [exact H | intros E; congruence] | left; split; [congruence | exact H]].
      * intros [[_ H] | [H _]]; auto.
Qed.

(* ================================================================== *)
(* Part F: the lemmas of Props/Properties_C14c.v                       *)
(* ================================================================== *)

Lemma lw_pc_iff p : lw_pc p = true <-> exists l, lsl_of p = Some l /\ longw l = MU_LONG_WAIT.
Proof.
  unfold lw_pc. destruct (lsl_of p) as [l|].
  - rewrite Z.eqb_eq. split; [eauto | intros (l' & E & H); congruence].
  - split; [discriminate | intros (l' & E & _); discriminate E].
Qed.

Lemma slow_holds_nothing n w t l : Inv n w -> lsl_of (P w t) = Some l -> held (get w t) = None.
Proof.
  intros (_ & _ & Hok) E. specialize (Hok t). unfold pc_ok in Hok. fold (get w t) in Hok. unfold P in E.
  destruct (t_pc (get w t)); try discriminate E; tauto.
Qed.

(* 1a: whenever MU_LONG_WAIT is set in the word, some thread is between its enqueue CAS with MU_LONG_WAIT and its
       acquisition, inside nsync_mu_lock_slow_ with long_wait = MU_LONG_WAIT, holding nothing;
   1b: conversely every such thread sees the bit set, unless another long waiter has acquired since its enqueue CAS *)
Lemma long_wait_owner : forall progs sched,
  Z.of_nat (length progs) < 2 ^ 24 - 1 ->
  let w := run (init progs) sched in
  (has (word w) MU_LONG_WAIT = true ->
     exists t l, enq_since progs sched t /\ lsl_of (P w t) = Some l /\ longw l = MU_LONG_WAIT /\
                 held (get w t) = None) /\
  (forall t, enq_since progs sched t ->
     (exists l, lsl_of (P w t) = Some l /\ longw l = MU_LONG_WAIT) /\ held (get w t) = None /\
     (has (word w) MU_LONG_WAIT = true \/ exc_since progs sched t)).
Proof.
  intros progs sched Hn w. destruct (reachable_ginv progs sched Hn) as (H0 & _ & G1 & G2 & G3). fold w in H0, G1, G2, G3.
  rewrite b6_has. split.
  - intros B. destruct (G3 B) as [t Ht]. destruct (proj1 (lw_pc_iff _) (G1 t Ht)) as (l & E & L).
    exists t, l. split; [apply enqd_history, Ht|]. split; [exact E|]. split; [exact L|].
    apply (slow_holds_nothing _ _ _ _ H0 E).
  - intros t Ht. apply enqd_history in Ht. destruct (proj1 (lw_pc_iff _) (G1 t Ht)) as (l & E & L).
    split; [eauto|]. split; [apply (slow_holds_nothing _ _ _ _ H0 E)|].
    destruct (G2 t Ht) as [B | X]; [left; exact B | right; apply exc_history, X].
Qed.

(* the exact transition of MU_LONG_WAIT by one step of a reachable world *)
Lemma long_wait_transition : forall progs sched u,
  Z.of_nat (length progs) < 2 ^ 24 - 1 ->
  let w := run (init progs) sched in
  has (word (fst (step w u))) MU_LONG_WAIT =
  (if lw_enq_step w u then true else if lw_acq_step w u then false else has (word w) MU_LONG_WAIT).
Proof.
  intros progs sched u Hn w. destruct (reachable_ginv progs sched Hn) as (H0 & HL & _). fold w in H0, HL.
  rewrite !b6_has. apply (step_b6 _ _ _ H0 HL).
Qed.

(* only an acquisition by a thread whose own long_wait is MU_LONG_WAIT clears the bit *)
Lemma long_wait_cleared_only_by : forall progs sched u,
  Z.of_nat (length progs) < 2 ^ 24 - 1 ->
  let w := run (init progs) sched in
  has (word w) MU_LONG_WAIT = true -> has (word (fst (step w u))) MU_LONG_WAIT = false ->
  exists m l, P w u = LsCasAcq m l (word w) /\ longw l = MU_LONG_WAIT /\ acquires w u.
Proof.
  intros progs sched u Hn w B B'. pose proof (long_wait_transition progs sched u Hn) as T. cbv zeta in T. fold w in T.
  rewrite T in B'. clear T.
  destruct (lw_enq_step w u); [discriminate B'|].
  destruct (lw_acq_step w u) eqn:E; [|congruence].
  destruct (reachable_ginv progs sched Hn) as (H0 & _). fold w in H0.
  pose proof (step_slow_acq w u (lw_acq_slow _ _ E)) as [A _].
  unfold lw_acq_step in E. destruct (P w u) as [ | | | | | | | |m l old| | | | | | | | | | | | | | | | | ] eqn:EP; try discriminate E.
  apply andb_true_iff in E. destruct E as [E1 E2]. apply Z.eqb_eq in E1, E2. subst old.
  exists m, l. split; [reflexivity|]. split; [exact E1|]. split; [|exact A].
  apply (slow_holds_nothing _ _ _ l H0). rewrite EP. reflexivity.
Qed.

(* only an enqueue CAS by a thread whose long_wait is MU_LONG_WAIT sets it *)
Lemma long_wait_set_only_by : forall progs sched u,
  Z.of_nat (length progs) < 2 ^ 24 - 1 ->
  let w := run (init progs) sched in
  has (word w) MU_LONG_WAIT = false -> has (word (fst (step w u))) MU_LONG_WAIT = true ->
  exists m l, P w u = LsCasEnq m l (word w) /\ longw l = MU_LONG_WAIT.
Proof.
  intros progs sched u Hn w B B'. pose proof (long_wait_transition progs sched u Hn) as T. cbv zeta in T. fold w in T.
  rewrite T in B'. clear T.
  destruct (lw_enq_step w u) eqn:E.
  - unfold lw_enq_step in E. destruct (P w u) as [ | | | | | | | | |m l old| | | | | | | | | | | | | | | | ]; try discriminate E.
    apply andb_true_iff in E. destruct E as [E1 E2]. apply Z.eqb_eq in E1, E2. subst old. eauto.
  - destruct (lw_acq_step w u); congruence.
Qed.

(* the bit stays set along any continuation in which no thread with long_wait = MU_LONG_WAIT acquires *)
Lemma long_wait_persists : forall progs s1 s2,
  Z.of_nat (length progs) < 2 ^ 24 - 1 ->
  has (word (run (init progs) s1)) MU_LONG_WAIT = true ->
  (forall s3 u s4, s2 = s3 ++ u :: s4 -> lw_acq_step (run (init progs) (s1 ++ s3)) u = false) ->
  has (word (run (init progs) (s1 ++ s2))) MU_LONG_WAIT = true.
Proof.
  intros progs s1 s2 Hn B. induction s2 as [|u s IH] using rev_ind; intros Hno.
  - rewrite app_nil_r. exact B.
  - rewrite app_assoc, run_snoc, (long_wait_transition progs (s1 ++ s) u Hn).
    destruct (lw_enq_step _ u); [reflexivity|].
    rewrite (Hno s u []) by reflexivity. apply IH.
    intros s3 v s4 ->. apply (Hno s3 v (s4 ++ [u])). rewrite <- app_assoc. reflexivity.
Qed.

(* 2: while t is between its enqueue CAS with MU_LONG_WAIT and its acquisition, and no other long waiter has
      acquired since that CAS, the bit is set and no fresh thread acquires *)
Lemma no_fresh_overtake : forall progs sched t,
  Z.of_nat (length progs) < 2 ^ 24 - 1 ->
  let w := run (init progs) sched in
  enq_since progs sched t -> ~ exc_since progs sched t ->
  has (word w) MU_LONG_WAIT = true /\ forall u, acquires w u -> ~ fresh w u.
Proof.
  intros progs sched t Hn w He Hx.
  destruct (proj2 (long_wait_owner progs sched Hn) t He) as (_ & _ & [B | X]); [|contradiction]. fold w in B.
  split; [exact B|]. intros u [A1 A2] F. apply A2. exact (barrier progs sched u Hn B F A1).
Qed.

(* the same from the enqueue CAS on, without the history predicates: t's enqueue CAS with MU_LONG_WAIT is the step
   after s1; along any continuation s2 in which no thread with long_wait = MU_LONG_WAIT acquires (t included), the
   bit is set in every world and no fresh thread acquires *)
Lemma no_fresh_overtake_run : forall progs s1 t s2,
  Z.of_nat (length progs) < 2 ^ 24 - 1 ->
  lw_enq_step (run (init progs) s1) t = true ->
  (forall s3 u s4, s2 = s3 ++ u :: s4 -> lw_acq_step (run (init progs) (s1 ++ t :: s3)) u = false) ->
  let w := run (init progs) (s1 ++ t :: s2) in
  has (word w) MU_LONG_WAIT = true /\ forall u, acquires w u -> ~ fresh w u.
Proof.
  intros progs s1 t s2 Hn He Hno w.
  assert (has (word w) MU_LONG_WAIT = true) as B.
  { unfold w. change (t :: s2) with ([t] ++ s2). rewrite app_assoc.
    apply long_wait_persists; [exact Hn | |].
    - rewrite run_snoc, (long_wait_transition progs s1 t Hn), He. reflexivity.
    - intros s3 u s4 E. rewrite <- app_assoc. apply (Hno s3 u s4 E). }
  split; [exact B|]. intros u [A1 A2] F. apply A2.
  exact (barrier progs (s1 ++ t :: s2) u Hn B F A1).
Qed.

(* no other thread's long_wait ever becomes MU_LONG_WAIT along the run *)
Definition sole_long_waiter (progs : list (list op)) (sched : list nat) (t : nat) : Prop :=
  forall s1 s2 u, sched = s1 ++ s2 -> u <> t -> lw_pc (P (run (init progs) s1) u) = false.

(* with a single long-waiting thread there is no exception *)
Lemma single_victim : forall progs sched t,
  Z.of_nat (length progs) < 2 ^ 24 - 1 ->
  let w := run (init progs) sched in
  sole_long_waiter progs sched t -> enq_since progs sched t ->
  has (word w) MU_LONG_WAIT = true /\ forall u, acquires w u -> ~ fresh w u.
Proof.
  intros progs sched t Hn w Hs He. apply (no_fresh_overtake progs sched t Hn He).
  intros (s1 & u & s2 & E & Nu & Ha & _). apply lw_acq_lw in Ha.
  rewrite (Hs s1 (u :: s2) u E Nu) in Ha. discriminate Ha.
Qed.

(* which steps can acquire at all *)
Lemma acquires_cases w u : acquires w u ->
  match P (begin_op w u) u with
  | LkFast _ | LkCas2 _ _ | TryFast _ | TryCas2 _ _ => True
  | LsCasAcq _ _ old => word w = old
  | _ => False
  end.
Proof.
  intros [H1 H2]. rewrite <- begin_op_held in H1. rewrite <- (begin_op_word w u). revert H1 H2.
  unfold step, P. cbv zeta. generalize (begin_op w u). intros w'.
  destruct (Nat.lt_ge_cases u (length (thr w'))) as [Ht|Ht].
  2:{ rewrite !(get_oob w' u Ht). exact (fun _ _ => I) || (intros H1 H2; cbn in H2; rewrite (get_oob w' u Ht) in H2; now elim H2). }
  destruct (get w' u) as [p ops h sl lt] eqn:Hs. pose proof Hs as Hs'. unfold get in Hs'. cbn [t_pc held].
  intros ->.
  destruct p; try exact (fun _ => I); unfold cas;
    try (destruct (Z.eqb_spec (word w') old) as [E|E]; [intros _; exact E|]);
    brk; cbn [fst]; rewrite ?Hs; normt Hs' Ht; intros H; now elim H.
Qed.

(* while MU_LONG_WAIT is set, whoever acquires has itself waited: it is at the acquiring CAS of nsync_mu_lock_slow_
   with clear = MU_DESIG_WAKER, i.e. it has been queued and woken at least once in its current call *)
Lemma overtaker_waited : forall progs sched u,
  Z.of_nat (length progs) < 2 ^ 24 - 1 ->
  let w := run (init progs) sched in
  has (word w) MU_LONG_WAIT = true -> acquires w u ->
  exists m l, P w u = LsCasAcq m l (word w) /\ clr l = MU_DESIG_WAKER.
Proof.
  intros progs sched u Hn w B A.
  assert (~ fresh w u) as NF by (intros F; destruct A as [A1 A2]; apply A2; exact (barrier progs sched u Hn B F A1)).
  pose proof (acquires_cases w u A) as C. unfold fresh in NF. unfold P in C.
  destruct (reachable_ginv progs sched Hn) as (H0 & HL & _). fold w in H0, HL.
  destruct (begin_op_pc_cases w u) as [E | (_ & _ & E)].
  2:{ destruct (t_pc (get (begin_op w u) u)); try (elim E; fail); try (elim C; fail); elim NF; exact I. }
  rewrite E in C, NF. specialize (HL u). unfold P in HL.
  destruct H0 as (_ & _ & Hok). specialize (Hok u). unfold pc_ok in Hok. fold (get w u) in Hok.
  destruct (t_pc (get w u)) as [ | | | | | | | |m l old| | | | | | | | | | | | | | | | | ] eqn:EP;
    try (elim C; fail); try (elim NF; exact I).
  subst old. exists m, l. split; [unfold P; exact EP|].
  destruct Hok as (_ & (_ & [C0 | C8] & _) & _); [|exact C8].
  elim NF. split; [exact C0 | apply (HL C0)].
Qed.

(* a thread that enqueues without having been woken in its current call goes to the BACK of the queue: everybody
   already queued (the long waiter in particular) stays ahead of it *)
Lemma fresh_arrival_behind : forall progs sched t m l,
  Z.of_nat (length progs) < 2 ^ 24 - 1 ->
  let w := run (init progs) sched in
  P w t = LsStoreWaiting m l -> clr l = 0 -> queue (fst (step w t)) = queue w ++ [t].
Proof.
  intros progs sched t m l Hn w EP C0.
  destruct (reachable_ginv progs sched Hn) as (_ & HL & _). fold w in HL. specialize (HL t). rewrite EP in HL.
  destruct (HL C0) as [_ W0]. unfold P in EP.
  unfold step. rewrite begin_op_nonidle by (rewrite EP; discriminate). cbv zeta. rewrite EP, W0. reflexivity.
Qed.

(* ================================================================== *)
(* Part G: examples (vm_compute)                                       *)
(* ================================================================== *)

(* a checker for sole_long_waiter on concrete runs *)
Fixpoint prefixes_b (f : world -> bool) (w : world) (sched : list nat) : bool :=
  f w && match sched with [] => true | t :: r => prefixes_b f (fst (step w t)) r end.

Lemma prefixes_b_sound f : forall sched w, prefixes_b f w sched = true ->
  forall s1 s2, sched = s1 ++ s2 -> f (run w s1) = true.
Proof.
  induction sched as [|a r IH]; intros w H s1 s2 E; cbn [prefixes_b] in H; apply andb_true_iff in H; destruct H as [H1 H2].
  - destruct s1; [exact H1 | discriminate E].
  - destruct s1 as [|b s1]; [exact H1|]. injection E as <- E.
    change (run w (a :: s1)) with (run (fst (step w a)) s1). apply (IH _ H2 s1 s2 E).
Qed.

Definition sole_f (progs : list (list op)) (t : nat) (w : world) : bool :=
  forallb (fun u => Nat.eqb u t || negb (lw_pc (P w u))) (seq 0 (length progs)).
Definition sole_b (progs : list (list op)) (sched : list nat) (t : nat) : bool :=
  prefixes_b (sole_f progs t) (init progs) sched.

Lemma sole_b_sound progs sched t : Z.of_nat (length progs) < 2 ^ 24 - 1 ->
  sole_b progs sched t = true -> sole_long_waiter progs sched t.
Proof.
  intros Hn H s1 s2 u E Nu. pose proof (prefixes_b_sound _ _ _ H s1 s2 E) as F. unfold sole_f in F.
  destruct (Nat.lt_ge_cases u (length progs)) as [L|G].
  - rewrite forallb_forall in F. specialize (F u). rewrite in_seq in F. specialize (F ltac:(lia)).
    apply orb_true_iff in F. destruct F as [F | F]; [apply Nat.eqb_eq in F; contradiction | apply negb_true_iff, F].
  - destruct (reachable_inv progs s1 Hn) as (Hlen & _). unfold P. rewrite get_oob by (rewrite Hlen; exact G). reflexivity.
Qed.

(* one traversal computing the prefix check and the final world + ghost together *)
Fixpoint prefixesG (f : world -> bool) (acc : bool) (c : world * ghost) (sched : list nat) : bool * (world * ghost) :=
  match sched with
  | [] => (acc && f (fst c), c)
  | t :: r => prefixesG f (acc && f (fst c)) (stepG c t) r
  end.

Lemma prefixesG_spec f : forall sched acc c,
  prefixesG f acc c sched = (acc && prefixes_b f (fst c) sched, runG c sched).
Proof.
  induction sched as [|t r IH]; intros acc c; cbn [prefixesG prefixes_b].
  - rewrite andb_true_r. reflexivity.
  - rewrite IH. unfold stepG at 1. cbn [fst]. rewrite andb_assoc. reflexivity.
Qed.

(* --- G1: non-vacuity of no_fresh_overtake / single_victim on the run of MuProof4.long_wait_example:
       the victim (thread 1) has made its enqueue CAS with MU_LONG_WAIT, nobody else is a long waiter, the lock is
       FREE, thread 2 is fresh -- and its acquiring CAS (nsync_mu_lock, site 1, 0 -> MU_WLOCK) is refused --- *)
Lemma c14c_nonvacuous :
  Z.of_nat (length lw_progs) < 2 ^ 24 - 1 /\
  let w := run (init lw_progs) lw_sched in
  enq_since lw_progs lw_sched 1%nat /\ ~ exc_since lw_progs lw_sched 1%nat /\
  sole_long_waiter lw_progs lw_sched 1%nat /\
  word w = 72 /\ has (word w) MU_LONG_WAIT = true /\ sleeps (get w 1%nat) = LONG_WAIT_THRESHOLD /\
  fresh w 2%nat /\ held (get w 2%nat) = None /\
  snd (step w 2%nat) = EvCas 101 0 1 false /\ held (get (fst (step w 2%nat)) 2%nat) = None.
Proof.
  assert (Z.of_nat (length lw_progs) < 2 ^ 24 - 1) as Hn by (vm_compute; reflexivity).
  split; [exact Hn|]. cbv zeta.
  split; [apply enqd_history; vm_compute; reflexivity|].
  split; [intros X; apply exc_history in X; vm_compute in X; discriminate X|].
  split; [apply (sole_b_sound _ _ _ Hn); vm_compute; reflexivity|].
  split; [vm_compute; reflexivity|]. split; [vm_compute; reflexivity|]. split; [vm_compute; reflexivity|].
  split; [vm_compute; exact I|]. split; [vm_compute; reflexivity|]. split; vm_compute; reflexivity.
Qed.

(* --- G2: the exception window is real.  Thread 0 = adversary (writer), threads 1 and 2 = two READERS that are woken
       together and both overtaken 30 times, so both carry MU_LONG_WAIT.  Then the adversary releases; reader 1
       acquires -- its acquiring CAS clears MU_LONG_WAIT although reader 2 is still waiting -- and releases; now the
       word is 0 and the adversary, FRESH, takes the lock by the fast path ahead of reader 2, which has been woken
       30 times; reader 2 then fails once more, re-queues, and its enqueue CAS sets the bit again. --- *)
Definition xw_progs : list (list op) := [lw_pairs 32; [OLock R; OUnlock]; [OLock R; OUnlock]].
(* one round: the adversary releases (10 steps, wakes both readers) and re-acquires by the fast path (3 steps);
   each reader wakes up, fails, re-queues in front, sleeps (8 steps) *)
Definition xw_round : list nat := (repeat 0 13 ++ repeat 1 8 ++ repeat 2 8)%nat.
Definition xw_sched30 : list nat := (0 :: repeat 1 8 ++ repeat 2 8 ++ concat (repeat xw_round 30))%nat.
(* the adversary releases (10); reader 1 acquires (4) and releases by the fast path (1) *)
Definition xw_sched : list nat := (xw_sched30 ++ repeat 0 10 ++ repeat 1 4 ++ [1])%nat.

Lemma exception_witness :
  Z.of_nat (length xw_progs) < 2 ^ 24 - 1 /\
  (* after 30 rounds both readers sleep with wait count 30 and long_wait = MU_LONG_WAIT, the bit is set *)
  (let w := run (init xw_progs) xw_sched30 in
   word w = 69 /\ has (word w) MU_LONG_WAIT = true /\ queue w = [2; 1]%nat /\
   enq_since xw_progs xw_sched30 1%nat /\ enq_since xw_progs xw_sched30 2%nat) /\
  (* reader 1's acquisition is the step that clears the bit *)
  (let s := (xw_sched30 ++ repeat 0 10 ++ repeat 1 3)%nat in let w := run (init xw_progs) s in
   has (word w) MU_LONG_WAIT = true /\ lw_acq_step w 1%nat = true /\
   has (word (fst (step w 1%nat))) MU_LONG_WAIT = false) /\
  (* in the window: reader 2 is still between its enqueue CAS and its acquisition, the bit is clear, the lock is
     free, and the FRESH adversary acquires *)
  (let w := run (init xw_progs) xw_sched in
   enq_since xw_progs xw_sched 2%nat /\ exc_since xw_progs xw_sched 2%nat /\
   word w = 0 /\ held (get w 2%nat) = None /\ sleeps (get w 2%nat) = LONG_WAIT_THRESHOLD /\
   fresh w 0%nat /\ acquires w 0%nat) /\
  (* reader 2 loses once more; its next enqueue CAS closes the window *)
  (let s := (xw_sched ++ [0] ++ repeat 2 8)%nat in let w := run (init xw_progs) s in
   holds w 0%nat W /\ h_asleep w 2%nat /\ sleeps (get w 2%nat) = LONG_WAIT_THRESHOLD + 1 /\
   has (word w) MU_LONG_WAIT = true /\ enq_since xw_progs s 2%nat /\ ~ exc_since xw_progs s 2%nat).
Proof.
  split; [vm_compute; reflexivity|]. split; [|split; [|split]]; cbv zeta.
  - split; [vm_compute; reflexivity|]. split; [vm_compute; reflexivity|]. split; [vm_compute; reflexivity|].
    split; apply enqd_history; vm_compute; reflexivity.
  - split; [vm_compute; reflexivity|]. split; vm_compute; reflexivity.
  - split; [apply enqd_history; vm_compute; reflexivity|]. split; [apply exc_history; vm_compute; reflexivity|].
    split; [vm_compute; reflexivity|]. split; [vm_compute; reflexivity|]. split; [vm_compute; reflexivity|].
    split; [vm_compute; exact I|]. split; [vm_compute; reflexivity | vm_compute; discriminate].
  - split; [vm_compute; reflexivity|]. split; [vm_compute; reflexivity|]. split; [vm_compute; reflexivity|].
    split; [vm_compute; reflexivity|]. split; [apply enqd_history; vm_compute; reflexivity|].
    intros X. apply exc_history in X. vm_compute in X. discriminate X.
Qed.

(* --- G3: the numeric bound is FALSE for a reader victim.  Thread 0 = writer A, thread 1 = the victim V (a reader, ONE
       nsync_mu_rlock call), thread 2 = reader U.  V is overtaken 30 times (as in G1) and sets MU_LONG_WAIT; U queues
       behind it.  Then the following cycle repeats, with MU_LONG_WAIT set all the time and V the only long waiter:
         A releases: the scan wakes BOTH readers V and U (10 steps); A, fresh, is stopped by the bit and queues (8);
         U (woken, so it ignores the bit) acquires -- which clears MU_DESIG_WAKER -- (4) and releases: its release
         finds a waiter and no designated waker, so it wakes A (8); A (woken) acquires (4);
         only now V runs: it finds the lock held by a writer, counts one more failed wake-up, re-queues, sleeps (8);
         U calls nsync_mu_rlock again, is stopped, queues behind V, sleeps (8).
       Every overtaker has itself waited (overtaker_waited), no fresh thread ever gets in -- and still V's number of
       sleeps grows by one per cycle. --- *)
Definition rd_pairs (k : nat) : list op := concat (repeat [OLock R; OUnlock] k).
Definition sv_progs (K : nat) : list (list op) := [lw_pairs (32 + K); [OLock R; OUnlock]; rd_pairs (2 + K)].
Definition sv_cycle : list nat :=
  (repeat 0 10 ++ repeat 0 8 ++ repeat 2 4 ++ repeat 2 8 ++ repeat 0 4 ++ repeat 1 8 ++ repeat 2 8)%nat.
Definition sv_sched (K : nat) : list nat := (lw_sched30 ++ repeat 2 8 ++ concat (repeat sv_cycle K))%nat.

(* the target of DESIGN.md 4 (C14_bound): with a single escalated victim (blocked in nsync_mu_lock for md = W, in
   nsync_mu_rlock for md = R), at most LONG_WAIT_THRESHOLD + c sleeps inside the call, under every schedule *)
Definition bound_full (md : mode) (c : Z) : Prop :=
  forall progs sched t l, Z.of_nat (length progs) < 2 ^ 24 - 1 -> sole_long_waiter progs sched t ->
    P (run (init progs) sched) t = LsSemP md l ->
    sleeps (get (run (init progs) sched) t) <= LONG_WAIT_THRESHOLD + c.

Definition sv_K : nat := 1000.

Definition sv_obs (c : world * ghost) :=
  (word (fst c), queue (fst c), (enqd (snd c) 1%nat, exc (snd c) 1%nat),
   (sleeps (get (fst c) 1%nat), held (get (fst c) 0%nat), snd (step (fst c) 1%nat)),
   match P (fst c) 1%nat with LsSemP m _ => Some m | _ => None end).

Lemma sv_computed :
  let r := prefixesG (sole_f (sv_progs sv_K) 1%nat) true (init (sv_progs sv_K), g0) (sv_sched sv_K) in
  (fst r, sv_obs (snd r)) = (true, (69, [1; 2]%nat, (true, false), (1030, Some W, EvBlocked), Some R)).
Proof. vm_compute. reflexivity. Qed.

Lemma bound_refuted_witness :
  let progs := sv_progs sv_K in let sched := sv_sched sv_K in let w := run (init progs) sched in
  length progs = 3%nat /\ sole_long_waiter progs sched 1%nat /\
  enq_since progs sched 1%nat /\ ~ exc_since progs sched 1%nat /\
  has (word w) MU_LONG_WAIT = true /\ h_asleep w 1%nat /\ queue w = [1; 2]%nat /\ holds w 0%nat W /\
  (exists l, P w 1%nat = LsSemP R l) /\
  sleeps (get w 1%nat) = LONG_WAIT_THRESHOLD + Z.of_nat sv_K.
Proof.
  cbv zeta.
  assert (Z.of_nat (length (sv_progs sv_K)) < 2 ^ 24 - 1) as Hn by (vm_compute; reflexivity).
  assert (length (sv_progs sv_K) = 3%nat) as L3 by reflexivity.
  assert (LONG_WAIT_THRESHOLD + Z.of_nat sv_K = 1030) as S by (vm_compute; reflexivity). rewrite S. clear S.
  pose proof sv_computed as C. cbv zeta in C. revert Hn L3 C.
  generalize (sv_progs sv_K) (sv_sched sv_K). intros progs sched Hn L3 C.
  rewrite prefixesG_spec in C. cbn [fst snd] in C.
  unfold sv_obs in C. rewrite runG_fst in C. cbn [fst] in C. fold (ghost_of progs sched) in C.
  injection C as C1 C2 C3 C4 C5 C6 C7 C8 C9.
  split; [exact L3|].
  split; [apply (sole_b_sound _ _ _ Hn); exact C1|].
  split; [apply enqd_history; exact C4|].
  split; [intros X; apply exc_history in X; rewrite C5 in X; discriminate X|].
  split; [rewrite C2; reflexivity|]. split; [exact C8|]. split; [exact C3|]. split; [exact C7|].
  split; [|exact C6].
  destruct (P (run (init progs) sched) 1%nat); try discriminate C9. injection C9 as ->. eauto.
Qed.

Lemma bound_refuted_reader : ~ bound_full R 999.
Proof.
  intros H. pose proof bound_refuted_witness as X. cbv zeta in X.
  destruct X as (_ & Hs & _ & _ & _ & _ & _ & _ & (l & El) & E).
  specialize (H (sv_progs sv_K) (sv_sched sv_K) 1%nat l ltac:(vm_compute; reflexivity) Hs El).
  rewrite E in H. vm_compute in H. apply H. reflexivity.
Qed.

(* --- the same for a WRITER victim among readers, without any barging writer.  Thread 0 = a writer that only sets the
       scene, thread 1 = the victim V (ONE nsync_mu_lock call), threads 2, 3, 4 = readers.  Scene: reader H holds,
       reader Y has been woken (together with H) but has not run yet, the queue is [V; P].  One cycle (roles h y p):
         h releases: V is first and a writer, so only V is woken (8 steps); h calls nsync_mu_rlock again, is stopped
         (MU_WRITER_WAITING, later MU_LONG_WAIT) and queues behind p (8);
         y (woken) acquires -- clearing MU_DESIG_WAKER although the designated waker V has not run -- (4) and
         releases: no designated waker, so it wakes p and h together (10); p acquires (4);
         only now V runs: the lock is held by a reader, V counts a failed wake-up, re-queues in front, sleeps (8);
         y calls nsync_mu_rlock again and queues behind V (8).
       The next cycle has the roles (p h y).  V fails once per cycle: after 30 cycles it carries MU_LONG_WAIT, sets the
       bit -- and nothing changes, because every reader that overtakes it has itself waited. --- *)
Definition wv_progs (K : nat) : list (list op) :=
  [[OLock W; OUnlock]; [OLock W; OUnlock]; rd_pairs (2 + K); rd_pairs (2 + K); rd_pairs (2 + K)].
Definition wv_setup : list nat :=
  (0 :: repeat 3 8 ++ repeat 2 8 ++ repeat 1 8 ++ repeat 0 10 ++ repeat 3 4 ++ repeat 4 8)%nat.
Definition wv_cycle (h y p : nat) : list nat :=
  (repeat h 8 ++ repeat h 8 ++ repeat y 4 ++ repeat y 10 ++ repeat p 4 ++ repeat 1 8 ++ repeat y 8)%nat.
Definition wv_super : list nat := (wv_cycle 3 2 4 ++ wv_cycle 4 3 2 ++ wv_cycle 2 4 3)%nat.
Definition wv_S : nat := 110.
Definition wv_sched : list nat := (wv_setup ++ concat (repeat wv_super wv_S))%nat.

Lemma wv_computed :
  let r := prefixesG (sole_f (wv_progs (wv_S + wv_S)) 1%nat) true (init (wv_progs (wv_S + wv_S)), g0) wv_sched in
  (fst r, sv_obs (snd r)) = (true, (356, [1; 4]%nat, (true, false), (330, None, EvBlocked), Some W)).
Proof. vm_compute. reflexivity. Qed.

Lemma bound_refuted_writer_witness :
  let progs := wv_progs (wv_S + wv_S) in let w := run (init progs) wv_sched in
  length progs = 5%nat /\ sole_long_waiter progs wv_sched 1%nat /\
  enq_since progs wv_sched 1%nat /\ ~ exc_since progs wv_sched 1%nat /\
  has (word w) MU_LONG_WAIT = true /\ h_asleep w 1%nat /\ queue w = [1; 4]%nat /\
  (exists l, P w 1%nat = LsSemP W l) /\
  sleeps (get w 1%nat) = LONG_WAIT_THRESHOLD + 300.
Proof.
  cbv zeta.
  assert (Z.of_nat (length (wv_progs (wv_S + wv_S))) < 2 ^ 24 - 1) as Hn by (vm_compute; reflexivity).
  assert (length (wv_progs (wv_S + wv_S)) = 5%nat) as L5 by reflexivity.
  assert (LONG_WAIT_THRESHOLD + 300 = 330) as S by (vm_compute; reflexivity). rewrite S. clear S.
  pose proof wv_computed as C. cbv zeta in C. revert Hn L5 C.
  generalize (wv_progs (wv_S + wv_S)) wv_sched. intros progs sched Hn L5 C.
  rewrite prefixesG_spec in C. cbn [fst snd] in C.
  unfold sv_obs in C. rewrite runG_fst in C. cbn [fst] in C. fold (ghost_of progs sched) in C.
  injection C as C1 C2 C3 C4 C5 C6 C7 C8 C9.
  split; [exact L5|].
  split; [apply (sole_b_sound _ _ _ Hn); exact C1|].
  split; [apply enqd_history; exact C4|].
  split; [intros X; apply exc_history in X; rewrite C5 in X; discriminate X|].
  split; [rewrite C2; reflexivity|]. split; [exact C8|]. split; [exact C3|].
  split; [|exact C6].
  destruct (P (run (init progs) sched) 1%nat); try discriminate C9. injection C9 as ->. eauto.
Qed.

Lemma bound_refuted_writer : ~ bound_full W 299.
Proof.
  intros H. pose proof bound_refuted_writer_witness as X. cbv zeta in X.
  destruct X as (_ & Hs & _ & _ & _ & _ & _ & (l & El) & E).
  specialize (H (wv_progs (wv_S + wv_S)) wv_sched 1%nat l ltac:(vm_compute; reflexivity) Hs El).
  rewrite E in H. vm_compute in H. apply H. reflexivity.
Qed.

(* --- the gap before the first enqueue: a thread whose wake-up count has just reached LONG_WAIT_THRESHOLD carries
       long_wait = MU_LONG_WAIT but has not yet put the bit into the word (it does so at its next enqueue CAS) --- *)
Definition gap_sched : list nat :=
  (0 :: repeat 1 8 ++ concat (repeat lw_round 29) ++ repeat 0 11 ++ repeat 1 2)%nat.
Lemma threshold_gap_example :
  let w := run (init lw_progs) gap_sched in
  (exists l, P w 1%nat = LsLoad W l /\ longw l = MU_LONG_WAIT /\ wcount l = LONG_WAIT_THRESHOLD) /\
  has (word w) MU_LONG_WAIT = false /\ ~ enq_since lw_progs gap_sched 1%nat /\
  (* its next three steps: load, enqueue CAS (sets the bit), ... *)
  lw_enq_step (run w [1%nat]) 1%nat = true /\ has (word (run w [1; 1]%nat)) MU_LONG_WAIT = true.
Proof.
  cbv zeta. split; [eexists; split; [vm_compute; reflexivity | split; vm_compute; reflexivity]|].
  split; [vm_compute; reflexivity|].
  split; [intros X; apply enqd_history in X; vm_compute in X; discriminate X|].
  split; vm_compute; reflexivity.
Qed.
