(* MuXferProof8: examples for Props/Properties_C04x.v (vm_compute over Model/MuXferModel.v). *)
From NsyncBase Require Import CSem.
From NsyncGen Require Import Consts Sites.
From NsyncModel Require Import MuModel MuSpec MuXferModel.
From NsyncProof Require Import MuProof MuProof2 MuXferProof MuXferProof2 MuXferProof3 MuXferProof4 MuXferProof5 MuXferProof6 MuXferProof7 MuXferProofG.
From Coq Require Import List ZArith Lia.
Import ListNotations.
Local Open Scope Z_scope.

(* A BALANCED program (every thread releases what it locks): two waiters, one broadcaster.
   Threads 0 and 1 lock, wait on the cv (7 steps each: fast lock; store waiting, load word, enqueue, unlock, loop, sleep);
   thread 2 locks and broadcasts inside its critical section (load cv word, select, wake_waiters: load, acquiring CAS =
   transfer of both writers to the mutex queue, load, releasing CAS), then unlocks through nsync_mu_unlock_slow_ (9
   steps), which wakes the head of the queue, thread 0.  At that moment: the mutex queue is [1], nobody holds the mutex,
   the spinlock is free -- the hypotheses of C04x_handoff_all_states -- and thread 0, a transferred waiter whose flag
   has been cleared and whose semaphore holds the post, is the live waker.  Run on, everybody finishes. *)
Definition bal_progs : list (list xop) :=
  [[XOp (OLock W); XWait W; XOp OUnlock]; [XOp (OLock W); XWait W; XOp OUnlock]; [XOp (OLock W); XBroadcast; XOp OUnlock]].
Definition bal_s1 : list actor := map go [0;0;0;0;0;0;0; 1;1;1;1;1;1;1; 2;2;2;2;2;2;2; 2;2;2;2;2;2;2;2;2]%nat.
Definition bal_s2 : list actor := map go (repeat 0%nat 30 ++ repeat 1%nat 30).

Lemma example_all_states :
  let x1 := xrun (xinit bal_progs) bal_s1 in
  let x2 := xrun x1 bal_s2 in
  (queue (mw x1) = [1%nat] /\ (forall t m, held (get (mw x1) t) <> Some m) /\ has (word (mw x1)) MU_SPINLOCK = false /\
   has (word (mw x1)) MU_WAITING = true /\ has (word (mw x1)) MU_DESIG_WAKER = true) /\
  (x_waker x1 0%nat /\ (exists l, x_pc (xget x1 0%nat) = XwSem l) /\ xferred x1 0%nat = true /\
   waiting (mw x1) 0%nat = false /\ sem (mw x1) 0%nat = 1 /\
   (exists l, x_pc (xget x1 1%nat) = XwSem l) /\ xferred x1 1%nat = true /\ waiting (mw x1) 1%nat = true) /\
  (forall t, (t < 3)%nat -> x_done x2 t) /\ word (mw x2) = 0 /\ queue (mw x2) = [] /\
  x_rets (xget x2 0%nat) = [(W, Some W)] /\ x_rets (xget x2 1%nat) = [(W, Some W)].
Proof.
  cbv zeta. split; [|split; [|split; [|split; [|split; [|split]]]]].
  - split; [vm_compute; reflexivity|]. split; [|vm_compute; auto].
    intros t m. destruct t as [|[|[|t]]]; try (vm_compute; discriminate). vm_compute. destruct t; discriminate.
  - split.
    + right; right; left. vm_compute. auto.
    + vm_compute. repeat split; try reflexivity; eexists; reflexivity.
  - intros t Ht. destruct t as [|[|[|t]]]; [| | |lia]; vm_compute; auto.
  - vm_compute. reflexivity.
  - vm_compute. reflexivity.
  - vm_compute. reflexivity.
  - vm_compute. reflexivity.
Qed.

(* the quiescent corollary is satisfiable (necessarily with a thread that finishes while holding the mutex): thread 1
   locks, signals inside its critical section -- the waiting writer 0 is transferred -- and never unlocks *)
Definition q_progs : list (list xop) := [[XOp (OLock W); XWait W; XOp OUnlock]; [XOp (OLock W); XSignal]].
Definition q_sched : list actor := map go [0;0;0;0;0;0;0; 1;1;1;1;1;1;1]%nat.

Lemma example_quiescent :
  let xw := xrun (xinit q_progs) q_sched in
  x_quiescent xw /\ x_mu_sleeper xw 0%nat /\ xferred xw 0%nat = true /\ x_done xw 1%nat /\ holds (mw xw) 1%nat W.
Proof.
  cbv zeta. split; [|split; [|split; [|split]]].
  - intros t Ht. vm_compute in Ht. destruct t as [|[|t]]; [left | right | lia]; vm_compute; auto.
  - right. vm_compute. eexists. split; reflexivity.
  - vm_compute. reflexivity.
  - vm_compute. auto.
  - vm_compute. reflexivity.
Qed.

(* a timed wait whose deadline expires AFTER it has been transferred returns 0 (outcome ghost false), holding the mutex:
   thread 0 waits, thread 1 locks and signals (transfer), thread 0's semaphore wait times out (CAlt), its confirmation
   section finds it is no longer on the cv queue, it spins until thread 1's unlock clears its flag, re-enters
   nsync_mu_lock_slow_ as the designated waker and acquires *)
Definition to_progs : list (list xop) := [[XOp (OLock W); XWait W; XOp OUnlock]; [XOp (OLock W); XSignal; XOp OUnlock]].
Definition to_s1 : list actor := map go [0;0;0;0;0;0;0; 1;1;1;1;1;1;1]%nat ++ [Thr 0%nat CAlt] ++ map go [0;0;0;0]%nat.
Definition to_s2 : list actor := map go [1;1;1;1;1;1;1;1;1; 0;0;0]%nat.

Lemma example_timeout_after_transfer :
  let x1 := xrun (xinit to_progs) to_s1 in
  let x2 := xrun x1 to_s2 in
  (xferred x1 0%nat = true /\ exists l, wl3 (x_pc (xget x1 0%nat)) = Some l /\ w_so l = true /\ w_out l = false) /\
  (exists l, x_pc (xget x2 0%nat) = XwReacq l /\ w_so l = true /\ w_out l = false) /\
  let x3 := xrun x2 (map go [0;0]%nat) in
  holds (mw x3) 0%nat W /\ x_rets (xget x3 0%nat) = [(W, Some W)] /\ x_pc (xget x3 0%nat) = XIdle.
Proof.
  cbv zeta. split; [|split].
  - vm_compute. split; [reflexivity|]. eexists. repeat split; reflexivity.
  - vm_compute. eexists. repeat split; reflexivity.
  - vm_compute. repeat split; reflexivity.
Qed.

(* ---------- nsync_wait_n records on the cv ---------- *)
(* the F15 shape: reader 0 waits in read mode, thread 1 waits through nsync_wait_n (NULL, ...), thread 2 takes a read lock
   and broadcasts: the first waiter is a reader that can acquire, the second record is not a mutex waiter, so
   wake_waiters' acquiring CAS (which sets MU_WAITING) is taken (next != NULL && !all_readers) and transfers NOBODY; its
   releasing CAS finds the mutex queue empty and takes MU_WAITING back; both are then woken directly *)
Definition f15_progs : list (list xop) :=
  [[XOp (OLock R); XWait R; XOp OUnlock]; [XWaitN None]; [XOp (OLock R); XBroadcast; XOp OUnlock]].
Definition f15_s1 : list actor := map go [0;0;0;0;0;0; 1;1;1; 2; 2;2;2]%nat.    (* ... up to wake_waiters' first load *)
Definition f15_s2 : list actor := map go [2]%nat.                                (* the acquiring CAS *)
Definition f15_s3 : list actor := map go [2;2]%nat.                              (* load, releasing CAS *)
Definition f15_s4 : list actor := map go [2;2;2;2; 2;2;2; 1;1;1;1; 0;0;0;0;0;0; 0;0;0]%nat.

Lemma example_nobody_transferred :
  let x1 := xrun (xinit f15_progs) f15_s1 in
  let x2 := xrun x1 f15_s2 in
  let x3 := xrun x2 f15_s3 in
  let x4 := xrun x3 f15_s4 in
  (cvq x1 = [] /\ (exists k old, x_pc (xget x1 2%nat) = XvCas1 k old /\ k_wake k = [0; 1]%nat /\ k_allr k = false) /\
   nrec x1 0%nat = false /\ nrec x1 1%nat = true /\ holds (mw x1) 2%nat R /\ has (word (mw x1)) MU_WAITING = false) /\
  (snd (xstep x1 (go 2%nat)) = XMu (EvCas 1002 256 262 true) /\
   has (word (mw x2)) MU_WAITING = true /\ has (word (mw x2)) MU_SPINLOCK = true /\ queue (mw x2) = [] /\
   xferred x2 0%nat = false /\ xferred x2 1%nat = false /\
   exists k, x_pc (xget x2 2%nat) = XvLoad3 k /\ k_wake k = [0; 1]%nat /\ k_clr k = bor MU_SPINLOCK MU_WAITING) /\
  (has (word (mw x3)) MU_WAITING = false /\ has (word (mw x3)) MU_SPINLOCK = false /\ queue (mw x3) = [] /\ word (mw x3) = 256) /\
  (forall t, (t < 3)%nat -> x_done x4 t) /\ word (mw x4) = 0 /\ queue (mw x4) = [] /\ cvq x4 = [] /\
  x_rets (xget x4 0%nat) = [(R, Some R)].
Proof.
  cbv zeta. split; [|split; [|split; [|split; [|split; [|split; [|split]]]]]].
  - vm_compute. repeat split; try reflexivity. eexists; eexists; repeat split; reflexivity.
  - vm_compute. repeat split; try reflexivity. eexists; repeat split; reflexivity.
  - vm_compute. repeat split; reflexivity.
  - intros t Ht. destruct t as [|[|[|t]]]; [| | |lia]; vm_compute; auto.
  - vm_compute. reflexivity.
  - vm_compute. reflexivity.
  - vm_compute. reflexivity.
  - vm_compute. reflexivity.
Qed.

(* nsync_wait_n with the mutex: enqueue while holding it, unlock, be woken by a signal issued under the lock (the record
   is first on the list: pmu = NULL, wake_waiters never looks at the mutex), dequeue, lock again *)
Definition wn_progs : list (list xop) :=
  [[XOp (OLock W); XWaitN (Some W); XOp OUnlock]; [XOp (OLock W); XSignal; XOp OUnlock]].
Definition wn_s1 : list actor := map go [0; 0;0;0;0;0; 1; 1;1]%nat.
Definition wn_s2 : list actor := map go [1;1; 1; 0;0;0;0; 0; 0]%nat.
Lemma example_waitn_mutex :
  let x1 := xrun (xinit wn_progs) wn_s1 in
  let x2 := xrun x1 wn_s2 in
  ((exists om, x_pc (xget x1 0%nat) = XnSem om) /\ (exists k, x_pc (xget x1 1%nat) = XvStore k /\ k_wake k = [0%nat]) /\
   cvq x1 = [] /\ waiting (mw x1) 0%nat = true /\ holds (mw x1) 1%nat W) /\
  (forall t, (t < 2)%nat -> x_done x2 t) /\ word (mw x2) = 0 /\ x_rets (xget x2 0%nat) = [(W, Some W)].
Proof.
  cbv zeta. split; [|split; [|split]].
  - vm_compute. repeat split; try reflexivity; eexists; try split; reflexivity.
  - intros t Ht. destruct t as [|[|t]]; [| |lia]; vm_compute; auto.
  - vm_compute. reflexivity.
  - vm_compute. reflexivity.
Qed.

(* the two waiting flags of a thread (waiter struct / nsync_wait_n record) are never live together: a thread whose record
   on the cv is an nsync_wait_n record is neither on the mutex queue nor on the wake list of a releaser, and it is not
   inside a native cv wait *)
Lemma record_kinds : forall progs sched p,
  Z.of_nat (length progs) < 2 ^ 24 - 1 ->
  let xw := xrun (xinit progs) sched in
  xn_rec (x_pc (xget xw p)) = true ->
  ~ In p (queue (mw xw)) /\ (forall u, ~ In p (wake_of (t_pc (get (mw xw) u)))) /\ wphase (x_pc (xget xw p)) = false /\
  xaf xw p = false.
Proof.
  intros progs sched p H xw NR. destruct (xreachable_all progs sched H) as (HI & _ & HP & _). fold xw in HI, HP.
  destruct HP as (HM & _).
  assert (cvs xw p = true) as Cp by (unfold cvs; rewrite NR; apply orb_true_r).
  pose proof (cvs_not_slp _ xw p HI Cp) as Sp. destruct HM as (_ & Hq & _ & Hw & _).
  split; [|split; [|split]].
  - intros Hin. destruct (Hq p Hin) as [_ X]. congruence.
  - intros u Hin. rewrite wake_of_wl in Hin. destruct (Hw u p Hin) as (_ & X & _). congruence.
  - destruct (x_pc (xget xw p)); try discriminate NR; reflexivity.
  - unfold xaf. destruct (x_pc (xget xw p)); try discriminate NR; reflexivity.
Qed.

(* the cv side of the places invariant: a member of the cv queue or of the to_wake_list of a thread inside
   nsync_cv_signal / broadcast / wake_waiters has its waiting flag set, is in exactly one of these lists once, and is a
   native waiter parked in nsync_cv_wait that has not been transferred, or the record of an nsync_wait_n call *)
Lemma cv_members : forall progs sched p,
  Z.of_nat (length progs) < 2 ^ 24 - 1 ->
  let xw := xrun (xinit progs) sched in
  In p (cvq xw) \/ (exists u, In p (kws xw u)) ->
  waiting (mw xw) p = true /\
  ((wph2 (x_pc (xget xw p)) = true /\ xferred xw p = false) \/ nrec xw p = true) /\
  (In p (cvq xw) -> forall u, ~ In p (kws xw u)) /\ (forall u1 u2, In p (kws xw u1) -> In p (kws xw u2) -> u1 = u2).
Proof.
  intros progs sched p H xw Hin. destruct (xreachable_all progs sched H) as (_ & _ & HP & _). fold xw in HP.
  destruct HP as (_ & HC & _). destruct HC as (_ & Hq & _ & Hw & Hd).
  assert (waiting (mw xw) p = true /\ cvs xw p = true) as [Wp Cp].
  { destruct Hin as [Hin | [u Hin]]; [apply (Hq p Hin) | destruct (Hw u p Hin) as (a & b & _); auto]. }
  split; [exact Wp|]. split; [|split].
  - unfold nrec. destruct (xn_rec (x_pc (xget xw p))) eqn:NR; [right; reflexivity | left; apply cvs_native; assumption].
  - intros Iq u Iu. destruct (Hw u p Iu) as (_ & _ & X). contradiction.
  - intros u1 u2. apply Hd.
Qed.

(* while wake_waiters works with pmu (before and at its acquiring CAS) the first element of its list is a native waiter *)
Lemma wake_head_native : forall progs sched t k f,
  Z.of_nat (length progs) < 2 ^ 24 - 1 ->
  let xw := xrun (xinit progs) sched in
  x_pc (xget xw t) = XvLoad1 k \/ (exists old, x_pc (xget xw t) = XvCas1 k old) -> hd_error (k_wake k) = Some f ->
  nrec xw f = false /\ wph2 (x_pc (xget xw f)) = true /\ xferred xw f = false /\ waiting (mw xw) f = true.
Proof.
  intros progs sched t k f H xw Pc Hd. destruct (xreachable_all progs sched H) as (_ & _ & HP & _). fold xw in HP.
  destruct HP as (_ & HC & _ & HN). destruct (xreachable_gi progs sched H) as [HG _]. fold xw in HG.
  assert (vhd (x_pc (xget xw t)) = Some f) as Hv by (destruct Pc as [-> | [old ->]]; exact Hd).
  pose proof (HN t f Hv) as NR. pose proof (HG t f Hv) as GR. destruct (vhd_in _ _ Hv) as [Hin _]. fold (kws xw t) in Hin.
  destruct HC as (_ & _ & _ & Hw & _). destruct (Hw t f Hin) as (Wf & Cf & _).
  destruct (cvs_native xw f Cf NR) as [W2 Xf]. unfold nrec. rewrite NR, GR. auto.
Qed.

(* a generic-interface waiter (cv_mu == NULL) is never transferred: it is not marked, it is not on the mutex queue nor on the
   wake list of a releaser; it re-acquires through its caller's lock routine *)
Lemma generic_never_transferred : forall progs sched p,
  Z.of_nat (length progs) < 2 ^ 24 - 1 ->
  let xw := xrun (xinit progs) sched in
  xg_rec (x_pc (xget xw p)) = true ->
  xferred xw p = false /\ ~ In p (queue (mw xw)) /\ (forall u, ~ In p (wake_of (t_pc (get (mw xw) u)))).
Proof.
  intros progs sched p H xw GR. destruct (xreachable_all progs sched H) as (HI & _ & HP & _). fold xw in HI, HP.
  destruct (xreachable_gi progs sched H) as [_ HV]. fold xw in HV. pose proof (HV p GR) as Xp.
  destruct HP as (HM & _).
  assert (wph2 (x_pc (xget xw p)) = true) as W2 by (destruct (x_pc (xget xw p)); try discriminate GR; reflexivity).
  assert (cvs xw p = true) as Cp by (unfold cvs; rewrite W2, Xp; reflexivity).
  pose proof (cvs_not_slp _ xw p HI Cp) as Sp. destruct HM as (_ & Hq & _ & Hw & _).
  split; [exact Xp|]. split.
  - intros Hin. destruct (Hq p Hin) as [_ X]. congruence.
  - intros u Hin. rewrite wake_of_wl in Hin. destruct (Hw u p Hin) as (_ & X & _). congruence.
Qed.
