(* MuXferProof8: examples for Props/Properties_C04x.v (vm_compute over Model/MuXferModel.v). *)
From NsyncBase Require Import CSem.
From NsyncGen Require Import Consts Sites.
From NsyncModel Require Import MuModel MuSpec MuXferModel.
From NsyncProof Require Import MuProof MuProof2 MuXferProof MuXferProof2 MuXferProof3 MuXferProof4 MuXferProof5 MuXferProof6 MuXferProof7.
From Coq Require Import List ZArith Lia.
Import ListNotations.
Local Open Scope Z_scope.

(* A BALANCED program (every thread releases what it locks): two waiters, one broadcaster.
   Threads 0 and 1 lock, wait on the cv (7 steps each: fast lock; store waiting, load word, enqueue, unlock, loop, sleep);
   thread 2 locks and broadcasts inside its critical section (load cv word, select, wake_waiters: load, acquiring CAS =
   transfer of both writers to the mutex queue, load, releasing CAS), then unlocks through nsync_mu_unlock_slow_ (9
   steps), which wakes the head of the queue, thread 0.  At that moment: the mutex queue is [1], nobody holds the mutex,
   the spinlock is free -- the hypotheses of C04x_handoff_all_states -- and thread 0, a transferred waiter whose flag
   has been cleared and whose semaphore holds the post, is the live waker.  Run on, everybody finishes. *)
Definition bal_progs : list (list xop) :=
  [[XOp (OLock W); XWait W; XOp OUnlock]; [XOp (OLock W); XWait W; XOp OUnlock]; [XOp (OLock W); XBroadcast; XOp OUnlock]].
Definition bal_s1 : list actor := map go [0;0;0;0;0;0;0; 1;1;1;1;1;1;1; 2;2;2;2;2;2;2; 2;2;2;2;2;2;2;2;2]%nat.
Definition bal_s2 : list actor := map go (repeat 0%nat 30 ++ repeat 1%nat 30).

Lemma example_all_states :
  let x1 := xrun (xinit bal_progs) bal_s1 in
  let x2 := xrun x1 bal_s2 in
  (queue (mw x1) = [1%nat] /\ (forall t m, held (get (mw x1) t) <> Some m) /\ has (word (mw x1)) MU_SPINLOCK = false /\
   has (word (mw x1)) MU_WAITING = true /\ has (word (mw x1)) MU_DESIG_WAKER = true) /\
  (x_waker x1 0%nat /\ (exists l, x_pc (xget x1 0%nat) = XwSem l) /\ xferred x1 0%nat = true /\
   waiting (mw x1) 0%nat = false /\ sem (mw x1) 0%nat = 1 /\
   (exists l, x_pc (xget x1 1%nat) = XwSem l) /\ xferred x1 1%nat = true /\ waiting (mw x1) 1%nat = true) /\
  (forall t, (t < 3)%nat -> x_done x2 t) /\ word (mw x2) = 0 /\ queue (mw x2) = [] /\
  x_rets (xget x2 0%nat) = [(W, Some W)] /\ x_rets (xget x2 1%nat) = [(W, Some W)].
Proof.
  cbv zeta. split; [|split; [|split; [|split; [|split; [|split]]]]].
  - split; [vm_compute; reflexivity|]. split; [|vm_compute; auto].
    intros t m. destruct t as [|[|[|t]]]; try (vm_compute; discriminate). vm_compute. destruct t; discriminate.
  - split.
    + right; right; left. vm_compute. auto.
    + vm_compute. repeat split; try reflexivity; eexists; reflexivity.
  - intros t Ht. destruct t as [|[|[|t]]]; [| | |lia]; vm_compute; auto.
  - vm_compute. reflexivity.
  - vm_compute. reflexivity.
  - vm_compute. reflexivity.
  - vm_compute. reflexivity.
Qed.

(* the quiescent corollary is satisfiable (necessarily with a thread that finishes while holding the mutex): thread 1
   locks, signals inside its critical section -- the waiting writer 0 is transferred -- and never unlocks *)
Definition q_progs : list (list xop) := [[XOp (OLock W); XWait W; XOp OUnlock]; [XOp (OLock W); XSignal]].
Definition q_sched : list actor := map go [0;0;0;0;0;0;0; 1;1;1;1;1;1;1]%nat.

Lemma example_quiescent :
  let xw := xrun (xinit q_progs) q_sched in
  x_quiescent xw /\ x_mu_sleeper xw 0%nat /\ xferred xw 0%nat = true /\ x_done xw 1%nat /\ holds (mw xw) 1%nat W.
Proof.
  cbv zeta. split; [|split; [|split; [|split]]].
  - intros t Ht. vm_compute in Ht. destruct t as [|[|t]]; [left | right | lia]; vm_compute; auto.
  - right. vm_compute. eexists. split; reflexivity.
  - vm_compute. reflexivity.
  - vm_compute. auto.
  - vm_compute. reflexivity.
Qed.

(* a timed wait whose deadline expires AFTER it has been transferred returns 0 (outcome ghost false), holding the mutex:
   thread 0 waits, thread 1 locks and signals (transfer), thread 0's semaphore wait times out (CAlt), its confirmation
   section finds it is no longer on the cv queue, it spins until thread 1's unlock clears its flag, re-enters
   nsync_mu_lock_slow_ as the designated waker and acquires *)
Definition to_progs : list (list xop) := [[XOp (OLock W); XWait W; XOp OUnlock]; [XOp (OLock W); XSignal; XOp OUnlock]].
Definition to_s1 : list actor := map go [0;0;0;0;0;0;0; 1;1;1;1;1;1;1]%nat ++ [Thr 0%nat CAlt] ++ map go [0;0;0;0]%nat.
Definition to_s2 : list actor := map go [1;1;1;1;1;1;1;1;1; 0;0;0]%nat.

Lemma example_timeout_after_transfer :
  let x1 := xrun (xinit to_progs) to_s1 in
  let x2 := xrun x1 to_s2 in
  (xferred x1 0%nat = true /\ exists l, wl3 (x_pc (xget x1 0%nat)) = Some l /\ w_so l = true /\ w_out l = false) /\
  (exists l, x_pc (xget x2 0%nat) = XwReacq l /\ w_so l = true /\ w_out l = false) /\
  let x3 := xrun x2 (map go [0;0]%nat) in
  holds (mw x3) 0%nat W /\ x_rets (xget x3 0%nat) = [(W, Some W)] /\ x_pc (xget x3 0%nat) = XIdle.
Proof.
  cbv zeta. split; [|split].
  - vm_compute. split; [reflexivity|]. eexists. repeat split; reflexivity.
  - vm_compute. eexists. repeat split; reflexivity.
  - vm_compute. repeat split; reflexivity.
Qed.
