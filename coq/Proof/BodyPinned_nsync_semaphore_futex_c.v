(* The code of every function of nsync_semaphore_futex.c, regenerated from /repo on this run (digest of its AST), is the code the models were validated against. *)
From Coq Require Import String List.
From NsyncGen Require Import Body.
From NsyncModel Require Import BodyExpected.

Lemma body_current_nsync_semaphore_futex_c : body_nsync_semaphore_futex_c = expected_body_nsync_semaphore_futex_c.
Proof. vm_compute. reflexivity. Qed.
