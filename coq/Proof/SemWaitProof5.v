(* SemWaitProof5: the statements of Properties_C05sw.v put together from the layers of SemWaitProof .. SemWaitProof4. *)
From NsyncBase Require Import CSem.
From NsyncGen Require Import Consts Sites.
From NsyncModel Require Import SemWaitModel.
From NsyncProof Require Import SemWaitProof SemWaitProof2 SemWaitProof3 SemWaitProof4.
From Coq Require Import List ZArith Bool Lia Arith.
Import ListNotations.
Local Open Scope Z_scope.

Lemma res_distinct : 0 <> ETIMEDOUT /\ 0 <> ECANCELED /\ ETIMEDOUT <> ECANCELED.
Proof. unfold ETIMEDOUT, ECANCELED. lia. Qed.

(* C05sw_reason, as far as it holds *)
Definition reason_ok (e : rentry) : Prop :=
  (e_res e = 0 -> e_why e = YOk /\ e_took e <> None) /\
  (e_res e = ETIMEDOUT -> e_why e = YTimeout /\
     (exists c, e_toclk e = Some c /\ tle_z (e_dl e) c = true /\ c <= e_clock e) /\
     (e_note e = None \/ (e_note e <> None /\ e_near e = true /\ tlt (e_dl e) (e_ct e) = true /\ e_ct e = e_exp e))) /\
  (e_res e = ECANCELED -> e_note e <> None /\ (e_flag e <> 0 \/ tpos (e_exp e) = false) /\
     (e_why e = YEarly \/ e_why e = YLocked \/ e_why e = YExpiry) /\
     (e_why e = YEarly -> forall c, e_chk e = Some c -> tle_z (e_exp e) c = true /\ c <= e_clock e) /\
     (e_why e = YExpiry -> e_near e = false /\ tlt (e_dl e) (e_ct e) = false /\ e_ct e = e_exp e /\
                           exists c, e_toclk e = Some c /\ tle_z (e_exp e) c = true /\ c <= e_clock e)).
Lemma sw_reason w e : reachable w -> In e (rets w) -> reason_ok e.
Proof.
  intros R I0. pose proof (sw_ret_ok w e R I0) as K. destruct res_distinct as (D1 & D2 & D3).
  unfold ret_ok, e_notifiedish in K. unfold reason_ok. destruct (e_why e) eqn:Ey.
  - destruct K as [K1 K2]. rewrite K1. split; [auto|split; intro; congruence].
  - destruct K as (K1 & K2 & K3). rewrite K1. split; [intro; congruence|split; [auto|intro; congruence]].
  - destruct K as (K1 & K2 & K3 & K4). rewrite K1. split; [intro; congruence|split; [intro; congruence|]]. intros _.
    split; [auto|split; [auto|split; [auto|split; [auto|intro; discriminate]]]].
  - destruct K as (K1 & K2 & K3). rewrite K1. split; [intro; congruence|split; [intro; congruence|]]. intros _.
    split; [auto|split; [auto|split; [auto|split; intro; discriminate]]].
  - destruct K as (K1 & K2 & K3 & K4 & K5 & K6 & K7). rewrite K1. split; [intro; congruence|split; [intro; congruence|]]. intros _.
    split; [auto|split; [auto|split; [auto|split; [intro; discriminate|auto]]]].
Qed.

(* the full statement asked for ("ECANCELED => the `notified` word is non-zero at the return") and its refutation *)
Definition reason_full : Prop := forall w e, reachable w -> In e (rets w) -> e_res e = ECANCELED -> e_flag e <> 0.
Lemma sw_reason_refuted : exists w e, reachable w /\ In e (rets w) /\ e_res e = ECANCELED /\ e_flag e = 0 /\ e_exp e = Some (-5).
Proof.
  exists (run w_pre (st 0 4)). eexists. split; [|split; [left; reflexivity|vm_compute; repeat split]].
  exists 0, [(Some (-5), false)], [[OWait (Some 0%nat) None]], (st 0 4). split; [lia|reflexivity].
Qed.
Lemma sw_reason_not_full : ~ reason_full.
Proof. intro F. destruct sw_reason_refuted as (w & e & R & I0 & E & G & _). exact (F w e R I0 E G). Qed.

(* once the deadline has been reached the time-out of the P is enabled *)
Lemma tle_min dl ct now : tle_z dl now = true -> tle_z (if tlt dl ct then dl else ct) now = true.
Proof.
  destruct dl as [d|]; simpl; [|discriminate]. intro H. destruct ct as [c|]; simpl; [|exact H].
  destruct (Z.ltb_spec d c); simpl; auto. apply Z.leb_le in H. apply Z.leb_le. lia.
Qed.
Lemma step_nonempty w t c f rest : stack (get w t) = f :: rest -> step w t c = step_core w t c.
Proof. intro E. rewrite step_eq. unfold begin_call. rewrite E. reflexivity. Qed.
Lemma sw_deadline_enabled w t n l rest : reachable w -> stack (get w t) = AWait l (WP n) :: rest ->
  tle_z (w_dl l) (clock w) = true -> snd (step w t true) = EvP false.
Proof.
  intros R Est Hd. pose proof (proj1 (reachable_W2 w R) t) as F. rewrite Est in F. apply Forall_inv2 in F as [F _]. simpl in F.
  destruct F as (_ & _ & _ & Fn & Fl). rewrite (step_nonempty w t true _ _ Est). unfold step_core. rewrite Est. simpl.
  assert (T : tle_z (w_ldl l) (clock w) = true) by (rewrite Fl, Fn; apply tle_min; exact Hd).
  rewrite T. destruct (w_near l); reflexivity.
Qed.
Lemma sw_plain_deadline_enabled w t l rest : stack (get w t) = AWait l WPlain :: rest ->
  tle_z (w_dl l) (clock w) = true -> snd (step w t true) = EvP false.
Proof. intros Est Hd. rewrite (step_nonempty w t true _ _ Est). unfold step_core. rewrite Est. simpl. rewrite Hd. reflexivity. Qed.
(* without deadline and without note the P never times out; it takes a post iff there is one *)
Lemma sw_no_deadline w t l rest : stack (get w t) = AWait l WPlain :: rest -> w_dl l = None ->
  snd (step w t true) = EvBlocked /\ (sem (get w t) = O -> snd (step w t false) = EvBlocked) /\
  ((1 <= sem (get w t))%nat -> snd (step w t false) = EvP true).
Proof.
  intros Est Hd. rewrite !(step_nonempty w t _ _ _ Est). unfold step_core. rewrite Est. simpl. rewrite Hd. simpl.
  destruct (sem (get w t)); repeat split; auto; intro; try lia; discriminate.
Qed.
Lemma sw_no_deadline_result w e : reachable w -> In e (rets w) -> e_note e = None -> e_dl e = None -> e_res e = 0 /\ e_took e <> None.
Proof.
  intros R I0 En Ed. destruct (sw_reason w e R I0) as (A & B & C). destruct (sw_results w e R I0) as [E|[E|E]].
  - split; auto. apply A; auto.
  - destruct (B E) as (_ & (c & _ & T & _) & _). rewrite Ed in T. discriminate.
  - destruct (C E) as (N & _). congruence.
Qed.

(* a thread inside the waiter loop of note_notify_child is never blocked; a waiter with a post is not stuck *)
Lemma sw_drainer_enabled w u n c : draining w u n -> snd (step w u c) <> EvBlocked.
Proof.
  intros (p & o & rest & [E|E]); rewrite (step_nonempty w u c _ _ E); unfold step_core; rewrite E; simpl; try discriminate;
  try (unfold c_wloop; destruct (waiters _); discriminate).
Qed.
Lemma sw_post_taken w t n l rest : stack (get w t) = AWait l (WP n) :: rest -> (1 <= sem (get w t))%nat -> snd (step w t false) = EvP true.
Proof.
  intros Est Hs. rewrite (step_nonempty w t false _ _ Est). unfold step_core. rewrite Est. simpl. destruct (sem (get w t)); [lia|reflexivity].
Qed.
Lemma sw_not_stuck w t n l : reachable w -> in_P w t n l -> flag (nt w n) <> 0 -> (forall u, ~ draining w u n) -> ~ stuck w t.
Proof.
  intros R Hp Hf Hd S. destruct (sw_no_lost_cancel w t n l R Hp Hf) as [A|[u A]]; [|exact (Hd u A)].
  destruct Hp as (rest & Est). specialize (S false). rewrite (sw_post_taken w t n l rest Est A) in S. discriminate.
Qed.
