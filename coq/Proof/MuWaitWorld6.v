(* MuWaitWorld6: the internal Crash pcs of Model/MuWaitModel.v are unreachable.

   Crash 1 / 4 / 8 / 9 are raised by begin_op when the client program breaks the contract (unlock without holding,
   lock while holding, protected state written outside a write section, nsync_mu_wait without holding).  All the
   others are internal:
     2   nsync_panic_ of nsync_mu_unlock / nsync_mu_runlock / nsync_mu_unlock_without_wakeup ("not held in write/read mode"),
     5   nsync_panic_ "checking a waiter condition while unlocked"      (already excluded in MuWaitWorld3),
     6   fuel of scan_from exhausted                                    (a modelling artefact),
     7   impossible continuation / empty cursor at an evaluation        (internal inconsistency),
     10  nsync_panic_ of nsync_mu_wait_with_deadline ("not held in some mode").
   The invariant NC says that a thread at a Crash pc is there for one of the four contract violations, and that it
   then owns neither the spinlock nor a converted lock and is not inside nsync_mu_wait_with_deadline.

   Part A  the sanity checks of the unlock functions accept the word of a holder (bit arithmetic).
   Part B  pure: which Crash pcs inner / finalize / scan_from / after_inner can return; the fuel lemma.
   Part C  NC, begin_op, where a crash comes from.
   Part D  pure: no Crash at all under the "no panic" conditions of MuWaitWorld3.
   Part E  NC is preserved by every step; reachable worlds. *)
From NsyncBase Require Import CSem.
From NsyncGen Require Import Consts Sites.
From NsyncModel Require Import MuWaitModel MuWaitSpec.
From NsyncProof Require Import WordView MuWaitProof MuWaitRings MuWaitBits MuWaitWorld1 MuWaitWorld2 MuWaitWorld3.
From Coq Require Import List ZArith Bool Lia PeanoNat.
Import ListNotations.
Local Open Scope Z_scope.
Ltac Zify.zify_post_hook ::= Z.div_mod_to_equations.

(* ================= Part A: the sanity checks of unlock / runlock / unlock_without_wakeup ================= *)
(* a word without write bit and without readers has nothing in common with MU_RLOCK_FIELD | MU_WLOCK *)
Lemma land_lockmask_zero a : 0 <= a -> a mod 2 = 0 -> a / 256 = 0 -> Z.land a 4294967041 = 0.
Proof.
  intros N E D. apply Z.bits_inj'. intros k Hk. rewrite Z.land_spec, Z.bits_0.
  destruct (Z_lt_ge_dec k 8) as [L|G].
  - assert (k = 0 \/ k = 1 \/ k = 2 \/ k = 3 \/ k = 4 \/ k = 5 \/ k = 6 \/ k = 7) as KK by lia.
    destruct KK as [-> | [-> | [-> | [-> | [-> | [-> | [-> | ->]]]]]]]; try apply andb_false_r.
    rewrite bit0_mod2, E. reflexivity.
  - assert (Z.testbit a k = false) as ->; [| reflexivity].
    apply Z.testbit_false; [exact Hk|].
    assert (2 ^ 8 <= 2 ^ k) by (apply Z.pow_le_mono_r; lia). change (2 ^ 8) with 256 in *.
    rewrite Z.div_small by lia. reflexivity.
Qed.

Lemma unlock_bad_W_ok x : rng x -> x mod 2 = 1 -> x / 256 = 0 -> unlock_bad W x = false.
Proof.
  intros R E D. unfold unlock_bad, has, band, bor, bnot32.
  change MU_WLOCK with 1. change MU_ALL_FALSE with 128. change (Z.lor MU_RLOCK_FIELD 1) with 4294967041.
  unfold rng in R.
  assert (Z.land (Z.land (x - 1) (4294967295 - 128)) 4294967041 = 0) as ->; [| reflexivity].
  apply land_lockmask_zero.
  - apply Z.land_nonneg. left. lia.
  - rewrite land_mod2. replace ((x - 1) mod 2) with 0 by lia. reflexivity.
  - rewrite land_div256. replace ((x - 1) / 256) with 0 by lia. reflexivity.
Qed.

Lemma unlock_bad_R_ok x : x mod 2 = 0 -> unlock_bad R x = false.
Proof.
  intros E. unfold unlock_bad, band, bor. apply Z.eqb_neq. intros Z0.
  assert (Z.testbit (Z.land (Z.lxor x MU_WLOCK) (Z.lor MU_WLOCK MU_RLOCK_FIELD)) 0 = true) as B.
  { rewrite Z.land_spec, Z.lxor_spec, bit0_mod2, E. reflexivity. }
  rewrite Z0, Z.bits_0 in B. discriminate B.
Qed.

Lemma uw_bad_ok x : rng x -> x mod 2 = 1 -> x / 256 = 0 -> uw_bad x = false.
Proof.
  intros R E D. unfold uw_bad, has, band, bor. change MU_WLOCK with 1. change (Z.lor MU_RLOCK_FIELD 1) with 4294967041.
  unfold rng in R. rewrite wrap32 by (unfold rng; lia).
  rewrite land_lockmask_zero by lia. reflexivity.
Qed.

(* ================= Part B: which Crash pcs the scan can return ================= *)
Lemma inner_crash w m rest u k : inner w m u rest = InPc (Crash k) -> k = 5.
Proof.
  intros E. pose proof (inner_spec w m rest u) as S. rewrite E in S.
  destruct S as [(A & _) | (u' & sk & x & tl & _ & _ & _ & _ & [(A & _) | (A & _)])]; [| discriminate A | discriminate A].
  injection A as ->. reflexivity.
Qed.
Lemma inner_no_crash67 w m rest u : inner w m u rest <> InPc (Crash 6) /\ inner w m u rest <> InPc (Crash 7).
Proof. split; intros E; apply inner_crash in E; discriminate E. Qed.

Lemma finalize_no_crash w m u k : snd (finalize w m u) <> Crash k.
Proof. unfold finalize; cbn [snd]. discriminate. Qed.

(* the only Crash pcs of the scan: the panic (5) and the exhausted fuel (6) *)
Lemma scan_from_crash m : forall fuel w u k, snd (scan_from fuel w m u) = Crash k -> k = 5 \/ k = 6.
Proof.
  induction fuel as [|f IH]; intros w u k; cbn [scan_from].
  - cbn [snd]. intros E. injection E as <-. right; reflexivity.
  - destruct (u_new u) as [|p rest]; [intros E; destruct (finalize_no_crash _ _ _ _ E)|].
    destruct (adjust_test w u p); [cbn [snd]; discriminate|].
    match goal with |- context [inner w m ?u1 ?r] => destruct (inner w m u1 r) as [p0|u2] eqn:Ei end.
    + cbn [snd]. intros ->. left. exact (inner_crash _ _ _ _ _ Ei).
    + destruct (round_end w (end_inner_set u2)) as [w2 u3]. apply IH.
Qed.

Lemma scan_from_S f w m u :
  scan_from (S f) w m u =
  match u_new u with
  | [] => finalize w m u
  | p :: _ =>
      let t' := adjust_test w u p in
      let u1 := mk_us t' (u_late u) (u_done u) (u_new u) (u_new u) (u_wake u) (u_wty u) (u_set u) in
      if t' then (w, RelLoad (KScan m u1) true)
      else match inner w m u1 (u_new u) with
           | InPc p => (w, p)
           | InEnd u2 => let '(w2, u3) := round_end w (end_inner_set u2) in scan_from f w2 m u3
           end
  end.
Proof. reflexivity. Qed.

(* the fuel is never exhausted: the scan is always entered with mu->waiters already picked up (queue = []), so a
   round that ends without reaching an atomic site is followed by a round that finds nothing and finalizes *)
Lemma scan_from_no_crash6 m : forall fuel w u, (2 <= fuel)%nat -> queue w = [] -> snd (scan_from fuel w m u) <> Crash 6.
Proof.
  intros [|[|f]] w u Hf Hq; [lia | lia |]. rewrite scan_from_S.
  destruct (u_new u) as [|p rest]; [apply finalize_no_crash|]. cbv zeta.
  destruct (adjust_test w u p); [cbn [snd]; discriminate|].
  match goal with |- context [inner w m ?u1 ?r] => destruct (inner w m u1 r) as [p0|u2] eqn:Ei end.
  - cbn [snd]. intros ->. apply inner_crash in Ei. discriminate Ei.
  - destruct (round_end_fields w (end_inner_set u2)) as (_ & _ & _ & _ & _ & _ & _ & _ & _ & _ & _ & E7).
    destruct (round_end w (end_inner_set u2)) as [w2 u3]. cbn [snd] in E7.
    rewrite scan_from_nil by (rewrite E7, Hq; reflexivity). apply finalize_no_crash.
Qed.

Lemma scan_from_crash5 m fuel w u k : (2 <= fuel)%nat -> queue w = [] -> snd (scan_from fuel w m u) = Crash k -> k = 5.
Proof.
  intros Hf Hq E. destruct (scan_from_crash m fuel w u k E) as [-> | ->]; [reflexivity|].
  destruct (scan_from_no_crash6 m fuel w u Hf Hq E).
Qed.

(* round_end empties mu->waiters, so the scan_from that follows it has enough fuel *)
Lemma round_end_scan_crash5 m fuel w u k : (2 <= fuel)%nat ->
  snd (scan_from fuel (fst (round_end w u)) m (snd (round_end w u))) = Crash k -> k = 5.
Proof.
  intros Hf. apply scan_from_crash5; [exact Hf|]. destruct (round_end_fields w u) as (E1 & _). exact E1.
Qed.

Lemma after_inner_crash w m r k : snd (after_inner w m r) = Crash k -> r = InPc (Crash k) \/ k = 5.
Proof.
  destruct r as [p|u]; cbn [after_inner].
  - cbn [snd]. intros ->. left; reflexivity.
  - destruct (u_test (end_inner_set u)); [cbn [snd]; discriminate|].
    pose proof (round_end_scan_crash5 m 3 w (end_inner_set u) k) as K.
    destruct (round_end w (end_inner_set u)) as [w2 u3]. cbn [fst snd] in K. intros E. right. apply K; [lia | exact E].
Qed.

Lemma after_inner_inner_crash w m u rest k : snd (after_inner w m (inner w m u rest)) = Crash k -> k = 5.
Proof.
  intros E. destruct (after_inner_crash _ _ _ _ E) as [A | A]; [exact (inner_crash _ _ _ _ _ A) | exact A].
Qed.

(* ================= Part C: the invariant ================= *)
Definition client_crash (k : Z) : Prop := k = 1 \/ k = 4 \/ k = 8 \/ k = 9.
Definition NCt (s : tstate) : Prop :=
  forall k, t_pc s = Crash k -> client_crash k /\ spin s = false /\ conv s = false /\ mw s = None.
Definition NC (w : world) : Prop := forall t, NCt (get w t).

(* what begin_op starts for operation o when the thread holds h (the inner match of begin_op) *)
Definition op_start (o : op) (h : option mode) : pc * option mwl :=
  match o, h with
  | OLock m, None => (LkFast m, None)
  | OTry m, None => (TryFast m, None)
  | OLock _, Some _ | OTry _, Some _ => (Crash 4, None)
  | OUnlock, Some m => (UlFast m, None)
  | OUnlockNW, Some W => (UwFast, None)
  | OUnlock, None | OUnlockNW, _ => (Crash 1, None)
  | OSetCond f a b, Some W => (SetC f a b, None)
  | OSetCond _ _ _, _ => (Crash 8, None)
  | OMuWait c e d k, Some h => (MwLoad, Some (mk_mw W c e d k true 0 false 0 false 0 None (Some h)))
  | OMuWait _ _ _ _, None => (Crash 9, None)
  end.

Lemma begin_op_cases w t :
  get (begin_op w t) t = get w t \/
  exists o rest, t_pc (get w t) = Idle /\ t_ops (get w t) = o :: rest /\
    get (begin_op w t) t =
      mk_t (fst (op_start o (held (get w t)))) rest (held (get w t)) (conv (get w t)) (spin (get w t))
           (snd (op_start o (held (get w t)))) (last_ret (get w t)).
Proof.
  unfold begin_op. destruct (t_pc (get w t)) eqn:Ep; try (left; reflexivity).
  destruct (t_ops (get w t)) as [|o rest] eqn:Eo; [left; reflexivity|].
  destruct (Nat.lt_ge_cases t (length (thr w))) as [L|L].
  2:{ rewrite (get_oob' w t L) in Eo. discriminate Eo. }
  right. exists o, rest. split; [reflexivity|]. split; [reflexivity|].
  destruct (match o with OLock m => _ | _ => _ end) as [p x] eqn:Eq0.
  change (op_start o (held (get w t)) = (p, x)) in Eq0. rewrite Eq0. cbn [fst snd].
  unfold get at 1, set_t, set_thr; cbn [thr]. rewrite nth_lupd_same by exact L. reflexivity.
Qed.

(* a crash is a contract violation at the start of an operation *)
Lemma crash_is_contract_violation w t k : t_pc (get w t) <> Crash k -> t_pc (get (begin_op w t) t) = Crash k ->
  exists o rest, t_pc (get w t) = Idle /\ t_ops (get w t) = o :: rest /\
    match o, held (get w t) with
    | OLock _, Some _ | OTry _, Some _ => k = 4
    | OUnlock, None => k = 1 | OUnlockNW, None => k = 1 | OUnlockNW, Some R => k = 1
    | OSetCond _ _ _, None => k = 8 | OSetCond _ _ _, Some R => k = 8
    | OMuWait _ _ _ _, None => k = 9
    | _, _ => False end.
Proof.
  intros Hn E. destruct (begin_op_cases w t) as [B | (o & rest & Ep & Eo & B)]; rewrite B in E; [destruct (Hn E)|].
  exists o, rest. split; [exact Ep|]. split; [exact Eo|]. cbn [t_pc] in E.
  destruct o as [m|m| | |f a b|c e d kk], (held (get w t)) as [[|]|]; cbn [op_start fst] in E;
    first [discriminate E | injection E as <-; reflexivity].
Qed.

Lemma op_start_crash o h k : fst (op_start o h) = Crash k -> client_crash k /\ snd (op_start o h) = None.
Proof.
  unfold client_crash. destruct o as [m|m| | |f a b|c e d kk], h as [[|]|]; cbn [op_start fst snd]; intros E;
    first [discriminate E | injection E as <-; auto].
Qed.

Lemma NC_init progs cl c0 : NC (init progs cl c0).
Proof. intros t k E. destruct (init_get progs cl c0 t) as [Ep _]. rewrite Ep in E. discriminate E. Qed.

(* ================= Part D: pure facts with the "no panic" conditions of MuWaitWorld3 ================= *)
Lemma inner_after_no_crash w m u rest :
  (u_test u = true \/ u_wty u = Some W \/ uncond w rest \/
   (u_wty u = None /\ exists p tl, rest = p :: tl /\ wcond w p = None /\ wtype w p = W)) ->
  (u_test u = false -> queue w = []) ->
  forall k, snd (after_inner w m (inner w m u rest)) <> Crash k.
Proof.
  intros H1 H2 k E. destruct (inner_after_nt w m u rest H1 H2) as [[Hn5 _] _]. apply Hn5. rewrite E. f_equal.
  exact (after_inner_inner_crash _ _ _ _ _ E).
Qed.

Lemma scan_from_no_crash w m u f : queue w = [] ->
  (u_test u = true \/ u_wty u = Some W \/ uncond w (u_new u)) ->
  forall k, snd (scan_from (S (S f)) w m u) <> Crash k.
Proof.
  intros Hq H k E. destruct (scan_from_nt w m u f Hq H) as [Hn5 _]. apply Hn5. rewrite E. f_equal.
  apply (scan_from_crash5 m (S (S f)) w u k); [lia | exact Hq | exact E].
Qed.

(* ================= Part E: preservation ================= *)
Section Step6.
Variable n : nat.
Hypothesis Hn : Z.of_nat n < 16777215.

Lemma begin_op_NC w t : Inv n w -> NC w -> NC (begin_op w t).
Proof.
  intros HI H y. destruct (Nat.eq_dec y t) as [->|N]; [| rewrite begin_op_get_other by exact N; apply H].
  destruct (begin_op_cases w t) as [B | (o & rest & Ep & Eo & B)]; rewrite B; [apply H|].
  pose proof (pc_ok_get n w t HI) as Hok. unfold pc_ok in Hok. rewrite Ep in Hok. destruct Hok as (Hs & Hc & _).
  intros k E. cbn [t_pc spin conv mw] in *. destruct (op_start_crash _ _ _ E) as [A1 A2]. auto.
Qed.

Lemma unlock_bad_held w t m : Inv n w -> held (get w t) = Some m -> unlock_bad m (word w) = false.
Proof.
  intros HI Hh. pose proof (Inv_held n w t m HI Hh) as V. pose proof (Inv_rng n w HI) as Rw.
  destruct m; destruct V as [V1 V2]; [apply unlock_bad_W_ok | apply unlock_bad_R_ok]; assumption.
Qed.
Lemma uw_bad_held w t : Inv n w -> held (get w t) = Some W -> uw_bad (word w) = false.
Proof.
  intros HI Hh. pose proof (Inv_held n w t W HI Hh) as [V1 V2]. pose proof (Inv_rng n w HI) as Rw.
  apply uw_bad_ok; assumption.
Qed.
Lemma mw_any_lock_held w t : Inv n w -> held (get w t) <> None -> (band (word w) MU_ANY_LOCK =? 0) = false.
Proof.
  intros HI Hh. destruct (held (get w t)) as [h|] eqn:E; [| congruence].
  exact (proj1 (mode_of_word n w h (Inv_rng n w HI) (Inv_held n w t h HI E))).
Qed.

Ltac cas_split w :=
  unfold cas;
  match goal with |- context [word w =? ?e] => destruct (Z.eqb_spec (word w) e) as [Hcas|Hcas] end;
  cbv beta iota; cbn [fst snd].
Ltac mwsome Hok mx :=
  unfold try_frozen, mt_pre, in_mw in Hok; cbn [mw] in Hok;
  let x := fresh "x" in let Hx := fresh "Hx" in
  first [ destruct Hok as ((x & Hx & _) & _) | destruct Hok as (x & Hx & _) ]; subst mx.

(* the generic step: the other threads keep their state, the stepping thread is not at a Crash pc *)
Lemma NC_intro w W t s' : NC w -> (forall y, y <> t -> get W y = get w y) -> get W t = s' ->
  (forall k, t_pc s' <> Crash k) -> NC W.
Proof.
  intros H Ho Eg Hp y. destruct (Nat.eq_dec y t) as [->|N]; [rewrite Eg; intros k E; destruct (Hp k E) | rewrite (Ho y N); apply H].
Qed.

Lemma NC_scan_finish w w2 w3 t x s2 p' :
  NC w -> (forall y, y <> t -> get (set_pc w3 t p') y = get w y) ->
  TS t w w2 x s2 -> word w3 = word w2 -> thr w3 = thr w2 -> (forall k, p' <> Crash k) -> NC (set_pc w3 t p').
Proof.
  intros H Ho HT Hw1 Hw2 Hp.
  eassert (HT3 : TS t w (set_pc w3 t p') _ _) by (apply TS_set_pc; eapply TS_eq; [exact HT | exact Hw1 | exact Hw2]).
  apply (NC_intro w _ t _ H Ho (TS_get _ _ _ _ _ HT3)). exact Hp.
Qed.

Ltac boring6 w t HN Hs Hlen Ht :=
  try (match goal with mx : option mwl |- _ => destruct mx end);
  let HI' := fresh "HI'" in let Hoth := fresh "Hoth" in
  intros HI' Hoth; cbn [fst] in *;
  lazymatch goal with |- NC ?W =>
    let HT := fresh "HT" in
    eassert (HT : TS t w W _ _) by (ts_solve; rewrite Hlen; exact Ht);
    eapply (NC_intro w W t _ HN Hoth (TS_get _ _ _ _ _ HT));
    unfold get; rewrite ?Hs; unfold mw_of; cbn [t_pc mw];
    try (match goal with |- context [if ?b then _ else _] => destruct b end); cbn [t_pc];
    intros; discriminate
  end.
Ltac B6 :=
  match goal with
  | HN : NC ?w, Hlen : length (thr ?w) = _, Ht : (?t < _)%nat, Hs : nth ?t (thr ?w) dflt_t = _ |- _ => boring6 w t HN Hs Hlen Ht
  end.
Ltac noop6 := cbn [fst]; intros _ _; assumption.

Lemma NC_step_thr_noU w0 t c : Inv n w0 -> L1 w0 -> L2 w0 -> NC w0 -> NC (fst (step_thr w0 t c)).
Proof.
  intros H0 HL H2 HN.
  pose proof (step_thr_ok n Hn w0 t c H0) as (HI' & _ & _ & Hoth).
  apply (begin_op_NC _ t H0) in HN. apply (begin_op_L1 n _ t H0) in HL. apply (begin_op_L2 n _ t H0) in H2.
  apply (begin_op_inv n w0 t) in H0.
  revert HI' Hoth. unfold step_thr. set (w := begin_op w0 t) in *. clearbody w. clear w0. cbv zeta.
  destruct (Nat.lt_ge_cases t n) as [Ht|Ht].
  2:{ assert (Eg : get w t = dflt_t) by (apply get_oob'; destruct H0 as (-> & _); exact Ht).
      rewrite Eg. cbn. intros; assumption. }
  pose proof H0 as (Hlen & _ & Hok). specialize (Hok t).
  pose proof (Inv_rng n _ H0) as Rw.
  pose proof (unlock_bad_held w t) as Hub. specialize (fun m => Hub m H0).
  pose proof (uw_bad_held w t H0) as Huw.
  pose proof (mw_any_lock_held w t H0) as Hany.
  destruct (get w t) as [p ops h cv sp mx lr] eqn:Hs. unfold get in Hs. rewrite Hs in Hok.
  unfold pc_ok in Hok. cbn [t_pc t_ops held conv spin mw last_ret] in *.
  destruct p.
  - (* Idle *) noop6.
  - (* LkFast *) destruct Hok as (Ho & ->). cas_split w; B6.
  - (* LkLoad *) destruct Hok as (Ho & ->). destruct (fast_guard2 m (word w)) eqn:G; B6.
  - (* LkCas2 *) destruct Hok as (Ho & -> & G). cas_split w; B6.
  - (* TryFast *) destruct Hok as (Ho & ->). cas_split w; B6.
  - (* TryLoad *) destruct Hok as (Ho & ->). destruct (try_guard2 m (word w)) eqn:G; B6.
  - (* TryCas2 *) destruct Hok as (Ho & -> & G). cas_split w; B6.
  - (* LsLoad *) destruct (nsync_mu_lock_slow_cas1_guard (word w) (zta l)) eqn:G1; [B6|].
    destruct (nsync_mu_lock_slow_cas2_guard (word w) (zta l)) eqn:G2; [B6 | noop6].
  - (* LsCasAcq *) cas_split w; destruct mx; B6.
  - (* LsCasEnq *) cas_split w; B6.
  - (* LsStoreWaiting *) B6.
  - (* LsWaitLoad *) destruct (waiting w t) eqn:Ew; B6.
  - (* LsSemP *) destruct (0 <? sem w t); [B6 | noop6].
  - (* RelLoad *) destruct k; try contradiction; B6.
  - (* RelCas *) destruct k; try contradiction.
    + cas_split w; B6.
    + cas_split w; [| B6].
      destruct Hok as (Hnh & lt & Hown & Hsc). cbn [scan_pc_ok spin] in Hsc. destruct Hsc as (-> & Hte & Hu).
      intros HI' Hoth.
      match goal with |- context [after_inner ?w2 m ?r] =>
        pose proof (inner_after_no_crash w2 m u (u_rest u) (or_introl Hte) ltac:(intros T; congruence)) as Hnc;
        pose proof (after_inner_wt w2 m r) as [Hw1 Hw2];
        destruct (after_inner w2 m r) as [w3 p'] eqn:Ea; cbn [fst snd] in *;
        eassert (HT : TS t w w2 _ _) by (ts_solve; rewrite Hlen; exact Ht)
      end.
      exact (NC_scan_finish w _ w3 t _ _ p' HN Hoth HT Hw1 Hw2 Hnc).
  - (* SpinLoad *) destruct k; try contradiction; destruct (nsync_spin_test_and_set_cas1_guard (word w) MU_SPINLOCK) eqn:G; B6.
  - (* SpinCas *) destruct k; try contradiction.
    + unfold spin_set. cbv beta iota. cas_split w; [| B6].
      destruct Hok as (Hnh & lt & Hown & Hsc). cbn [scan_pc_ok spin] in Hsc. destruct Hsc as (-> & Hte & Hu & G).
      intros HI' Hoth.
      match goal with |- context [round_end ?w2 u] =>
        eassert (HT : TS t w w2 _ _) by (ts_solve; rewrite Hlen; exact Ht);
        destruct (round_end_fields w2 u) as (R1 & _ & _ & _ & _ & _ & _ & _ & _ & R10 & R11 & R12);
        destruct (round_end w2 u) as [w3 u3] eqn:Ere; cbn [fst snd] in *
      end.
      assert (Hnc : forall k, snd (scan_from 3 w3 m u3) <> Crash k)
        by (apply scan_from_no_crash; [exact R1 | left; rewrite R12; exact Hte]).
      pose proof (scan_from_wt m 3 w3 u3) as [Hw1 Hw2].
      destruct (scan_from 3 w3 m u3) as [w4 p'] eqn:Esf. cbn [fst snd] in *.
      rewrite R10 in Hw1. rewrite R11 in Hw2.
      exact (NC_scan_finish w _ w4 t _ _ p' HN Hoth HT Hw1 Hw2 Hnc).
    + mwsome Hok mx. unfold spin_set. cbv beta iota. cas_split w; [| B6].
      match goal with |- context [mw_first (get_mw ?ww t)] =>
        assert (get_mw ww t = x) as Eg by (erewrite (TS_get_mw t w); [| ts_solve; rewrite Hlen; exact Ht]; unfold get; rewrite Hs; reflexivity);
        rewrite Eg end.
      destruct (mw_first x); B6.
  - (* RmLoad *) destruct k; try contradiction; B6.
  - (* RmCas *) destruct k; try contradiction.
    + destruct (Z.eqb_spec (rcount w (List.hd t (u_rest u))) oldv) as [Erc|Erc]; [| B6].
      destruct Hok as (Hnh & lt & Hown & Hsc). cbn [scan_pc_ok spin] in Hsc. destruct Hsc as (-> & Hu).
      assert (Ew : winfo w t = sinfo mx SRm u) by (rewrite (winfo_scan w t SRm u); unfold get; rewrite Hs; reflexivity).
      destruct (a_r2 _ _ _ _ _ _ _ HL t SRm u) as (_ & _ & _ & (Hne & Hqe)); [rewrite Ew; reflexivity|].
      pose proof (H2 t) as Hold. unfold get in Hold. rewrite Hs in Hold. destruct Hold as (_ & _ & _ & Dnt & _).
      specialize (Dnt u eq_refl). unfold nt_ok in Dnt.
      destruct (u_rest u) as [|e tl0] eqn:Er; [congruence|]. cbn [List.hd List.tl] in *.
      destruct (remove_from _ _ _ _ (u_new u) e) as [nl rg] eqn:Erm.
      intros HI' Hoth.
      match goal with |- context [after_inner ?w2 m (inner ?w2 m ?u' tl0)] =>
        assert (Hnc : forall k, snd (after_inner w2 m (inner w2 m u' tl0)) <> Crash k);
        [ apply inner_after_no_crash;
          [ cbn [u_test u_wty]; destruct (u_test u) eqn:Tu; [left; reflexivity|];
            destruct (Dnt eq_refl) as [Dw|Dw]; [right; left; f_equal; exact Dw | right; right; left; exact Dw]
          | cbn [u_test]; exact Hqe ]
        | pose proof (after_inner_wt w2 m (inner w2 m u' tl0)) as [Hw1 Hw2];
          destruct (after_inner w2 m (inner w2 m u' tl0)) as [w3 p'] eqn:Ea; cbn [fst snd] in *;
          eassert (HT : TS t w w2 _ _) by (ts_solve; rewrite Hlen; exact Ht) ]
      end.
      exact (NC_scan_finish w _ w3 t _ _ p' HN Hoth HT Hw1 Hw2 Hnc).
    + destruct (rcount w t =? oldv) eqn:Erc; [| B6]. destruct (remove_from _ _ _ _ (queue _) t) as [nl rg] eqn:Erm. B6.
  - (* UlFast *) destruct Hok as (Ho & ->). cas_split w; B6.
  - (* UlLoad *) destruct Hok as (Ho & ->). destruct Ho as (Hh & _). cbn [held] in Hh.
    rewrite (Hub m Hh). destruct (unlock_try_cas2 m (word w)); B6.
  - (* UlCas2 *) destruct Hok as (Ho & ->). cas_split w; B6.
  - (* UwFast *) destruct Hok as (Ho & ->). cas_split w; B6.
  - (* UwLoad *) destruct Hok as (Ho & ->). destruct Ho as (Hh & _). cbn [held] in Hh.
    rewrite (Huw Hh). destruct (nsync_mu_unlock_without_wakeup_cas2_guard (word w)); B6.
  - (* UwCas2 *) destruct Hok as (Ho & ->). cas_split w; B6.
  - (* UsLoad *) destruct (nsync_mu_unlock_slow_cas1_guard (word w)); [B6|].
    destruct (nsync_mu_unlock_slow_cas2_guard (word w)) eqn:G2; [B6 | noop6].
  - (* UsCasRel *) cas_split w; destruct mx; B6.
  - (* UsCasSpin *) cas_split w; [| B6].
    destruct Hok as (Ho & Hnh & G). unfold own in Ho. cbn [held spin conv] in Ho. destruct Ho as (-> & -> & ->).
    subst old.
    destruct (has (word w) MU_CONDITION) eqn:Etest; intros HI' Hoth;
    (match goal with |- context [scan_from 3 (set_queue ?w2 []) m ?u] =>
      eassert (HT : TS t w (set_queue w2 []) _ _) by (ts_solve; rewrite Hlen; exact Ht);
      assert (Hnc : forall k, snd (scan_from 3 (set_queue w2 []) m u) <> Crash k);
      [ apply scan_from_no_crash; [reflexivity |];
        first [ left; reflexivity
              | right; right; cbn [u_new]; unfold uncond; apply Forall_forall; intros p Hp0;
                change (In p (queue w)) in Hp0; change (wcond w p = None);
                destruct (wcond w p) eqn:Ecp; [exfalso | reflexivity];
                assert (hC (word w) = true) as Hcc by (apply (cond_member_C n w p H0 HL H2); [left; exact Hp0 | congruence]);
                unfold hC in Hcc; congruence ]
      | pose proof (scan_from_wt m 3 (set_queue w2 []) u) as [Hw1 Hw2];
        destruct (scan_from 3 (set_queue w2 []) m u) as [w4 p'] eqn:Esf; cbn [fst snd] in * ]
    end);
    exact (NC_scan_finish w _ w4 t _ _ p' HN Hoth HT Hw1 Hw2 Hnc).
  - (* UsEval *)
    destruct Hok as (Hnh & lt & Hown & Hsc). cbn [scan_pc_ok spin] in Hsc. destruct Hsc as (-> & Hte & Hu).
    assert (Ew : winfo w t = sinfo mx SEval u) by (rewrite (winfo_scan w t SEval u); unfold get; rewrite Hs; reflexivity).
    destruct (a_r2 _ _ _ _ _ _ _ HL t SEval u) as (_ & _ & _ & (p0 & tl1 & Er0 & Hc0)); [rewrite Ew; reflexivity|].
    destruct (u_rest u) as [|p tl0] eqn:Er; [discriminate Er0|]. injection Er0 as <- <-.
    destruct (wcond w p) as [[f a]|] eqn:Ec; [| congruence].
    intros HI' Hoth.
    match goal with |- context [after_inner ?w2 m ?r] =>
      assert (Hnc : forall k, snd (after_inner w2 m r) <> Crash k);
      [ destruct (pst w f a);
        [ match goal with |- context [wakeable ?ww u p] => destruct (wakeable ww u p) end;
          [ cbn [after_inner snd]; discriminate
          | apply inner_after_no_crash; [left; exact Hte | cbn [u_test set_uset]; intros T; congruence] ]
        | apply inner_after_no_crash; [left; exact Hte | intros T; congruence] ]
      | pose proof (after_inner_wt w2 m r) as [Hw1 Hw2];
        destruct (after_inner w2 m r) as [w3 p'] eqn:Ea; cbn [fst snd] in *;
        eassert (HT : TS t w w2 _ _) by (ts_solve; rewrite Hlen; exact Ht) ]
    end.
    exact (NC_scan_finish w _ w3 t _ _ p' HN Hoth HT Hw1 Hw2 Hnc).
  - (* UsRelLoad *) B6.
  - (* UsRelCas *) cas_split w; [destruct (wake u) eqn:Ewk; destruct mx; B6 | B6].
  - (* UsWakeStore *) destruct (wake u) as [|q rest] eqn:Ewk; destruct mx; B6.
  - (* UsWakeV *) destruct (wake u) as [|q rest] eqn:Ewk; destruct mx; B6.
  - (* SetC *) destruct Hok as (Ho & ->). B6.
  - (* MwLoad *) destruct Hok as (-> & -> & Hh & Hm). destruct h as [h|]; [| congruence]. destruct mx as [x|]; [| congruence].
    rewrite (Hany Hh). cbv iota.
    match goal with |- context [mw_cond (get_mw ?ww t)] =>
      assert (get_mw ww t = mk_mw (if negb (band (word w) MU_RHELD_IF_NON_ZERO =? 0) then R else W) (mw_cond x) (mw_eq x) (mw_dl x) (mw_canc x) (mw_first x) (mw_rc x) (mw_hadw x)
                                  (mw_semout x) (mw_have x) (mw_outcome x) (mw_tmo x) (mw_ent x)) as Eg
        by (erewrite (TS_get_mw t w); [| ts_solve; rewrite Hlen; exact Ht]; unfold get; rewrite Hs; reflexivity);
      rewrite Eg end.
    cbn [mw_cond]. destruct (mw_cond x) eqn:Emc; [B6|].
    unfold mw_after_eval. rewrite Eg. cbn [mw_outcome mw_mode mw_cond mw_eq]. destruct (nsync_mu_wait_with_deadline_store1_guard _ _); B6.
  - (* MwEval *) mwsome Hok mx. unfold get_mw, get. rewrite Hs. cbn [mw].
    destruct (mw_cond x) as [[f a]|] eqn:Emc; unfold mw_after_eval;
      (match goal with |- context [get_mw ?ww t] =>
         assert (get_mw ww t = x) as Eg by (unfold get_mw, get; cbn [thr log_eval add_ev]; rewrite Hs; reflexivity); rewrite Eg end);
      destruct (nsync_mu_wait_with_deadline_store1_guard _ _); B6.
  - (* MwStoreWaiting *) mwsome Hok mx. B6.
  - (* MwRcLoad *) mwsome Hok mx. B6.
  - (* MwRelLoad *) mwsome Hok mx. B6.
  - (* MwRelCas *) mwsome Hok mx. cas_split w; [| B6]. destruct (add =? 0); [| B6].
    match goal with |- context [mw_mode (get_mw ?ww t)] =>
      assert (get_mw ww t = x) as Eg by (erewrite (TS_get_mw t w); [| ts_solve; rewrite Hlen; exact Ht]; unfold get; rewrite Hs; reflexivity);
      rewrite Eg end.
    B6.
  - (* MwLoadW1 *) mwsome Hok mx. unfold get_mw, get. rewrite Hs. cbn [mw].
    destruct (waiting w t) eqn:Ew.
    + destruct (mw_semout x =? 0); B6.
    + destruct (mw_have x) eqn:Eh; B6.
  - (* MwSemP *) mwsome Hok mx. unfold get_mw, get. rewrite Hs. cbn [mw]. destruct c.
    + destruct (0 <? sem w t); [B6 | noop6].
    + destruct (mw_dl x) as [d|]; [| noop6]. destruct (d <=? clock w); [B6 | noop6].
    + destruct (mw_canc x && note w); [B6 | noop6].
  - (* MwLoadW2 *) mwsome Hok mx. destruct (waiting w t); B6.
  - (* MwLoadW3 *) mwsome Hok mx. B6.
  - (* MtLoad *) mwsome Hok mx. destruct (mu_try_acquire_after_timeout_or_cancel_cas1_guard (word w)) eqn:G1;
      [| destruct (mu_try_acquire_after_timeout_or_cancel_cas2_guard (word w)) eqn:G2]; B6.
  - (* MtCas1 *) mwsome Hok mx. cas_split w; [| destruct (mu_try_acquire_after_timeout_or_cancel_cas2_guard old) eqn:G2]; B6.
  - (* MtCas2 *) mwsome Hok mx. cas_split w; B6.
  - (* MtLoadW *) mwsome Hok mx. destruct (waiting w t); B6.
  - (* MtLoadRc *) mwsome Hok mx. unfold get_mw, get. rewrite Hs. cbn [mw]. destruct (mw_rc x =? rcount w t); B6.
  - (* MtStoreW *) mwsome Hok mx. B6.
  - (* MtStore2 *) mwsome Hok mx. unfold get_mw, get. rewrite Hs. cbn [mw]. B6.
  - (* MtStore3 *) mwsome Hok mx. B6.
  - (* Crash *) noop6.
Qed.

(* the same with the hypotheses of LInv (U1 is not used) *)
Lemma NC_step_thr w0 t c : Inv n w0 -> L1 w0 -> U1 w0 -> L2 w0 -> NC w0 -> NC (fst (step_thr w0 t c)).
Proof. intros H0 HL _ H2 HN. apply NC_step_thr_noU; assumption. Qed.

Lemma NC_step w a : Inv n w -> L1 w -> U1 w -> L2 w -> NC w -> NC (fst (step w a)).
Proof.
  intros HI HL HU H2 H. destruct a as [t c|dt| |p]; cbn [step].
  - apply NC_step_thr; assumption.
  - destruct (0 <=? dt); exact H.
  - exact H.
  - destruct (note w); exact H.
Qed.
End Step6.

Lemma NC_step_LInv n (Hn : Z.of_nat n < 16777215) w a : LInv n w -> NC w -> NC (fst (step w a)).
Proof. intros ((HI & _) & HL & HU & H2). apply (NC_step n Hn); assumption. Qed.

Lemma NC_run n (Hn : Z.of_nat n < 16777215) sched : forall w, LInv n w -> NC w -> NC (run w sched).
Proof.
  unfold run. induction sched as [|a rest IH]; intros w HL H; cbn [fold_left]; [exact H|].
  apply IH; [apply LInv_step; assumption | apply (NC_step_LInv n Hn); assumption].
Qed.

Theorem NC_reachable progs cl c0 sched :
  Z.of_nat (length progs) < 2 ^ 24 - 1 -> NC (run (init progs cl c0) sched).
Proof. intros H. apply (NC_run _ H); [apply init_LInv | apply NC_init]. Qed.

(* nsync's own panics (Crash 2, 5, 10) and the model's internal inconsistency pcs (Crash 6, 7) are unreachable:
   a thread is at a Crash pc only because its program violated the client contract at the start of an operation *)
Theorem no_internal_crash_reachable progs cl c0 sched t k :
  Z.of_nat (length progs) < 2 ^ 24 - 1 ->
  t_pc (get (run (init progs cl c0) sched) t) = Crash k -> k = 1 \/ k = 4 \/ k = 8 \/ k = 9.
Proof. intros H E. exact (proj1 (NC_reachable progs cl c0 sched H t k E)). Qed.

(* a crashed thread owns neither the spinlock nor a converted lock and is not inside nsync_mu_wait_with_deadline *)
Theorem crashed_thread_state progs cl c0 sched t k :
  Z.of_nat (length progs) < 2 ^ 24 - 1 ->
  t_pc (get (run (init progs cl c0) sched) t) = Crash k ->
  spin (get (run (init progs cl c0) sched) t) = false /\ conv (get (run (init progs cl c0) sched) t) = false /\
  mw (get (run (init progs cl c0) sched) t) = None.
Proof. intros H E. exact (proj2 (NC_reachable progs cl c0 sched H t k E)). Qed.

Print Assumptions scan_from_no_crash6.
Print Assumptions inner_no_crash67.
Print Assumptions crash_is_contract_violation.
Print Assumptions begin_op_NC.
Print Assumptions NC_step_thr_noU.
Print Assumptions NC_step_thr.
Print Assumptions NC_step.
Print Assumptions NC_reachable.
Print Assumptions no_internal_crash_reachable.
Print Assumptions crashed_thread_state.
