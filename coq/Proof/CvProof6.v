(* CvProof6: layer D of the proofs about Model/CvModel.v -- CV_NON_EMPTY while somebody is INSIDE a cv spinlock section.
   Layer C (CvProof3) says the bit is set when the queue is non-empty and the spinlock is free.  Here: the bit of the
   word does not change while the spinlock is held, a waiter of nsync_cv_wait_with_deadline sets it with the very CAS
   that acquires the spinlock, so the only window in which the queue holds a record and the bit may be clear is a
   cv_enqueue (nsync_wait_n) between its CAS and its release store, and then only if its record is alone on the queue.
   Hence: once a waiter's enqueue is complete, no signaller takes the early exit.  Continues Proof/CvProof3.v. *)
From NsyncBase Require Import CSem.
From NsyncGen Require Import Consts Sites.
From NsyncModel Require Import CvModel.
From NsyncProof Require Import CvProof CvProof2 CvProof3.
From Coq Require Import List ZArith Bool Lia PeanoNat.
Import ListNotations.
Local Open Scope Z_scope.

Definition dinv_pc (w : world) (p : pc) : Prop :=
  match p with
  | WLoadRc _ | WStoreRel _ => ne (cvw w) = true
  | NEnqStore n | NEnqRel n => remove_id (n_r n) (cvq w) <> [] -> ne (cvw w) = true
  | _ => cvq w <> [] -> ne (cvw w) = true
  end.
Definition DInv (w : world) : Prop := forall t, pc_spin (pcof w t) = true -> dinv_pc w (pcof w t).

Lemma ne_spin_new3 old : lowbits old -> ne (nsync_spin_test_and_set_cas1_new old (Z.lor CV_SPINLOCK CV_NON_EMPTY) 0) = true.
Proof. intros [-> | ->]; reflexivity. Qed.
Lemma remove_id_snoc r q : remove_id r (q ++ [r]) = remove_id r q.
Proof. induction q as [|x q IH]; simpl; [now rewrite Nat.eqb_refl|]. destruct (Nat.eqb x r); [exact IH | now rewrite IH]. Qed.
Lemma remove_id_nonempty r q : remove_id r q <> [] -> q <> [].
Proof. intros H E. subst. now apply H. Qed.
Lemma dinv_after_todo w k : dinv_pc w (after_todo k) = (cvq w <> [] -> ne (cvw w) = true).
Proof. unfold after_todo. destruct (k_todo k); reflexivity. Qed.

Lemma D_self w t c : CInv w -> AInv w -> DInv w -> (t < length (thr w))%nat ->
  let w' := fst (step_core w t c) in pc_spin (pcof w' t) = true -> dinv_pc w' (pcof w' t).
Proof.
  intros (C1 & _) HA HD Hlt. pose proof HA as (A1 & A2 & A3 & A4). cbv zeta.
  pose proof (HD t) as Dt. pose proof (A3 t) as A3t. unfold pcof in *.
  assert (Hfree : lowbits (cvw w) -> cvq w <> [] -> ne (cvw w) = true).
  { intros Hl. apply C1. intros s. destruct (pc_spin (t_pc (get w s))) eqn:E; [|reflexivity]. destruct (A2 s E) as [E'|E']; destruct Hl; congruence. }
  unfold step_core; destruct (t_pc (get w t)) eqn:Hpc; unfold_st; simpl cvq; destr_all;
    try rewrite Hpc in *; simpl fst; pc_nf; autorewrite with getdb; try rewrite Hpc; simpl pc_spin;
    rewrite ?(proj2 (pc_old_after_todo _)), ?(proj2 (pc_old_enter_wake_loop _));
    try discriminate; intros _; rewrite ?dinv_after_todo; simpl dinv_pc; simpl cvq; simpl cvw.
  all: simpl in Dt, A3t; try (specialize (Dt eq_refl)); try exact Dt.
  all: zbool; unfold nsync_spin_test_and_set_cas1_old in *.
  all: try match goal with H : cvw ?w0 = _ |- _ => assert (Hlow : lowbits (cvw w0)) by (rewrite H; apply A3t; reflexivity) end.
  all: try (apply ne_spin_new3; apply A3t; reflexivity).
  all: try (rewrite ne_spin_new1 by (apply A3t; reflexivity)).
  all: sel_part.
  all: try match goal with Hp : part (cvq ?w0) ?a ?b |- _ => assert (Hsub : b <> [] -> cvq w0 <> []) by
              (intros Hne E; destruct b as [|x b']; [now apply Hne|]; rewrite E in Hp; destruct (proj2 (proj1 Hp x)); simpl; auto) end.
  all: try solve [intros Hne; match goal with H : cvw _ = ?o |- ne ?o = true => rewrite <- H end; apply Hfree; [exact Hlow | auto]].
  all: try solve [rewrite remove_id_snoc; intros Hne; match goal with H : cvw _ = ?o |- ne ?o = true => rewrite <- H end; apply Hfree;
                  [exact Hlow | eapply remove_id_nonempty; exact Hne]].
  all: try solve [intros Hne; apply Dt; eapply remove_id_nonempty; exact Hne].
Qed.

Lemma DInv_step_core w t c : CInv w -> AInv w -> DInv w -> (t < length (thr w))%nat -> DInv (fst (step_core w t c)).
Proof.
  intros HC HA HD Hlt s Hs. destruct (Nat.eq_dec s t) as [->|Hne]; [now apply D_self|].
  pose proof (AInv_step_core w t c HA Hlt) as (A1' & _). pose proof HA as (A1 & _).
  assert (Hoth : pcof (fst (step_core w t c)) s = pcof w s) by (unfold pcof; now rewrite step_core_other by congruence).
  rewrite Hoth in *.
  (* s holds the spinlock before and after: t is outside, the word and the queue are unchanged *)
  assert (Ht' : pc_spin (pcof (fst (step_core w t c)) t) = false).
  { destruct (pc_spin (pcof (fst (step_core w t c)) t)) eqn:E; [|reflexivity]. exfalso. apply Hne. apply A1'; [|exact E].
    fold (pcof (fst (step_core w t c)) s). now rewrite Hoth. }
  assert (Ht : pc_spin (pcof w t) = false).
  { destruct (pc_spin (pcof w t)) eqn:E; [|reflexivity]. exfalso. apply Hne. now apply A1. }
  assert (Eq : cvq (fst (step_core w t c)) = cvq w).
  { destruct (list_eq_dec Nat.eq_dec (cvq (fst (step_core w t c))) (cvq w)) as [E|Hn]; [exact E|].
    rewrite (cvq_change w t c Hlt Hn) in Ht'. discriminate. }
  assert (Ew : cvw (fst (step_core w t c)) = cvw w).
  { destruct (step_core_A w t c HA Hlt) as (_ & [(_ & Hw)|[(_ & Hs1 & _)|(Hs0 & _)]]); cbv zeta in *;
      fold (pcof w t) in *; fold (pcof (fst (step_core w t c)) t) in *; [exact Hw | congruence | congruence]. }
  specialize (HD s Hs). unfold dinv_pc in *. rewrite Eq, Ew. exact HD.
Qed.

Lemma DInv_frame w w' : (forall t, pcof w' t = pcof w t) -> cvq w' = cvq w -> cvw w' = cvw w -> DInv w -> DInv w'.
Proof. intros Hp Hq Hw HD t. rewrite Hp. intros Hs. specialize (HD t Hs). unfold dinv_pc in *. now rewrite Hq, Hw. Qed.

Lemma DInv_begin_op w t : DInv w -> DInv (begin_op w t).
Proof.
  intros HD s Hs. pose proof (begin_op_misc w t) as (_ & _ & _ & _ & _ & _ & Hcw & Hcq & _).
  destruct (Nat.eq_dec s t) as [->|Hne].
  - destruct (begin_op_pc w t) as [E|(Hpc & _ & o & rest & _ & E)].
    + unfold pcof in *. rewrite E in *. specialize (HD t Hs). unfold dinv_pc, pcof in *. now rewrite Hcq, Hcw.
    + unfold pcof in Hs. rewrite E in Hs. destruct o; simpl in Hs; try destruct (held (get w t)); discriminate.
  - unfold pcof in *. rewrite begin_op_other in * by congruence. specialize (HD s Hs). unfold dinv_pc, pcof in *. now rewrite Hcq, Hcw.
Qed.

Lemma DInv_step w a c : CInv w -> AInv w -> DInv w -> DInv (fst (step w a c)).
Proof.
  intros HC HA HD. destruct a as [t| | | | | | | |].
  { simpl. destruct (le_lt_dec (length (thr w)) t) as [Hoob|Hlt]; [now rewrite step_thr_oob|].
    unfold step_thr. apply DInv_step_core; [now apply CInv_begin_op | now apply AInv_begin_op | now apply DInv_begin_op |].
    now rewrite (proj1 (proj2 (proj2 (begin_op_misc w t)))). }
  all: match goal with |- DInv (fst (step ?w0 ?a ?c0)) =>
         pose proof (env_frame w0 a c0 ltac:(intros; discriminate)) as (Hg & _ & _ & _ & _ & _ & Hcw & Hcq & _) end.
  all: apply (DInv_frame w); [intros t0; unfold pcof; now rewrite Hg | assumption | assumption | assumption].
Qed.

Lemma DInv_run progs clock0 exp sched : DInv (run (init progs clock0 exp) sched).
Proof.
  induction sched as [|[a c] s IH] using rev_ind.
  - intros t. unfold pcof, run. simpl fold_left. rewrite (proj1 (get_init progs clock0 exp t)). discriminate.
  - rewrite run_snoc. apply DInv_step; [apply CInv_run | apply AInv_run | exact IH].
Qed.

(* the record (if any) that some thread is enqueuing right now: between the CAS that acquired the cv spinlock for the
   enqueue and the release store that ends it *)
Definition enq_done (w : world) (r : nat) : Prop :=
  forall t, match pcof w t with
            | WLoadRc _ | WStoreRel _ => True            (* the acquiring CAS of a native waiter sets CV_NON_EMPTY itself *)
            | NEnqStore n | NEnqRel n => r <> n_r n
            | _ => True
            end.

(* CV_NON_EMPTY is set whenever the queue holds a record whose enqueue is complete, WHOEVER is inside a spinlock
   section (it holds a fortiori when the spinlock is free) *)
Lemma non_empty_strong_reachable progs clock0 exp sched :
  let w := run (init progs clock0 exp) sched in
  forall r, In r (cvq w) -> enq_done w r -> has (cvw w) CV_NON_EMPTY = true.
Proof.
  cbv zeta. set (w := run (init progs clock0 exp) sched). intros r Hr Hdone.
  pose proof (CInv_run progs clock0 exp sched) as (C1 & _). fold w in C1.
  pose proof (DInv_run progs clock0 exp sched) as HD. fold w in HD.
  assert (Hne : cvq w <> []) by (intros E; rewrite E in Hr; exact Hr).
  pose proof (AInv_run progs clock0 exp sched) as (_ & A2 & _ & A4). fold w in A2, A4.
  destruct A4 as [(t & Ht)|Hl].
  2: { apply C1; [|exact Hne]. intros s. destruct (pc_spin (pcof w s)) eqn:E; [|reflexivity].
       destruct (A2 s E) as [E'|E']; destruct Hl; congruence. }
  specialize (HD t Ht). specialize (Hdone t). unfold dinv_pc in HD.
  destruct (pcof w t); try (now apply HD); try exact HD.
  all: apply HD; intros E; assert (Hin : In r (remove_id (n_r n) (cvq w))) by (apply In_remove_id; auto); rewrite E in Hin; exact Hin.
Qed.

(* a native waiter (nsync_cv_wait and its variants) that is on the queue is ALWAYS announced by CV_NON_EMPTY: its enqueue sets the bit
   with the CAS that acquires the spinlock, and the records of nsync_wait_n calls are not thread records *)
Lemma non_empty_native_reachable progs clock0 exp sched :
  let w := run (init progs clock0 exp) sched in
  forall t, (t < length (thr w))%nat -> In t (cvq w) -> has (cvw w) CV_NON_EMPTY = true.
Proof.
  cbv zeta. intros t Hlt Hin. apply (non_empty_strong_reachable progs clock0 exp sched t Hin).
  pose proof (Inv_run progs clock0 exp sched) as (_ & _ & (_ & _ & _ & S4) & _).
  intros s. destruct (pcof (run (init progs clock0 exp) sched) s) eqn:E; auto;
    (destruct (S4 s n) as ((Hb & _) & _); [unfold pcof in E; rewrite E; reflexivity | lia]).
Qed.

(* so a signaller / broadcaster that reads the cv word does not take the early exit *)
Lemma no_early_exit_reachable progs clock0 exp sched :
  let w := run (init progs clock0 exp) sched in
  forall s bc c r, (s < length (thr w))%nat -> pcof w s = KLoadW bc -> In r (cvq w) -> enq_done w r ->
  pcof (fst (step_core w s c)) s = SpLoad true (if bc then KBc else KSig).
Proof.
  cbv zeta. intros s bc c r Hlt Hpc Hin Hd.
  pose proof (non_empty_strong_reachable progs clock0 exp sched r Hin Hd) as Hne.
  unfold pcof in *. unfold step_core. rewrite Hpc. unfold st_KLoadW. rewrite Hne. simpl. now rewrite pc_set_pc.
Qed.
