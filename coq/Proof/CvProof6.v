(* CvProof6: layer D of the proofs about Model/CvModel.v -- CV_NON_EMPTY while somebody is INSIDE a cv spinlock section.
   Layer C (CvProof3) says the bit is set when the queue is non-empty and the spinlock is free.  Here: the bit of the
   word does not change while the spinlock is held, a waiter of nsync_cv_wait_with_deadline sets it with the very CAS
   that acquires the spinlock, so the only window in which the queue holds a record and the bit may be clear is a
   cv_enqueue (nsync_wait_n) between its CAS and its release store, and then only if its record is alone on the queue.
   Hence: once a waiter's enqueue is complete, no signaller takes the early exit.  Continues Proof/CvProof3.v.
   Second part (layers L and F, at the end): the word of the abstract mutex and the mutex spinlock section of wake_waiters
   (F15: MU_WAITING is set after the release only if a waiter is queued). *)
From NsyncBase Require Import CSem.
From NsyncGen Require Import Consts Sites.
From NsyncModel Require Import CvModel.
From NsyncProof Require Import CvProof CvProof2 CvProof3.
From Coq Require Import List ZArith Bool Lia PeanoNat.
Import ListNotations.
Local Open Scope Z_scope.

Definition dinv_pc (w : world) (p : pc) : Prop :=
  match p with
  | WLoadRc _ | WStoreRel _ => ne (cvw w) = true
  | NEnqStore n | NEnqRel n => remove_id (n_r n) (cvq w) <> [] -> ne (cvw w) = true
  | _ => cvq w <> [] -> ne (cvw w) = true
  end.
Definition DInv (w : world) : Prop := forall t, pc_spin (pcof w t) = true -> dinv_pc w (pcof w t).

Lemma ne_spin_new3 old : lowbits old -> ne (nsync_spin_test_and_set_cas1_new old (Z.lor CV_SPINLOCK CV_NON_EMPTY) 0) = true.
Proof. intros [-> | ->]; reflexivity. Qed.
Lemma remove_id_snoc r q : remove_id r (q ++ [r]) = remove_id r q.
Proof. induction q as [|x q IH]; simpl; [now rewrite Nat.eqb_refl|]. destruct (Nat.eqb x r); [exact IH | now rewrite IH]. Qed.
Lemma remove_id_nonempty r q : remove_id r q <> [] -> q <> [].
Proof. intros H E. subst. now apply H. Qed.
Lemma dinv_after_todo w k : dinv_pc w (after_todo k) = (cvq w <> [] -> ne (cvw w) = true).
Proof. unfold after_todo. destruct (k_todo k); reflexivity. Qed.

Lemma D_self w t c : CInv w -> AInv w -> DInv w -> (t < length (thr w))%nat ->
  let w' := fst (step_core w t c) in pc_spin (pcof w' t) = true -> dinv_pc w' (pcof w' t).
Proof.
  intros (C1 & _) HA HD Hlt. pose proof HA as (A1 & A2 & A3 & A4). cbv zeta.
  pose proof (HD t) as Dt. pose proof (A3 t) as A3t. unfold pcof in *.
  assert (Hfree : lowbits (cvw w) -> cvq w <> [] -> ne (cvw w) = true).
  { intros Hl. apply C1. intros s. destruct (pc_spin (t_pc (get w s))) eqn:E; [|reflexivity]. destruct (A2 s E) as [E'|E']; destruct Hl; congruence. }
  unfold step_core; destruct (t_pc (get w t)) eqn:Hpc; unfold_st; simpl cvq; destr_all;
    try rewrite Hpc in *; simpl fst; pc_nf; autorewrite with getdb; try rewrite Hpc; simpl pc_spin;
    rewrite ?(proj2 (pc_old_after_todo _)), ?(proj2 (pc_old_enter_wake_loop _));
    try discriminate; intros _; rewrite ?dinv_after_todo; simpl dinv_pc; simpl cvq; simpl cvw.
  all: simpl in Dt, A3t; try (specialize (Dt eq_refl)); try exact Dt.
  all: zbool; unfold nsync_spin_test_and_set_cas1_old in *.
  all: try match goal with H : cvw ?w0 = _ |- _ => assert (Hlow : lowbits (cvw w0)) by (rewrite H; apply A3t; reflexivity) end.
  all: try (apply ne_spin_new3; apply A3t; reflexivity).
  all: try (rewrite ne_spin_new1 by (apply A3t; reflexivity)).
  all: sel_part.
  all: try match goal with Hp : part (cvq ?w0) ?a ?b |- _ => assert (Hsub : b <> [] -> cvq w0 <> []) by
              (intros Hne E; destruct b as [|x b']; [now apply Hne|]; rewrite E in Hp; destruct (proj2 (proj1 Hp x)); simpl; auto) end.
  all: try solve [intros Hne; match goal with H : cvw _ = ?o |- ne ?o = true => rewrite <- H end; apply Hfree; [exact Hlow | auto]].
  all: try solve [rewrite remove_id_snoc; intros Hne; match goal with H : cvw _ = ?o |- ne ?o = true => rewrite <- H end; apply Hfree;
                  [exact Hlow | eapply remove_id_nonempty; exact Hne]].
  all: try solve [intros Hne; apply Dt; eapply remove_id_nonempty; exact Hne].
Qed.

Lemma DInv_step_core w t c : CInv w -> AInv w -> DInv w -> (t < length (thr w))%nat -> DInv (fst (step_core w t c)).
Proof.
  intros HC HA HD Hlt s Hs. destruct (Nat.eq_dec s t) as [->|Hne]; [now apply D_self|].
  pose proof (AInv_step_core w t c HA Hlt) as (A1' & _). pose proof HA as (A1 & _).
  assert (Hoth : pcof (fst (step_core w t c)) s = pcof w s) by (unfold pcof; now rewrite step_core_other by congruence).
  rewrite Hoth in *.
  (* s holds the spinlock before and after: t is outside, the word and the queue are unchanged *)
  assert (Ht' : pc_spin (pcof (fst (step_core w t c)) t) = false).
  { destruct (pc_spin (pcof (fst (step_core w t c)) t)) eqn:E; [|reflexivity]. exfalso. apply Hne. apply A1'; [|exact E].
    fold (pcof (fst (step_core w t c)) s). now rewrite Hoth. }
  assert (Ht : pc_spin (pcof w t) = false).
  { destruct (pc_spin (pcof w t)) eqn:E; [|reflexivity]. exfalso. apply Hne. now apply A1. }
  assert (Eq : cvq (fst (step_core w t c)) = cvq w).
  { destruct (list_eq_dec Nat.eq_dec (cvq (fst (step_core w t c))) (cvq w)) as [E|Hn]; [exact E|].
    rewrite (cvq_change w t c Hlt Hn) in Ht'. discriminate. }
  assert (Ew : cvw (fst (step_core w t c)) = cvw w).
  { destruct (step_core_A w t c HA Hlt) as (_ & [(_ & Hw)|[(_ & Hs1 & _)|(Hs0 & _)]]); cbv zeta in *;
      fold (pcof w t) in *; fold (pcof (fst (step_core w t c)) t) in *; [exact Hw | congruence | congruence]. }
  specialize (HD s Hs). unfold dinv_pc in *. rewrite Eq, Ew. exact HD.
Qed.

Lemma DInv_frame w w' : (forall t, pcof w' t = pcof w t) -> cvq w' = cvq w -> cvw w' = cvw w -> DInv w -> DInv w'.
Proof. intros Hp Hq Hw HD t. rewrite Hp. intros Hs. specialize (HD t Hs). unfold dinv_pc in *. now rewrite Hq, Hw. Qed.

Lemma DInv_begin_op w t : DInv w -> DInv (begin_op w t).
Proof.
  intros HD s Hs. pose proof (begin_op_misc w t) as (_ & _ & _ & _ & _ & _ & Hcw & Hcq & _).
  destruct (Nat.eq_dec s t) as [->|Hne].
  - destruct (begin_op_pc w t) as [E|(Hpc & _ & o & rest & _ & E)].
    + unfold pcof in *. rewrite E in *. specialize (HD t Hs). unfold dinv_pc, pcof in *. now rewrite Hcq, Hcw.
    + unfold pcof in Hs. rewrite E in Hs. destruct o; simpl in Hs; try destruct (held (get w t)); discriminate.
  - unfold pcof in *. rewrite begin_op_other in * by congruence. specialize (HD s Hs). unfold dinv_pc, pcof in *. now rewrite Hcq, Hcw.
Qed.

Lemma DInv_step w a c : CInv w -> AInv w -> DInv w -> DInv (fst (step w a c)).
Proof.
  intros HC HA HD. destruct a as [t| | | | | | | |].
  { simpl. destruct (le_lt_dec (length (thr w)) t) as [Hoob|Hlt]; [now rewrite step_thr_oob|].
    unfold step_thr. apply DInv_step_core; [now apply CInv_begin_op | now apply AInv_begin_op | now apply DInv_begin_op |].
    now rewrite (proj1 (proj2 (proj2 (begin_op_misc w t)))). }
  all: match goal with |- DInv (fst (step ?w0 ?a ?c0)) =>
         pose proof (env_frame w0 a c0 ltac:(intros; discriminate)) as (Hg & _ & _ & _ & _ & _ & Hcw & Hcq & _) end.
  all: apply (DInv_frame w); [intros t0; unfold pcof; now rewrite Hg | assumption | assumption | assumption].
Qed.

Lemma DInv_run progs clock0 exp sched : DInv (run (init progs clock0 exp) sched).
Proof.
  induction sched as [|[a c] s IH] using rev_ind.
  - intros t. unfold pcof, run. simpl fold_left. rewrite (proj1 (get_init progs clock0 exp t)). discriminate.
  - rewrite run_snoc. apply DInv_step; [apply CInv_run | apply AInv_run | exact IH].
Qed.

(* the record (if any) that some thread is enqueuing right now: between the CAS that acquired the cv spinlock for the
   enqueue and the release store that ends it *)
Definition enq_done (w : world) (r : nat) : Prop :=
  forall t, match pcof w t with
            | WLoadRc _ | WStoreRel _ => True            (* the acquiring CAS of a native waiter sets CV_NON_EMPTY itself *)
            | NEnqStore n | NEnqRel n => r <> n_r n
            | _ => True
            end.

(* CV_NON_EMPTY is set whenever the queue holds a record whose enqueue is complete, WHOEVER is inside a spinlock
   section (it holds a fortiori when the spinlock is free) *)
Lemma non_empty_strong_reachable progs clock0 exp sched :
  let w := run (init progs clock0 exp) sched in
  forall r, In r (cvq w) -> enq_done w r -> has (cvw w) CV_NON_EMPTY = true.
Proof.
  cbv zeta. set (w := run (init progs clock0 exp) sched). intros r Hr Hdone.
  pose proof (CInv_run progs clock0 exp sched) as (C1 & _). fold w in C1.
  pose proof (DInv_run progs clock0 exp sched) as HD. fold w in HD.
  assert (Hne : cvq w <> []) by (intros E; rewrite E in Hr; exact Hr).
  pose proof (AInv_run progs clock0 exp sched) as (_ & A2 & _ & A4). fold w in A2, A4.
  destruct A4 as [(t & Ht)|Hl].
  2: { apply C1; [|exact Hne]. intros s. destruct (pc_spin (pcof w s)) eqn:E; [|reflexivity].
       destruct (A2 s E) as [E'|E']; destruct Hl; congruence. }
  specialize (HD t Ht). specialize (Hdone t). unfold dinv_pc in HD.
  destruct (pcof w t); try (now apply HD); try exact HD.
  all: apply HD; intros E; assert (Hin : In r (remove_id (n_r n) (cvq w))) by (apply In_remove_id; auto); rewrite E in Hin; exact Hin.
Qed.

(* a native waiter (nsync_cv_wait and its variants) that is on the queue is ALWAYS announced by CV_NON_EMPTY: its enqueue sets the bit
   with the CAS that acquires the spinlock, and the records of nsync_wait_n calls are not thread records *)
Lemma non_empty_native_reachable progs clock0 exp sched :
  let w := run (init progs clock0 exp) sched in
  forall t, (t < length (thr w))%nat -> In t (cvq w) -> has (cvw w) CV_NON_EMPTY = true.
Proof.
  cbv zeta. intros t Hlt Hin. apply (non_empty_strong_reachable progs clock0 exp sched t Hin).
  pose proof (Inv_run progs clock0 exp sched) as (_ & _ & (_ & _ & _ & S4) & _).
  intros s. destruct (pcof (run (init progs clock0 exp) sched) s) eqn:E; auto;
    (destruct (S4 s n) as ((Hb & _) & _); [unfold pcof in E; rewrite E; reflexivity | lia]).
Qed.

(* so a signaller / broadcaster that reads the cv word does not take the early exit *)
Lemma no_early_exit_reachable progs clock0 exp sched :
  let w := run (init progs clock0 exp) sched in
  forall s bc c r, (s < length (thr w))%nat -> pcof w s = KLoadW bc -> In r (cvq w) -> enq_done w r ->
  pcof (fst (step_core w s c)) s = SpLoad true (if bc then KBc else KSig).
Proof.
  cbv zeta. intros s bc c r Hlt Hpc Hin Hd.
  pose proof (non_empty_strong_reachable progs clock0 exp sched r Hin Hd) as Hne.
  unfold pcof in *. unfold step_core. rewrite Hpc. unfold st_KLoadW. rewrite Hne. simpl. now rewrite pc_set_pc.
Qed.

(* ================================================================== *)
(* Layers L and F: the word of the ABSTRACT mutex, and the mutex       *)
(* spinlock section of wake_waiters (the repair of F15)                *)
(* ================================================================== *)
(* Layer L (LInv): the lock field of the abstract mutex word counts the holders of the model (bit 0: the writer, bits 8..31:
   the readers), whatever the environment does to the flag bits.  Layer F (FInv): while a wake_waiters of the model is
   between the CAS that takes the mutex spinlock and the CAS that releases it, it is the ghost owner [mspin], the spinlock
   bit is set in the word, nobody else can enter or dequeue a transferred waiter ([MuDeq] needs the spinlock), so the
   clear_on_release it computed (k_clr: MU_SPINLOCK, plus MU_WAITING iff the transferred queue was empty and the environment
   reported no plain locker, k_envq) still describes the queue at the release.  Hence: after the release MU_WAITING is set
   only if a waiter is queued. *)
(* ---------- the mutex word: bit operations act on the low byte, the reader count is the rest ---------- *)
Lemma byte_bits_high l n : 0 <= l < 256 -> 8 <= n -> Z.testbit l n = false.
Proof. intros Hl Hn. rewrite <- (Z.mod_small l (2 ^ 8)) by (change (2 ^ 8) with 256; lia). apply Z.mod_pow2_bits_high. lia. Qed.
Lemma byte_range a : 0 <= a -> (forall n, 8 <= n -> Z.testbit a n = false) -> 0 <= a < 256.
Proof.
  intros Ha H. assert (E : a = a mod 2 ^ 8).
  { apply Z.bits_inj'. intros n Hn. destruct (Z.ltb_spec n 8).
    - now rewrite Z.mod_pow2_bits_low by lia.
    - rewrite Z.mod_pow2_bits_high by lia. apply H; lia. }
  pose proof (Z.mod_pos_bound a (2 ^ 8) ltac:(reflexivity)). change (2 ^ 8) with 256 in *. lia.
Qed.
Lemma tb_split h l n : 0 <= l < 256 -> 0 <= n ->
  Z.testbit (256 * h + l) n = if n <? 8 then Z.testbit l n else Z.testbit h (n - 8).
Proof.
  intros Hl Hn. destruct (Z.ltb_spec n 8).
  - rewrite <- (Z.mod_pow2_bits_low (256 * h + l) 8 n) by lia. f_equal. change (2 ^ 8) with 256.
    rewrite Z.add_comm, Z.mul_comm, Z.mod_add by lia. apply Z.mod_small; lia.
  - replace n with ((n - 8) + 8) at 1 by lia. rewrite <- Z.div_pow2_bits by lia. f_equal. change (2 ^ 8) with 256.
    rewrite Z.add_comm, Z.mul_comm, Z.div_add by lia. rewrite Z.div_small by lia. reflexivity.
Qed.
Lemma lor_byte_range l m : 0 <= l < 256 -> 0 <= m < 256 -> 0 <= Z.lor l m < 256.
Proof.
  intros Hl Hm. apply byte_range; [apply Z.lor_nonneg; lia|]. intros n Hn. rewrite Z.lor_spec, !byte_bits_high by assumption. reflexivity.
Qed.
Lemma land_byte_range l m : 0 <= l < 256 -> 0 <= m < 256 -> 0 <= Z.land l m < 256.
Proof.
  intros Hl Hm. apply byte_range; [apply Z.land_nonneg; lia|]. intros n Hn. rewrite Z.land_spec, !byte_bits_high by assumption. reflexivity.
Qed.
Lemma lor_split h l m : 0 <= l < 256 -> 0 <= m < 256 -> Z.lor (256 * h + l) m = 256 * h + Z.lor l m.
Proof.
  intros Hl Hm. pose proof (lor_byte_range l m Hl Hm). apply Z.bits_inj'. intros n Hn.
  rewrite Z.lor_spec, !tb_split by assumption. destruct (n <? 8) eqn:E; [now rewrite Z.lor_spec|].
  apply Z.ltb_ge in E. rewrite (byte_bits_high m) by lia. apply orb_false_r.
Qed.
Lemma land_split h l h' l' : 0 <= l < 256 -> 0 <= l' < 256 -> Z.land (256 * h + l) (256 * h' + l') = 256 * Z.land h h' + Z.land l l'.
Proof.
  intros Hl Hm. pose proof (land_byte_range l l' Hl Hm). apply Z.bits_inj'. intros n Hn.
  rewrite Z.land_spec, !tb_split by assumption. destruct (n <? 8) eqn:E; now rewrite Z.land_spec.
Qed.

Definition word_ok (x : Z) : Prop := 0 <= x < 4294967296.
Lemma word_parts x : word_ok x -> x = 256 * (x / 256) + x mod 256 /\ 0 <= x mod 256 < 256 /\ 0 <= x / 256 < 16777216.
Proof. unfold word_ok. intros H. pose proof (Z.div_mod x 256 ltac:(lia)). pose proof (Z.mod_pos_bound x 256 ltac:(lia)). 
  assert (0 <= x / 256) by (apply Z.div_pos; lia). assert (x / 256 < 16777216) by (apply Z.div_lt_upper_bound; lia).
  repeat split; lia. Qed.
Lemma word_build h b : 0 <= h < 16777216 -> 0 <= b < 256 ->
  word_ok (256 * h + b) /\ (256 * h + b) / 256 = h /\ (256 * h + b) mod 256 = b /\ (256 * h + b) mod 2 = b mod 2.
Proof.
  intros Hh Hb. unfold word_ok.
  assert (E1 : (256 * h + b) / 256 = h) by (rewrite Z.add_comm, Z.mul_comm, Z.div_add by lia; rewrite Z.div_small by lia; reflexivity).
  assert (E2 : (256 * h + b) mod 256 = b) by (rewrite Z.add_comm, Z.mul_comm, Z.mod_add by lia; apply Z.mod_small; lia).
  repeat split; try lia. replace (256 * h + b) with (b + (128 * h) * 2) by lia. apply Z.mod_add; lia.
Qed.
Lemma wrap_word x : word_ok x -> wrap_u 32 x = x.
Proof. intros H. unfold wrap_u. apply Z.mod_small. exact H. Qed.
(* x | m and x & ~c for byte masks *)
Lemma lor_word x m : word_ok x -> 0 <= m < 256 -> Z.lor x m = 256 * (x / 256) + Z.lor (x mod 256) m.
Proof. intros Hx Hm. destruct (word_parts x Hx) as (E & Hl & _). rewrite E at 1. now apply lor_split. Qed.
Lemma landn_word x c : word_ok x -> 0 <= c < 256 -> Z.land x (4294967295 - c) = 256 * (x / 256) + Z.land (x mod 256) (255 - c).
Proof.
  intros Hx Hc. destruct (word_parts x Hx) as (E & Hl & Hh). rewrite E at 1.
  replace (4294967295 - c) with (256 * 16777215 + (255 - c)) by lia. rewrite land_split by lia. f_equal. f_equal.
  change 16777215 with (Z.ones 24). rewrite Z.land_ones by lia. apply Z.mod_small. change (2 ^ 24) with 16777216. lia.
Qed.
Lemma land_word_byte x m : word_ok x -> 0 <= m < 256 -> Z.land x m = Z.land (x mod 256) m.
Proof.
  intros Hx Hm. destruct (word_parts x Hx) as (E & Hl & Hh). rewrite E at 1.
  replace m with (256 * 0 + m) at 1 by lia. rewrite land_split by lia. rewrite Z.land_0_r. lia.
Qed.
Lemma has_word_byte x m : word_ok x -> 0 <= m < 256 -> has x m = has (x mod 256) m.
Proof. intros. unfold has, band. now rewrite land_word_byte. Qed.

(* exhaustive check over a byte *)
Lemma byte_all (f : Z -> bool) : forallb f (map Z.of_nat (seq 0 256)) = true -> forall l, 0 <= l < 256 -> f l = true.
Proof.
  intros H l Hl. rewrite forallb_forall in H. apply H. apply in_map_iff. exists (Z.to_nat l). split; [lia|]. apply in_seq. lia.
Qed.
Lemma lor_step h b m : 0 <= h < 16777216 -> 0 <= b < 256 -> 0 <= m < 256 -> wrap_u 32 (Z.lor (256 * h + b) m) = 256 * h + Z.lor b m.
Proof.
  intros Hh Hb Hm. rewrite lor_split by assumption. apply wrap_word. apply word_build; [assumption | now apply lor_byte_range].
Qed.
Lemma landn_step h b c : 0 <= h < 16777216 -> 0 <= b < 256 -> 0 <= c < 256 ->
  wrap_u 32 (Z.land (256 * h + b) (4294967295 - c)) = 256 * h + Z.land b (255 - c).
Proof.
  intros Hh Hb Hc. destruct (word_build h b Hh Hb) as (Hw & E1 & E2 & _).
  rewrite (landn_word _ c Hw Hc), E1, E2. apply wrap_word. apply word_build; [assumption | apply land_byte_range; lia].
Qed.

Definition same_lock (x x' : Z) : Prop := word_ok x' /\ x' mod 2 = x mod 2 /\ x' / 256 = x / 256.

(* the CAS of wake_waiters that takes the mutex spinlock *)
Lemma cas1_word x : word_ok x -> same_lock x (wake_waiters_cas1_new x) /\ has (wake_waiters_cas1_new x) MU_SPINLOCK = true.
Proof.
  intros Hx. destruct (word_parts x Hx) as (E & Hl & Hh). set (h := x / 256) in *. set (l := x mod 256) in *.
  assert (Eb : wake_waiters_cas1_new x = 256 * h + Z.land (Z.lor (Z.lor l 2) 4) 127).
  { unfold wake_waiters_cas1_new. change (wrap_u 32 (wrap_s 32 (Z.shiftl 1 1))) with 2. change (wrap_u 32 (wrap_s 32 (Z.shiftl 1 2))) with 4.
    change (wrap_u 32 (wrap_s 32 (Z.shiftl 1 7))) with 128. rewrite E.
    rewrite lor_step by lia. rewrite lor_step by (try apply lor_byte_range; lia).
    rewrite landn_step by (try (apply lor_byte_range; [apply lor_byte_range|]); lia). reflexivity. }
  assert (Hb : 0 <= Z.land (Z.lor (Z.lor l 2) 4) 127 < 256) by (apply land_byte_range; [apply lor_byte_range; [apply lor_byte_range|]|]; lia).
  destruct (word_build h _ Hh Hb) as (W1 & W2 & W3 & W4).
  pose proof (byte_all (fun l => (Z.land (Z.lor (Z.lor l 2) 4) 127 mod 2 =? l mod 2) && has (Z.land (Z.lor (Z.lor l 2) 4) 127) MU_SPINLOCK)
                ltac:(vm_compute; reflexivity) l Hl) as Hbyte.
  apply andb_prop in Hbyte. destruct Hbyte as (B1 & B2). apply Z.eqb_eq in B1.
  rewrite Eb. split; [split; [exact W1 | split; [|exact W2]]|].
  - rewrite W4, B1. subst l. rewrite <- Znumtheory.Zmod_div_mod by (try lia; exists 128; reflexivity). reflexivity.
  - rewrite (has_word_byte _ MU_SPINLOCK W1) by (unfold MU_SPINLOCK; lia). rewrite W3. exact B2.
Qed.

(* the CAS of wake_waiters that releases it *)
Lemma cas2_word x s c : word_ok x -> s = 0 \/ s = MU_WRITER_WAITING -> c = MU_SPINLOCK \/ c = Z.lor MU_SPINLOCK MU_WAITING ->
  same_lock x (wake_waiters_cas2_new x s c) /\ (c = Z.lor MU_SPINLOCK MU_WAITING -> has (wake_waiters_cas2_new x s c) MU_WAITING = false) /\
  (c = MU_SPINLOCK -> has (wake_waiters_cas2_new x s c) MU_WAITING = has x MU_WAITING).
Proof.
  intros Hx Hs Hc. destruct (word_parts x Hx) as (E & Hl & Hh). set (h := x / 256) in *. set (l := x mod 256) in *.
  assert (Hs' : 0 <= s < 256) by (destruct Hs as [-> | ->]; unfold MU_WRITER_WAITING; lia).
  assert (Hc' : 0 <= c < 256) by (destruct Hc as [-> | ->]; vm_compute; split; congruence).
  assert (Eb : wake_waiters_cas2_new x s c = 256 * h + Z.land (Z.lor l s) (255 - c)).
  { unfold wake_waiters_cas2_new. rewrite E. rewrite lor_step by lia. rewrite landn_step by (try apply lor_byte_range; lia). reflexivity. }
  assert (Hb : 0 <= Z.land (Z.lor l s) (255 - c) < 256) by (apply land_byte_range; [apply lor_byte_range|]; lia).
  destruct (word_build h _ Hh Hb) as (W1 & W2 & W3 & W4).
  assert (Hbyte : Z.land (Z.lor l s) (255 - c) mod 2 = l mod 2 /\ (c = Z.lor MU_SPINLOCK MU_WAITING -> has (Z.land (Z.lor l s) (255 - c)) MU_WAITING = false) /\
                  (c = MU_SPINLOCK -> has (Z.land (Z.lor l s) (255 - c)) MU_WAITING = has l MU_WAITING)).
  { destruct Hs as [-> | ->], Hc as [-> | ->].
    all: match goal with |- Z.land (Z.lor _ ?s0) (255 - ?c0) mod 2 = _ /\ _ =>
           pose proof (byte_all (fun l => (Z.land (Z.lor l s0) (255 - c0) mod 2 =? l mod 2) &&
                                          (negb (c0 =? Z.lor MU_SPINLOCK MU_WAITING) || negb (has (Z.land (Z.lor l s0) (255 - c0)) MU_WAITING)) &&
                                          (negb (c0 =? MU_SPINLOCK) || Bool.eqb (has (Z.land (Z.lor l s0) (255 - c0)) MU_WAITING) (has l MU_WAITING)))
                         ltac:(vm_compute; reflexivity) l Hl) as Hq end.
    all: apply andb_prop in Hq; destruct Hq as (Hq & B3); apply andb_prop in Hq; destruct Hq as (B1 & B2); apply Z.eqb_eq in B1; split; [exact B1|].
    all: split; intros Ec; try (vm_compute in Ec; discriminate).
    all: try (rewrite Z.eqb_refl in B2; simpl in B2; now apply negb_true_iff in B2).
    all: rewrite Z.eqb_refl in B3; simpl in B3; now apply eqb_prop in B3. }
  destruct Hbyte as (B1 & B2 & B3). rewrite Eb. split; [split; [exact W1 | split; [|exact W2]]|split].
  - rewrite W4, B1. subst l. rewrite <- Znumtheory.Zmod_div_mod by (try lia; exists 128; reflexivity). reflexivity.
  - intros Ec. rewrite (has_word_byte _ MU_WAITING W1) by (unfold MU_WAITING; lia). rewrite W3. now apply B2.
  - intros Ec. rewrite (has_word_byte _ MU_WAITING W1), (has_word_byte x MU_WAITING Hx) by (unfold MU_WAITING; lia). rewrite W3. now apply B3.
Qed.

(* the environment rewrites the flag bits *)
Lemma env_word x f : word_ok x ->
  let x' := mu_lockf x + mu_flags (wrap_u 32 f) in
  same_lock x x' /\ has x' MU_SPINLOCK = has (mu_flags (wrap_u 32 f)) MU_SPINLOCK.
Proof.
  intros Hx. cbv zeta. destruct (word_parts x Hx) as (E & Hl & Hh). set (h := x / 256) in *. set (l := x mod 256) in *.
  assert (Hy : word_ok (wrap_u 32 f)) by (unfold word_ok, wrap_u; apply Z.mod_pos_bound; reflexivity).
  destruct (word_parts _ Hy) as (_ & Hly & _). set (ly := wrap_u 32 f mod 256) in *.
  assert (E1 : mu_lockf x = 256 * h + Z.land l 1).
  { unfold mu_lockf, band. change MU_ANY_LOCK with (4294967295 - 254). now rewrite landn_word by (try assumption; lia). }
  assert (E2 : mu_flags (wrap_u 32 f) = Z.land ly 254).
  { unfold mu_flags, band. change (bnot32 MU_ANY_LOCK) with 254. now rewrite land_word_byte by (try assumption; lia). }
  pose proof (byte_all (fun l => forallb (fun ly => let b := Z.land l 1 + Z.land ly 254 in
                                    (0 <=? b) && (b <? 256) && (b mod 2 =? l mod 2) && Bool.eqb (has b MU_SPINLOCK) (has (Z.land ly 254) MU_SPINLOCK))
                                  (map Z.of_nat (seq 0 256))) ltac:(vm_compute; reflexivity) l Hl) as Hq.
  pose proof (byte_all _ Hq ly Hly) as Hb. cbv zeta in Hb.
  apply andb_prop in Hb. destruct Hb as (Hb & B4). apply andb_prop in Hb. destruct Hb as (Hb & B3). apply andb_prop in Hb. destruct Hb as (B1 & B2).
  apply Z.leb_le in B1. apply Z.ltb_lt in B2. apply Z.eqb_eq in B3. apply eqb_prop in B4.
  rewrite E1, E2. replace (256 * h + Z.land l 1 + Z.land ly 254) with (256 * h + (Z.land l 1 + Z.land ly 254)) by lia.
  destruct (word_build h _ Hh (conj B1 B2)) as (W1 & W2 & W3 & W4).
  split; [split; [exact W1 | split; [|exact W2]]|].
  - rewrite W4, B3. subst l. rewrite <- Znumtheory.Zmod_div_mod by (try lia; exists 128; reflexivity). reflexivity.
  - rewrite (has_word_byte _ MU_SPINLOCK W1) by (unfold MU_SPINLOCK; lia). rewrite W3. exact B4.
Qed.

(* the abstract acquisitions / releases change the lock field only *)
Lemma lock_arith x d : word_ok x -> word_ok (x + d) ->
  (d = 1 /\ x mod 2 = 0) \/ (d = -1 /\ x mod 2 = 1) \/ d = 256 \/ d = -256 ->
  has (x + d) MU_SPINLOCK = has x MU_SPINLOCK.
Proof.
  intros Hx Hx' Hd. rewrite (has_word_byte _ MU_SPINLOCK Hx'), (has_word_byte _ MU_SPINLOCK Hx) by (unfold MU_SPINLOCK; lia).
  destruct (word_parts x Hx) as (E & Hl & Hh). set (l := x mod 256) in *.
  assert (Hl2 : l mod 2 = x mod 2) by (subst l; rewrite <- Znumtheory.Zmod_div_mod by (try lia; exists 128; reflexivity); reflexivity).
  destruct Hd as [(-> & He) | [(-> & Ho) | [-> | ->]]].
  - assert (Em : (x + 1) mod 256 = l + 1).
    { rewrite E. replace (256 * (x / 256) + l + 1) with ((l + 1) + (x / 256) * 256) by lia. rewrite Z.mod_add by lia. apply Z.mod_small.
      rewrite <- Hl2 in He. assert (l <> 255) by (intros ->; discriminate). lia. }
    rewrite Em. pose proof (byte_all (fun l => negb (l mod 2 =? 0) || Bool.eqb (has (l + 1) MU_SPINLOCK) (has l MU_SPINLOCK)) ltac:(vm_compute; reflexivity) l Hl) as Hq.
    cbv beta in Hq. rewrite Hl2, He in Hq. simpl in Hq. now apply eqb_prop.
  - assert (Em : (x + -1) mod 256 = l - 1).
    { rewrite E. replace (256 * (x / 256) + l + -1) with ((l - 1) + (x / 256) * 256) by lia. rewrite Z.mod_add by lia. apply Z.mod_small.
      rewrite <- Hl2 in Ho. assert (l <> 0) by (intros ->; discriminate). lia. }
    rewrite Em. pose proof (byte_all (fun l => negb (l mod 2 =? 1) || Bool.eqb (has (l - 1) MU_SPINLOCK) (has l MU_SPINLOCK)) ltac:(vm_compute; reflexivity) l Hl) as Hq.
    cbv beta in Hq. rewrite Hl2, Ho in Hq. simpl in Hq. now apply eqb_prop.
  - replace (x + 256) with (x + 1 * 256) by lia. now rewrite Z.mod_add by lia.
  - replace (x + -256) with (x + (-1) * 256) by lia. now rewrite Z.mod_add by lia.
Qed.

(* ---------- what a step of a thread does to the ABSTRACT mutex ---------- *)
Definition rel_pc (p : pc) : option kl := match p with VLoad3 k | VCas2 k _ | VLoad5 k => Some k | _ => None end.
Definition cas1_old (p : pc) : option Z := match p with VCas1 _ old => Some old | _ => None end.
Definition lock_pc (p : pc) : option mode := match p with MLock m => Some m | _ => None end.


Section StepM.
  Variables (w : world) (t : nat) (c : choice).
  Let w' := fst (step_core w t c).
  Let p := t_pc (get w t).
  Let p' := t_pc (get w' t).
  (* nothing of the mutex changes *)
  Definition M_same : Prop :=
    muw w' = muw w /\ mspin w' = mspin w /\ muq w' = muq w /\ held (get w' t) = held (get w t) /\ rel_pc p' = rel_pc p /\
    (forall old, cas1_old p' = Some old -> cas1_old p = Some old \/ (old = muw w /\ has old MU_SPINLOCK = false)) /\
    (forall m, lock_pc p' = Some m -> lock_pc p = Some m).
  Definition M_quiet : Prop :=
    mspin w' = mspin w /\ muq w' = muq w /\ rel_pc p = None /\ rel_pc p' = None /\ cas1_old p' = None /\ lock_pc p' = None.
  Definition M_acquire : Prop :=
    exists m, can_acquire (muw w) m = true /\ muw w' = muw w + add_of m /\ held (get w t) = None /\ held (get w' t) = Some m /\ M_quiet.
  Definition M_release : Prop :=
    exists m, held (get w t) = Some m /\ held (get w' t) = None /\ muw w' = muw w - add_of m /\ M_quiet.
  Definition M_enter : Prop :=
    exists k old k', p = VCas1 k old /\ muw w = old /\ muw w' = wake_waiters_cas1_new old /\ mspin w' = Some t /\ p' = VLoad3 k' /\
      (exists moved, muq w' = muq w ++ moved) /\ k_clr k' = clear_on_release (muq w') (k_envq k') /\
      (k_set k' = 0 \/ k_set k' = MU_WRITER_WAITING) /\ held (get w' t) = held (get w t).
  Definition M_exit : Prop :=
    exists k old, p = VCas2 k old /\ muw w = old /\ muw w' = wake_waiters_cas2_new old (k_set k) (k_clr k) /\ mspin w' = None /\
      muq w' = muq w /\ rel_pc p' = None /\ cas1_old p' = None /\ lock_pc p' = None /\ held (get w' t) = held (get w t).
End StepM.

Lemma rel_enter_wake_loop k : rel_pc (enter_wake_loop k) = None /\ cas1_old (enter_wake_loop k) = None /\ lock_pc (enter_wake_loop k) = None.
Proof. unfold enter_wake_loop. destruct (k_wake k); auto. Qed.
Lemma rel_after_todo k : rel_pc (after_todo k) = None /\ cas1_old (after_todo k) = None /\ lock_pc (after_todo k) = None.
Proof. unfold after_todo. destruct (k_todo k); auto. Qed.

Lemma step_core_M w t c : (t < length (thr w))%nat ->
  (is_acq_pc (t_pc (get w t)) = true -> held (get w t) = None) ->
  M_same w t c \/ M_acquire w t c \/ M_release w t c \/ M_enter w t c \/ M_exit w t c.
Proof.
  intros Hlt Hacq. unfold M_same, M_acquire, M_release, M_enter, M_exit, M_quiet.
  step_cases w t; rewrite ?Hpc in *; simpl in Hacq; simpl fst; pc_nf; get_nf; rewrite ?Hpc; simpl muw; simpl mspin; simpl muq.
  all: rewrite ?(proj1 (rel_enter_wake_loop _)), ?(proj1 (proj2 (rel_enter_wake_loop _))), ?(proj2 (proj2 (rel_enter_wake_loop _))),
               ?(proj1 (rel_after_todo _)), ?(proj1 (proj2 (rel_after_todo _))), ?(proj2 (proj2 (rel_after_todo _))).
  all: try solve [left; repeat split; try reflexivity; simpl; intros ? HH; try discriminate HH; auto].
  all: try solve [right; left; eexists; repeat split; try reflexivity; try eassumption; apply Hacq; reflexivity].
  all: try solve [right; right; left; eexists; repeat split; try reflexivity; try eassumption].
  all: try solve [left; repeat split; try reflexivity; try assumption; simpl; intros ? HH; try discriminate HH; auto].
  all: try match goal with H : mode_eqb _ _ = true |- _ => apply mode_eqb_eq in H; subst end.
  all: try solve [right; right; left; eexists; repeat split; try reflexivity; try eassumption].
  all: zbool; unfold wake_waiters_cas1_old, wake_waiters_cas2_old in *.
  (* VLoad1 -> VCas1: the word it read has the spinlock bit clear *)
  all: try solve [left; repeat split; try reflexivity; simpl; intros ? HH; try discriminate HH; injection HH as <-; right; split; [reflexivity|];
                  match goal with H : _ && negb (has (muw _) MU_SPINLOCK) && _ = true |- _ =>
                    apply andb_prop in H; destruct H as (H & _); apply andb_prop in H; destruct H as (_ & H); now apply negb_true_iff in H end].
  (* exit *)
  all: try solve [right; right; right; right; eexists _, _; repeat split; try reflexivity; try eassumption; symmetry; assumption].
  (* enter *)
  all: try solve [right; right; right; left; eexists _, _, _; split; [reflexivity|]; split; [eassumption|]; split; [reflexivity|]; split; [reflexivity|];
                  split; [reflexivity|]; split; [eexists; reflexivity|]; split; [reflexivity|]; split; [|reflexivity];
                  simpl; match goal with H : xfer ?a ?b ?cc = (_, _, ?z) |- _ => pose proof (xfer_set a b cc) as X; rewrite H in X; exact X end].
  left; repeat split; try reflexivity; simpl; intros ? HH; try discriminate HH. injection HH as <-. right. split; [reflexivity|].
  match goal with H : negb (has (muw _) MU_SPINLOCK) = true |- _ => now apply negb_true_iff in H end.
Qed.


(* ---------- Layer L: the lock field of the abstract mutex word counts the holders ---------- *)
Definition hW (s : tstate) : Z := match held s with Some W => 1 | _ => 0 end.
Definition hR (s : tstate) : Z := match held s with Some R => 1 | _ => 0 end.
Fixpoint sumf (f : tstate -> Z) (l : list tstate) : Z := match l with [] => 0 | s :: r => f s + sumf f r end.
Lemma sumf_change f l : forall l' t, length l' = length l -> (t < length l)%nat ->
  (forall t', t' <> t -> nth t' l' dflt_t = nth t' l dflt_t) ->
  sumf f l' = sumf f l - f (nth t l dflt_t) + f (nth t l' dflt_t).
Proof.
  induction l as [|a l IH]; intros l' t Hlen Hlt Hoth; [simpl in Hlt; lia|].
  destruct l' as [|a' l']; [discriminate|]. simpl in Hlen, Hlt. destruct t as [|t].
  - simpl. assert (E : l' = l).
    { apply (nth_ext _ _ dflt_t dflt_t); [lia|]. intros n _. exact (Hoth (S n) ltac:(discriminate)). }
    rewrite E. lia.
  - simpl. pose proof (Hoth 0%nat ltac:(discriminate)) as E0. simpl in E0. subst a'.
    rewrite (IH l' t) by (try lia; intros t' Ht'; exact (Hoth (S t') ltac:(congruence))). lia.
Qed.
Lemma sumf_same f l l' : length l' = length l -> (forall t, nth t l' dflt_t = nth t l dflt_t) -> sumf f l' = sumf f l.
Proof. intros Hlen H. f_equal. apply (nth_ext _ _ dflt_t dflt_t); auto. Qed.

Definition LInv (w : world) : Prop :=
  word_ok (muw w) /\ muw w mod 2 = sumf hW (thr w) /\ muw w / 256 = sumf hR (thr w) /\
  (sumf hW (thr w) = 0 \/ sumf hR (thr w) = 0) /\
  (forall t m, t_pc (get w t) = MLock m -> held (get w t) = None).

(* ---------- Layer F: the mutex spinlock section of wake_waiters (F15) ---------- *)
(* what the release will clear, against the mutex queue and the environment's report *)
Definition clr_ok (k : kl) (q : list nat) : Prop :=
  (k_set k = 0 \/ k_set k = MU_WRITER_WAITING) /\
  ((k_clr k = Z.lor MU_SPINLOCK MU_WAITING /\ q = [] /\ k_envq k = false) \/
   (k_clr k = MU_SPINLOCK /\ (q <> [] \/ k_envq k = true))).
Definition FInv (w : world) : Prop :=
  (forall t, mspin w = Some t -> has (muw w) MU_SPINLOCK = true /\ exists k, rel_pc (t_pc (get w t)) = Some k) /\
  (forall t k, rel_pc (t_pc (get w t)) = Some k -> mspin w = Some t /\ clr_ok k (muq w)) /\
  (forall t old, cas1_old (t_pc (get w t)) = Some old -> has old MU_SPINLOCK = false).

Lemma acq_held_none w t : TInv w -> LInv w -> is_acq_pc (t_pc (get w t)) = true -> held (get w t) = None.
Proof.
  intros (_ & HT) (_ & _ & _ & _ & HL) Hp. specialize (HT t). unfold tinv, tinv_s in HT. destruct HT as (_ & H2 & H3).
  destruct (t_pc (get w t)) eqn:Hpc; try discriminate Hp.
  - now apply (HL t m).
  - simpl in H2. tauto.
  - simpl in H3. tauto.
Qed.

Lemma sumf_ext f l : forall l', length l' = length l -> (forall t, f (nth t l' dflt_t) = f (nth t l dflt_t)) -> sumf f l' = sumf f l.
Proof.
  induction l as [|a l IH]; intros [|a' l'] Hlen H; try discriminate; [reflexivity|]. simpl.
  pose proof (H 0%nat) as H0. simpl in H0. rewrite H0. f_equal. apply IH; [simpl in Hlen; lia|]. intros t. exact (H (S t)).
Qed.
Lemma sumf_ge f l t : (forall s, 0 <= f s) -> (t < length l)%nat -> f (nth t l dflt_t) <= sumf f l /\ 0 <= sumf f l.
Proof.
  intros Hf. revert t. induction l as [|a l IH]; intros t Hlt; [simpl in Hlt; lia|]. simpl in Hlt.
  assert (H0 : 0 <= sumf f l).
  { clear IH Hlt. induction l as [|b l IHl]; simpl; [lia|]. specialize (Hf b). lia. }
  destruct t as [|t]; simpl; [specialize (Hf a); lia|]. destruct (IH t ltac:(lia)). specialize (Hf a). lia.
Qed.
Lemma hW_nonneg s : 0 <= hW s. Proof. unfold hW. destruct (held s) as [[|]|]; lia. Qed.
Lemma hR_nonneg s : 0 <= hR s. Proof. unfold hR. destruct (held s) as [[|]|]; lia. Qed.

Lemma clear_on_release_ok k q : k_clr k = clear_on_release q (k_envq k) -> (k_set k = 0 \/ k_set k = MU_WRITER_WAITING) -> clr_ok k q.
Proof.
  intros E Hs. split; [exact Hs|]. unfold clear_on_release in E. destruct q as [|r q]; simpl in E.
  - destruct (k_envq k); simpl in E; [right; auto | left; auto].
  - right. split; [exact E | left; discriminate].
Qed.
Lemma clr_ok_vals k q : clr_ok k q -> (k_set k = 0 \/ k_set k = MU_WRITER_WAITING) /\ (k_clr k = MU_SPINLOCK \/ k_clr k = Z.lor MU_SPINLOCK MU_WAITING).
Proof. intros (A & [(B & _)|(B & _)]); auto. Qed.

Ltac Zify.zify_post_hook ::= Z.div_mod_to_equations.

(* the two layers are preserved together by a step of a thread *)
Lemma LF_step_core w t c : TInv w -> LInv w -> FInv w -> (t < length (thr w))%nat ->
  LInv (fst (step_core w t c)) /\ FInv (fst (step_core w t c)).
Proof.
  intros HT HL HF Hlt. pose proof (acq_held_none w t HT HL) as Hacq.
  pose proof (step_core_M w t c Hlt Hacq) as HM.
  destruct HL as (L1 & L2 & L3 & L4 & L5). destruct HF as (F1 & F2 & F3).
  set (w' := fst (step_core w t c)) in *.
  assert (Hoth : forall t', t' <> t -> get w' t' = get w t') by (intros; apply step_core_other; congruence).
  assert (Hlen : length (thr w') = length (thr w)) by apply (step_core_misc w t c).
  assert (HsW : sumf hW (thr w') = sumf hW (thr w) - hW (get w t) + hW (get w' t)).
  { apply sumf_change; [exact Hlen | exact Hlt | intros t' Ht'; exact (Hoth t' Ht')]. }
  assert (HsR : sumf hR (thr w') = sumf hR (thr w) - hR (get w t) + hR (get w' t)).
  { apply sumf_change; [exact Hlen | exact Hlt | intros t' Ht'; exact (Hoth t' Ht')]. }
  pose proof (sumf_ge hW (thr w) t hW_nonneg Hlt) as (GW & GW0). pose proof (sumf_ge hR (thr w) t hR_nonneg Hlt) as (GR & GR0).
  fold (get w t) in GW, GR.
  assert (L5' : forall t' m, t' <> t -> t_pc (get w' t') = MLock m -> held (get w' t') = None).
  { intros t' m Hne. rewrite (Hoth t' Hne). apply L5. }
  assert (F3' : forall t' old, t' <> t -> cas1_old (t_pc (get w' t')) = Some old -> has old MU_SPINLOCK = false).
  { intros t' old Hne. rewrite (Hoth t' Hne). apply F3. }
  unfold M_same, M_acquire, M_release, M_enter, M_exit, M_quiet in HM. fold w' in HM. unfold LInv, FInv.
  destruct HM as [(Emu & Esp & Eq & Eh & Er & Ec & El) | [(m & Hca & Emu & Eh0 & Eh1 & Esp & Eq & Er0 & Er1 & Ec & El)
                | [(m & Eh0 & Eh1 & Emu & Esp & Eq & Er0 & Er1 & Ec & El) | [(k & old & k' & Ep & Eold & Emu & Esp & Ep' & (moved & Eq) & Eclr & Eset & Eh)
                | (k & old & Ep & Eold & Emu & Esp & Eq & Er1 & Ec & El & Eh)]]]].
  - (* nothing of the mutex changes *)
    assert (EW : hW (get w' t) = hW (get w t)) by (unfold hW; now rewrite Eh).
    assert (ER : hR (get w' t) = hR (get w t)) by (unfold hR; now rewrite Eh).
    split.
    + rewrite Emu. split; [exact L1|]. split; [lia|]. split; [lia|]. split; [lia|].
      intros t' m. destruct (Nat.eq_dec t' t) as [->|Hne]; [|now apply L5'].
      intros Hp. rewrite Eh. apply (L5 t m). specialize (El m). rewrite Hp in El. specialize (El eq_refl).
      destruct (t_pc (get w t)); try discriminate El. simpl in El. congruence.
    + split; [|split].
      * intros t0. rewrite Esp, Emu. intros Hs. destruct (F1 t0 Hs) as (A & k & B). split; [exact A|]. exists k.
        destruct (Nat.eq_dec t0 t) as [->|Hne]; [now rewrite Er | now rewrite Hoth].
      * intros t0 k. rewrite Esp, Eq. destruct (Nat.eq_dec t0 t) as [->|Hne]; [rewrite Er | rewrite Hoth by assumption]; apply F2.
      * intros t0 old. destruct (Nat.eq_dec t0 t) as [->|Hne]; [|now apply F3'].
        intros Hc. destruct (Ec old Hc) as [Hc'|(-> & Hc')]; [now apply (F3 t) | exact Hc'].
  - (* an abstract acquisition *)
    assert (EW0 : hW (get w t) = 0) by (unfold hW; now rewrite Eh0). assert (ER0 : hR (get w t) = 0) by (unfold hR; now rewrite Eh0).
    assert (Hl : word_ok (muw w') /\ muw w' mod 2 = sumf hW (thr w') /\ muw w' / 256 = sumf hR (thr w') /\
                 (sumf hW (thr w') = 0 \/ sumf hR (thr w') = 0) /\
                 ((add_of m = 1 /\ muw w mod 2 = 0) \/ add_of m = 256)).
    { assert (EW1 : hW (get w' t) = match m with W => 1 | R => 0 end) by (unfold hW; rewrite Eh1; now destruct m).
      assert (ER1 : hR (get w' t) = match m with W => 0 | R => 1 end) by (unfold hR; rewrite Eh1; now destruct m).
      unfold word_ok in *. rewrite Emu, HsW, HsR, EW0, ER0, EW1, ER1.
      destruct m; simpl in Hca; apply andb_prop in Hca; destruct Hca as (C1 & C2); apply Z.eqb_eq in C1.
      - apply Z.eqb_eq in C2. change (add_of W) with 1. repeat split; lia.
      - apply Z.ltb_lt in C2. change (add_of R) with 256. repeat split; lia. }
    destruct Hl as (A1 & A2 & A3 & A4 & A5). split.
    + split; [exact A1|]. split; [exact A2|]. split; [exact A3|]. split; [exact A4|].
      intros t' m'. destruct (Nat.eq_dec t' t) as [->|Hne]; [|now apply L5']. intros Hp. rewrite Hp in El. discriminate El.
    + assert (Hhas : has (muw w') MU_SPINLOCK = has (muw w) MU_SPINLOCK).
      { rewrite Emu. apply lock_arith; [exact L1 | now rewrite <- Emu |]. destruct A5 as [(-> & A5) | -> ]; [left; auto | right; right; left; reflexivity]. }
      split; [|split].
      * intros t0. rewrite Esp, Hhas. intros Hs. destruct (F1 t0 Hs) as (A & k & B). split; [exact A|]. exists k.
        destruct (Nat.eq_dec t0 t) as [->|Hne]; [congruence | now rewrite Hoth].
      * intros t0 k. rewrite Esp, Eq. destruct (Nat.eq_dec t0 t) as [->|Hne]; [rewrite Er1; discriminate | rewrite Hoth by assumption; apply F2].
      * intros t0 old. destruct (Nat.eq_dec t0 t) as [->|Hne]; [rewrite Ec; discriminate | now apply F3'].
  - (* an abstract release *)
    assert (EW1 : hW (get w' t) = 0) by (unfold hW; now rewrite Eh1). assert (ER1 : hR (get w' t) = 0) by (unfold hR; now rewrite Eh1).
    assert (Hl : word_ok (muw w') /\ muw w' mod 2 = sumf hW (thr w') /\ muw w' / 256 = sumf hR (thr w') /\
                 (sumf hW (thr w') = 0 \/ sumf hR (thr w') = 0) /\
                 ((- add_of m = -1 /\ muw w mod 2 = 1) \/ - add_of m = -256)).
    { assert (EW0 : hW (get w t) = match m with W => 1 | R => 0 end) by (unfold hW; rewrite Eh0; now destruct m).
      assert (ER0 : hR (get w t) = match m with W => 0 | R => 1 end) by (unfold hR; rewrite Eh0; now destruct m).
      unfold word_ok in *. rewrite Emu, HsW, HsR, EW1, ER1. rewrite EW0 in *. rewrite ER0 in *.
      destruct m; [change (add_of W) with 1 | change (add_of R) with 256]; repeat split; lia. }
    destruct Hl as (A1 & A2 & A3 & A4 & A5). split.
    + split; [exact A1|]. split; [exact A2|]. split; [exact A3|]. split; [exact A4|].
      intros t' m'. destruct (Nat.eq_dec t' t) as [->|Hne]; [|now apply L5']. intros Hp. rewrite Hp in El. discriminate El.
    + assert (Hhas : has (muw w') MU_SPINLOCK = has (muw w) MU_SPINLOCK).
      { rewrite Emu. replace (muw w - add_of m) with (muw w + - add_of m) by lia.
        apply lock_arith; [exact L1 | replace (muw w + - add_of m) with (muw w - add_of m) by lia; now rewrite <- Emu |].
        destruct A5 as [(-> & A5) | -> ]; [right; left; auto | right; right; right; reflexivity]. }
      split; [|split].
      * intros t0. rewrite Esp, Hhas. intros Hs. destruct (F1 t0 Hs) as (A & k & B). split; [exact A|]. exists k.
        destruct (Nat.eq_dec t0 t) as [->|Hne]; [congruence | now rewrite Hoth].
      * intros t0 k. rewrite Esp, Eq. destruct (Nat.eq_dec t0 t) as [->|Hne]; [rewrite Er1; discriminate | rewrite Hoth by assumption; apply F2].
      * intros t0 old. destruct (Nat.eq_dec t0 t) as [->|Hne]; [rewrite Ec; discriminate | now apply F3'].
  - (* wake_waiters takes the mutex spinlock *)
    assert (EW : hW (get w' t) = hW (get w t)) by (unfold hW; now rewrite Eh).
    assert (ER : hR (get w' t) = hR (get w t)) by (unfold hR; now rewrite Eh).
    assert (Hold : has (muw w) MU_SPINLOCK = false) by (rewrite Eold; apply (F3 t); now rewrite Ep).
    assert (Hnone : mspin w = None).
    { destruct (mspin w) as [t0|] eqn:Es; [|reflexivity]. destruct (F1 t0 eq_refl) as (A & _). congruence. }
    rewrite <- Eold in Emu. destruct (cas1_word (muw w) L1) as ((C1 & C2 & C3) & C4). rewrite <- Emu in *.
    split.
    + split; [exact C1|]. split; [lia|]. split; [lia|]. split; [lia|].
      intros t' m. destruct (Nat.eq_dec t' t) as [->|Hne]; [|now apply L5']. rewrite Ep'. discriminate.
    + split; [|split].
      * intros t0 Hs. rewrite Esp in Hs. injection Hs as <-. split; [exact C4|]. exists k'. now rewrite Ep'.
      * intros t0 k0. destruct (Nat.eq_dec t0 t) as [->|Hne].
        -- rewrite Ep'. simpl. intros [= <-]. split; [exact Esp|]. now apply clear_on_release_ok.
        -- rewrite Hoth by assumption. intros Hr. destruct (F2 t0 k0 Hr) as (A & _). congruence.
      * intros t0 old0. destruct (Nat.eq_dec t0 t) as [->|Hne]; [rewrite Ep'; discriminate | now apply F3'].
  - (* wake_waiters releases it *)
    assert (EW : hW (get w' t) = hW (get w t)) by (unfold hW; now rewrite Eh).
    assert (ER : hR (get w' t) = hR (get w t)) by (unfold hR; now rewrite Eh).
    destruct (F2 t k) as (Hsp & Hok); [now rewrite Ep|]. destruct (clr_ok_vals _ _ Hok) as (V1 & V2).
    rewrite <- Eold in Emu. destruct (cas2_word (muw w) (k_set k) (k_clr k) L1 V1 V2) as ((C1 & C2 & C3) & _). rewrite <- Emu in *.
    split.
    + split; [exact C1|]. split; [lia|]. split; [lia|]. split; [lia|].
      intros t' m. destruct (Nat.eq_dec t' t) as [->|Hne]; [|now apply L5']. intros Hp. rewrite Hp in El. discriminate El.
    + split; [|split].
      * intros t0 Hs. rewrite Esp in Hs. discriminate.
      * intros t0 k0. destruct (Nat.eq_dec t0 t) as [->|Hne]; [rewrite Er1; discriminate|].
        rewrite Hoth by assumption. intros Hr. destruct (F2 t0 k0 Hr) as (A & _). congruence.
      * intros t0 old0. destruct (Nat.eq_dec t0 t) as [->|Hne]; [rewrite Ec; discriminate | now apply F3'].
Qed.

(* ---------- begin_op, environment, init ---------- *)
Lemma begin_op_held w t t' : held (get (begin_op w t) t') = held (get w t').
Proof.
  destruct (Nat.eq_dec t' t) as [->|Hne]; [|now rewrite begin_op_other by congruence].
  unfold begin_op. destruct (t_pc (get w t)) eqn:Hpc; try reflexivity. destruct (t_ops (get w t)) as [|o rest] eqn:Hops; [reflexivity|].
  destruct (le_lt_dec (length (thr w)) t) as [Hoob|Hlt]; [rewrite (get_oob w t Hoob) in Hops; discriminate|].
  destruct o; get_nf; reflexivity.
Qed.
Lemma begin_op_pcs w t : rel_pc (t_pc (get (begin_op w t) t)) = rel_pc (t_pc (get w t)) /\
  cas1_old (t_pc (get (begin_op w t) t)) = cas1_old (t_pc (get w t)) /\
  (forall m, t_pc (get (begin_op w t) t) = MLock m -> t_pc (get w t) = MLock m \/ held (get w t) = None).
Proof.
  destruct (begin_op_pc w t) as [E|(Hpc & _ & o & rest & _ & E)]; [rewrite E; auto|].
  rewrite E, Hpc. destruct o; simpl; try destruct (held (get w t)); simpl; repeat split; auto; intros ? [=].
Qed.
Lemma LF_begin_op w t : LInv w -> FInv w -> LInv (begin_op w t) /\ FInv (begin_op w t).
Proof.
  intros (L1 & L2 & L3 & L4 & L5) (F1 & F2 & F3).
  pose proof (begin_op_misc w t) as (_ & _ & Hlen & _ & _ & _ & _ & _ & Emu & Eq & _ & Esp & _).
  assert (EW : sumf hW (thr (begin_op w t)) = sumf hW (thr w)).
  { apply sumf_ext; [exact Hlen|]. intros t'. unfold hW. exact (f_equal (fun h => match h with Some W => 1 | _ => 0 end) (begin_op_held w t t')). }
  assert (ER : sumf hR (thr (begin_op w t)) = sumf hR (thr w)).
  { apply sumf_ext; [exact Hlen|]. intros t'. unfold hR. exact (f_equal (fun h => match h with Some R => 1 | _ => 0 end) (begin_op_held w t t')). }
  destruct (begin_op_pcs w t) as (P1 & P2 & P3).
  split.
  - unfold LInv. rewrite Emu, EW, ER. repeat split; auto; try apply L1.
    intros t' m. rewrite begin_op_held. destruct (Nat.eq_dec t' t) as [->|Hne]; [|rewrite begin_op_other by congruence; apply L5].
    intros Hp. destruct (P3 m Hp) as [Hp'|Hh]; [now apply (L5 t m) | exact Hh].
  - unfold FInv. rewrite Emu, Eq, Esp. split; [|split].
    + intros t0 Hs. destruct (F1 t0 Hs) as (A & k & B). split; [exact A|]. exists k.
      destruct (Nat.eq_dec t0 t) as [->|Hne]; [now rewrite P1 | now rewrite begin_op_other by congruence].
    + intros t0 k. destruct (Nat.eq_dec t0 t) as [->|Hne]; [rewrite P1 | rewrite begin_op_other by congruence]; apply F2.
    + intros t0 old. destruct (Nat.eq_dec t0 t) as [->|Hne]; [rewrite P2 | rewrite begin_op_other by congruence]; apply F3.
Qed.

(* what an environment step does to the abstract mutex *)
Lemma env_mu w a c : (forall t, a <> Thr t) ->
  let w' := fst (step w a c) in
  mspin w' = mspin w /\
  (muw w' = muw w \/
   (exists f, muw w' = mu_lockf (muw w) + mu_flags (wrap_u 32 f) /\ (mspin w <> None -> has (mu_flags (wrap_u 32 f)) MU_SPINLOCK = true))) /\
  (muq w' = muq w \/ mspin w = None).
Proof.
  intros Ha. destruct a; try (exfalso; eapply Ha; reflexivity); simpl; destr_all; simpl; repeat split; auto.
  - right. exists flags. split; [reflexivity|]. intros Hs. destruct (mspin w); [assumption | now elim Hs].
  - destruct (mspin w); [discriminate | now right].
Qed.

Lemma LF_step w a c : Inv w -> LInv w -> FInv w -> LInv (fst (step w a c)) /\ FInv (fst (step w a c)).
Proof.
  intros HI HL HF. destruct a as [t| | | | | | | |].
  { simpl. destruct (le_lt_dec (length (thr w)) t) as [Hoob|Hlt]; [rewrite step_thr_oob by assumption; auto|].
    unfold step_thr. destruct (LF_begin_op w t HL HF) as (HL' & HF'). destruct HI as (HT & _).
    apply LF_step_core; [now apply TInv_begin_op | exact HL' | exact HF' |].
    now rewrite (proj1 (proj2 (proj2 (begin_op_misc w t)))). }
  all: match goal with |- LInv (fst (step ?w0 ?a ?c0)) /\ _ =>
         pose proof (env_frame w0 a c0 ltac:(intros; discriminate)) as (Hg & _ & _ & _ & _ & Hlen & _);
         pose proof (env_mu w0 a c0 ltac:(intros; discriminate)) as (Esp & Emu & Eq); cbv zeta in Hg, Hlen, Esp, Emu, Eq;
         set (w' := fst (step w0 a c0)) in * end.
  all: destruct HL as (L1 & L2 & L3 & L4 & L5); destruct HF as (F1 & F2 & F3).
  all: assert (EW : sumf hW (thr w') = sumf hW (thr w)) by (apply sumf_ext; [exact Hlen | intros t'; exact (f_equal hW (Hg t'))]).
  all: assert (ER : sumf hR (thr w') = sumf hR (thr w)) by (apply sumf_ext; [exact Hlen | intros t'; exact (f_equal hR (Hg t'))]).
  all: assert (Hword : same_lock (muw w) (muw w') /\ (mspin w <> None -> has (muw w') MU_SPINLOCK = true)).
  all: try (destruct Emu as [Emu|(f & Emu & Hg2)];
            [ rewrite Emu; split; [split; [exact L1 | split; reflexivity] | intros Hs; destruct (mspin w) as [t0|] eqn:Es; [apply (F1 t0 eq_refl) | now elim Hs]]
            | pose proof (env_word (muw w) f L1) as (X1 & X2); cbv zeta in X1, X2; rewrite <- Emu in X1, X2; split; [exact X1 | intros Hs; rewrite X2; now apply Hg2] ]).
  all: destruct Hword as ((W1 & W2 & W3) & W4).
  all: split; [ unfold LInv; rewrite EW, ER; split; [exact W1|]; split; [lia|]; split; [lia|]; split; [exact L4|]; intros t' m; rewrite Hg; apply L5
              | unfold FInv; split; [|split];
                [ intros t0 Hs; rewrite Esp in Hs; split; [apply W4; congruence | rewrite Hg; apply (F1 t0 Hs)]
                | intros t0 k; rewrite Hg, Esp; intros Hr; destruct (F2 t0 k Hr) as (A & B); split; [exact A|];
                  destruct Eq as [-> | Eq]; [exact B | congruence]
                | intros t0 old; rewrite Hg; apply F3 ] ].
Qed.

Lemma sumf_init f (progs : list (list op)) : f (mk_t Idle [] None []) = 0 -> (forall p, f (mk_t Idle p None []) = 0) ->
  sumf f (map (fun p => mk_t Idle p None []) progs) = 0.
Proof. intros _ H. induction progs as [|p l IH]; simpl; [reflexivity|]. rewrite H, IH. reflexivity. Qed.
Lemma LF_init progs clock0 exp : LInv (init progs clock0 exp) /\ FInv (init progs clock0 exp).
Proof.
  split.
  - unfold LInv. simpl muw. simpl thr. rewrite !sumf_init by reflexivity. unfold word_ok. repeat split; try lia; auto.
    intros t m H. rewrite (proj1 (get_init progs clock0 exp t)) in H. discriminate.
  - unfold FInv. split; [|split].
    + intros t H. discriminate.
    + intros t k H. rewrite (proj1 (get_init progs clock0 exp t)) in H. discriminate.
    + intros t old H. rewrite (proj1 (get_init progs clock0 exp t)) in H. discriminate.
Qed.
Lemma LF_run progs clock0 exp sched : LInv (run (init progs clock0 exp) sched) /\ FInv (run (init progs clock0 exp) sched).
Proof.
  induction sched as [|[a c] s IH] using rev_ind; [apply LF_init|]. rewrite run_snoc. destruct IH. apply LF_step; [apply Inv_run | assumption | assumption].
Qed.

(* the lock field of the abstract mutex word counts the holders of the model (mutual exclusion of the abstract mutex) *)
Lemma lock_field_reachable progs clock0 exp sched :
  let w := run (init progs clock0 exp) sched in
  0 <= muw w < 4294967296 /\ muw w mod 2 = sumf hW (thr w) /\ muw w / 256 = sumf hR (thr w) /\
  (sumf hW (thr w) = 0 \/ sumf hR (thr w) = 0).
Proof. cbv zeta. destruct (LF_run progs clock0 exp sched) as ((L1 & L2 & L3 & L4 & _) & _). auto. Qed.

(* ---------- F15: the waiting bit of the mutex word after wake_waiters' release ---------- *)
(* the test nsync_dll_is_empty_ (pmu->waiters) is made in the step of the CAS that takes the mutex spinlock (any world) *)
Lemma release_decided_step w t c k old : (t < length (thr w))%nat -> pcof w t = VCas1 k old -> muw w = old ->
  let w' := fst (step_core w t c) in
  exists k', pcof w' t = VLoad3 k' /\ k_envq k' = env_reports_queued c /\ k_clr k' = clear_on_release (muq w') (k_envq k').
Proof.
  intros Hlt Hpc Hmu. unfold pcof in *. cbv zeta. unfold step_core. rewrite Hpc. unfold st_VCas1, wake_waiters_cas1_old.
  rewrite Hmu, Z.eqb_refl. destruct (xfer _ _ _) as [[moved stay] set_on]. simpl fst. pc_nf. eexists. split; [reflexivity|]. split; reflexivity.
Qed.

(* the release step of wake_waiters in a reachable world *)
Lemma release_step_reachable progs clock0 exp sched :
  let w := run (init progs clock0 exp) sched in
  forall t k old c, pcof w t = VCas2 k old -> muw w = old ->
  let w' := fst (step w (Thr t) c) in
  mspin w = Some t /\ clr_ok k (muq w) /\ word_ok (muw w) /\
  pcof w' t = enter_wake_loop k /\ mspin w' = None /\ muq w' = muq w /\ muw w' = wake_waiters_cas2_new old (k_set k) (k_clr k).
Proof.
  cbv zeta. intros t k old c Hpc Hmu. destruct (LF_run progs clock0 exp sched) as (HL & HF).
  set (w := run (init progs clock0 exp) sched) in *. destruct HL as (L1 & _). destruct HF as (_ & F2 & _).
  unfold pcof in *. destruct (F2 t k) as (Hsp & Hok); [now rewrite Hpc|].
  assert (Hlt : (t < length (thr w))%nat).
  { destruct (le_lt_dec (length (thr w)) t) as [Hoob|]; [|assumption]. rewrite (get_oob w t Hoob) in Hpc. discriminate. }
  assert (Hb : begin_op w t = w) by (unfold begin_op; now rewrite Hpc).
  split; [exact Hsp|]. split; [exact Hok|]. split; [exact L1|].
  simpl step. unfold step_thr. rewrite Hb. unfold step_core. rewrite Hpc. unfold st_VCas2, wake_waiters_cas2_old. rewrite Hmu, Z.eqb_refl. simpl fst.
  rewrite pc_set_pc by (unfold wake_done; destruct (k_wake k); simpl; assumption).
  split; [reflexivity|]. unfold wake_done. destruct (k_wake k); simpl; auto.
Qed.

(* MU_WAITING is set after the release only if a waiter is queued: a transferred one, or a plain locker reported by the environment *)
Lemma waiting_bit_has_a_waiter_reachable progs clock0 exp sched :
  let w := run (init progs clock0 exp) sched in
  forall t k old c, pcof w t = VCas2 k old -> muw w = old ->
  let w' := fst (step w (Thr t) c) in
  has (muw w') MU_WAITING = true -> muq w' <> [] \/ k_envq k = true.
Proof.
  cbv zeta. intros t k old c Hpc Hmu.
  destruct (release_step_reachable progs clock0 exp sched t k old c Hpc Hmu) as (_ & (Hs & Hok) & L1 & _ & _ & Eq & Emu).
  rewrite Eq, Emu. intros Hbit. destruct Hok as [(Hc & _ & _)|(_ & Hq)]; [|exact Hq].
  exfalso. rewrite <- Hmu in Hbit. destruct (cas2_word _ (k_set k) (k_clr k) L1 Hs (or_intror Hc)) as (_ & X & _). rewrite (X Hc) in Hbit. discriminate.
Qed.
(* ... it is taken back when nobody is queued (the repair of F15), and left as it was when somebody is *)
Lemma waiting_bit_exact_reachable progs clock0 exp sched :
  let w := run (init progs clock0 exp) sched in
  forall t k old c, pcof w t = VCas2 k old -> muw w = old ->
  let w' := fst (step w (Thr t) c) in
  (muq w = [] /\ k_envq k = false -> has (muw w') MU_WAITING = false) /\
  (muq w <> [] \/ k_envq k = true -> has (muw w') MU_WAITING = has old MU_WAITING).
Proof.
  cbv zeta. intros t k old c Hpc Hmu.
  destruct (release_step_reachable progs clock0 exp sched t k old c Hpc Hmu) as (_ & (Hs & Hok) & L1 & _ & _ & Eq & Emu).
  rewrite Emu, <- Hmu. split.
  - intros (Hq & He). destruct Hok as [(Hc & _ & _)|(_ & [Hq'|He'])]; [|congruence|congruence].
    destruct (cas2_word _ (k_set k) (k_clr k) L1 Hs (or_intror Hc)) as (_ & X & _). exact (X Hc).
  - intros Hq. destruct Hok as [(_ & Hq' & He')|(Hc & _)]; [destruct Hq; congruence|].
    destruct (cas2_word _ (k_set k) (k_clr k) L1 Hs (or_introl Hc)) as (_ & _ & X). exact (X Hc).
Qed.
(* while a wake_waiters owns the mutex spinlock the bit is set in the word, the owner is between the two CASes, and what it
   will clear was decided against the queue as it still is *)
Lemma mu_spin_section_reachable progs clock0 exp sched :
  let w := run (init progs clock0 exp) sched in
  (forall t, mspin w = Some t -> has (muw w) MU_SPINLOCK = true /\ exists k, rel_pc (pcof w t) = Some k) /\
  (forall t k, rel_pc (pcof w t) = Some k -> mspin w = Some t /\ clr_ok k (muq w)).
Proof. cbv zeta. destruct (LF_run progs clock0 exp sched) as (_ & (F1 & F2 & _)). split; assumption. Qed.
