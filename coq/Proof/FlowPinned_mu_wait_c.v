(* The control structure of mu_wait.c between its atomic sites, regenerated from /repo on this run, is the pinned one. *)
From Coq Require Import String List.
From NsyncGen Require Import Flow.
From NsyncModel Require Import FlowExpected.

Lemma flow_current_mu_wait_c : flow_mu_wait_c = expected_flow_mu_wait_c.
Proof. vm_compute. reflexivity. Qed.
