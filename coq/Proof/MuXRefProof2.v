(* MuXRefProof2: the regression behind finding F15, as theorems.
   [xstep_thr_old] is MuXferModel.xstep_thr with wake_waiters as it was BEFORE commit 0f631a1: its release of the mutex spinlock
   never clears MU_WAITING (clear_on_release = MU_SPINLOCK whatever the queue looks like).  It is defined HERE, not in the
   model: the model follows the repaired code.  [rxstep_old] is MuXRefModel.rxstep over it.
   The F15 schedule (harness/scen/refcount_cv.c: users A, Y, D, T2; Z waits on the cv through nsync_wait_n and owns no
   reference) sets [bad] under the old step and is harmless under the repaired one. *)
From NsyncBase Require Import CSem.
From NsyncGen Require Import Consts Sites.
From NsyncModel Require Import MuModel MuSpec MuXferModel MuXRefModel.
From NsyncProof Require Import MuXferProof2.
From Coq Require Import List ZArith Bool.
Import ListNotations.
Local Open Scope Z_scope.

(* the code before 0f631a1: `uint32_t clear_on_release = MU_SPINLOCK;` and nothing else *)
Definition old_clr (xp : xpc) : xpc :=
  match xp with XvLoad3 k => XvLoad3 (mk_kl (k_wake k) (k_allr k) (k_set k) MU_SPINLOCK) | _ => xp end.
Definition xstep_thr_old (x : xworld) (t : nat) (c : choice) : xworld * xev :=
  let '(x', e) := xstep_thr x t c in
  match x_pc (xget (xbegin x t) t) with
  | XvCas1 _ _ => (set_xpc x' t (old_clr (x_pc (xget x' t))), e)
  | _ => (x', e)
  end.

Definition do_x_old (w : rxworld) (t : nat) (c : choice) : rxworld :=
  mk_rx (fst (xstep_thr_old (xw w) t c)) (refs w) (freed w) (bad w || (freed w && step_touches (xw w) t)) (ph w).
Definition rxstep_thr_old (w : rxworld) (t : nat) (c : choice) : rxworld :=
  match phase_of w t with
  | Pre =>
      if dec_ready (xw w) t then do_dec w t
      else match skip_ready (xw w) t with
           | Some rest => do_ops w t (after_skip rest)
           | None => do_x_old w t c
           end
  | Dec l => if free_ready (xw w) t then do_free w t l else do_x_old w t c
  | Done | NonUser => do_x_old w t c
  end.
Definition rxstep_old (w : rxworld) (a : actor) : rxworld :=
  match a with
  | Thr t c => rxstep_thr_old w t c
  | EnvV p => rxstep w (EnvV p)
  end.
Definition rxrun_old (w : rxworld) (sched : list actor) : rxworld := fold_left rxstep_old sched w.

(* the old step differs from the repaired one only at wake_waiters' acquiring CAS *)
Lemma old_step_elsewhere x t c : (forall k old, x_pc (xget (xbegin x t) t) <> XvCas1 k old) -> xstep_thr_old x t c = xstep_thr x t c.
Proof.
  intros H. unfold xstep_thr_old. destruct (xstep_thr x t c) as [x' e].
  destruct (x_pc (xget (xbegin x t) t)); try reflexivity. now elim (H k old).
Qed.

(* threads: 0 = A, 1 = Y, 2 = D, 3 = T2 (users), 4 = Z (owns no reference) *)
Definition f15r_progs : list (bool * list xop) :=
  [ user [XOp (OLock W); XOp OUnlock; XOp (OLock R); XBroadcast; XOp OUnlock];     (* A *)
    user [XOp (OLock R); XWait R; XOp OUnlock];                                    (* Y *)
    user [];                                                                       (* D *)
    user [];                                                                       (* T2 *)
    nonuser [XWaitN None] ].                                                       (* Z *)
(* Y: rlock, cv wait (parks on the cv).  Z: nsync_wait_n (parks on the cv).  A: lock.  D: lock -> queues behind A, sleeps.
   A: unlock (wakes D: designated waker, D does not run yet); rlock; broadcast: wake_waiters' acquiring CAS sets MU_WAITING,
      transfers nobody (Y is a reader that can acquire, Z's record is not a mutex waiter), wakes Y and Z; runlock; then its
      decrement round (4 -> 3).
   Y: wakes, re-acquires in read mode, runlock; its decrement round (3 -> 2).
   D: wakes, acquires (clearing MU_DESIG_WAKER), decrements (2 -> 1), and unlocks: in the OLD code the stale MU_WAITING sends it
      into nsync_mu_unlock_slow_, where it takes the spinlock and gives the lock bit away EARLY, the queue being empty.
   T2: lock, decrement (1 -> 0, last), unlock, FREE.
   D: its next step reads mu->word in freed memory. *)
Definition f15r_sched : list actor :=
  map go (repeat 1 6 ++ repeat 4 3 ++ [0] ++ repeat 2 8 ++ repeat 0 34 ++ repeat 1 17 ++ repeat 2 9 ++ repeat 3 8 ++ [2])%nat.

(* the old code: use after free *)
Lemma f15_old_bad : bad (rxrun_old (rxinit f15r_progs) f15r_sched) = true.
Proof. vm_compute. reflexivity. Qed.

(* the state just before D's fatal step, under the old code: the object is freed, D is inside nsync_mu_unlock_slow_ at the
   load that follows its early release (UsRelLoad), its wake list is EMPTY -- nobody who owns a reference pins the mutex *)
Lemma f15_old_window :
  let w := rxrun_old (rxinit f15r_progs) (removelast f15r_sched) in
  freed w = true /\ bad w = false /\ refs w = 0 /\ queue (mw (xw w)) = [] /\
  (exists m u, t_pc (get (mw (xw w)) 2%nat) = UsRelLoad m u /\ wake u = []) /\
  step_touches (xw w) 2%nat = true.
Proof.
  cbv zeta. split; [vm_compute; reflexivity|]. split; [vm_compute; reflexivity|]. split; [vm_compute; reflexivity|].
  split; [vm_compute; reflexivity|]. split; [eexists; eexists; split; vm_compute; reflexivity | vm_compute; reflexivity].
Qed.

(* the stale bit: after A's broadcast under the old code the word shows MU_WAITING over an empty queue with the spinlock
   free -- the state C04x_waiting_only_if_queued excludes for the repaired code *)
Lemma f15_old_stale_bit :
  let w := rxrun_old (rxinit f15r_progs) (firstn (6 + 3 + 1 + 8 + 20) f15r_sched) in
  has (word (mw (xw w))) MU_WAITING = true /\ has (word (mw (xw w))) MU_SPINLOCK = false /\ queue (mw (xw w)) = [].
Proof. cbv zeta. split; [vm_compute; reflexivity|]. split; vm_compute; reflexivity. Qed.

(* the SAME schedule under the repaired step: nothing touches the freed object; D's unlock takes the fast path *)
Lemma f15_repaired_ok :
  let w := rxrun (rxinit f15r_progs) f15r_sched in
  bad w = false /\ freed w = true /\ refs w = 0 /\ word (mw (xw w)) = 0 /\ queue (mw (xw w)) = [] /\
  ph w = [Done; Done; Done; Done; NonUser].
Proof.
  cbv zeta. split; [vm_compute; reflexivity|]. split; [vm_compute; reflexivity|]. split; [vm_compute; reflexivity|].
  split; [vm_compute; reflexivity|]. split; vm_compute; reflexivity.
Qed.

Lemma old_code_refuted : exists progs sched,
  Z.of_nat (length progs) < 2 ^ 24 - 1 /\ bad (rxrun_old (rxinit progs) sched) = true.
Proof. exists f15r_progs, f15r_sched. split; [reflexivity | exact f15_old_bad]. Qed.
