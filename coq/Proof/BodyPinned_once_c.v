(* The code of every function of once.c, regenerated from /repo on this run (digest of its AST), is the code the models were validated against. *)
From Coq Require Import String List.
From NsyncGen Require Import Body.
From NsyncModel Require Import BodyExpected.

Lemma body_current_once_c : body_once_c = expected_body_once_c.
Proof. vm_compute. reflexivity. Qed.
