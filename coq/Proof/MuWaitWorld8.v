(* MuWaitWorld8: the plumbing layer HA of MuWaitWorld7 (semaphore accounting, "waiting flag set => on a list",
   waiter fields, own condition false while queueing) is preserved by every step of Model/MuWaitModel.v.

   Part A  pure: the scan only moves waiters between mu->waiters and its private lists ("pool" lemmas); the scan
           does not touch the semaphores.
   Part B  HA as three global clauses + a per-thread clause HL; generic preservation lemmas (HA_intro, HA_local,
           HA_scan).
   Part C  begin_op, the step of a thread, the other actors, reachable worlds. *)
From NsyncBase Require Import CSem.
From NsyncGen Require Import Consts Sites.
From NsyncModel Require Import MuWaitModel MuWaitSpec.
From NsyncProof Require Import WordView MuWaitProof MuWaitRings MuWaitBits MuWaitWorld1 MuWaitWorld2 MuWaitWorld3 MuWaitWorld4
  MuWaitWorld6 MuWaitWorld7.
From Coq Require Import List ZArith Bool Lia PeanoNat.
Import ListNotations.
Local Open Scope Z_scope.

(* hook for debugging copies of this file; fails here *)
Ltac giveup := fail.

(* ================= Part A: the pool of the scan ================= *)
Definition ul (u : uscan) : list nat := (u_done u ++ u_new u) ++ u_wake u.
(* the private lists of a thread at pc p *)
Definition pcl (p : pc) : list nat := ipl (info_of p None).
Definition badc (p : pc) : Prop := p = Crash 5 \/ p = Crash 6.

Lemma ipl_info p mx : ipl (info_of p mx) = pcl p.
Proof. reflexivity. Qed.
Lemma ipl_winfo w y : ipl (winfo w y) = pcl (P w y).
Proof. reflexivity. Qed.
Lemma pcl_sk p k u : sk_of p = Some (k, u) -> pcl p = ul u.
Proof. intros E. unfold pcl, ipl, irl, iwk, info_of; cbn [i_sk i_wk]. rewrite E. reflexivity. Qed.
Lemma pcl_nsk p : sk_of p = None -> pcl p = wk_of p.
Proof. intros E. unfold pcl, ipl, irl, iwk, info_of; cbn [i_sk i_wk]. rewrite E. reflexivity. Qed.
Lemma ul_eq u u' : lists_eq u u' -> ul u' = ul u.
Proof. intros (A & B & C). unfold ul. rewrite A, B, C. reflexivity. Qed.
Lemma lists_eq_refl u : lists_eq u u.
Proof. repeat split. Qed.

Lemma inner_lists w m u0 u rest : lists_eq u0 u ->
  match inner w m u rest with
  | InPc p => p = Crash 5 \/ exists k u', sk_of p = Some (k, u') /\ lists_eq u0 u'
  | InEnd u' => lists_eq u0 u'
  end.
Proof.
  intros (A & B & C). pose proof (inner_spec w m rest u) as S. destruct (inner w m u rest) as [p|u'].
  - destruct S as [(-> & _) | (u' & sk & x & tl & (A1 & B1 & C1 & _) & _ & _ & _ & [(-> & _) | (-> & _)])]; [left; reflexivity | right | right].
    + exists SEval, u'. split; [reflexivity|]. unfold lists_eq. rewrite A1, B1, C1. auto.
    + exists SRm, u'. split; [reflexivity|]. unfold lists_eq. rewrite A1, B1, C1. auto.
  - destruct S as (sk & (A1 & B1 & C1 & _) & _). unfold lists_eq. rewrite A1, B1, C1. auto.
Qed.

Lemma end_inner_lists u0 u : lists_eq u0 u -> lists_eq u0 (end_inner_set u).
Proof.
  intros (A & B & C). destruct (end_inner_set_lists u) as [(A2 & B2 & C2 & _) _]. unfold lists_eq. rewrite A2, B2, C2. auto.
Qed.

Lemma round_end_pool w u :
  queue (fst (round_end w u)) = [] /\ forall x, In x (queue w ++ ul u) -> In x (ul (snd (round_end w u))).
Proof.
  destruct (round_end_fields w u) as (E1 & _ & _ & _ & _ & _ & _ & _ & _ & _ & _ & E7). split; [exact E1|].
  rewrite E7. unfold ul; cbn [u_done u_new u_wake]. intros x. rewrite !in_app_iff. tauto.
Qed.

Lemma sk_not_crash p k u : sk_of p = Some (k, u) -> forall y, p <> Crash y.
Proof. intros E y ->. discriminate E. Qed.

Lemma finalize_pool w m u : u_new u = [] ->
  (forall k, snd (finalize w m u) <> Crash k) /\
  forall x, In x (ul u) -> In x (queue (fst (finalize w m u)) ++ pcl (snd (finalize w m u))).
Proof.
  intros En. split; [intros k; apply finalize_no_crash|]. intros x.
  unfold finalize; cbn [fst snd queue set_queue]. rewrite pcl_nsk by reflexivity. cbn [wk_of wake].
  unfold ul. rewrite En, app_nil_r. auto.
Qed.

Definition pool_ok (q0 : list nat) (l0 : list nat) (w' : world) (p' : pc) : Prop :=
  badc p' \/ ((forall k, p' <> Crash k) /\ forall x, In x (q0 ++ l0) -> In x (queue w' ++ pcl p')).

Lemma scan_from_pool m : forall fuel w u, queue w = [] ->
  pool_ok [] (ul u) (fst (scan_from fuel w m u)) (snd (scan_from fuel w m u)).
Proof.
  unfold pool_ok. induction fuel as [|f IH]; intros w u Hq; cbn [scan_from].
  - left. right. reflexivity.
  - destruct (u_new u) as [|p rest] eqn:En; [right; apply finalize_pool; exact En|].
    destruct (adjust_test w u p).
    + right. cbn [fst snd]. split; [discriminate|]. intros x Hx. rewrite Hq. cbn [app] in *. erewrite pcl_sk by reflexivity.
      unfold ul in *; cbn [u_done u_new u_wake]. rewrite En in Hx. exact Hx.
    + match goal with |- context [inner w m ?u1 ?r] =>
        assert (L1 : lists_eq u u1) by (unfold lists_eq; cbn [u_done u_new u_wake]; rewrite En; auto);
        pose proof (inner_lists w m u u1 r L1) as K; destruct (inner w m u1 r) as [p0|u2] end.
      * cbn [fst snd]. destruct K as [-> | (k & u' & Es & Le)]; [left; left; reflexivity | right].
        split; [exact (sk_not_crash _ _ _ Es)|].
        intros x Hx. rewrite Hq. cbn [app] in *. rewrite (pcl_sk _ _ _ Es), (ul_eq _ _ Le). exact Hx.
      * apply end_inner_lists in K. destruct (round_end_pool w (end_inner_set u2)) as [R1 R2].
        destruct (round_end w (end_inner_set u2)) as [w2 u3]. cbn [fst snd] in *.
        destruct (IH w2 u3 R1) as [B | [B0 B]]; [left; exact B | right]. split; [exact B0|].
        intros x Hx. apply B, R2. apply in_or_app. right. rewrite (ul_eq _ _ K). exact Hx.
Qed.

(* the scan leaves the semaphores alone *)
Lemma round_end_sem w u : sem (fst (round_end w u)) = sem w.
Proof. reflexivity. Qed.
Lemma scan_from_sem m : forall fuel w u, sem (fst (scan_from fuel w m u)) = sem w.
Proof.
  induction fuel as [|f IH]; intros w u; cbn [scan_from]; [reflexivity|].
  destruct (u_new u); [reflexivity|]. destruct (adjust_test w u n); [reflexivity|].
  destruct (inner w m _ _); [reflexivity|].
  pose proof (round_end_sem w (end_inner_set u0)) as E. destruct (round_end w (end_inner_set u0)) as [w2 u3]. cbn [fst] in E.
  rewrite IH. exact E.
Qed.
Lemma after_inner_sem w m r : sem (fst (after_inner w m r)) = sem w.
Proof.
  destruct r; cbn [after_inner]; [reflexivity|]. destruct (u_test (end_inner_set u)); [reflexivity|].
  pose proof (round_end_sem w (end_inner_set u)) as E. destruct (round_end w (end_inner_set u)) as [w2 u3]. cbn [fst] in E.
  rewrite scan_from_sem. exact E.
Qed.

(* what [inner] (or the evaluation step) hands to [after_inner] *)
Definition rok (u0 : uscan) (r : inres) : Prop :=
  match r with
  | InPc p => scanres p /\ fin_of p = None /\ (p = Crash 5 \/ exists k u', sk_of p = Some (k, u') /\ lists_eq u0 u')
  | InEnd u' => lists_eq u0 u'
  end.
Lemma inner_rok w m u0 u rest : lists_eq u0 u -> rok u0 (inner w m u rest).
Proof.
  intros L. pose proof (inner_lists w m u0 u rest L) as A. pose proof (inner_scanres w m rest u) as B.
  unfold rok. destruct (inner w m u rest); [| exact A]. destruct B as [B1 B2]. auto.
Qed.

Lemma after_inner_all w m r u0 : rok u0 r ->
  scanres (snd (after_inner w m r)) /\ sem (fst (after_inner w m r)) = sem w /\
  pool_ok (queue w) (ul u0) (fst (after_inner w m r)) (snd (after_inner w m r)).
Proof.
  intros Hr. split; [|split; [apply after_inner_sem|]].
  { apply after_inner_sres. destruct r; [destruct Hr as (A & B & _); auto | exact I]. }
  unfold pool_ok. destruct r as [p|u]; cbn [after_inner rok] in *.
  - cbn [fst snd]. destruct Hr as (_ & _ & [-> | (k & u' & Es & Le)]); [left; left; reflexivity | right].
    split; [exact (sk_not_crash _ _ _ Es)|].
    intros x Hx. rewrite (pcl_sk _ _ _ Es), (ul_eq _ _ Le). exact Hx.
  - apply end_inner_lists in Hr. destruct (u_test (end_inner_set u)).
    + right. cbn [fst snd]. split; [discriminate|]. intros x Hx. erewrite pcl_sk by reflexivity. rewrite (ul_eq _ _ Hr). exact Hx.
    + destruct (round_end_pool w (end_inner_set u)) as [R1 R2].
      destruct (round_end w (end_inner_set u)) as [w2 u3]. cbn [fst snd] in *.
      destruct (scan_from_pool m 3 w2 u3 R1) as [B | [B0 B]]; [left; exact B | right]. split; [exact B0|].
      intros x Hx. apply B. cbn [app]. apply R2. rewrite (ul_eq _ _ Hr). exact Hx.
Qed.

Lemma scan_from_all m fuel w u : queue w = [] ->
  scanres (snd (scan_from fuel w m u)) /\ sem (fst (scan_from fuel w m u)) = sem w /\
  pool_ok [] (ul u) (fst (scan_from fuel w m u)) (snd (scan_from fuel w m u)).
Proof.
  intros Hq. split; [apply scan_from_sres | split; [apply scan_from_sem | apply scan_from_pool; exact Hq]].
Qed.

Lemma round_scan_all m fuel w u :
  scanres (snd (scan_from fuel (fst (round_end w u)) m (snd (round_end w u)))) /\
  sem (fst (scan_from fuel (fst (round_end w u)) m (snd (round_end w u)))) = sem w /\
  pool_ok (queue w) (ul u) (fst (scan_from fuel (fst (round_end w u)) m (snd (round_end w u))))
                           (snd (scan_from fuel (fst (round_end w u)) m (snd (round_end w u)))).
Proof.
  destruct (round_end_pool w u) as [R1 R2]. pose proof (round_end_sem w u) as R3.
  destruct (round_end w u) as [w2 u3]. cbn [fst snd] in *.
  destruct (scan_from_all m fuel w2 u3 R1) as (A & B & C). split; [exact A|]. split; [rewrite B; exact R3|].
  destruct C as [C | [C0 C]]; [left; exact C | right]. split; [exact C0|]. intros x Hx. apply C. cbn [app]. apply R2. exact Hx.
Qed.

Lemma pool_move (d nw wk : list nat) e x : In x ((d ++ nw) ++ wk) -> In x ((d ++ remove1 e nw) ++ wk ++ [e]).
Proof.
  rewrite !in_app_iff. intros [[A|A]|A]; auto. destruct (Nat.eq_dec x e) as [->|N]; [right; right; left; reflexivity|].
  left; right. apply remove1_in_neq; assumption.
Qed.

Lemma remove_from_fst wc we cl r q e : fst (remove_from wc we cl r q e) = remove1 e q.
Proof.
  unfold remove_from. destruct (remove1 e q) as [|a l]; [reflexivity|]. destruct r as [sp sn].
  destruct (negb (Nat.eqb (sn e) e)); [reflexivity|]. destruct (negb _); reflexivity.
Qed.

(* what the scan returns, for the attributes used by HA *)
Lemma scanres_attr p : scanres p -> (forall k, p <> Crash k) ->
  us_pc p = true /\ psite p = false /\ lsl_of p = None /\ ownf p = false /\
  (forall old, p <> MtStore2 old) /\ (forall old, p <> MtStore3 old) /\ (forall m x u, p <> UsWakeV m x u).
Proof.
  intros H Hc. destruct p; cbn [scanres] in H; try contradiction; try (destruct k; try contradiction);
    try (exfalso; eapply Hc; reflexivity); repeat split; intros; discriminate.
Qed.

(* ================= Part B: generic preservation ================= *)
(* the clauses of HA that speak about one thread only *)
Definition HL (wt : bool) (rc : Z) (ty : mode) (wc : cond) (tr : bool) (s : tstate) : Prop :=
  (mq_of (t_pc s) (mw s) = true -> hv (mw s) = true -> wt = false) /\
  (forall old, t_pc s = MtStore2 old -> wt = false) /\
  (forall y old, t_pc s = MtStore3 old -> mw s = Some y -> wt = true -> rc <> mw_rc y) /\
  (forall m l, lsl_of (t_pc s) = Some (m, l) -> ty = m /\ wc = None) /\
  (forall y, mw s = Some y -> (pe_pc (t_pc s) || mcq (t_pc s)) = true -> ty = mw_mode y) /\
  (ownf (t_pc s) = true -> tr = false).
Definition HLw (w : world) (x : nat) : Prop :=
  HL (waiting w x) (rcount w x) (wtype w x) (wcond w x) (wtrue (wcond w) (pst w) x) (get w x).

Lemma HA_HL w : HA w -> forall x, HLw w x.
Proof.
  intros [A1 A2 A3 A4 A5 A6 A7 A8 A9] x. unfold HLw, HL. split; [|split; [|split; [|split; [|split]]]].
  - intros Hm Hh. unfold hv in Hh. destruct (mw (get w x)) as [y|] eqn:E; [| discriminate Hh].
    apply (A4 x y E Hh). unfold P, MX. rewrite E. exact Hm.
  - intros old E. exact (A5 x old E).
  - intros y old E1 E2 E3. exact (A6 x y old E1 E2 E3).
  - intros m l E. exact (A7 x m l E).
  - intros y E1 E2. exact (A8 x y E1 E2).
  - intros E. exact (A9 x E).
Qed.

Lemma HA_of w :
  (forall x, psite (P w x) = true -> waiting w x = false -> 1 <= sem w x \/ exists t' m u, P w t' = UsWakeV m x u) ->
  (forall x, 0 <= sem w x) ->
  (forall x, mq_of (P w x) (MX w x) = true -> waiting w x = true -> member (queue w) (winfo w) x) ->
  (forall x, HLw w x) -> HA w.
Proof.
  intros B1 B2 B3 B4. constructor; try assumption.
  - intros x y E Hh Hm. destruct (B4 x) as (K & _). apply K; [exact Hm | unfold MX in E; rewrite E; exact Hh].
  - intros x old E. destruct (B4 x) as (_ & K & _). exact (K old E).
  - intros x y old E1 E2 E3. destruct (B4 x) as (_ & _ & K & _). exact (K y old E1 E2 E3).
  - intros x m l E. destruct (B4 x) as (_ & _ & _ & K & _). exact (K m l E).
  - intros x y E1 E2. destruct (B4 x) as (_ & _ & _ & _ & K & _). exact (K y E1 E2).
  - intros x E. destruct (B4 x) as (_ & _ & _ & _ & _ & K). exact (K E).
Qed.

Lemma HL_weaken wt wt' rc rc' ty wc tr tr' s :
  HL wt rc ty wc tr s -> (wt' = wt \/ wt' = false) -> (rc' = rc \/ forall old, t_pc s <> MtStore3 old) ->
  (ownf (t_pc s) = true -> tr' = tr) -> HL wt' rc' ty wc tr' s.
Proof.
  intros (K1 & K2 & K3 & K4 & K5 & K6) Hw Hr Ht. split; [|split; [|split; [|split; [|split]]]].
  - intros A B. destruct Hw as [-> | ->]; [apply K1; assumption | reflexivity].
  - intros old E. destruct Hw as [-> | ->]; [apply (K2 old E) | reflexivity].
  - intros y old E1 E2 E3. destruct Hr as [-> | Hr]; [| destruct (Hr old E1)].
    destruct Hw as [-> | ->]; [apply (K3 y old E1 E2 E3) | discriminate E3].
  - exact K4.
  - exact K5.
  - intros E. rewrite (Ht E). apply K6; exact E.
Qed.

Lemma member_transfer w W t x : (forall y, y <> t -> get W y = get w y) ->
  (In x (queue w ++ pcl (P w t)) -> In x (queue W ++ pcl (P W t))) ->
  member (queue w) (winfo w) x -> member (queue W) (winfo W) x.
Proof.
  intros Ho Hp [A | [y A]].
  - destruct (in_app_or _ _ _ (Hp (in_or_app _ _ _ (or_introl A)))) as [B|B]; [left; exact B | right; exists t; rewrite ipl_winfo; exact B].
  - destruct (Nat.eq_dec y t) as [->|N].
    + rewrite ipl_winfo in A.
      destruct (in_app_or _ _ _ (Hp (in_or_app _ _ _ (or_intror A)))) as [B|B]; [left; exact B | right; exists t; rewrite ipl_winfo; exact B].
    + right. exists y. unfold winfo. rewrite (Ho y N). exact A.
Qed.

Lemma HA_intro w W t s' :
  HA w -> (forall y, y <> t -> get W y = get w y) -> get W t = s' ->
  (forall y, y <> t -> sem w y <= sem W y) -> 0 <= sem W t ->
  (forall m y u, P w t = UsWakeV m y u -> 1 <= sem W y) ->
  (forall y, y <> t -> waiting W y = waiting w y \/ (waiting W y = false /\ exists m u, t_pc s' = UsWakeV m y u)) ->
  (forall y, y <> t -> rcount W y = rcount w y \/ forall old, P w y <> MtStore3 old) ->
  (forall y, y <> t -> wtype W y = wtype w y) -> (forall y, y <> t -> wcond W y = wcond w y) ->
  (pst W = pst w \/ forall y, y <> t -> ownf (P w y) = false) ->
  (forall x, x <> t -> waiting W x = true -> In x (queue w ++ pcl (P w t)) -> In x (queue W ++ pcl (t_pc s'))) ->
  (psite (t_pc s') = true -> waiting W t = false -> 1 <= sem W t) ->
  (mq_of (t_pc s') (mw s') = true -> waiting W t = true -> member (queue W) (winfo W) t) ->
  HL (waiting W t) (rcount W t) (wtype W t) (wcond W t) (wtrue (wcond W) (pst W) t) s' ->
  HA W.
Proof.
  intros H Ho Eg Hso Hst Hwb Hwa Hrc Hty Hwc Hps Hpool Hsself Hmself Hloc.
  pose proof (HA_HL w H) as HLo. destruct H as [A1 A2 A3 _ _ _ _ _ _].
  assert (EP : forall y, y <> t -> P W y = P w y) by (intros y N; unfold P; rewrite (Ho y N); reflexivity).
  assert (EM : forall y, y <> t -> MX W y = MX w y) by (intros y N; unfold MX; rewrite (Ho y N); reflexivity).
  assert (EPt : P W t = t_pc s') by (unfold P; rewrite Eg; reflexivity).
  apply HA_of.
  - intros x Hp Hw. destruct (Nat.eq_dec x t) as [->|N].
    + left. apply Hsself; [rewrite <- EPt; exact Hp | exact Hw].
    + rewrite (EP x N) in Hp. destruct (Hwa x N) as [E | (_ & m & u & E)].
      * rewrite E in Hw. destruct (A1 x Hp Hw) as [S | (t' & m & u & S)].
        -- left. specialize (Hso x N). lia.
        -- destruct (Nat.eq_dec t' t) as [->|N']; [left; exact (Hwb m x u S) | right; exists t', m, u; rewrite (EP t' N'); exact S].
      * right. exists t, m, u. rewrite EPt. exact E.
  - intros x. destruct (Nat.eq_dec x t) as [->|N]; [exact Hst | specialize (Hso x N); specialize (A2 x); lia].
  - intros x Hm Hw. destruct (Nat.eq_dec x t) as [->|N].
    + apply Hmself; [rewrite <- EPt; unfold MX in Hm; rewrite Eg in Hm; exact Hm | exact Hw].
    + rewrite (EP x N), (EM x N) in Hm.
      assert (Hw0 : waiting w x = true) by (destruct (Hwa x N) as [E | (E & _)]; [rewrite <- E; exact Hw | rewrite E in Hw; discriminate Hw]).
      apply (member_transfer w W t x Ho); [rewrite EPt; apply (Hpool x N Hw) | apply A3; assumption].
  - intros x. destruct (Nat.eq_dec x t) as [->|N]; [unfold HLw; rewrite Eg; exact Hloc|].
    unfold HLw. rewrite (Ho x N), (Hty x N), (Hwc x N). apply (HL_weaken _ _ _ _ _ _ _ _ _ (HLo x)).
    + destruct (Hwa x N) as [E | (E & _)]; auto.
    + exact (Hrc x N).
    + intros Eo. destruct Hps as [E | E]; [| specialize (E x N); unfold P in E; rewrite E in Eo; discriminate Eo].
      unfold wtrue. rewrite (Hwc x N), E. reflexivity.
Qed.

(* thread-local steps: the lists, and the fields of the other threads, are untouched *)
Lemma HA_local w W t s' :
  HA w -> (forall y, y <> t -> get W y = get w y) -> get W t = s' ->
  (forall y, y <> t -> sem w y <= sem W y) -> 0 <= sem W t ->
  (forall m y u, P w t = UsWakeV m y u -> 1 <= sem W y) ->
  (forall y, y <> t -> waiting W y = waiting w y) -> (forall y, y <> t -> rcount W y = rcount w y) ->
  (forall y, y <> t -> wtype W y = wtype w y) -> (forall y, y <> t -> wcond W y = wcond w y) -> pst W = pst w ->
  queue W = queue w -> pcl (t_pc s') = pcl (P w t) ->
  (psite (t_pc s') = true -> waiting W t = false -> 1 <= sem W t) ->
  (mq_of (t_pc s') (mw s') = true -> waiting W t = true -> mq_of (P w t) (MX w t) = true /\ waiting w t = true) ->
  HL (waiting W t) (rcount W t) (wtype W t) (wcond W t) (wtrue (wcond W) (pst W) t) s' ->
  HA W.
Proof.
  intros H Ho Eg Hso Hst Hwb Hwa Hrc Hty Hwc Hps Hq Hl Hsself Hmself Hloc.
  apply (HA_intro w W t s' H Ho Eg); try assumption.
  - intros y N. left. exact (Hwa y N).
  - intros y N. left. exact (Hrc y N).
  - left; exact Hps.
  - intros x _ _. rewrite Hq, Hl. auto.
  - intros A B. destruct (Hmself A B) as [C D].
    apply (member_transfer w W t t Ho); [| apply (a_mem w H); assumption].
    unfold P at 2. rewrite Eg, Hq, Hl. auto.
Qed.

(* a step of the scan of nsync_mu_unlock_slow_ *)
Lemma HA_scan w W t s' :
  HA w -> (forall y, y <> t -> get W y = get w y) -> get W t = s' ->
  mw s' = MX w t -> us_pc (P w t) = true -> (forall m y u, P w t <> UsWakeV m y u) ->
  scanres (t_pc s') -> (forall k, t_pc s' <> Crash k) ->
  sem W = sem w -> waiting W = waiting w -> wtype W = wtype w -> wcond W = wcond w -> pst W = pst w ->
  (forall y, y <> t -> rcount W y = rcount w y \/ forall old, P w y <> MtStore3 old) ->
  (forall x, x <> t \/ waiting w t = true -> In x (queue w ++ pcl (P w t)) -> In x (queue W ++ pcl (t_pc s'))) ->
  HA W.
Proof.
  intros H Ho Eg Em Hus Hnv Hsr Hnc Es Ewa Ety Ewc Eps Hrc Hpool.
  destruct (scanres_attr _ Hsr Hnc) as (F1 & F2 & F3 & F4 & F5 & F6 & F7).
  pose proof (HA_HL w H t) as (K1 & K2 & K3 & K4 & K5 & K6).
  assert (Emq : mq_of (t_pc s') (mw s') = mq_of (P w t) (MX w t)).
  { unfold mq_of. rewrite F1, Hus, Em.
    assert (X : forall p, us_pc p = true -> match p with
       | RelLoad (KLs _ _) _ | RelCas (KLs _ _) _ | LsWaitLoad _ _ | LsSemP _ _
       | MwRelLoad | MwRelCas _ _ | MwLoadW1 | MwSemP | MwLoadW2 | MwLoadW3 | MtLoad _ | MtCas1 _ | MtCas2 _
       | MtLoadW _ | MtLoadRc _ | RmLoad (KTry _) | RmCas (KTry _) _ | MtStore3 _ => true | _ => false end = false).
    { intros p. destruct p; cbn; try discriminate; try reflexivity; destruct k; cbn; try discriminate; reflexivity. }
    rewrite (X _ F1), (X _ Hus). reflexivity. }
  apply (HA_intro w W t s' H Ho Eg).
  - intros y _. rewrite Es. lia.
  - rewrite Es. apply (a_sem0 w H).
  - intros m y u E. destruct (Hnv m y u E).
  - intros y _. left. rewrite Ewa. reflexivity.
  - exact Hrc.
  - intros y _. rewrite Ety. reflexivity.
  - intros y _. rewrite Ewc. reflexivity.
  - left; exact Eps.
  - intros x N _. apply Hpool. left; exact N.
  - intros E. rewrite F2 in E. discriminate E.
  - intros A B. rewrite Emq in A. rewrite Ewa in B.
    apply (member_transfer w W t t Ho); [| apply (a_mem w H); assumption].
    unfold P at 2. rewrite Eg. apply Hpool. right; exact B.
  - rewrite Ewa, Ety, Ewc, Eps. split; [|split; [|split; [|split; [|split]]]].
    + rewrite Emq, Em. exact K1.
    + intros old E. destruct (F5 old E).
    + intros y old E. destruct (F6 old E).
    + intros m l E. rewrite F3 in E. discriminate E.
    + intros y E _. rewrite Em in E. apply (K5 y E). unfold pe_pc. fold (P w t). rewrite Hus. reflexivity.
    + intros E. rewrite F4 in E. discriminate E.
Qed.

(* nothing but the semaphores changes, and they only grow *)
Lemma HA_ext w W :
  (forall y, get W y = get w y) -> queue W = queue w -> waiting W = waiting w -> (forall y, sem w y <= sem W y) ->
  wtype W = wtype w -> wcond W = wcond w -> pst W = pst w -> rcount W = rcount w -> HA w -> HA W.
Proof.
  intros Eg Eq Ewa Hs Ety Ewc Eps Erc H. pose proof (HA_HL w H) as HLo. destruct H as [A1 A2 A3 _ _ _ _ _ _].
  assert (EP : forall y, P W y = P w y) by (intros y; unfold P; rewrite Eg; reflexivity).
  assert (EM : forall y, MX W y = MX w y) by (intros y; unfold MX; rewrite Eg; reflexivity).
  assert (EI : forall y, winfo W y = winfo w y) by (intros y; unfold winfo; rewrite Eg; reflexivity).
  apply HA_of.
  - intros x Hp Hw. rewrite EP in Hp. rewrite Ewa in Hw. destruct (A1 x Hp Hw) as [S | (t' & m & u & S)].
    + left. specialize (Hs x). lia.
    + right. exists t', m, u. rewrite EP. exact S.
  - intros x. specialize (Hs x). specialize (A2 x). lia.
  - intros x Hm Hw. rewrite EP, EM in Hm. rewrite Ewa in Hw. rewrite Eq.
    destruct (A3 x Hm Hw) as [A | [y A]]; [left; exact A | right; exists y; rewrite EI; exact A].
  - intros x. unfold HLw. rewrite Eg, Ewa, Erc, Ety, Ewc, Eps. apply HLo.
Qed.

Lemma NC_not_badc W t p' : NC W -> t_pc (get W t) = p' -> badc p' -> False.
Proof. intros H E [B|B]; rewrite B in E; destruct (H t _ E) as [[C|[C|[C|C]]] _]; discriminate C. Qed.
Lemma NC_not_crash7 W t : NC W -> t_pc (get W t) = Crash 7 -> False.
Proof. intros H E. destruct (H t _ E) as [[C|[C|[C|C]]] _]; discriminate C. Qed.

Lemma guard_b2z_true o : nsync_mu_wait_with_deadline_store1_guard o (b2z true) = false.
Proof. unfold nsync_mu_wait_with_deadline_store1_guard. cbn [b2z]. change (znz 1) with true. cbn [negb]. apply andb_false_r. Qed.
Lemma guard_true_res o res : nsync_mu_wait_with_deadline_store1_guard o (b2z res) = true -> res = false.
Proof. destruct res; [rewrite guard_b2z_true; discriminate | reflexivity]. Qed.

Lemma fupd_false_keep (f : nat -> bool) p t : f t = false -> fupd f p false t = false.
Proof. intros E. unfold fupd. destruct (Nat.eqb t p); [reflexivity | exact E]. Qed.

Lemma acq_sem w t m : sem (acquire w t m) = sem w.
Proof. apply (acquire_proj _ sem). reflexivity. Qed.
Lemma ru_sem w t : sem (ret_unlock w t) = sem w.
Proof. apply (ret_unlock_proj _ sem). reflexivity. Qed.

Lemma begin_op_fields2 w t :
  sem (begin_op w t) = sem w /\ wtype (begin_op w t) = wtype w /\ pst (begin_op w t) = pst w.
Proof.
  unfold begin_op. destruct (t_pc (get w t)); try (repeat split; reflexivity).
  destruct (t_ops (get w t)); [repeat split; reflexivity|].
  destruct (match o with OLock m => _ | _ => _ end) as [p x]. repeat split; reflexivity.
Qed.

Section Step8.
Variable n : nat.
Hypothesis Hn : Z.of_nat n < 16777215.

Lemma begin_op_HA w t : Inv n w -> HA w -> HA (begin_op w t).
Proof.
  intros HI H.
  destruct (begin_op_fields w t) as (Eq & _ & Ewc & _ & Ewa & Erc). destruct (begin_op_fields2 w t) as (Es & Ety & Eps).
  destruct (MuWaitWorld6.begin_op_cases w t) as [B | (o & rest & Ep & Eo & B)].
  - apply (HA_ext w); try assumption.
    + intros y. destruct (Nat.eq_dec y t) as [->|N]; [exact B | apply begin_op_get_other; exact N].
    + intros y. rewrite Es. lia.
  - apply (HA_local w _ t _ H (fun y N => begin_op_get_other w t y N) B).
    + intros y _. rewrite Es. lia.
    + rewrite Es. apply (a_sem0 w H).
    + intros m y u E. unfold P in E. rewrite Ep in E. discriminate E.
    + intros y _. rewrite Ewa. reflexivity.
    + intros y _. rewrite Erc. reflexivity.
    + intros y _. rewrite Ety. reflexivity.
    + intros y _. rewrite Ewc. reflexivity.
    + exact Eps.
    + exact Eq.
    + pose proof (begin_op_winfo n w t HI t) as E. apply (f_equal ipl) in E. rewrite !ipl_winfo in E.
      unfold P in E. rewrite B in E. exact E.
    + cbn [t_pc]. destruct o as [m|m| | |f a b|c e d k], (held (get w t)) as [[|]|]; cbn; intros; discriminate.
    + cbn [t_pc mw]. destruct o as [m|m| | |f a b|c e d k], (held (get w t)) as [[|]|]; cbn; intros; discriminate.
    + unfold HL. cbn [t_pc mw].
      destruct o as [m|m| | |f a b|c e d k], (held (get w t)) as [[|]|]; cbn; repeat split; intros; discriminate.
Qed.

Lemma ownf_held w y : Inv n w -> ownf (P w y) = true -> held (get w y) <> None.
Proof.
  intros HI E. pose proof (pc_ok_get n w y HI) as Hok. unfold pc_ok, P in *.
  destruct (t_pc (get w y)); cbn in E; try discriminate E; try (destruct k; try discriminate E);
    unfold in_mw, own in Hok;
    repeat match goal with H : _ /\ _ |- _ => destruct H | H : exists _, _ |- _ => destruct H end; congruence.
Qed.

Lemma inring_not_st3 w e : Inv n w -> L1 w -> HA w -> inring (queue w) (winfo w) e -> forall old, P w e <> MtStore3 old.
Proof.
  intros HI HL H Hr old E. pose proof (pc_ok_get n w e HI) as Hok. unfold pc_ok in Hok. unfold P in E. rewrite E in Hok.
  destruct Hok as ((y & Ey & _) & _).
  destruct (a_m _ _ _ _ _ _ _ HL e (member_of_inring _ _ _ Hr)) as [Wt _].
  assert (Hpe : i_pe (winfo w e) = Some (mw_rc y)) by (unfold winfo, info_of, peb; cbn [i_pe]; rewrite Ey, E; reflexivity).
  pose proof (proj1 (a_i3 _ _ _ _ _ _ _ HL e _ Hpe) Hr) as Erc.
  exact (a_f1 w H e y old E Ey Wt Erc).
Qed.

Lemma HA_scan_finish w w2 w3 t x s2 p' :
  HA w -> TS t w w2 x s2 -> word w3 = word w2 -> thr w3 = thr w2 ->
  (forall y, y <> t -> get (set_pc w3 t p') y = get w y) -> NC (set_pc w3 t p') ->
  mw s2 = MX w t -> us_pc (P w t) = true -> (forall m y u, P w t <> UsWakeV m y u) -> scanres p' ->
  sem w3 = sem w -> waiting w3 = waiting w -> wtype w3 = wtype w -> wcond w3 = wcond w -> pst w3 = pst w ->
  (forall y, y <> t -> rcount w3 y = rcount w y \/ forall old, P w y <> MtStore3 old) ->
  pool_ok (queue w) (pcl (P w t)) w3 p' ->
  HA (set_pc w3 t p').
Proof.
  intros H HT Hw1 Hw2 Ho HN Em Hus Hnv Hsr Es Ewa Ety Ewc Eps Hrc Hpool.
  eassert (HT3 : TS t w (set_pc w3 t p') _ _) by (apply TS_set_pc; eapply TS_eq; [exact HT | exact Hw1 | exact Hw2]).
  pose proof (TS_get _ _ _ _ _ HT3) as Eg.
  destruct Hpool as [B | [B0 B]]; [exfalso; apply (NC_not_badc _ t p' HN); [rewrite Eg; reflexivity | exact B]|].
  apply (HA_scan w _ t _ H Ho Eg); try assumption.
  intros y _ Hy. apply B. exact Hy.
Qed.

(* a thread appends / prepends its own waiter to mu->waiters *)
Lemma HA_enq w W t s' :
  HA w -> (forall y, y <> t -> get W y = get w y) -> get W t = s' ->
  sem W = sem w -> (forall y, y <> t -> waiting W y = waiting w y) -> rcount W = rcount w ->
  (forall y, y <> t -> wtype W y = wtype w y) -> (forall y, y <> t -> wcond W y = wcond w y) -> pst W = pst w ->
  (forall m y u, P w t <> UsWakeV m y u) -> pcl (P w t) = [] -> pcl (t_pc s') = [] ->
  (forall x, In x (queue w) -> In x (queue W)) -> In t (queue W) -> psite (t_pc s') = false ->
  HL (waiting W t) (rcount W t) (wtype W t) (wcond W t) (wtrue (wcond W) (pst W) t) s' ->
  HA W.
Proof.
  intros H Ho Eg Es Hwa Erc Hty Hwc Eps Hnv Lp0 Lp1 Hq Ht Hps Hloc.
  apply (HA_intro w W t s' H Ho Eg); try assumption.
  - intros y _. rewrite Es. lia.
  - rewrite Es. apply (a_sem0 w H).
  - intros m y u E. destruct (Hnv m y u E).
  - intros y N. left. exact (Hwa y N).
  - intros y _. left. rewrite Erc. reflexivity.
  - left; exact Eps.
  - intros x _ _. rewrite Lp0, Lp1, !app_nil_r. apply Hq.
  - intros E. rewrite Hps in E. discriminate E.
  - intros _ _. left. exact Ht.
Qed.

(* ----- tactics for the pass over the pcs ----- *)
Ltac cas_split w :=
  unfold cas;
  match goal with |- context [word w =? ?e] => destruct (Z.eqb_spec (word w) e) as [Hcas|Hcas] end;
  cbv beta iota; cbn [fst snd].
Ltac mwsome Hok mx :=
  unfold try_frozen, mt_pre, in_mw in Hok; cbn [mw] in Hok;
  let x := fresh "x" in let Hx := fresh "Hx" in
  first [ destruct Hok as ((x & Hx & _) & _) | destruct Hok as (x & Hx & _) ]; subst mx.
Ltac fldr8 :=
  rewrite ?acq_queue, ?acq_wcond, ?acq_waiting, ?acq_rcount, ?acq_wtype, ?acq_pst, ?acq_sem,
          ?ru_queue, ?ru_wcond, ?ru_waiting, ?ru_rcount, ?ru_wtype, ?ru_pst, ?ru_sem.
Ltac wfld :=
  fldr8;
  cbn [queue waiting sem wtype wcond pst rcount set_pc set_t set_thr set_winfo set_waiting set_queue set_rings set_rcount set_sem
       set_word set_own set_held set_spin set_mw upd_mw released mw_return add_ev log_eval set_pst w_merge].
Ltac norm Hs :=
  unfold P, MX, get; rewrite ?Hs; unfold mw_of;
  cbn [t_pc t_ops held conv spin mw last_ret mw_rc mw_mode mw_cond mw_eq mw_dl mw_canc mw_first mw_hadw mw_semout mw_have mw_outcome mw_tmo mw_ent].
Ltac oth Ny := intros ? Ny; wfld; rewrite ?fupd_neq by exact Ny; first [reflexivity | apply Z.le_refl].

(* the six clauses of HL for the new state of the stepping thread; K1..K6 are the clauses of the old state *)
Ltac hl_solve w t HA0 Hs K1 K2 K3 K4 K5 K6 :=
  unfold HL; norm Hs;
  split; [|split; [|split; [|split; [|split]]]];
  [ let A := fresh "A" in let B := fresh "B" in
    intros A B; cbn in A, B;
    first [ discriminate A | discriminate B
          | (wfld; first [ apply fupd_eq | (apply K1; [reflexivity | exact B]) | (eapply K2; reflexivity) | congruence
                         | (exfalso; let X := fresh "X" in pose proof (K1 eq_refl B) as X; discriminate X) | giveup ]) ]
  | let E := fresh "E" in
    intros ? E; first [ discriminate E | (wfld; first [apply fupd_eq | giveup]) ]
  | let E1 := fresh "E1" in let E2 := fresh "E2" in let E3 := fresh "E3" in
    intros ? ? E1 E2 E3; first [ discriminate E1 | (revert E3; wfld; intros E3; first [congruence | giveup]) ]
  | let E := fresh "E" in
    intros ? ? E; cbn in E;
    first [ discriminate E
          | (injection E as <- <-; wfld; first [ (eapply K4; reflexivity) | (split; apply fupd_eq) | giveup ]) ]
  | let E1 := fresh "E1" in let E2 := fresh "E2" in
    intros ? E1 E2; cbn in E2;
    first [ discriminate E1 | discriminate E2
          | (injection E1 as <-; cbn [mw_mode]; wfld; first [ apply fupd_eq | (eapply K5; reflexivity) | giveup ]) ]
  | let E := fresh "E" in
    intros E; cbn in E;
    first [ discriminate E
          | (wfld; first [ (apply K6; reflexivity)
                         | (unfold wtrue; rewrite fupd_eq; repeat match goal with Ec : mw_cond _ = _ |- _ => rewrite Ec end; assumption)
                         | giveup ]) ] ].

Ltac psite_solve w t Hs :=
  let A := fresh "A" in let B := fresh "B" in
  norm Hs; intros A B; cbn in A; first [ discriminate A | (revert B; wfld; intros B; congruence) | giveup ].
Ltac mq_solve w t Hs K2 :=
  let A := fresh "A" in let B := fresh "B" in
  norm Hs; intros A B; cbn in A;
  first [ discriminate A
        | (revert B; wfld; intros B; split; [reflexivity | exact B])
        | (exfalso; revert B; wfld; erewrite K2 by reflexivity; discriminate)
        | giveup ].
Ltac pcl_solve Hs :=
  norm Hs; unfold pcl, ipl, irl, iwk, info_of; cbn [i_sk i_wk sk_of wk_of app];
  first [ reflexivity | (symmetry; assumption) | assumption | giveup ].

Ltac boring8 w t HA0 Hs Hlen Ht K1 K2 K3 K4 K5 K6 :=
  try (match goal with mx : option mwl |- _ => destruct mx end);
  let HI' := fresh "HI'" in let Hoth := fresh "Hoth" in let HN' := fresh "HN'" in
  intros HI' Hoth HN'; cbn [fst] in *;
  lazymatch goal with |- HA ?W =>
    let HT := fresh "HT" in
    eassert (HT : TS t w W _ _) by (ts_solve; rewrite Hlen; exact Ht);
    eapply (HA_local w W t _ HA0 Hoth (TS_get _ _ _ _ _ HT));
    [ let Ny := fresh "Ny" in oth Ny
    | wfld; first [ apply (a_sem0 w HA0) | (rewrite fupd_eq; lia) | giveup ]
    | norm Hs; first [ (intros ? ? ? E; discriminate E) | giveup ]
    | let Ny := fresh "Ny" in oth Ny
    | let Ny := fresh "Ny" in oth Ny
    | let Ny := fresh "Ny" in oth Ny
    | let Ny := fresh "Ny" in oth Ny
    | wfld; first [reflexivity | giveup]
    | wfld; first [reflexivity | giveup]
    | pcl_solve Hs
    | psite_solve w t Hs
    | mq_solve w t Hs K2
    | hl_solve w t HA0 Hs K1 K2 K3 K4 K5 K6 ]
  end.
Ltac B8 :=
  match goal with
  | HA0 : HA ?w, Hlen : length (thr ?w) = _, Ht : (?t < _)%nat, Hs : nth ?t (thr ?w) dflt_t = _,
    K1 : mq_of _ _ = true -> _, K2 : forall old, _ = MtStore2 old -> _, K3 : forall y old, _ = MtStore3 old -> _,
    K4 : forall m l, lsl_of _ = Some (m, l) -> _, K5 : forall y, _ = Some y -> _, K6 : ownf _ = true -> _ |- _ =>
      boring8 w t HA0 Hs Hlen Ht K1 K2 K3 K4 K5 K6
  end.
Ltac noop8 := cbn [fst]; intros _ _ _; assumption.

Ltac HL8 :=
  match goal with
  | HA0 : HA ?w, Ht : (?t < _)%nat, Hs : nth ?t (thr ?w) dflt_t = _,
    K1 : mq_of _ _ = true -> _, K2 : forall old, _ = MtStore2 old -> _, K3 : forall y old, _ = MtStore3 old -> _,
    K4 : forall m l, lsl_of _ = Some (m, l) -> _, K5 : forall y, _ = Some y -> _, K6 : ownf _ = true -> _ |- _ =>
      hl_solve w t HA0 Hs K1 K2 K3 K4 K5 K6
  end.
Ltac mkHT w t Hlen Ht :=
  match goal with |- HA ?W => let HT := fresh "HT" in eassert (HT : TS t w W _ _) by (ts_solve; rewrite Hlen; exact Ht) end.
Ltac crash7 w t Hlen Ht :=
  let HI' := fresh "HI'" in let Hoth := fresh "Hoth" in let HN' := fresh "HN'" in
  intros HI' Hoth HN'; exfalso; cbn [fst] in HN';
  match type of HN' with NC ?W =>
    let HT := fresh "HT" in
    eassert (HT : TS t w W _ _) by (ts_solve; rewrite Hlen; exact Ht);
    apply (NC_not_crash7 _ t HN'); rewrite (TS_get _ _ _ _ _ HT); reflexivity
  end.

Lemma HA_step_thr w0 t c : Inv n w0 -> frozen_word w0 -> L1 w0 -> U1 w0 -> L2 w0 -> NC w0 -> HA w0 ->
  HA (fst (step_thr w0 t c)).
Proof.
  intros H0 HFr HL1 HU H2 HN HA0.
  pose proof (step_thr_ok n Hn w0 t c H0) as (HI' & _ & _ & Hoth).
  pose proof (NC_step_thr n Hn w0 t c H0 HL1 HU H2 HN) as HN'.
  apply (begin_op_HA _ t H0) in HA0. apply (begin_op_L1 n _ t H0) in HL1. apply (begin_op_inv n w0 t) in H0.
  clear HFr HU H2 HN.
  revert HI' Hoth HN'. unfold step_thr. set (w := begin_op w0 t) in *. clearbody w. clear w0. cbv zeta.
  destruct (Nat.lt_ge_cases t n) as [Ht|Ht].
  2:{ assert (Eg : get w t = dflt_t) by (apply get_oob'; destruct H0 as (-> & _); exact Ht).
      rewrite Eg. cbn. intros; assumption. }
  pose proof H0 as (Hlen & _ & Hok). specialize (Hok t).
  pose proof (HA_HL w HA0 t) as HLt. unfold HLw, HL in HLt.
  destruct (get w t) as [p ops h cv sp mx lr] eqn:Hs. unfold get in Hs. rewrite Hs in Hok.
  unfold pc_ok in Hok. cbn [t_pc t_ops held conv spin mw last_ret] in *.
  destruct HLt as (K1 & K2 & K3 & K4 & K5 & K6).
  destruct p.
  - (* Idle *) noop8.
  - (* LkFast *) destruct Hok as (Ho & ->). cas_split w; B8.
  - (* LkLoad *) destruct Hok as (Ho & ->). destruct (fast_guard2 m (word w)) eqn:G; B8.
  - (* LkCas2 *) destruct Hok as (Ho & -> & G). cas_split w; B8.
  - (* TryFast *) destruct Hok as (Ho & ->). cas_split w; B8.
  - (* TryLoad *) destruct Hok as (Ho & ->). destruct (try_guard2 m (word w)) eqn:G; B8.
  - (* TryCas2 *) destruct Hok as (Ho & -> & G). cas_split w; B8.
  - (* LsLoad *) destruct (nsync_mu_lock_slow_cas1_guard (word w) (zta l)) eqn:G1; [B8|].
    destruct (nsync_mu_lock_slow_cas2_guard (word w) (zta l)) eqn:G2; [B8 | noop8].
  - (* LsCasAcq *) cas_split w; destruct mx; B8.
  - (* LsCasEnq *) cas_split w; B8.
  - (* LsStoreWaiting *) destruct Hok as (Ho & Hm & _).
    assert (Hhv : hv mx = false) by (destruct mx as [x0|]; [exact (proj2 (Hm x0 eq_refl)) | reflexivity]).
    intros HI' Hoth HN'. cbn [fst] in *. mkHT w t Hlen Ht.
    eapply (HA_enq w _ t _ HA0 Hoth (TS_get _ _ _ _ _ HT));
      [ reflexivity | (intros y Ny; wfld; apply fupd_neq; exact Ny) | reflexivity | reflexivity | reflexivity | reflexivity
      | norm Hs; intros; discriminate | norm Hs; reflexivity | norm Hs; reflexivity
      | intros x Hx; wfld; destruct (wcount l =? 0); [apply in_or_app; left; exact Hx | right; exact Hx]
      | wfld; destruct (wcount l =? 0); [apply in_or_app; right; left; reflexivity | left; reflexivity]
      | norm Hs; reflexivity
      | destruct mx; cbn [hv] in Hhv; HL8 ].
  - (* LsWaitLoad *) destruct (waiting w t) eqn:Ew; B8.
  - (* LsSemP *) destruct (Z.ltb_spec 0 (sem w t)); [B8 | noop8].
  - (* RelLoad *) destruct k; try contradiction; B8.
  - (* RelCas *) destruct k; try contradiction.
    + cas_split w; B8.
    + cas_split w; [| B8]. intros HI' Hoth HN'.
      match goal with |- context [after_inner ?w2 m ?r] =>
        pose proof (after_inner_all w2 m r u (inner_rok w2 m u u (u_rest u) (lists_eq_refl u))) as (Hsr & Hsem & Hpool);
        pose proof (after_inner_wt w2 m r) as [Hw1 Hw2];
        destruct (after_inner_fields w2 m r) as (F1 & F2 & F3 & F4 & _ & F6);
        destruct (after_inner w2 m r) as [w3 p'] eqn:Ea; cbn [fst snd] in *;
        eassert (HT : TS t w w2 _ _) by (ts_solve; rewrite Hlen; exact Ht)
      end.
      apply (HA_scan_finish w _ w3 t _ _ p' HA0 HT Hw1 Hw2 Hoth HN');
        [ norm Hs; reflexivity | norm Hs; reflexivity | norm Hs; intros; discriminate | exact Hsr | rewrite Hsem; reflexivity
        | rewrite F4; reflexivity | rewrite F2; reflexivity | rewrite F1; reflexivity | rewrite F6; reflexivity
        | intros y _; left; rewrite F3; reflexivity
        | norm Hs; erewrite pcl_sk by reflexivity; exact Hpool ].
  - (* SpinLoad *) destruct k; try contradiction; destruct (nsync_spin_test_and_set_cas1_guard (word w) MU_SPINLOCK) eqn:G; B8.
  - (* SpinCas *) destruct k; try contradiction.
    + unfold spin_set. cbv beta iota. cas_split w; [| B8]. intros HI' Hoth HN'.
      match goal with |- context [round_end ?w2 u] =>
        eassert (HT : TS t w w2 _ _) by (ts_solve; rewrite Hlen; exact Ht);
        pose proof (round_scan_all m 3 w2 u) as (Hsr & Hsem & Hpool);
        destruct (round_end_fields w2 u) as (_ & _ & R3 & _ & R5 & R6 & R7 & _ & R9 & R10 & R11 & _);
        destruct (round_end w2 u) as [w3 u3] eqn:Ere; cbn [fst snd] in *
      end.
      pose proof (scan_from_wt m 3 w3 u3) as [Hw1 Hw2]. destruct (scan_from_fields m 3 w3 u3) as (F1 & F2 & F3 & F4 & _ & F6).
      destruct (scan_from 3 w3 m u3) as [w4 p'] eqn:Esf. cbn [fst snd] in *.
      rewrite R10 in Hw1. rewrite R11 in Hw2.
      apply (HA_scan_finish w _ w4 t _ _ p' HA0 HT Hw1 Hw2 Hoth HN');
        [ norm Hs; reflexivity | norm Hs; reflexivity | norm Hs; intros; discriminate | exact Hsr | rewrite Hsem; reflexivity
        | rewrite F4, R5; reflexivity | rewrite F2, R7; reflexivity | rewrite F1, R3; reflexivity | rewrite F6, R9; reflexivity
        | intros y _; left; rewrite F3, R6; reflexivity
        | norm Hs; erewrite pcl_sk by reflexivity; exact Hpool ].
    + unfold spin_set. cbv beta iota. cas_split w; [| mwsome Hok mx; B8].
      unfold in_mw in Hok; cbn [mw] in Hok. destruct Hok as ((x & Hx & (Ho & Eh)) & G). subst mx.
      match goal with |- context [mw_first (get_mw ?ww t)] =>
        assert (get_mw ww t = x) as Eg by (erewrite (TS_get_mw t w); [| ts_solve; rewrite Hlen; exact Ht]; unfold get; rewrite Hs; reflexivity);
        rewrite Eg end.
      destruct (mw_first x); intros HI' Hoth HN'; cbn [fst] in *; mkHT w t Hlen Ht;
      (eapply (HA_enq w _ t _ HA0 Hoth (TS_get _ _ _ _ _ HT));
        [ reflexivity | (intros y Ny; reflexivity) | reflexivity | reflexivity | reflexivity | reflexivity
        | norm Hs; intros; discriminate | norm Hs; reflexivity | norm Hs; reflexivity
        | intros y Hy; wfld; first [apply in_or_app; left; exact Hy | right; exact Hy]
        | wfld; first [apply in_or_app; right; left; reflexivity | left; reflexivity]
        | norm Hs; reflexivity
        | HL8 ]).
  - (* RmLoad *) destruct k; try contradiction; B8.
  - (* RmCas *) destruct k; try contradiction.
    + destruct (Z.eqb_spec (rcount w (List.hd t (u_rest u))) oldv) as [Erc|Erc]; [| B8].
      assert (Ew : winfo w t = sinfo mx SRm u) by (rewrite (winfo_scan w t SRm u); unfold get; rewrite Hs; reflexivity).
      destruct (a_r2 _ _ _ _ _ _ _ HL1 t SRm u) as (_ & _ & [pre Hsuf] & (Hne & _)); [rewrite Ew; reflexivity|].
      destruct (u_rest u) as [|e tl0] eqn:Er; [congruence|]. cbn [List.hd List.tl] in *.
      assert (Hring : inring (queue w) (winfo w) e).
      { right. exists t. rewrite Ew. unfold irl, sinfo; cbn [i_sk]. apply in_or_app. right. rewrite Hsuf. apply in_elt. }
      destruct (remove_from _ _ _ _ (u_new u) e) as [nl rg] eqn:Erm.
      pose proof (f_equal fst Erm) as Enl. rewrite remove_from_fst in Enl. cbn [fst] in Enl.
      intros HI' Hoth HN'.
      match goal with |- context [after_inner ?w2 m (inner ?w2 m ?u' tl0)] =>
        pose proof (after_inner_all w2 m _ u' (inner_rok w2 m u' u' tl0 (lists_eq_refl u'))) as (Hsr & Hsem & Hpool);
        pose proof (after_inner_wt w2 m (inner w2 m u' tl0)) as [Hw1 Hw2];
        destruct (after_inner_fields w2 m (inner w2 m u' tl0)) as (F1 & F2 & F3 & F4 & _ & F6);
        destruct (after_inner w2 m (inner w2 m u' tl0)) as [w3 p'] eqn:Ea; cbn [fst snd] in *;
        eassert (HT : TS t w w2 _ _) by (ts_solve; rewrite Hlen; exact Ht)
      end.
      apply (HA_scan_finish w _ w3 t _ _ p' HA0 HT Hw1 Hw2 Hoth HN');
        [ norm Hs; reflexivity | norm Hs; reflexivity | norm Hs; intros; discriminate | exact Hsr | rewrite Hsem; reflexivity
        | rewrite F4; reflexivity | rewrite F2; reflexivity | rewrite F1; reflexivity | rewrite F6; reflexivity
        | | ].
      * intros y _. rewrite F3. cbn [rcount set_rings set_rcount]. destruct (Nat.eq_dec y e) as [->|Ne];
          [right; exact (inring_not_st3 w e H0 HL1 HA0 Hring) | left; apply fupd_neq; exact Ne].
      * norm Hs. erewrite pcl_sk by reflexivity.
        destruct Hpool as [B | [B0 B]]; [left; exact B | right; split; [exact B0|]].
        intros x Hx. apply B. apply in_app_or in Hx. apply in_or_app. destruct Hx as [A|A]; [left; exact A | right].
        unfold ul in *. cbn [u_done u_new u_wake]. rewrite <- Enl. apply pool_move. exact A.
    + destruct (Z.eqb_spec (rcount w t) oldv) as [Erc|Erc]; [| B8].
      destruct (remove_from _ _ _ _ (queue _) t) as [nl rg] eqn:Erm.
      pose proof (f_equal fst Erm) as Enl. rewrite remove_from_fst in Enl. cbn [fst queue set_rcount] in Enl.
      mwsome Hok mx. intros HI' Hoth HN'. cbn [fst] in *. mkHT w t Hlen Ht.
      eapply (HA_intro w _ t _ HA0 Hoth (TS_get _ _ _ _ _ HT));
        [ (intros y Ny; wfld; apply Z.le_refl) | (wfld; apply (a_sem0 w HA0)) | (norm Hs; intros ? ? ? E; discriminate E)
        | (intros y Ny; left; reflexivity) | (intros y Ny; left; wfld; apply fupd_neq; exact Ny)
        | (intros y Ny; reflexivity) | (intros y Ny; reflexivity) | (left; reflexivity)
        | | (norm Hs; intros A; discriminate A) | (norm Hs; intros A; discriminate A) | HL8 ].
      intros y Ny _. norm Hs. rewrite !pcl_nsk by reflexivity. cbn [wk_of]. rewrite !app_nil_r. wfld. rewrite <- Enl.
      apply remove1_in_neq; exact Ny.
  - (* UlFast *) destruct Hok as (Ho & ->). cas_split w; B8.
  - (* UlLoad *) destruct Hok as (Ho & ->). destruct (unlock_try_cas2 m (word w)); [| destruct (unlock_bad m (word w))]; B8.
  - (* UlCas2 *) destruct Hok as (Ho & ->). cas_split w; B8.
  - (* UwFast *) destruct Hok as (Ho & ->). cas_split w; B8.
  - (* UwLoad *) destruct Hok as (Ho & ->). destruct (nsync_mu_unlock_without_wakeup_cas2_guard (word w)); [| destruct (uw_bad (word w))]; B8.
  - (* UwCas2 *) destruct Hok as (Ho & ->). cas_split w; B8.
  - (* UsLoad *) destruct (nsync_mu_unlock_slow_cas1_guard (word w)); [B8|].
    destruct (nsync_mu_unlock_slow_cas2_guard (word w)) eqn:G2; [B8 | noop8].
  - (* UsCasRel *) cas_split w; destruct mx; B8.
  - (* UsCasSpin *) cas_split w; [| B8].
    destruct (has old MU_CONDITION) eqn:Etest; intros HI' Hoth HN';
    (match goal with |- context [scan_from 3 (set_queue ?w2 []) m ?u] =>
      eassert (HT : TS t w (set_queue w2 []) _ _) by (ts_solve; rewrite Hlen; exact Ht);
      pose proof (scan_from_all m 3 (set_queue w2 []) u eq_refl) as (Hsr & Hsem & Hpool);
      pose proof (scan_from_wt m 3 (set_queue w2 []) u) as [Hw1 Hw2];
      destruct (scan_from_fields m 3 (set_queue w2 []) u) as (F1 & F2 & F3 & F4 & _ & F6);
      destruct (scan_from 3 (set_queue w2 []) m u) as [w4 p'] eqn:Esf; cbn [fst snd] in *
    end);
    (apply (HA_scan_finish w _ w4 t _ _ p' HA0 HT Hw1 Hw2 Hoth HN');
      [ norm Hs; reflexivity | norm Hs; reflexivity | norm Hs; intros; discriminate | exact Hsr | rewrite Hsem; reflexivity
      | rewrite F4; reflexivity | rewrite F2; reflexivity | rewrite F1; reflexivity | rewrite F6; reflexivity
      | intros y _; left; rewrite F3; reflexivity
      | norm Hs; rewrite pcl_nsk by reflexivity; cbn [wk_of];
        destruct Hpool as [B | [B0 B]]; [left; exact B | right; split; [exact B0|]];
        intros x Hx; apply B; cbn [app]; rewrite app_nil_r in Hx; unfold ul; cbn [u_done u_new u_wake app]; rewrite app_nil_r; exact Hx ]).
  - (* UsEval *)
    destruct (u_rest u) as [|p tl0] eqn:Er; [crash7 w t Hlen Ht|]. destruct (wcond w p) as [[f a]|] eqn:Ec; [| crash7 w t Hlen Ht].
    intros HI' Hoth HN'.
    match goal with |- context [after_inner ?w2 m ?r] =>
      assert (Hr : rok u r) by
        (destruct (pst w f a);
         [ match goal with |- context [wakeable ?ww u p] => destruct (wakeable ww u p) end;
           [ cbn [rok scanres fin_of]; split; [exact I | split; [reflexivity | right; exists SRm, u; split; [reflexivity | apply lists_eq_refl]]]
           | apply inner_rok; repeat split ]
         | apply inner_rok; apply lists_eq_refl ]);
      pose proof (after_inner_all w2 m r u Hr) as (Hsr & Hsem & Hpool);
      pose proof (after_inner_wt w2 m r) as [Hw1 Hw2];
      destruct (after_inner_fields w2 m r) as (F1 & F2 & F3 & F4 & _ & F6);
      destruct (after_inner w2 m r) as [w3 p'] eqn:Ea; cbn [fst snd] in *;
      eassert (HT : TS t w w2 _ _) by (ts_solve; rewrite Hlen; exact Ht)
    end.
    apply (HA_scan_finish w _ w3 t _ _ p' HA0 HT Hw1 Hw2 Hoth HN');
      [ norm Hs; reflexivity | norm Hs; reflexivity | norm Hs; intros; discriminate | exact Hsr | rewrite Hsem; reflexivity
      | rewrite F4; reflexivity | rewrite F2; reflexivity | rewrite F1; reflexivity | rewrite F6; reflexivity
      | intros y _; left; rewrite F3; reflexivity
      | norm Hs; erewrite pcl_sk by reflexivity; exact Hpool ].
  - (* UsRelLoad *) B8.
  - (* UsRelCas *) cas_split w; [destruct (wake u) eqn:Ewk; destruct mx; B8 | B8].
  - (* UsWakeStore *) destruct (wake u) as [|q rest] eqn:Ewk; [destruct mx; B8 |].
    intros HI' Hoth HN'. cbn [fst] in *. mkHT w t Hlen Ht.
    assert (Hpl : forall x, x <> q -> In x (queue w ++ q :: rest) -> In x (queue w ++ rest)).
    { intros x Nx Hx. apply in_app_or in Hx. apply in_or_app. destruct Hx as [A | [A | A]]; [left; exact A | congruence | right; exact A]. }
    eapply (HA_intro w _ t _ HA0 Hoth (TS_get _ _ _ _ _ HT));
      [ (intros y Ny; wfld; apply Z.le_refl) | (wfld; apply (a_sem0 w HA0)) | (norm Hs; intros ? ? ? E; discriminate E)
      | | (intros y Ny; left; reflexivity) | (intros y Ny; reflexivity) | (intros y Ny; reflexivity) | (left; reflexivity)
      | | (norm Hs; intros A; discriminate A) | | ].
    + intros y Ny. wfld. destruct (Nat.eq_dec y q) as [->|Nq];
        [right; split; [apply fupd_eq | norm Hs; eexists _, _; reflexivity] | left; apply fupd_neq; exact Nq].
    + intros x Nx Hw. revert Hw. norm Hs. wfld. rewrite !pcl_nsk by reflexivity. cbn [wk_of wake]. rewrite Ewk. intros Hw.
      apply Hpl. intros ->. rewrite fupd_eq in Hw. discriminate Hw.
    + norm Hs. wfld. intros A B.
      assert (Nq : t <> q) by (intros ->; rewrite fupd_eq in B; discriminate B).
      rewrite fupd_neq in B by exact Nq.
      apply (member_transfer w _ t t Hoth).
      * unfold P at 2. rewrite (TS_get _ _ _ _ _ HT). norm Hs. wfld. rewrite !pcl_nsk by reflexivity. cbn [wk_of wake]. rewrite Ewk.
        apply Hpl; exact Nq.
      * apply (a_mem w HA0); [norm Hs; exact A | exact B].
    + assert (K1' : mq_of (UsWakeStore m u) mx = true -> hv mx = true -> fupd (waiting w) q false t = false)
        by (intros A B; apply fupd_false_keep; exact (K1 A B)).
      clear K1. rename K1' into K1. unfold HL. norm Hs. wfld.
      split; [|split; [|split; [|split; [|split]]]].
      * exact K1.
      * intros ? E; discriminate E.
      * intros ? ? E; discriminate E.
      * intros ? ? E; discriminate E.
      * intros y E _. apply (K5 y E). reflexivity.
      * intros E; discriminate E.
  - (* UsWakeV *)
    match goal with |- context [set_sem w ?p0 _] => rename p0 into q0 end.
    pose proof (a_sem0 w HA0 q0) as Hq0. pose proof (a_sem0 w HA0 t) as Ht0.
    destruct (wake u) as [|q rest] eqn:Ewk; destruct mx;
    (intros HI' Hoth HN'; cbn [fst] in *; mkHT w t Hlen Ht;
     eapply (HA_local w _ t _ HA0 Hoth (TS_get _ _ _ _ _ HT));
     [ (intros y Ny; wfld; destruct (Nat.eq_dec y q0) as [->|Nq]; [rewrite fupd_eq; lia | rewrite fupd_neq by exact Nq; lia])
     | (wfld; destruct (Nat.eq_dec t q0) as [E|Nq]; [rewrite E, fupd_eq; lia | rewrite fupd_neq by exact Nq; lia])
     | (norm Hs; intros ? ? ? E; injection E as _ <- _; wfld; rewrite fupd_eq; lia)
     | (intros y Ny; wfld; reflexivity) | (intros y Ny; wfld; reflexivity) | (intros y Ny; wfld; reflexivity) | (intros y Ny; wfld; reflexivity)
     | (wfld; reflexivity) | (wfld; reflexivity)
     | pcl_solve Hs | psite_solve w t Hs
     | match goal with K2 : forall old, _ = MtStore2 old -> _ |- _ => mq_solve w t Hs K2 end
     | HL8 ]).
  - (* SetC *) destruct Hok as (Ho & ->). intros HI' Hoth HN'. cbn [fst] in *. mkHT w t Hlen Ht.
    eapply (HA_intro w _ t _ HA0 Hoth (TS_get _ _ _ _ _ HT));
      [ (intros y Ny; wfld; apply Z.le_refl) | (wfld; apply (a_sem0 w HA0)) | (norm Hs; intros ? ? ? E; discriminate E)
      | (intros y Ny; left; reflexivity) | (intros y Ny; left; reflexivity) | (intros y Ny; reflexivity) | (intros y Ny; reflexivity)
      | | (intros x _ _; norm Hs; intros Hx; exact Hx) | (norm Hs; intros A; discriminate A) | (norm Hs; intros A; discriminate A) | HL8 ].
    right. intros y Ny. destruct (ownf (P w y)) eqn:E; [exfalso | reflexivity].
    apply (other_holders n w y H0 (ownf_held w y H0 E) t (fun E0 => Ny (eq_sym E0))).
    unfold get; rewrite Hs. exact (proj1 Ho).
  - (* MwLoad *) destruct Hok as (-> & -> & Hh & Hm). destruct h as [h|]; [| congruence]. destruct mx as [x|]; [| congruence].
    destruct (band (word w) MU_ANY_LOCK =? 0); [B8|].
    match goal with |- context [mw_cond (get_mw ?ww t)] =>
      assert (get_mw ww t = mk_mw (if negb (band (word w) MU_RHELD_IF_NON_ZERO =? 0) then R else W) (mw_cond x) (mw_eq x) (mw_dl x) (mw_canc x) (mw_first x) (mw_rc x) (mw_hadw x)
                                  (mw_semout x) (mw_have x) (mw_outcome x) (mw_tmo x) (mw_ent x)) as Eg
        by (erewrite (TS_get_mw t w); [| ts_solve; rewrite Hlen; exact Ht]; unfold get; rewrite Hs; reflexivity);
      rewrite Eg end.
    cbn [mw_cond]. destruct (mw_cond x) eqn:Emc; [B8|].
    unfold mw_after_eval. rewrite Eg. cbn [mw_outcome mw_mode mw_cond mw_eq]. rewrite guard_b2z_true. B8.
  - (* MwEval *) mwsome Hok mx. unfold get_mw, get. rewrite Hs. cbn [mw].
    destruct (mw_cond x) as [[f a]|] eqn:Emc; unfold mw_after_eval;
      (match goal with |- context [get_mw ?ww t] =>
         assert (get_mw ww t = x) as Eg by (unfold get_mw, get; cbn [thr log_eval add_ev]; rewrite Hs; reflexivity); rewrite Eg end).
    + destruct (nsync_mu_wait_with_deadline_store1_guard _ _) eqn:G; [apply guard_true_res in G|]; B8.
    + rewrite guard_b2z_true. B8.
  - (* MwStoreWaiting *) mwsome Hok mx. B8.
  - (* MwRcLoad *) mwsome Hok mx. B8.
  - (* MwRelLoad *) mwsome Hok mx. B8.
  - (* MwRelCas *) mwsome Hok mx. cas_split w; [| B8]. destruct (add =? 0); [| B8].
    match goal with |- context [mw_mode (get_mw ?ww t)] =>
      assert (get_mw ww t = x) as Eg by (erewrite (TS_get_mw t w); [| ts_solve; rewrite Hlen; exact Ht]; unfold get; rewrite Hs; reflexivity);
      rewrite Eg end.
    B8.
  - (* MwLoadW1 *) mwsome Hok mx. unfold get_mw, get. rewrite Hs. cbn [mw].
    destruct (waiting w t) eqn:Ew.
    + destruct (mw_semout x =? 0); B8.
    + destruct (mw_have x) eqn:Eh; B8.
  - (* MwSemP *) mwsome Hok mx. unfold get_mw, get. rewrite Hs. cbn [mw]. destruct c.
    + destruct (Z.ltb_spec 0 (sem w t)); [B8 | noop8].
    + destruct (mw_dl x) as [d|]; [| noop8]. destruct (d <=? clock w); [B8 | noop8].
    + destruct (mw_canc x && note w); [B8 | noop8].
  - (* MwLoadW2 *) mwsome Hok mx. destruct (waiting w t) eqn:Ew; B8.
  - (* MwLoadW3 *) mwsome Hok mx. B8.
  - (* MtLoad *) mwsome Hok mx. destruct (mu_try_acquire_after_timeout_or_cancel_cas1_guard (word w)) eqn:G1;
      [| destruct (mu_try_acquire_after_timeout_or_cancel_cas2_guard (word w)) eqn:G2]; B8.
  - (* MtCas1 *) mwsome Hok mx. cas_split w; [| destruct (mu_try_acquire_after_timeout_or_cancel_cas2_guard old) eqn:G2]; B8.
  - (* MtCas2 *) mwsome Hok mx. cas_split w; B8.
  - (* MtLoadW *) mwsome Hok mx. destruct (waiting w t) eqn:Ew; B8.
  - (* MtLoadRc *) mwsome Hok mx. unfold get_mw, get. rewrite Hs. cbn [mw]. destruct (Z.eqb_spec (mw_rc x) (rcount w t)) as [Erc|Erc]; B8.
  - (* MtStoreW *) mwsome Hok mx. B8.
  - (* MtStore2 *) mwsome Hok mx. unfold get_mw, get. rewrite Hs. cbn [mw]. B8.
  - (* MtStore3 *) mwsome Hok mx. B8.
  - (* Crash *) noop8.
Qed.

Lemma HA_step w a : LInv n w -> NC w -> HA w -> HA (fst (step w a)).
Proof.
  intros ((HI & HFr) & HL1 & HU & H2) HN H. destruct a as [t c|dt| |p]; cbn [step].
  - apply HA_step_thr; assumption.
  - destruct (0 <=? dt); [| exact H]. cbn [fst]. apply (HA_ext w); try reflexivity; exact H.
  - cbn [fst]. apply (HA_ext w); try reflexivity; exact H.
  - destruct (note w); [| exact H]. cbn [fst]. apply (HA_ext w); try reflexivity; try exact H.
    intros y. cbn [sem set_sem]. unfold fupd. destruct (Nat.eqb y p) eqn:E; [apply Nat.eqb_eq in E; subst y; lia | lia].
Qed.
End Step8.

Lemma HA_init progs cl c0 : HA (init progs cl c0).
Proof.
  assert (EP : forall x, P (init progs cl c0) x = Idle) by (intros x; exact (proj1 (init_get progs cl c0 x))).
  assert (EM : forall x, MX (init progs cl c0) x = None) by (intros x; exact (proj2 (init_get progs cl c0 x))).
  apply HA_of.
  - intros x E. rewrite EP in E. discriminate E.
  - intros x. cbn [init sem]. lia.
  - intros x E. rewrite EP, EM in E. discriminate E.
  - intros x. unfold HLw, HL. fold (P (init progs cl c0) x). fold (MX (init progs cl c0) x). rewrite EP, EM.
    cbn. repeat split; intros; discriminate.
Qed.

Lemma HA_run n (Hn : Z.of_nat n < 16777215) sched : forall w, LInv n w -> NC w -> HA w -> HA (run w sched).
Proof.
  unfold run. induction sched as [|a rest IH]; intros w HL HN H; cbn [fold_left]; [exact H|].
  apply IH; [apply LInv_step; assumption | apply (NC_step_LInv n Hn); assumption | apply (HA_step n Hn); assumption].
Qed.

Theorem HA_reachable progs cl c0 sched :
  Z.of_nat (length progs) < 2 ^ 24 - 1 -> HA (run (init progs cl c0) sched).
Proof. intros H. apply (HA_run _ H); [apply init_LInv | apply NC_init | apply HA_init]. Qed.

Print Assumptions begin_op_HA.
Print Assumptions HA_step_thr.
Print Assumptions HA_step.
Print Assumptions HA_init.
Print Assumptions HA_reachable.
