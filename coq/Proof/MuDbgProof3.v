(* MuDbgProof3: non-vacuity examples for the combined model (lockers + debuggers) and the regression of finding F2:
   the OLD shape of emit_mu_state's release (a plain store of the stale word returned by nsync_spin_test_and_set_,
   which is what emit_cv_state still does for the cv word) breaks mutual exclusion. All by vm_compute. *)
From NsyncBase Require Import CSem.
From NsyncGen Require Import Consts Sites.
From NsyncModel Require Import MuModel MuSpec MuDbgModel.
From NsyncProof Require Import WordView MuProof MuProof2 MuProof3 MuDbgProof MuDbgProof2.
From Coq Require Import List ZArith Bool Lia PeanoNat.
Import ListNotations.
Local Open Scope Z_scope.

Definition lk (t : nat) (k : nat) : list who := repeat (TBase t) k.
Definition db (d : nat) (k : nat) : list who := repeat (TDbg d) k.

(* ----- a debugger takes the spinlock while a locker is enqueuing: the locker spins, then proceeds ----- *)
Definition e1_progs : list (list op) := [[OLock W]; [OLock W; OUnlock]; [OLock W; OUnlock]].
Definition e1_dprogs : list (list dop) := [[DStateWaiters 4 8]].
(* locker 0 acquires; locker 1 queues and sleeps; locker 2 has decided to enqueue (its CAS is pending);
   the debugger loads the word (MU_WAITING set), enters nsync_spin_test_and_set_ and takes MU_SPINLOCK *)
Definition e1_s1 : list who := lk 0 1 ++ lk 1 8 ++ lk 2 3 ++ db 0 3.

Lemma ex_dbg_interleaves_enqueue :
  let w1 := drun (dinit e1_progs e1_dprogs) e1_s1 in
  let w2 := drun w1 (lk 2 3) in      (* locker 2: its enqueue CAS fails, then it spins on the word *)
  let w3 := drun w2 (db 0 4) in      (* the debugger reads the one queued record and releases with its CAS loop *)
  let w4 := drun w3 (lk 2 7) in      (* locker 2 proceeds: takes the spinlock, enqueues, releases, sleeps *)
  (downer w1 0 = true /\ has (word (base w1)) MU_SPINLOCK = true /\
   exists l old, t_pc (get (base w1) 2) = LsCasEnq W l old /\ has old MU_SPINLOCK = false) /\
  (base w2 = set_t (base w1) 2 (get (base w2) 2) /\ (exists l, t_pc (get (base w2) 2) = LsLoad W l) /\ downer w2 0 = true) /\
  (downer w3 0 = false /\ d_read (dget w3 0) = [1%nat] /\ dpcof w3 0 = DIdle /\
   has (word (base w3)) MU_SPINLOCK = false /\ queue (base w3) = [1%nat] /\ holds (base w3) 0 W) /\
  (queue (base w4) = [1%nat; 2%nat] /\ h_asleep (base w4) 2 /\ holds (base w4) 0 W /\ has (word (base w4)) MU_SPINLOCK = false).
Proof.
  cbv zeta. split; [|split; [|split]].
  - split; [vm_compute; reflexivity|]. split; [vm_compute; reflexivity|]. eexists _, _. vm_compute. split; reflexivity.
  - split; [vm_compute; reflexivity|]. split; [eexists; vm_compute; reflexivity | vm_compute; reflexivity].
  - vm_compute. auto 10.
  - vm_compute. auto 10.
Qed.

(* ----- nsync_mu_debugger walks the queue WITHOUT the lock when it finds the spinlock taken ----- *)
Definition e2_dprogs : list (list dop) := [[DDebugger 4 2]].
(* as above, but locker 2's enqueue CAS has succeeded: it owns the spinlock and is about to link itself in *)
Definition e2_s1 : list who := lk 0 1 ++ lk 1 8 ++ lk 2 4.

Lemma ex_debugger_unlocked_walk :
  let w1 := drun (dinit e1_progs e2_dprogs) e2_s1 in
  let w2 := drun w1 (db 0 3) in      (* load of the word, two unlocked record loads *)
  (in_spin_section (t_pc (get (base w1) 2)) = true /\ has (word (base w1)) MU_SPINLOCK = true /\
   has (word (base w1)) MU_WAITING = true) /\
  base w2 = base w1 /\ d_unsafe (dget w2 0) = 2%nat /\ d_read (dget w2 0) = [] /\ downer w2 0 = false /\
  d_done w2 0 /\
  (forall k, (k <= 3)%nat -> downer (drun w1 (db 0 k)) 0 = false).
Proof.
  cbv zeta. split; [vm_compute; auto|]. split; [vm_compute; reflexivity|].
  split; [vm_compute; reflexivity|]. split; [vm_compute; reflexivity|]. split; [vm_compute; reflexivity|].
  split; [vm_compute; auto|].
  intros k Hk. destruct k as [|[|[|[|k]]]]; try lia; vm_compute; reflexivity.
Qed.

(* ----- the hypotheses of dno_lost_handoff are satisfiable with a debugger inside its spin loop ----- *)
Definition e3_progs : list (list op) := [[OLock W]; [OLock W; OUnlock]].
Definition e3_s : list who := lk 0 1 ++ lk 1 8 ++ db 0 2.

Lemma ex_dquiescent_satisfiable :
  let w := drun (dinit e3_progs e1_dprogs) e3_s in
  Z.of_nat (length e3_progs) < 2 ^ 24 - 1 /\ dquiescent w /\ h_asleep (base w) 1 /\ h_done (base w) 0 /\
  holds (base w) 0 W /\ d_spinning w 0.
Proof.
  cbv zeta. split; [vm_compute; reflexivity|]. split.
  - split.
    + intros t Ht. vm_compute in Ht. destruct t as [|[|t]]; [right | left | lia]; vm_compute; auto.
    + intros d Hd. vm_compute in Hd. destruct d as [|d]; [right; vm_compute; reflexivity | lia].
  - split; [vm_compute; reflexivity|]. split; [vm_compute; auto|]. split; vm_compute; reflexivity.
Qed.

(* ================================================================== *)
(* the OLD release of emit_mu_state (before the repair of finding F2)  *)
(* ================================================================== *)
(* debug.c used to end emit_mu_state with
       if (acquired) { ATM_STORE_REL (&mu->word, word); }
   where word is what nsync_spin_test_and_set_ returned: the value of mu->word BEFORE the acquiring CAS.  The variant
   below is MuDbgModel.dbg_step except for that: it remembers the returned value per debugger (r d) and, at the
   release, stores it instead of running the load + CAS loop.  Lockers may change every bit but MU_SPINLOCK while the
   debugger holds only the spinlock, so the store can take the lock away from a thread that acquired it meanwhile. *)
Definition sworld := (dworld * (nat -> Z))%type.
Definition sstep (s : sworld) (a : who) : sworld :=
  let '(w, r) := s in
  match a with
  | TBase _ => (fst (dstep w a), r)
  | TDbg d =>
      match dpcof (dbegin w d) d with
      | DSpinCas _ old => let w' := fst (dbg_step w d) in (w', if downer w' d then fupd r d old else r)
      | DRelLoad _ => (dset_pc (dset_owner (dset_base w (set_word (base w) (r d))) d false) d DIdle, r)
      | _ => (fst (dbg_step w d), r)
      end
  end.
Definition srun (w : dworld) (sched : list who) : dworld := fst (fold_left sstep sched (w, fun _ => 0)).

(* lockers 0, 1, 2 contend; 0 releases and wakes 1 (word = WAITING | DESIG_WAKER | WRITER_WAITING, lock free, 2 still queued);
   the debugger takes the spinlock (returned word: 44); locker 3 arrives and acquires by its second fast-path CAS under the
   debugger's spinlock; the debugger prints the queue and stores 44: the write bit of locker 3 is gone; the woken locker 1
   acquires too *)
Definition g_progs : list (list op) := [[OLock W; OUnlock]; [OLock W]; [OLock W; OUnlock]; [OLock W]].
Definition g_sched : list who :=
  lk 0 1 ++ lk 1 8 ++ lk 2 8 ++ lk 0 9 ++ db 0 3 ++ lk 3 3 ++ db 0 3 ++ lk 1 4.

Lemma stale_store_refuted : exists progs dprogs sched,
  Z.of_nat (length progs) < 2 ^ 24 - 1 /\
  let w := srun (dinit progs dprogs) sched in
  (holds (base w) 1 W /\ holds (base w) 3 W /\ ~ excl (base w)) /\ ~ word_agrees (base w).
Proof.
  exists g_progs, e1_dprogs, g_sched. split; [vm_compute; reflexivity|]. cbv zeta.
  assert (holds (base (srun (dinit g_progs e1_dprogs) g_sched)) 1 W) as H1 by (vm_compute; reflexivity).
  assert (holds (base (srun (dinit g_progs e1_dprogs) g_sched)) 3 W) as H3 by (vm_compute; reflexivity).
  split; [split; [exact H1 | split; [exact H3|]]|].
  - intros E. specialize (E 1%nat 3%nat). vm_compute in E. 
    assert (1%nat = 3%nat) as X by (apply E; auto; lia). discriminate X.
  - intros (_ & C & _). vm_compute in C. discriminate C.
Qed.

(* the same schedule under the repaired code (MuDbgModel.dstep): the release CAS keeps locker 3's write bit and the
   woken locker 1 does not get in *)
Lemma stale_schedule_repaired :
  let w := drun (dinit g_progs e1_dprogs) (lk 0 1 ++ lk 1 8 ++ lk 2 8 ++ lk 0 9 ++ db 0 3 ++ lk 3 3 ++ db 0 4 ++ lk 1 4) in
  holds (base w) 3 W /\ held (get (base w) 1) = None /\ dpcof w 0 = DIdle /\ downer w 0 = false.
Proof. vm_compute. auto. Qed.
