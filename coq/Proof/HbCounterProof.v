(* C03, counter hand-off: in every execution of CounterModel, instrumented by Model/HbCounter.v (which credits ONLY
   the memory orders requested in the C source, Gen/Sites.v), the view of the thread whose nsync_counter_add changes the
   counter (in particular: zeroes it), at its compare-and-swap, is contained in the view of every thread at every later
   return of nsync_counter_wait / nsync_counter_value / nsync_counter_add (Part 5); and the view of an adder at its
   ATM_STORE_REL (&nw->waiting, 0) on the record of a waiter (add#5) is contained in the view of that waiter after its
   next ATM_LOAD_ACQ (&nw->waiting) in counter_dequeue (dequeue#2), which reads that 0 (Part 7: the wake-up edge; it
   rests on the proved invariant [Q]: c->waiters has no duplicates, its members are inside nsync_wait_n with their flag
   set).  Nothing is credited to the sleeping primitive.
   Part 1 is the only place where the regenerated inventory is evaluated: if the CAS of nsync_counter_add lost its
   release or its acquire half, or one of the loads of c->value whose result a call returns (add#1, value#1, wait#1,
   ready_time#2) or on which a return under counter_mu relies (dequeue#1) became relaxed, or a plain store to
   c->value appeared in a modelled function, or add#5 lost its release, or dequeue#2 its acquire, or one of them moved
   to another field, [counter_orders] fails and with it everything below.
   SECONDARY, futex flavour of the semaphore only (Part 6, [sem_orders] / [counter_sem_handoff]): the adder's view at
   its V is contained in the waiter's view at every later successful P, under the orders of the compare-and-swaps of
   nsync_semaphore_futex.c.  Not part of the C03 claim; the other semaphore flavours have no such sites.
   No axioms, nothing admitted. *)
From Coq Require Import List ZArith Bool String Lia PeanoNat Arith.
From NsyncBase Require Import CSem.
From NsyncGen Require Import Consts Sites.
From NsyncModel Require Import HbModel.
From NsyncModel Require HbOnce.
From NsyncProof Require HbProof.
From NsyncModel Require Import CounterModel HbCounter.
From NsyncProof Require Import CounterProof.
Import ListNotations.
Local Open Scope Z_scope.

(* ================================================================== *)
(* Part 1: the orders and locations the proof needs, from the inventory *)
(* ================================================================== *)
Lemma counter_orders :
  (* the decrement is an acq_rel read-modify-write of c->value *)
  has_rel (corder Kcas 103) = true /\ has_acq (corder Kcas 103) = true /\ (forall u, cloc 103 u = LValue) /\
  (* the loads of c->value a return relies on are acquire *)
  Forall (fun s => has_acq (corder Kload s) = true /\ forall u, cloc s u = LValue) [101; 201; 301; 402; 601] /\
  (* no plain store of a modelled function is to c->value *)
  Forall (fun s => forall u, cloc s u <> LValue) [105; 401; 502; 503; 603] /\
  (* the wake-up: add#5 is a RELEASE store to nw->waiting of the popped record, dequeue#2 an ACQUIRE load of the
     caller's own nw->waiting *)
  has_rel (corder Kstore 105) = true /\ (forall u, cloc 105 u = LWaiting u) /\
  has_acq (corder Kload 602) = true /\ (forall u, cloc 602 u = LWaiting u) /\
  (* the other stores to a `waiting' flag (enqueue#2, enqueue#3, dequeue#3) are to the record of the thread named in
     the event (whatever their order: they are relaxed, the proof does not look), and ready_time#1 is to c->waited *)
  Forall (fun s => forall u, cloc s u = LWaiting u) [502; 503; 603] /\
  (forall u, cloc 401 u = LWaited).
Proof.
  split; [vm_compute; reflexivity|]. split; [vm_compute; reflexivity|]. split; [intros u; vm_compute; reflexivity|].
  split; [repeat constructor; try (vm_compute; reflexivity); intros u; vm_compute; discriminate|].
  split; [repeat constructor; intros u; vm_compute; discriminate|].
  split; [vm_compute; reflexivity|]. split; [intros u; vm_compute; reflexivity|].
  split; [vm_compute; reflexivity|]. split; [intros u; vm_compute; reflexivity|].
  split; [repeat constructor; intros u; vm_compute; reflexivity | intros u; vm_compute; reflexivity].
Qed.

(* FUTEX FLAVOUR ONLY (secondary, not part of the C03 claim): in nsync_semaphore_futex.c V's compare-and-swap is a
   release, P's (both variants) an acquire; used by [counter_sem_handoff] only *)
Lemma sem_orders : has_rel sem_v_order = true /\ has_acq sem_p_order = true.
Proof. split; vm_compute; reflexivity. Qed.

Lemma cas103 : has_rel (corder Kcas 103) = true /\ has_acq (corder Kcas 103) = true /\ forall u, cloc 103 u = LValue.
Proof. destruct counter_orders as (A & B & C & _). auto. Qed.
Lemma value_load s : In s [101; 201; 301; 402; 601] ->
  has_acq (corder Kload s) = true /\ forall u, cloc s u = LValue.
Proof. destruct counter_orders as (_ & _ & _ & A & _). apply (proj1 (Forall_forall _ _) A). Qed.
Lemma store_not_value s u : In s [105; 401; 502; 503; 603] -> cloc s u <> LValue.
Proof. destruct counter_orders as (_ & _ & _ & _ & A & _). intros H. apply (proj1 (Forall_forall _ _) A s H). Qed.
(* the wake-up pair *)
Lemma store105 : has_rel (corder Kstore 105) = true /\ forall u, cloc 105 u = LWaiting u.
Proof. destruct counter_orders as (_ & _ & _ & _ & _ & A & B & _). auto. Qed.
Lemma load602 : has_acq (corder Kload 602) = true /\ forall u, cloc 602 u = LWaiting u.
Proof. destruct counter_orders as (_ & _ & _ & _ & _ & _ & _ & A & B & _). auto. Qed.
Lemma store401 u : cloc 401 u = LWaited.
Proof. destruct counter_orders as (_ & _ & _ & _ & _ & _ & _ & _ & _ & _ & A). apply A. Qed.
(* an access the inventory places on a `waiting' field is on the record of the thread the event names *)
Lemma cloc_waiting s x u : cloc s x = LWaiting u -> u = x.
Proof.
  unfold cloc. destruct (csite s) as [y|]; [|discriminate].
  repeat match goal with |- context [if ?c then _ else _] => destruct c end; try discriminate. congruence.
Qed.

(* the inventory lookup never yields a semaphore word *)
Lemma cloc_not_sem s u v : cloc s u <> LSem v.
Proof.
  unfold cloc. destruct (csite s) as [x|]; [|discriminate].
  repeat match goal with |- context [if ?c then _ else _] => destruct c end; discriminate.
Qed.

(* from here on orders and locations are used through the lemmas above only *)
Local Opaque corder cloc sem_v_order sem_p_order wait_n_store_order.

(* ================================================================== *)
(* Part 2: views and the instrumentation                               *)
(* ================================================================== *)
Lemma vle_tick v t : vle v (vtick v t).
Proof. intros x. unfold vtick. destruct (Nat.eqb x t); lia. Qed.
Lemma vle_join_lub a b c : vle a c -> vle b c -> vle (vjoin a b) c.
Proof. intros H1 H2 x. specialize (H1 x). specialize (H2 x). unfold vjoin. lia. Qed.

Lemma cfupd_same {A} (f : nat -> A) k v : fupd f k v k = v.
Proof. unfold fupd. now rewrite Nat.eqb_refl. Qed.
Lemma cfupd_other {A} (f : nat -> A) k v x : x <> k -> fupd f k v x = f x.
Proof. unfold fupd. intros H. destruct (Nat.eqb_spec x k); congruence. Qed.

Lemma loc_eqb_eq a b : loc_eqb a b = true -> a = b.
Proof. destruct a, b; cbn; try discriminate; auto; intros H; apply Nat.eqb_eq in H; congruence. Qed.
Lemma loc_eqb_refl a : loc_eqb a a = true.
Proof. destruct a; cbn; auto; apply Nat.eqb_refl. Qed.
Lemma lupdv_same f l v : lupdv f l v l = v.
Proof. unfold lupdv. now rewrite loc_eqb_refl. Qed.
Lemma lupdv_other f l v x : x <> l -> lupdv f l v x = f x.
Proof. unfold lupdv. intros H. destruct (loc_eqb x l) eqn:E; [apply loc_eqb_eq in E; congruence|reflexivity]. Qed.

(* the folded store of nsync_wait_n: no view changes, and only the release view of the thread's own flag does *)
Lemma wns_views h t s : cviews (wait_n_store h t s) = cviews h.
Proof. unfold wait_n_store. destruct (s =? 501); reflexivity. Qed.
Lemma wns_rel h t s l : l <> LWaiting t -> crel (wait_n_store h t s) l = crel h l.
Proof. intros H. unfold wait_n_store. destruct (s =? 501); [|reflexivity]. cbn [do_store crel]. apply lupdv_other. exact H. Qed.
Lemma wns_not501 h t s : s <> 501 -> wait_n_store h t s = h.
Proof. intros H. unfold wait_n_store. destruct (Z.eqb_spec s 501); [contradiction|reflexivity]. Qed.

Lemma ev_cas_dec (e : ev) : (exists s o n, e = EvCas s o n true) \/ (forall s o n, e <> EvCas s o n true).
Proof. destruct e as [| |s o n [|]| | | | | |]; try (right; intros; discriminate). left; eauto. Qed.

(* the views of the other threads are untouched *)
Lemma hb_others h lab e t u : actor lab = Some t -> u <> t -> cviews (chb_step h lab e) u = cviews h u.
Proof.
  intros Ha Hu. unfold chb_step. rewrite Ha.
  destruct e as [s v|s x v|s o n [|]|x| | | | |]; unfold do_load, do_store, do_rmw;
    try destruct (has_acq _); cbn [cviews]; rewrite ?wns_views; cbn [cviews];
    rewrite ?cfupd_other by exact Hu; reflexivity.
Qed.

(* a thread's own view only grows *)
Lemma hb_grows h lab e t : actor lab = Some t -> vle (cviews h t) (cviews (chb_step h lab e) t).
Proof.
  intros Ha. unfold chb_step. rewrite Ha.
  destruct e as [s v|s x v|s o n [|]|x| | | | |]; unfold do_load, do_store, do_rmw;
    try destruct (has_acq _); cbn [cviews crel]; rewrite ?wns_views; cbn [cviews crel]; rewrite ?cfupd_same;
    first [ apply vle_tick
          | eapply HbProof.vle_trans; [apply vle_tick | apply HbProof.vle_join_l] ].
Qed.

(* an event that is neither a successful CAS nor a store to c->value leaves the release view of c->value alone *)
Lemma hb_rel_same h lab e :
  (forall s o n, e <> EvCas s o n true) -> (forall s u v, e = EvStore s u v -> cloc s u <> LValue) ->
  crel (chb_step h lab e) LValue = crel h LValue.
Proof.
  intros Hc Hs. unfold chb_step. destruct (actor lab) as [t|]; [|reflexivity].
  destruct e as [s v|s x v|s o n [|]|x| | | | |]; unfold do_load, do_store, do_rmw;
    try destruct (has_acq _); try destruct (has_rel _); cbn [cviews crel];
    rewrite ?wns_rel by discriminate; cbn [cviews crel];
    first [ reflexivity
          | exfalso; eapply Hc; reflexivity
          | apply lupdv_other;
            first [ discriminate | intros E; symmetry in E; revert E; eapply Hs; reflexivity ] ].
Qed.

(* the CAS of nsync_counter_add: acquire and release on c->value *)
Lemma hb_cas103 h lab t o n :
  actor lab = Some t ->
  vle (crel h LValue) (cviews (chb_step h lab (EvCas 103 o n true)) t) /\
  vle (cviews (chb_step h lab (EvCas 103 o n true)) t) (crel (chb_step h lab (EvCas 103 o n true)) LValue) /\
  vle (crel (chb_step h lab (EvCas 103 o n true)) LValue) (cviews (chb_step h lab (EvCas 103 o n true)) t).
Proof.
  intros Ha. destruct cas103 as (Hr & Hq & Hl).
  unfold chb_step. rewrite Ha. unfold do_rmw. rewrite Hr, Hq, Hl. cbn [cviews crel].
  rewrite cfupd_same, lupdv_same. split; [apply HbProof.vle_join_r|]. split; [apply HbProof.vle_join_r|].
  apply vle_join_lub; [apply HbProof.vle_join_r | apply HbProof.vle_refl].
Qed.

(* an acquire load of c->value *)
Lemma hb_value_load h lab t s v :
  actor lab = Some t -> In s [101; 201; 301; 402; 601] ->
  vle (crel h LValue) (cviews (chb_step h lab (EvLoad s v)) t).
Proof.
  intros Ha Hs. destruct (value_load s Hs) as [Hq Hl].
  unfold chb_step. rewrite Ha. unfold do_load. rewrite Hq, Hl. cbn [cviews crel].
  rewrite wns_views, wns_rel by discriminate. cbn [cviews crel].
  rewrite cfupd_same. apply HbProof.vle_join_r.
Qed.

(* ================================================================== *)
(* Part 3: what one step of the model can be                           *)
(* ================================================================== *)
(* pcs at which the thread holds counter_mu and has read (or written) c->value since it took it *)
Definition locked_reader (p : cpc) : bool :=
  match p with
  | AddChk _ _ | AddStore _ _ | AddV _ _ _ | WDeqLoad _ _ | WDeqStore _ _ => true
  | _ => false
  end.
Lemma locked_reader_holds p : locked_reader p = true -> holds p = true.
Proof. destruct p; cbn; congruence. Qed.

Definition cls (w w' : world) (t : nat) (e : ev) : Prop :=
  (forall s o n, e = EvCas s o n true -> s = 103 /\ exists d v, pc (get w t) = AddCas d v) /\
  (forall s u v, e = EvStore s u v -> In s [105; 401; 502; 503; 603]) /\
  (locked_reader (pc (get w' t)) = true ->
     locked_reader (pc (get w t)) = true \/ (exists v, e = EvLoad 601 v) \/ (exists o n, e = EvCas 103 o n true)) /\
  (forall r, log w' = r :: log w ->
     locked_reader (pc (get w t)) = true \/ (exists s v, e = EvLoad s v /\ In s [101; 201; 301; 402]) \/
     (exists o n, e = EvCas 103 o n true)) /\
  (forall x, hist w' = x :: hist w -> exists o n, e = EvCas 103 o n true) /\
  (forall u, u <> t -> get w' u = get w u).

Lemma cons_self {A} (x : A) l : l = x :: l -> False.
Proof. intros E. apply (f_equal (@length A)) in E. cbn in E. lia. Qed.

Lemma cls_same w t e :
  (forall s o n, e <> EvCas s o n true) -> (forall s u v, e <> EvStore s u v) -> cls w w t e.
Proof.
  intros Hc Hs. unfold cls. split; [|split; [|split; [|split; [|split]]]].
  - intros s o n E. exfalso. eapply Hc. exact E.
  - intros s u v E. exfalso. eapply Hs. exact E.
  - auto.
  - intros r E. exfalso. eapply cons_self. exact E.
  - intros x E. exfalso. eapply cons_self. exact E.
  - reflexivity.
Qed.

Ltac cls_cas Hpc :=
  intros ? ? ? E; first [discriminate E | injection E as <- _ _; split; [reflexivity | rewrite ?Hpc; eauto]].
Ltac cls_store := intros ? ? ? E; first [discriminate E | injection E as <- _ _; cbn; tauto].
Ltac cls_pc L :=
  rewrite ?get_set_pc by (unfold live in *; cbn; exact L); cbn [locked_reader];
  intros E; first [ discriminate E | left; reflexivity | right; left; eexists; reflexivity
                  | right; right; eexists _, _; reflexivity ].
Ltac cls_log :=
  intros ? E; cbn in E;
  first [ exfalso; exact (cons_self _ _ E) | left; reflexivity
        | right; left; eexists _, _; split; [reflexivity | cbn; tauto]
        | right; right; eexists _, _; reflexivity ].
Ltac cls_hist :=
  intros ? E; cbn in E; first [ exfalso; exact (cons_self _ _ E) | eexists _, _; reflexivity ].
Ltac cls_others :=
  let u' := fresh "u" in let H := fresh "Hu" in
  intros u' H; unfold get; cbn; rewrite ?nth_lupd_other by congruence; reflexivity.

Lemma exec_cls w t : cls w (fst (exec w t)) t (snd (exec w t)).
Proof.
  destruct (pc (get w t)) eqn:Hpc0.
  1: { unfold exec. rewrite Hpc0. apply cls_same; intros; discriminate. }
  21: { unfold exec. rewrite Hpc0. apply cls_same; intros; discriminate. }
  all: assert (L : live w t) by (apply live_of_pc; rewrite Hpc0; discriminate).
  all: unfold cls, exec; rewrite Hpc0;
       unfold after_cas, after_chk, after_deq, drain, finish_add, crash, ret; brk; cbn [fst snd];
       (split; [cls_cas Hpc0|]); (split; [cls_store|]); (split; [cls_pc L|]); (split; [cls_log|]);
       (split; [cls_hist | cls_others]).
Qed.

Lemma begin_cases w t :
  begin_call w t = w \/ exists s x, pc (get w t) = Idle /\ begin_call w t = set_g (set_thr w t s) t x.
Proof.
  unfold begin_call. destruct (pc (get w t)) eqn:Hpc; auto. destruct (prog (get w t)); auto. right; eauto.
Qed.
Lemma begin_log_hist w t : log (begin_call w t) = log w /\ hist (begin_call w t) = hist w.
Proof. destruct (begin_cases w t) as [->|(s & x & _ & ->)]; cbn; auto. Qed.
Lemma begin_others w t u : u <> t -> get (begin_call w t) u = get w u.
Proof.
  intros Hu. destruct (begin_cases w t) as [->|(s & x & _ & ->)]; [reflexivity|].
  unfold get. cbn. apply nth_lupd_other. congruence.
Qed.
Lemma begin_held w t : holds (pc (get (begin_call w t) t)) = true -> pc (get w t) = pc (get (begin_call w t) t).
Proof. intros H. apply next_pc_held; [reflexivity | exact H]. Qed.

Lemma step_cls w lab t : actor lab = Some t -> cls w (fst (step w lab)) t (snd (step w lab)).
Proof.
  destruct lab as [t0|t0|d]; cbn [actor]; intros E; try discriminate E; injection E as ->; cbn [step].
  - destruct (enabled_pc (begin_call w t) t (pc (get (begin_call w t) t))) eqn:En.
    2:{ apply cls_same; intros; discriminate. }
    destruct (exec_cls (begin_call w t) t) as (C1 & C2 & C3 & C4 & C5 & C6).
    destruct (begin_log_hist w t) as [Bl Bh].
    assert (Bp : locked_reader (pc (get (begin_call w t) t)) = true -> locked_reader (pc (get w t)) = true).
    { intros H. rewrite (begin_held w t); [exact H | apply locked_reader_holds; exact H]. }
    unfold cls. split; [|split; [|split; [|split; [|split]]]].
    + intros s o n E. destruct (C1 _ _ _ E) as [-> (d & v & Hp)]. split; [reflexivity|].
      exists d, v. rewrite (begin_held w t); [exact Hp | rewrite Hp; reflexivity].
    + exact C2.
    + intros H. destruct (C3 H) as [A|A]; [left; apply Bp; exact A | right; exact A].
    + intros r H. rewrite <- Bl in H. destruct (C4 r H) as [A|A]; [left; apply Bp; exact A | right; exact A].
    + intros x H. rewrite <- Bh in H. exact (C5 x H).
    + intros u Hu. rewrite (C6 u Hu). apply begin_others. exact Hu.
  - destruct (pc (get w t)) eqn:Hpc; try (apply cls_same; intros; discriminate).
    destruct dl as [z|]; [|apply cls_same; intros; discriminate].
    destruct (z <=? clock w); [|apply cls_same; intros; discriminate].
    assert (L : live w t) by (apply live_of_pc; rewrite Hpc; discriminate).
    cbn [fst snd]. unfold cls. split; [|split; [|split; [|split; [|split]]]].
    + intros; discriminate.
    + intros; discriminate.
    + rewrite get_set_pc by (unfold live in *; cbn; exact L). cbn. discriminate.
    + intros r E. cbn in E. exfalso. exact (cons_self _ _ E).
    + intros x E. cbn in E. exfalso. exact (cons_self _ _ E).
    + cls_others.
Qed.

(* ================================================================== *)
(* Part 4: one step of the model against one step of the instrumentation *)
(* ================================================================== *)
(* the thread's view contains the release view of c->value *)
Definition fresh (h : chb) (t : nat) : Prop := vle (crel h LValue) (cviews h t).
(* a thread that holds counter_mu and has read c->value under it has the release view of the CURRENT value:
   nobody else can have written c->value since *)
Definition K (w : world) (h : chb) : Prop := forall u, locked_reader (pc (get w u)) = true -> fresh h u.

Definition cnext (h : chb) (w : world) (lab : label) : chb := chb_step h lab (snd (step w lab)).

Lemma step_stores w lab t : actor lab = Some t ->
  forall s u v, snd (step w lab) = EvStore s u v -> cloc s u <> LValue.
Proof.
  intros Ha s u v E. destruct (step_cls w lab t Ha) as (_ & C2 & _). apply store_not_value. eapply C2. exact E.
Qed.

(* nothing takes anything out of the release view of c->value *)
Lemma keep_step w h lab r : vle r (crel h LValue) -> vle r (crel (cnext h w lab) LValue).
Proof.
  intros Hr. unfold cnext. destruct (actor lab) as [t|] eqn:Ha.
  2:{ unfold chb_step. rewrite Ha. exact Hr. }
  destruct (ev_cas_dec (snd (step w lab))) as [(s & o & n & E)|Hn].
  - destruct (step_cls w lab t Ha) as (C1 & _). destruct (C1 _ _ _ E) as [-> _]. rewrite E.
    destruct (hb_cas103 h lab t o n Ha) as (A & B & _).
    eapply HbProof.vle_trans; [exact Hr|]. eapply HbProof.vle_trans; [exact A | exact B].
  - rewrite hb_rel_same; [exact Hr | exact Hn | apply (step_stores w lab t Ha)].
Qed.

(* the step that changes the counter publishes the adder's view *)
Lemma publish_step w h lab x :
  hist (fst (step w lab)) = x :: hist w ->
  vle (view_of (cnext h w lab) lab) (crel (cnext h w lab) LValue).
Proof.
  intros H. unfold view_of, cnext. destruct (actor lab) as [t|] eqn:Ha.
  2:{ destruct lab; try discriminate Ha. cbn in H. exfalso. exact (cons_self _ _ H). }
  destruct (step_cls w lab t Ha) as (_ & _ & _ & _ & C5 & _). destruct (C5 x H) as (o & n & E). rewrite E.
  apply (hb_cas103 h lab t o n Ha).
Qed.

(* a step at which a call returns: the caller's view contains the release view of c->value *)
Lemma return_step w h lab r :
  K w h -> log (fst (step w lab)) = r :: log w ->
  vle (crel h LValue) (view_of (cnext h w lab) lab).
Proof.
  intros HK H. unfold view_of, cnext. destruct (actor lab) as [t|] eqn:Ha.
  2:{ destruct lab; try discriminate Ha. cbn in H. exfalso. exact (cons_self _ _ H). }
  destruct (step_cls w lab t Ha) as (_ & _ & _ & C4 & _).
  destruct (C4 r H) as [A|[(s & v & E & Hs)|(o & n & E)]].
  - eapply HbProof.vle_trans; [apply HK; exact A | apply hb_grows; exact Ha].
  - rewrite E. apply hb_value_load; [exact Ha|]. cbn in *. tauto.
  - rewrite E. apply (hb_cas103 h lab t o n Ha).
Qed.

Lemma K_step w h lab : Inv w -> K w h -> K (fst (step w lab)) (cnext h w lab).
Proof.
  intros I HK. destruct (actor lab) as [t|] eqn:Ha.
  2:{ destruct lab; try discriminate Ha. unfold cnext, chb_step. cbn [actor step fst snd].
      intros u Hu. apply HK. exact Hu. }
  destruct (step_cls w lab t Ha) as (C1 & C2 & C3 & _ & _ & C6).
  intros u Hu. unfold fresh, cnext. destruct (Nat.eq_dec u t) as [->|Hne].
  - destruct (C3 Hu) as [A|[(v & E)|(o & n & E)]].
    + assert (Hn : forall s o n, snd (step w lab) <> EvCas s o n true).
      { intros s o n E. destruct (C1 _ _ _ E) as [_ (d & v & Hp)]. rewrite Hp in A. discriminate A. }
      rewrite hb_rel_same; [|exact Hn|apply (step_stores w lab t Ha)].
      eapply HbProof.vle_trans; [apply HK; exact A | apply hb_grows; exact Ha].
    + rewrite E. rewrite hb_rel_same; [|intros; discriminate|intros; discriminate].
      apply hb_value_load; [exact Ha|]. cbn. tauto.
    + rewrite E. apply (hb_cas103 h lab t o n Ha).
  - rewrite (C6 u Hne) in Hu. rewrite (hb_others h lab _ t u Ha Hne).
    destruct (ev_cas_dec (snd (step w lab))) as [(s & o & n & E)|Hn].
    + exfalso. destruct (C1 _ _ _ E) as [_ (d & v & Hp)].
      assert (M1 : mu w = Some t) by (apply holder; [exact I | rewrite Hp; reflexivity]).
      assert (M2 : mu w = Some u) by (apply holder; [exact I | apply locked_reader_holds; exact Hu]).
      congruence.
    + rewrite hb_rel_same; [|exact Hn|apply (step_stores w lab t Ha)]. apply HK. exact Hu.
Qed.

Lemma K_init v0 c0 progs : K (init v0 c0 progs) chb0.
Proof.
  intros u Hu. exfalso.
  assert (G : pc (get (init v0 c0 progs) u) = Idle).
  { unfold get, init; cbn [thr]. destruct (nth_in_or_default u (map (fun p => mk_t Idle p) progs) dflt) as [H|H].
    - apply in_map_iff in H. destruct H as (p & <- & _). reflexivity.
    - rewrite H. reflexivity. }
  rewrite G in Hu. discriminate Hu.
Qed.

(* ================================================================== *)
(* Part 5: the hand-off through c->value                               *)
(* ================================================================== *)
Lemma run_hb_counter_cons w h lab rest :
  run_hb_counter w h (lab :: rest) =
  mk_cobs lab w (fst (step w lab)) (snd (step w lab)) (view_of h lab) (view_of (cnext h w lab) lab)
    :: run_hb_counter (fst (step w lab)) (cnext h w lab) rest.
Proof. unfold cnext. cbn [run_hb_counter]. destruct (step w lab); reflexivity. Qed.

Lemma return_later : forall sched w h j oj r x,
  Inv w -> K w h -> vle r (crel h LValue) ->
  nth_error (run_hb_counter w h sched) j = Some oj -> counter_returns x oj -> vle r (co_view oj).
Proof.
  induction sched as [|lab rest IH]; intros w h j oj r x I HK Hr Hj Hret.
  - destruct j; discriminate Hj.
  - rewrite run_hb_counter_cons in Hj. destruct j as [|j]; cbn [nth_error] in Hj.
    + injection Hj as <-. destruct Hret as (c & Hl & _). cbn [co_w co_w' co_view] in *.
      eapply HbProof.vle_trans; [exact Hr | eapply return_step; [exact HK | exact Hl]].
    + eapply (IH (fst (step w lab)) (cnext h w lab));
        [apply step_inv; exact I | apply K_step; assumption | apply keep_step; exact Hr | exact Hj | exact Hret].
Qed.

Lemma handoff_gen : forall sched w h i j oi oj y x,
  Inv w -> K w h ->
  nth_error (run_hb_counter w h sched) i = Some oi -> nth_error (run_hb_counter w h sched) j = Some oj -> (i < j)%nat ->
  hist (co_w' oi) = y :: hist (co_w oi) -> counter_returns x oj -> vle (co_view oi) (co_view oj).
Proof.
  induction sched as [|lab rest IH]; intros w h i j oi oj y x I HK Hi Hj Hlt Hch Hret.
  - destruct i; discriminate Hi.
  - rewrite run_hb_counter_cons in Hi, Hj. destruct j as [|j]; [lia|]. cbn [nth_error] in Hj.
    destruct i as [|i]; cbn [nth_error] in Hi.
    + injection Hi as <-. cbn [co_w co_w' co_view] in *.
      eapply (return_later rest (fst (step w lab)) (cnext h w lab));
        [apply step_inv; exact I | apply K_step; assumption | | exact Hj | exact Hret].
      eapply publish_step. exact Hch.
    + eapply (IH (fst (step w lab)) (cnext h w lab));
        [apply step_inv; exact I | apply K_step; assumption | exact Hi | exact Hj | lia | exact Hch | exact Hret].
Qed.

(* for any initial value, number of threads, programs and schedules: the view of the adder at the CAS that changes the
   counter is contained in the view of every thread at every later return of any call on the counter *)
Lemma counter_handoff_any : forall v0 c0 progs sched i j oi oj y x,
  let tr := run_hb_counter (init v0 c0 progs) chb0 sched in
  nth_error tr i = Some oi -> nth_error tr j = Some oj -> (i < j)%nat ->
  hist (co_w' oi) = y :: hist (co_w oi) -> counter_returns x oj ->
  vle (co_view oi) (co_view oj).
Proof.
  intros v0 c0 progs sched i j oi oj y x tr. subst tr.
  apply handoff_gen; [apply init_inv | apply K_init].
Qed.

(* the instance the property names: the decrement that zeroes the counter, and the calls that report zero *)
Lemma counter_handoff : forall v0 c0 progs sched i j oi oj,
  let tr := run_hb_counter (init v0 c0 progs) chb0 sched in
  nth_error tr i = Some oi -> nth_error tr j = Some oj -> (i < j)%nat ->
  counter_zeroes oi -> counter_returns 0 oj ->
  vle (co_view oi) (co_view oj).
Proof. intros v0 c0 progs sched i j oi oj tr. subst tr. unfold counter_zeroes. apply counter_handoff_any. Qed.

(* ================================================================== *)
(* Part 6: (secondary, futex flavour only) the semaphore; program order *)
(* ================================================================== *)
Lemma do_rmw_mono h t l o x : vle (crel h x) (crel (do_rmw h t l o) x).
Proof.
  unfold do_rmw. destruct (has_rel o); cbn [crel]; [|apply HbProof.vle_refl].
  unfold lupdv. destruct (loc_eqb x l) eqn:E; [|apply HbProof.vle_refl].
  apply loc_eqb_eq in E. subst x. apply HbProof.vle_join_l.
Qed.

Lemma sem_keep h lab e u r : vle r (crel h (LSem u)) -> vle r (crel (chb_step h lab e) (LSem u)).
Proof.
  intros Hr. unfold chb_step. destruct (actor lab) as [t|]; [|exact Hr].
  set (h0 := mk_chb _ _). assert (H0 : vle r (crel h0 (LSem u))) by exact Hr. clearbody h0.
  destruct e as [s v|s x v|s o n [|]|x| | | | |];
    try (eapply HbProof.vle_trans; [exact H0 | apply do_rmw_mono]); try exact H0.
  - unfold do_load. destruct (has_acq _); cbn [crel]; rewrite wns_rel by discriminate; exact H0.
  - unfold do_store. cbn [crel]. rewrite lupdv_other; [exact H0|]. intros E. symmetry in E. revert E. apply cloc_not_sem.
Qed.

Lemma post_step h lab t u : actor lab = Some t ->
  vle (cviews (chb_step h lab (EvV u)) t) (crel (chb_step h lab (EvV u)) (LSem u)).
Proof.
  intros Ha. unfold chb_step. rewrite Ha. unfold do_rmw. rewrite (proj1 sem_orders). cbn [cviews crel].
  rewrite cfupd_same, lupdv_same. apply HbProof.vle_join_r.
Qed.

Lemma woken_step h lab u : actor lab = Some u ->
  vle (crel h (LSem u)) (cviews (chb_step h lab EvP) u).
Proof.
  intros Ha. unfold chb_step. rewrite Ha. unfold do_rmw. rewrite (proj2 sem_orders). cbn [cviews crel].
  rewrite cfupd_same. apply HbProof.vle_join_r.
Qed.

Lemma woken_later : forall sched w h j oj u r,
  vle r (crel h (LSem u)) ->
  nth_error (run_hb_counter w h sched) j = Some oj -> counter_woken u oj -> vle r (co_view oj).
Proof.
  induction sched as [|lab rest IH]; intros w h j oj u r Hr Hj Hw.
  - destruct j; discriminate Hj.
  - rewrite run_hb_counter_cons in Hj. destruct j as [|j]; cbn [nth_error] in Hj.
    + injection Hj as <-. destruct Hw as [He Ha]. cbn [co_ev co_lab co_view] in *.
      unfold view_of, cnext. rewrite Ha, He.
      eapply HbProof.vle_trans; [exact Hr | apply woken_step; exact Ha].
    + eapply IH; [|exact Hj|exact Hw]. apply sem_keep. exact Hr.
Qed.

(* futex flavour only: the adder's view at its V on thread u's semaphore is contained in the view of thread u at every
   later successful P *)
Lemma wake_gen : forall sched w h i j oi oj u,
  nth_error (run_hb_counter w h sched) i = Some oi -> nth_error (run_hb_counter w h sched) j = Some oj -> (i < j)%nat ->
  counter_posts u oi -> counter_woken u oj -> vle (co_view oi) (co_view oj).
Proof.
  induction sched as [|lab rest IH]; intros w h i j oi oj u Hi Hj Hlt Hp Hw.
  - destruct i; discriminate Hi.
  - rewrite run_hb_counter_cons in Hi, Hj. destruct j as [|j]; [lia|]. cbn [nth_error] in Hj.
    destruct i as [|i]; cbn [nth_error] in Hi.
    + injection Hi as <-. unfold counter_posts in Hp. cbn [co_ev co_view] in *.
      eapply woken_later; [|exact Hj|exact Hw].
      unfold view_of, cnext. rewrite Hp.
      destruct (actor lab) as [t|] eqn:Ha.
      * apply post_step. exact Ha.
      * destruct lab; try discriminate Ha. cbn in Hp. discriminate Hp.
    + eapply IH; [exact Hi | exact Hj | lia | exact Hp | exact Hw].
Qed.

(* FUTEX FLAVOUR ONLY: credits the compare-and-swap orders of platform/linux/src/nsync_semaphore_futex.c; NOT part of
   the C03 claim, which credits nothing to the sleeping primitive; other semaphore flavours (mutex/condvar, sem_t) have
   no such sites.  The wake-up edge of C03 is [counter_wake_handoff] in Part 7 *)
Lemma counter_sem_handoff : forall v0 c0 progs sched i j oi oj u,
  let tr := run_hb_counter (init v0 c0 progs) chb0 sched in
  nth_error tr i = Some oi -> nth_error tr j = Some oj -> (i < j)%nat ->
  counter_posts u oi -> counter_woken u oj ->
  vle (co_view oi) (co_view oj).
Proof. intros v0 c0 progs sched i j oi oj u tr. subst tr. apply wake_gen. Qed.

(* program order: a thread's view only grows, so what it had at the call of nsync_counter_add it has at the CAS *)
Lemma view_mono_step h lab e t : vle (cviews h t) (cviews (chb_step h lab e) t).
Proof.
  destruct (actor lab) as [t0|] eqn:Ha.
  - destruct (Nat.eq_dec t t0) as [->|Hne].
    + apply hb_grows. exact Ha.
    + rewrite (hb_others h lab e t0 t Ha Hne). apply HbProof.vle_refl.
  - unfold chb_step. rewrite Ha. apply HbProof.vle_refl.
Qed.

Lemma po_later : forall sched w h j oj t r,
  vle r (cviews h t) -> nth_error (run_hb_counter w h sched) j = Some oj -> actor (co_lab oj) = Some t ->
  vle r (co_view oj).
Proof.
  induction sched as [|lab rest IH]; intros w h j oj t r Hr Hj Ha.
  - destruct j; discriminate Hj.
  - rewrite run_hb_counter_cons in Hj. destruct j as [|j]; cbn [nth_error] in Hj.
    + injection Hj as <-. cbn [co_lab co_view] in *. unfold view_of. rewrite Ha.
      eapply HbProof.vle_trans; [exact Hr | apply view_mono_step].
    + eapply IH; [|exact Hj|exact Ha]. eapply HbProof.vle_trans; [exact Hr | apply view_mono_step].
Qed.

Lemma program_order_gen : forall sched w h i j oi oj t,
  nth_error (run_hb_counter w h sched) i = Some oi -> nth_error (run_hb_counter w h sched) j = Some oj -> (i <= j)%nat ->
  actor (co_lab oi) = Some t -> actor (co_lab oj) = Some t -> vle (co_view oi) (co_view oj).
Proof.
  induction sched as [|lab rest IH]; intros w h i j oi oj t Hi Hj Hle Hai Haj.
  - destruct i; discriminate Hi.
  - rewrite run_hb_counter_cons in Hi, Hj. destruct i as [|i]; cbn [nth_error] in Hi.
    + injection Hi as <-. cbn [co_lab co_view] in *. destruct j as [|j]; cbn [nth_error] in Hj.
      * injection Hj as <-. apply HbProof.vle_refl.
      * eapply po_later; [|exact Hj|exact Haj]. unfold view_of. rewrite Hai. apply HbProof.vle_refl.
    + destruct j as [|j]; [lia|]. cbn [nth_error] in Hj.
      eapply IH; [exact Hi | exact Hj | lia | exact Hai | exact Haj].
Qed.

Lemma counter_program_order : forall v0 c0 progs sched i j oi oj t,
  let tr := run_hb_counter (init v0 c0 progs) chb0 sched in
  nth_error tr i = Some oi -> nth_error tr j = Some oj -> (i <= j)%nat ->
  actor (co_lab oi) = Some t -> actor (co_lab oj) = Some t ->
  vle (co_view oi) (co_view oj).
Proof. intros v0 c0 progs sched i j oi oj t tr. subst tr. apply program_order_gen. Qed.

(* ================================================================== *)
(* Part 7: the wake-up hand-off through nw->waiting (add#5 -> dequeue#2) *)
(* ================================================================== *)
(* what one [exec] step does to c->waiters, to the `waiting' flags and to the pc of the stepping thread, and which
   event it emits, pc by pc *)
Definition quiet (w w' : world) (t : nat) (e : ev) : Prop :=
  waiters w' = waiters w /\ waiting w' = waiting w /\
  (forall s x v, e = EvStore s x v -> s = 401) /\ (forall s v, e = EvLoad s v -> s <> 501 /\ s <> 602).

Definition shape (w w' : world) (t : nat) (e : ev) : Prop :=
  match pc (get w t) with
  | AddStore d v =>
      match waiters w with
      | [] => quiet w w' t e
      | u :: rest => waiters w' = rest /\ waiting w' = fupd (waiting w) u nsync_counter_add_store1_new /\
                     e = EvStore 105 u nsync_counter_add_store1_new
      end
  | WEnq dl => waiters w' = waiters w /\ waiting w' = fupd (waiting w) t 0 /\ (exists v, e = EvLoad 501 v)
  | WEnqStore1 dl => waiters w' = waiters w ++ [t] /\ waiting w' = fupd (waiting w) t counter_enqueue_store1_new /\
                     pc (get w' t) = WLoopStore dl /\ e = EvStore 502 t counter_enqueue_store1_new
  | WEnqStore2 dl => waiters w' = waiters w /\ waiting w' = fupd (waiting w) t counter_enqueue_store2_new /\
                     e = EvStore 503 t counter_enqueue_store2_new
  | WLoopStore dl => quiet w w' t e /\ pc (get w' t) = WLoopLoad dl
  | WLoopLoad dl => quiet w w' t e /\ (pc (get w' t) = WP dl \/ pc (get w' t) = WDeq dl)
  | WP dl => quiet w w' t e /\ pc (get w' t) = WLoopStore dl
  | WDeq dl => quiet w w' t e /\ exists v, pc (get w' t) = WDeqLoad dl v
  | WDeqLoad dl v => waiters w' = waiters w /\ waiting w' = waiting w /\ e = EvLoad 602 (waiting w t) /\
                     (waiting w t <> 0 -> pc (get w' t) = WDeqStore dl v)
  | WDeqStore dl v => waiters w' = unlink t (waiters w) /\ waiting w' = fupd (waiting w) t counter_dequeue_store1_new /\
                      e = EvStore 603 t counter_dequeue_store1_new
  | _ => quiet w w' t e
  end.

Lemma quiet_same w t e :
  (forall s x v, e <> EvStore s x v) -> (forall s v, e <> EvLoad s v) -> quiet w w t e.
Proof.
  intros H1 H2. unfold quiet. repeat split; auto.
  - intros s x v E. exfalso. eapply H1. exact E.
  - exfalso. eapply H2. eassumption.
  - exfalso. eapply H2. eassumption.
Qed.

Ltac quiet_tac :=
  unfold quiet; cbn;
  split; [reflexivity|]; split; [reflexivity|];
  split; [ intros ? ? ? E; first [discriminate E | injection E as <- _ _; reflexivity]
         | intros ? ? E; first [discriminate E | injection E as <- _; split; discriminate] ].

Lemma exec_shape w t : shape w (fst (exec w t)) t (snd (exec w t)).
Proof.
  unfold shape. destruct (pc (get w t)) eqn:Hpc0.
  1: { unfold exec. rewrite Hpc0. apply quiet_same; intros; discriminate. }
  21: { unfold exec. rewrite Hpc0. apply quiet_same; intros; discriminate. }
  all: assert (L : live w t) by (apply live_of_pc; rewrite Hpc0; discriminate).
  all: unfold exec; rewrite Hpc0;
       unfold after_cas, after_chk, after_deq, drain, finish_add, crash, ret; brk; cbn [fst snd].
  all: try quiet_tac.
  all: rewrite ?get_set_pc by (unfold live in *; cbn; exact L).
  all: repeat match goal with
         | |- quiet _ _ _ _ /\ _ => split; [quiet_tac|]
         | |- _ /\ _ => split
         end; try reflexivity; eauto.
  all: intros Hnz; exfalso; apply Hnz;
       match goal with H : negb (?x =? 0) = false |- _ => destruct (Z.eqb_spec x 0); [assumption | discriminate H] end.
Qed.

Lemma exec_others w t u : u <> t -> get (fst (exec w t)) u = get w u.
Proof. apply exec_cls. Qed.

(* the pcs of a thread whose record may be on c->waiters: from the return of counter_enqueue to the end of
   counter_dequeue *)
Definition wpc (p : cpc) : bool :=
  match p with WLoopStore _ | WLoopLoad _ | WP _ | WDeq _ | WDeqLoad _ _ | WDeqStore _ _ => true | _ => false end.
(* c->waiters has no duplicates; a record on it belongs to a thread inside nsync_wait_n, and its flag is set *)
Definition Q (w : world) : Prop :=
  NoDup (waiters w) /\ forall u, In u (waiters w) -> wpc (pc (get w u)) = true /\ waiting w u <> 0.

Lemma NoDup_snoc {A} (l : list A) x : NoDup l -> ~ In x l -> NoDup (l ++ [x]).
Proof.
  induction l as [|y l IH]; intros ND Hx; cbn.
  - constructor; [intros []|constructor].
  - inversion ND as [|? ? Hy ND']; subst. constructor.
    + intros H. apply in_app_or in H. destruct H as [H|[H|[]]]; [contradiction|]. subst. apply Hx. left. reflexivity.
    + apply IH; [exact ND'|]. intros H. apply Hx. right. exact H.
Qed.

Lemma enq_store_nz : counter_enqueue_store1_new <> 0. Proof. discriminate. Qed.

Lemma Q_frame w w' t :
  Q w -> (forall u, u <> t -> get w' u = get w u) -> waiters w' = waiters w ->
  (forall u, In u (waiters w) -> waiting w' u = waiting w u) ->
  (In t (waiters w) -> wpc (pc (get w' t)) = true) -> Q w'.
Proof.
  intros [ND HQ] Ho Hw Hg Ht. split; rewrite Hw; [exact ND|].
  intros u Hu. rewrite (Hg u Hu). destruct (HQ u Hu) as [A B]. split; [|exact B].
  destruct (Nat.eq_dec u t) as [->|Hne]; [apply Ht; exact Hu | rewrite (Ho u Hne); exact A].
Qed.

Lemma Q_exec w t : Q w -> Q (fst (exec w t)).
Proof.
  intros HQ. pose proof (exec_shape w t) as S. pose proof (exec_others w t) as Ho.
  destruct HQ as [ND HQ']. assert (HQ : Q w) by (split; assumption).
  assert (Hnt : wpc (pc (get w t)) = false -> ~ In t (waiters w)).
  { intros E Hin. destruct (HQ' t Hin) as [A _]. congruence. }
  set (w' := fst (exec w t)) in *. set (e := snd (exec w t)) in *. clearbody w' e.
  unfold shape in S. destruct (pc (get w t)) eqn:Hpc;
    try (destruct S as (Sw & Sg & _); apply (Q_frame w w' t HQ Ho Sw); [intros x _; rewrite Sg; reflexivity|];
         intros Hin; exfalso; revert Hin; apply Hnt; reflexivity).
  - (* AddStore *)
    destruct (waiters w) as [|u rest] eqn:Ew.
    { destruct S as (Sw & Sg & _). apply (Q_frame w w' t HQ Ho); [congruence | intros x _; rewrite Sg; reflexivity|].
      rewrite Ew. intros []. }
    destruct S as (Sw & Sg & _). apply NoDup_cons_iff in ND. destruct ND as [Hu ND']. split; rewrite Sw; [exact ND'|].
    intros x Hx. destruct (HQ' x (or_intror Hx)) as [A B].
    assert (x <> t) by (intros ->; rewrite Hpc in A; discriminate A).
    assert (x <> u) by (intros ->; contradiction).
    rewrite Ho by assumption. rewrite Sg, cfupd_other by assumption. split; assumption.
  - (* WEnq *)
    destruct S as (Sw & Sg & _). apply (Q_frame w w' t HQ Ho Sw).
    + intros u Hu. rewrite Sg. apply cfupd_other. intros ->. revert Hu. apply Hnt. reflexivity.
    + intros Hin. exfalso. revert Hin. apply Hnt. reflexivity.
  - (* WEnqStore1 *)
    destruct S as (Sw & Sg & Sp & _). split; rewrite Sw.
    + apply NoDup_snoc; [exact ND | apply Hnt; reflexivity].
    + intros x Hx. apply in_app_or in Hx. destruct Hx as [Hx|[<-|[]]].
      * destruct (HQ' x Hx) as [A B]. assert (x <> t) by (intros ->; rewrite Hpc in A; discriminate A).
        rewrite Ho by assumption. rewrite Sg, cfupd_other by assumption. split; assumption.
      * rewrite Sp, Sg, cfupd_same. split; [reflexivity | apply enq_store_nz].
  - (* WEnqStore2 *)
    destruct S as (Sw & Sg & _). apply (Q_frame w w' t HQ Ho Sw).
    + intros u Hu. rewrite Sg. apply cfupd_other. intros ->. revert Hu. apply Hnt. reflexivity.
    + intros Hin. exfalso. revert Hin. apply Hnt. reflexivity.
  - (* WLoopStore *)
    destruct S as ((Sw & Sg & _) & Sp). apply (Q_frame w w' t HQ Ho Sw); [intros x _; rewrite Sg; reflexivity|].
    intros _. rewrite Sp. reflexivity.
  - (* WLoopLoad *)
    destruct S as ((Sw & Sg & _) & Sp). apply (Q_frame w w' t HQ Ho Sw); [intros x _; rewrite Sg; reflexivity|].
    intros _. destruct Sp as [-> | ->]; reflexivity.
  - (* WP *)
    destruct S as ((Sw & Sg & _) & Sp). apply (Q_frame w w' t HQ Ho Sw); [intros x _; rewrite Sg; reflexivity|].
    intros _. rewrite Sp. reflexivity.
  - (* WDeq *)
    destruct S as ((Sw & Sg & _) & (v & Sp)). apply (Q_frame w w' t HQ Ho Sw); [intros x _; rewrite Sg; reflexivity|].
    intros _. rewrite Sp. reflexivity.
  - (* WDeqLoad *)
    destruct S as (Sw & Sg & _ & Sp). apply (Q_frame w w' t HQ Ho Sw); [intros x _; rewrite Sg; reflexivity|].
    intros Hin. destruct (HQ' t Hin) as [_ B]. rewrite (Sp B). reflexivity.
  - (* WDeqStore *)
    destruct S as (Sw & Sg & _). split; rewrite Sw.
    + unfold unlink. apply NoDup_filter. exact ND.
    + intros x Hx. unfold unlink in Hx. apply filter_In in Hx. destruct Hx as [Hx Hne].
      apply negb_true_iff, Nat.eqb_neq in Hne.
      destruct (HQ' x Hx) as [A B]. rewrite Ho by assumption. rewrite Sg, cfupd_other by assumption. split; assumption.
Qed.

Lemma Q_begin w t : Q w -> Q (begin_call w t).
Proof.
  intros HQ. destruct (begin_shared w t) as (_ & _ & _ & B4 & _ & _ & B7).
  apply (Q_frame w _ t HQ); [intros u Hu; apply begin_others; exact Hu | exact B4 | intros u _; rewrite B7; reflexivity|].
  intros Hin. destruct HQ as [_ HQ]. destruct (HQ t Hin) as [A _].
  rewrite begin_idle; [exact A|]. intros E. rewrite E in A. discriminate A.
Qed.

Lemma Q_step w lab : Q w -> Q (fst (step w lab)).
Proof.
  intros HQ. destruct lab as [t|t|d]; cbn [step].
  - destruct (enabled_pc (begin_call w t) t (pc (get (begin_call w t) t))); [|exact HQ].
    apply Q_exec, Q_begin, HQ.
  - destruct (pc (get w t)) eqn:Hpc; try exact HQ. destruct dl as [z|]; [|exact HQ].
    destruct (z <=? clock w); [|exact HQ]. cbn [fst].
    assert (L : live w t) by (apply live_of_pc; rewrite Hpc; discriminate).
    apply (Q_frame w _ t HQ); [cls_others | reflexivity | reflexivity |].
    intros _. rewrite get_set_pc by (unfold live in *; cbn; exact L). reflexivity.
  - exact HQ.
Qed.

Lemma Q_init v0 c0 progs : Q (init v0 c0 progs).
Proof. split; cbn; [constructor | intros u []]. Qed.

(* the state of a woken waiter u between the adder's ATM_STORE_REL (&nw->waiting, 0) and its own load of the flag in
   counter_dequeue: its record is off the list, it is between the return of counter_enqueue and that load, the flag is 0 *)
Definition wpc5 (p : cpc) : bool :=
  match p with WLoopStore _ | WLoopLoad _ | WP _ | WDeq _ | WDeqLoad _ _ => true | _ => false end.
Definition R (u : nat) (w : world) : Prop :=
  ~ In u (waiters w) /\ wpc5 (pc (get w u)) = true /\ waiting w u = 0.
(* event e of thread t does not write nw->waiting of thread u's record *)
Definition untouched (u t : nat) (e : ev) : Prop :=
  (forall s x v, e = EvStore s x v -> s = 401 \/ x <> u) /\ (forall v, e = EvLoad 501 v -> t <> u).

Lemma quiet_untouched w w' t e u : quiet w w' t e -> untouched u t e.
Proof.
  intros (_ & _ & A & B). split.
  - intros s x v E. left. eapply A. exact E.
  - intros v E. exfalso. destruct (B _ _ E) as [C _]. apply C. reflexivity.
Qed.

Lemma R_frame u w w' : R u w -> get w' u = get w u -> waiters w' = waiters w -> waiting w' = waiting w -> R u w'.
Proof. intros (A & B & C) H1 H2 H3. unfold R. rewrite H1, H2, H3. auto. Qed.

Lemma R_exec u w t :
  R u w -> ~ (t = u /\ exists x, snd (exec w t) = EvLoad 602 x) ->
  R u (fst (exec w t)) /\ untouched u t (snd (exec w t)).
Proof.
  intros HR Hn. pose proof (exec_shape w t) as S. pose proof (exec_others w t) as Ho.
  set (w' := fst (exec w t)) in *. set (e := snd (exec w t)) in *. clearbody w' e.
  destruct HR as (Rw & Rp & Rg). unfold shape in S.
  destruct (Nat.eq_dec t u) as [->|Hne].
  - (* the waiter itself *)
    destruct (pc (get w u)) eqn:Hpc; try discriminate Rp.
    + destruct S as (S & Sp). split; [|eapply quiet_untouched; exact S].
      destruct S as (Sw & Sg & _). unfold R. rewrite Sw, Sg, Sp. auto.
    + destruct S as (S & Sp). split; [|eapply quiet_untouched; exact S].
      destruct S as (Sw & Sg & _). unfold R. rewrite Sw, Sg. destruct Sp as [-> | ->]; auto.
    + destruct S as (S & Sp). split; [|eapply quiet_untouched; exact S].
      destruct S as (Sw & Sg & _). unfold R. rewrite Sw, Sg, Sp. auto.
    + destruct S as (S & (x & Sp)). split; [|eapply quiet_untouched; exact S].
      destruct S as (Sw & Sg & _). unfold R. rewrite Sw, Sg, Sp. auto.
    + exfalso. apply Hn. split; [reflexivity|]. destruct S as (_ & _ & E & _). eexists. exact E.
  - (* another thread *)
    assert (Hu : get w' u = get w u) by (apply Ho; congruence).
    assert (HR : R u w) by (repeat split; assumption).
    destruct (pc (get w t)) eqn:Hpc;
      try (split; [destruct S as (Sw & Sg & _); apply (R_frame u w w' HR Hu Sw Sg) | eapply quiet_untouched; exact S]);
      try (destruct S as (S & _); split; [destruct S as (Sw & Sg & _); apply (R_frame u w w' HR Hu Sw Sg)
                                         | eapply quiet_untouched; exact S]).
    + (* AddStore *)
      destruct (waiters w) as [|x rest] eqn:Ew.
      { split; [destruct S as (Sw & Sg & _); apply (R_frame u w w' HR Hu); [congruence | exact Sg]
               | eapply quiet_untouched; exact S]. }
      destruct S as (Sw & Sg & Se). assert (x <> u) by (intros ->; apply Rw; left; reflexivity).
      split.
      * unfold R. rewrite Hu, Sw, Sg, cfupd_other by congruence. repeat split; auto. intros H1. apply Rw. right. exact H1.
      * split; [intros s y v' E; rewrite Se in E; injection E as _ <- _; right; assumption
               | intros v' E; rewrite Se in E; discriminate E].
    + (* WEnq *)
      destruct S as (Sw & Sg & (v & Se)). split.
      * unfold R. rewrite Hu, Sw, Sg, cfupd_other by congruence. auto.
      * split; [intros s y v' E; rewrite Se in E; discriminate E | intros _ _; exact Hne].
    + (* WEnqStore1 *)
      destruct S as (Sw & Sg & _ & Se). split.
      * unfold R. rewrite Hu, Sw, Sg, cfupd_other by congruence. repeat split; auto.
        intros H1. apply in_app_or in H1. destruct H1 as [H1|[H1|[]]]; [contradiction | congruence].
      * split; [intros s y v' E; rewrite Se in E; injection E as _ <- _; right; assumption
               | intros v' E; rewrite Se in E; discriminate E].
    + (* WEnqStore2 *)
      destruct S as (Sw & Sg & Se). split.
      * unfold R. rewrite Hu, Sw, Sg, cfupd_other by congruence. auto.
      * split; [intros s y v' E; rewrite Se in E; injection E as _ <- _; right; assumption
               | intros v' E; rewrite Se in E; discriminate E].
    + (* WDeqLoad *)
      destruct S as (Sw & Sg & Se & _). split; [apply (R_frame u w w' HR Hu Sw Sg)|].
      split; [intros s y v' E; rewrite Se in E; discriminate E | intros v' E; rewrite Se in E; discriminate E].
    + (* WDeqStore *)
      destruct S as (Sw & Sg & Se). split.
      * unfold R. rewrite Hu, Sw, Sg, cfupd_other by congruence. repeat split; auto.
        intros H1. apply unlink_sub in H1. contradiction.
      * split; [intros s y v' E; rewrite Se in E; injection E as _ <- _; right; assumption
               | intros v' E; rewrite Se in E; discriminate E].
Qed.

Lemma R_begin u w t : R u w -> R u (begin_call w t).
Proof.
  intros HR. destruct (begin_shared w t) as (_ & _ & _ & B4 & _ & _ & B7).
  apply (R_frame u w _ HR); [|exact B4|exact B7].
  destruct (Nat.eq_dec u t) as [->|Hne]; [|apply begin_others; exact Hne].
  destruct HR as (_ & A & _). rewrite begin_idle; [reflexivity|]. intros E. rewrite E in A. discriminate A.
Qed.

Lemma untouched_none u t e :
  (forall s x v, e <> EvStore s x v) -> (forall s v, e <> EvLoad s v) -> untouched u t e.
Proof. intros H1 H2. split; [intros s x v E; exfalso; eapply H1; exact E | intros v E; exfalso; eapply H2; exact E]. Qed.

(* R is kept by every step that is not u's load of its flag in counter_dequeue, and no such step writes the flag *)
Lemma R_step u w lab :
  R u w -> ~ (actor lab = Some u /\ exists x, snd (step w lab) = EvLoad 602 x) ->
  R u (fst (step w lab)) /\ forall t, actor lab = Some t -> untouched u t (snd (step w lab)).
Proof.
  intros HR Hn. destruct lab as [t|t|d]; cbn [step actor] in *.
  - destruct (enabled_pc (begin_call w t) t (pc (get (begin_call w t) t))).
    2:{ split; [exact HR|]. intros t0 _. apply untouched_none; intros; discriminate. }
    destruct (R_exec u (begin_call w t) t (R_begin u w t HR)) as [A B].
    + intros [-> H]. apply Hn. split; [reflexivity | exact H].
    + split; [exact A|]. intros t0 E. injection E as <-. exact B.
  - assert (U : forall t0 : nat, Some t = Some t0 -> untouched u t0 EvTimeout /\ untouched u t0 EvBlocked).
    { intros t0 _. split; apply untouched_none; intros; discriminate. }
    destruct (pc (get w t)) eqn:Hpc; try (split; [exact HR | intros t0 E; apply (U t0 E)]).
    destruct dl as [z|]; [|split; [exact HR | intros t0 E; apply (U t0 E)]].
    destruct (z <=? clock w); [|split; [exact HR | intros t0 E; apply (U t0 E)]].
    cbn [fst snd]. split; [|intros t0 E; apply (U t0 E)].
    assert (L : live w t) by (apply live_of_pc; rewrite Hpc; discriminate).
    destruct HR as (A & B & C). unfold R. split; [exact A|]. split; [|exact C].
    destruct (Nat.eq_dec u t) as [->|Hne].
    + rewrite get_set_pc by (unfold live in *; cbn; exact L). reflexivity.
    + unfold get. cbn. rewrite nth_lupd_other by congruence. exact B.
  - split; [exact HR|]. intros t0 E. discriminate E.
Qed.

(* an event that does not write nw->waiting of u's record takes nothing out of its release view *)
Lemma flag_keep h lab t e u r :
  actor lab = Some t -> untouched u t e ->
  vle r (crel h (LWaiting u)) -> vle r (crel (chb_step h lab e) (LWaiting u)).
Proof.
  intros Ha [U1 U2] Hr. unfold chb_step. rewrite Ha.
  set (h0 := mk_chb _ _). assert (H0 : vle r (crel h0 (LWaiting u))) by exact Hr. clearbody h0.
  destruct e as [s v|s x v|s o n [|]|x| | | | |];
    try (eapply HbProof.vle_trans; [exact H0 | apply do_rmw_mono]); try exact H0.
  - assert (E : crel (wait_n_store h0 t s) (LWaiting u) = crel h0 (LWaiting u)).
    { destruct (Z.eq_dec s 501) as [->|Hs]; [|rewrite wns_not501 by exact Hs; reflexivity].
      apply wns_rel. intros E. injection E as E. symmetry in E. revert E. eapply U2. reflexivity. }
    unfold do_load. destruct (has_acq _); cbn [crel]; rewrite E; exact H0.
  - unfold do_store. cbn [crel]. rewrite lupdv_other; [exact H0|].
    intros E. symmetry in E. destruct (U1 s x v eq_refl) as [->|Hx].
    + rewrite store401 in E. discriminate E.
    + apply cloc_waiting in E. congruence.
Qed.

Lemma shape_105 w w' t e u v :
  shape w w' t e -> e = EvStore 105 u v ->
  exists d v' rest, pc (get w t) = AddStore d v' /\ waiters w = u :: rest /\ waiters w' = rest /\
                    waiting w' = fupd (waiting w) u nsync_counter_add_store1_new.
Proof.
  intros S E. unfold shape in S.
  destruct (pc (get w t)) eqn:Hpc;
    try (exfalso;
         first [ destruct S as (_ & _ & A & _); specialize (A _ _ _ E); discriminate A
               | destruct S as ((_ & _ & A & _) & _); specialize (A _ _ _ E); discriminate A
               | destruct S as (_ & _ & (x & A)); rewrite A in E; discriminate E
               | destruct S as (_ & _ & _ & A); rewrite A in E; discriminate E
               | destruct S as (_ & _ & A & _); rewrite A in E; discriminate E
               | destruct S as (_ & _ & A); rewrite A in E; discriminate E ]).
  destruct (waiters w) as [|y rest] eqn:Ew.
  { exfalso. destruct S as (_ & _ & A & _). specialize (A _ _ _ E). discriminate A. }
  destruct S as (Sw & Sg & Se). rewrite Se in E. injection E as -> _. eauto 8.
Qed.

Lemma shape_602 w w' t e x : shape w w' t e -> e = EvLoad 602 x -> x = waiting w t.
Proof.
  intros S E. unfold shape in S.
  destruct (pc (get w t)) eqn:Hpc;
    try (exfalso;
         first [ destruct S as (_ & _ & _ & A); destruct (A _ _ E) as [_ B]; apply B; reflexivity
               | destruct S as ((_ & _ & _ & A) & _); destruct (A _ _ E) as [_ B]; apply B; reflexivity
               | destruct S as (_ & _ & (y & A)); rewrite A in E; discriminate E
               | destruct S as (_ & _ & _ & A); rewrite A in E; discriminate E
               | destruct S as (_ & _ & A); rewrite A in E; discriminate E ]).
  - destruct (waiters w) as [|y rest] eqn:Ew.
    + exfalso. destruct S as (_ & _ & _ & A). destruct (A _ _ E) as [_ B]. apply B. reflexivity.
    + exfalso. destruct S as (_ & _ & A). rewrite A in E. discriminate E.
  - destruct S as (_ & _ & A & _). rewrite A in E. injection E as <-. reflexivity.
Qed.

(* the adder's release store: it holds counter_mu, so the thread whose record it pops is not inside counter_dequeue *)
Lemma wake_start w h lab t u v :
  Inv w -> Q w -> actor lab = Some t -> snd (step w lab) = EvStore 105 u v ->
  R u (fst (step w lab)) /\ vle (view_of (cnext h w lab) lab) (crel (cnext h w lab) (LWaiting u)).
Proof.
  intros I HQ Ha E. split.
  - destruct lab as [t0|t0|d]; cbn [actor] in Ha; try discriminate Ha; injection Ha as ->; cbn [step] in *.
    2:{ exfalso. destruct (pc (get w t)); try discriminate E. destruct dl; try discriminate E.
        destruct (z <=? clock w); discriminate E. }
    destruct (enabled_pc (begin_call w t) t (pc (get (begin_call w t) t))); [|discriminate E].
    pose proof (begin_inv w t I) as I1. pose proof (Q_begin w t HQ) as Q1.
    set (w1 := begin_call w t) in *. clearbody w1.
    destruct (shape_105 _ _ _ _ _ _ (exec_shape w1 t) E) as (d & v' & rest & Hpc & Ew & Ew' & Eg).
    destruct Q1 as [ND Q1]. rewrite Ew in ND. apply NoDup_cons_iff in ND. destruct ND as [Hu _].
    destruct (Q1 u) as [Pu _]; [rewrite Ew; left; reflexivity|].
    assert (Hne : u <> t) by (intros ->; rewrite Hpc in Pu; discriminate Pu).
    assert (M : mu w1 = Some t) by (apply holder; [exact I1 | rewrite Hpc; reflexivity]).
    unfold R. rewrite Ew', Eg, cfupd_same, (exec_others w1 t u Hne). split; [exact Hu|]. split; [|reflexivity].
    destruct (pc (get w1 u)) eqn:Hpu; try discriminate Pu; try reflexivity.
    exfalso. assert (M' : mu w1 = Some u) by (apply holder; [exact I1 | rewrite Hpu; reflexivity]). congruence.
  - unfold cnext, view_of. rewrite E, Ha. destruct store105 as [Hr Hl].
    unfold chb_step. rewrite Ha. unfold do_store. rewrite Hr, Hl. cbn [cviews crel]. rewrite lupdv_same.
    apply HbProof.vle_refl.
Qed.

(* the waiter's acquire load: it reads the 0 the adder stored and joins the release view of its flag *)
Lemma wake_end w h lab u r x :
  R u w -> vle r (crel h (LWaiting u)) -> actor lab = Some u -> snd (step w lab) = EvLoad 602 x ->
  x = 0 /\ vle r (view_of (cnext h w lab) lab).
Proof.
  intros (_ & _ & Rg) Hr Ha E. split.
  - destruct lab as [t0|t0|d]; cbn [actor] in Ha; try discriminate Ha; injection Ha as ->; cbn [step] in *.
    2:{ exfalso. destruct (pc (get w u)); try discriminate E. destruct dl; try discriminate E.
        destruct (z <=? clock w); discriminate E. }
    destruct (enabled_pc (begin_call w u) u (pc (get (begin_call w u) u))); [|discriminate E].
    rewrite (shape_602 _ _ _ _ _ (exec_shape (begin_call w u) u) E).
    destruct (begin_shared w u) as (_ & _ & _ & _ & _ & _ & B7). rewrite B7. exact Rg.
  - unfold cnext, view_of. rewrite E, Ha. destruct load602 as [Hq Hl].
    unfold chb_step. rewrite Ha. unfold do_load. rewrite Hq, Hl, wns_not501 by discriminate. cbn [cviews crel].
    rewrite cfupd_same. eapply HbProof.vle_trans; [exact Hr | apply HbProof.vle_join_r].
Qed.

Lemma wake_later : forall sched w h j oj u r,
  R u w -> vle r (crel h (LWaiting u)) ->
  nth_error (run_hb_counter w h sched) j = Some oj -> counter_dequeue_load u oj ->
  (forall k ok, (k < j)%nat -> nth_error (run_hb_counter w h sched) k = Some ok -> ~ counter_dequeue_load u ok) ->
  co_ev oj = EvLoad 602 0 /\ vle r (co_view oj).
Proof.
  induction sched as [|lab rest IH]; intros w h j oj u r HR Hr Hj Hl Hfirst.
  - destruct j; discriminate Hj.
  - rewrite run_hb_counter_cons in Hj, Hfirst. destruct j as [|j]; cbn [nth_error] in Hj.
    + injection Hj as <-. destruct Hl as (x & He & Ha). cbn [co_ev co_lab co_view] in *.
      destruct (wake_end w h lab u r x HR Hr Ha He) as [-> A]. split; [exact He | exact A].
    + assert (Hn : ~ (actor lab = Some u /\ exists x, snd (step w lab) = EvLoad 602 x)).
      { intros [Ha (x & He)]. apply (Hfirst 0%nat _ (Nat.lt_0_succ j) eq_refl). exists x. split; assumption. }
      destruct (R_step u w lab HR Hn) as [HR' Hu].
      apply (IH (fst (step w lab)) (cnext h w lab) j oj u r HR'); [|exact Hj|exact Hl|].
      * unfold cnext. destruct (actor lab) as [t|] eqn:Ha.
        -- apply (flag_keep h lab t _ u r Ha (Hu t eq_refl) Hr).
        -- unfold chb_step. rewrite Ha. exact Hr.
      * intros k ok Hk Hnk. apply (Hfirst (S k) ok); [lia | exact Hnk].
Qed.

Lemma wake_gen2 : forall sched w h i j oi oj u,
  Inv w -> Q w ->
  nth_error (run_hb_counter w h sched) i = Some oi -> nth_error (run_hb_counter w h sched) j = Some oj -> (i < j)%nat ->
  counter_wakes u oi -> counter_dequeue_load u oj ->
  (forall k ok, (i < k < j)%nat -> nth_error (run_hb_counter w h sched) k = Some ok -> ~ counter_dequeue_load u ok) ->
  co_ev oj = EvLoad 602 0 /\ vle (co_view oi) (co_view oj).
Proof.
  induction sched as [|lab rest IH]; intros w h i j oi oj u I HQ Hi Hj Hlt Hw Hl Hfirst.
  - destruct i; discriminate Hi.
  - rewrite run_hb_counter_cons in Hi, Hj, Hfirst. destruct j as [|j]; [lia|]. cbn [nth_error] in Hj.
    destruct i as [|i]; cbn [nth_error] in Hi.
    + injection Hi as <-. destruct Hw as (v & He). cbn [co_ev co_view] in *.
      destruct (actor lab) as [t|] eqn:Ha.
      2:{ destruct lab; try discriminate Ha. cbn in He. discriminate He. }
      destruct (wake_start w h lab t u v I HQ Ha He) as [HR Hr].
      apply (wake_later rest _ _ j oj u _ HR Hr Hj Hl).
      intros k ok Hk Hnk. apply (Hfirst (S k) ok); [lia | exact Hnk].
    + apply (IH (fst (step w lab)) (cnext h w lab) i j oi oj u);
        [apply step_inv; exact I | apply Q_step; exact HQ | exact Hi | exact Hj | lia | exact Hw | exact Hl |].
      intros k ok Hk Hnk. apply (Hfirst (S k) ok); [lia | exact Hnk].
Qed.

(* THE wake-up edge of C03: the adder's ATM_STORE_REL (&nw->waiting, 0) on thread u's record, and thread u's next
   ATM_LOAD_ACQ (&nw->waiting) in counter_dequeue: the load reads that 0, and the adder's view at the store is contained
   in the waiter's view after the load.  Credited to the release order of add#5 and the acquire order of dequeue#2 only:
   no semaphore location is involved *)
Lemma counter_wake_handoff : forall v0 c0 progs sched i j oi oj u,
  let tr := run_hb_counter (init v0 c0 progs) chb0 sched in
  nth_error tr i = Some oi -> nth_error tr j = Some oj -> (i < j)%nat ->
  counter_wakes u oi -> counter_dequeue_load u oj ->
  (forall k ok, (i < k < j)%nat -> nth_error tr k = Some ok -> ~ counter_dequeue_load u ok) ->
  co_ev oj = EvLoad 602 0 /\ vle (co_view oi) (co_view oj).
Proof.
  intros v0 c0 progs sched i j oi oj u tr. subst tr.
  apply wake_gen2; [apply init_inv | apply Q_init].
Qed.
