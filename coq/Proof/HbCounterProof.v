(* C03, counter hand-off: in every execution of CounterModel, instrumented by Model/HbCounter.v (which credits ONLY
   the memory orders requested in the C source, Gen/Sites.v), the view of the thread whose nsync_counter_add changes the
   counter (in particular: zeroes it), at its compare-and-swap, is contained in the view of every thread at every later
   return of nsync_counter_wait / nsync_counter_value / nsync_counter_add; and the view of an adder at its V on a
   waiter's semaphore is contained in the view of that waiter at every later successful P.
   Part 1 is the only place where the regenerated inventory is evaluated: if the CAS of nsync_counter_add lost its
   release or its acquire half, or one of the loads of c->value whose result a call returns (add#1, value#1, wait#1,
   ready_time#2) or on which a return under counter_mu relies (dequeue#1) became relaxed, or a plain store to
   c->value appeared in a modelled function, [counter_orders] fails and with it everything below; likewise
   [sem_orders] for the CAS of nsync_mu_semaphore_v (release) and of nsync_mu_semaphore_p / _p_with_deadline (acquire).
   No axioms, nothing admitted. *)
From Coq Require Import List ZArith Bool String Lia PeanoNat Arith.
From NsyncBase Require Import CSem.
From NsyncGen Require Import Consts Sites.
From NsyncModel Require Import HbModel.
From NsyncModel Require HbOnce.
From NsyncProof Require HbProof.
From NsyncModel Require Import CounterModel HbCounter.
From NsyncProof Require Import CounterProof.
Import ListNotations.
Local Open Scope Z_scope.

(* ================================================================== *)
(* Part 1: the orders and locations the proof needs, from the inventory *)
(* ================================================================== *)
Lemma counter_orders :
  (* the decrement is an acq_rel read-modify-write of c->value *)
  has_rel (corder Kcas 103) = true /\ has_acq (corder Kcas 103) = true /\ (forall u, cloc 103 u = LValue) /\
  (* the loads of c->value a return relies on are acquire *)
  Forall (fun s => has_acq (corder Kload s) = true /\ forall u, cloc s u = LValue) [101; 201; 301; 402; 601] /\
  (* no plain store of a modelled function is to c->value *)
  Forall (fun s => forall u, cloc s u <> LValue) [105; 401; 502; 503; 603].
Proof.
  split; [vm_compute; reflexivity|]. split; [vm_compute; reflexivity|]. split; [intros u; vm_compute; reflexivity|].
  split; repeat constructor; try (vm_compute; reflexivity); intros u; vm_compute; discriminate.
Qed.

(* the futex semaphore: V's compare-and-swap is a release, P's (both variants) an acquire *)
Lemma sem_orders : has_rel sem_v_order = true /\ has_acq sem_p_order = true.
Proof. split; vm_compute; reflexivity. Qed.

Lemma cas103 : has_rel (corder Kcas 103) = true /\ has_acq (corder Kcas 103) = true /\ forall u, cloc 103 u = LValue.
Proof. destruct counter_orders as (A & B & C & _). auto. Qed.
Lemma value_load s : In s [101; 201; 301; 402; 601] ->
  has_acq (corder Kload s) = true /\ forall u, cloc s u = LValue.
Proof. destruct counter_orders as (_ & _ & _ & A & _). apply (proj1 (Forall_forall _ _) A). Qed.
Lemma store_not_value s u : In s [105; 401; 502; 503; 603] -> cloc s u <> LValue.
Proof. destruct counter_orders as (_ & _ & _ & _ & A). intros H. apply (proj1 (Forall_forall _ _) A s H). Qed.

(* the inventory lookup never yields a semaphore word *)
Lemma cloc_not_sem s u v : cloc s u <> LSem v.
Proof.
  unfold cloc. destruct (csite s) as [x|]; [|discriminate].
  repeat match goal with |- context [if ?c then _ else _] => destruct c end; discriminate.
Qed.

(* from here on orders and locations are used through the lemmas above only *)
Local Opaque corder cloc sem_v_order sem_p_order.

(* ================================================================== *)
(* Part 2: views and the instrumentation                               *)
(* ================================================================== *)
Lemma vle_tick v t : vle v (vtick v t).
Proof. intros x. unfold vtick. destruct (Nat.eqb x t); lia. Qed.
Lemma vle_join_lub a b c : vle a c -> vle b c -> vle (vjoin a b) c.
Proof. intros H1 H2 x. specialize (H1 x). specialize (H2 x). unfold vjoin. lia. Qed.

Lemma cfupd_same {A} (f : nat -> A) k v : fupd f k v k = v.
Proof. unfold fupd. now rewrite Nat.eqb_refl. Qed.
Lemma cfupd_other {A} (f : nat -> A) k v x : x <> k -> fupd f k v x = f x.
Proof. unfold fupd. intros H. destruct (Nat.eqb_spec x k); congruence. Qed.

Lemma loc_eqb_eq a b : loc_eqb a b = true -> a = b.
Proof. destruct a, b; cbn; try discriminate; auto; intros H; apply Nat.eqb_eq in H; congruence. Qed.
Lemma loc_eqb_refl a : loc_eqb a a = true.
Proof. destruct a; cbn; auto; apply Nat.eqb_refl. Qed.
Lemma lupdv_same f l v : lupdv f l v l = v.
Proof. unfold lupdv. now rewrite loc_eqb_refl. Qed.
Lemma lupdv_other f l v x : x <> l -> lupdv f l v x = f x.
Proof. unfold lupdv. intros H. destruct (loc_eqb x l) eqn:E; [apply loc_eqb_eq in E; congruence|reflexivity]. Qed.

Lemma ev_cas_dec (e : ev) : (exists s o n, e = EvCas s o n true) \/ (forall s o n, e <> EvCas s o n true).
Proof. destruct e as [| |s o n [|]| | | | | |]; try (right; intros; discriminate). left; eauto. Qed.

(* the views of the other threads are untouched *)
Lemma hb_others h lab e t u : actor lab = Some t -> u <> t -> cviews (chb_step h lab e) u = cviews h u.
Proof.
  intros Ha Hu. unfold chb_step. rewrite Ha.
  destruct e as [s v|s x v|s o n [|]|x| | | | |]; unfold do_load, do_store, do_rmw;
    try destruct (has_acq _); cbn [cviews]; rewrite ?cfupd_other by exact Hu; reflexivity.
Qed.

(* a thread's own view only grows *)
Lemma hb_grows h lab e t : actor lab = Some t -> vle (cviews h t) (cviews (chb_step h lab e) t).
Proof.
  intros Ha. unfold chb_step. rewrite Ha.
  destruct e as [s v|s x v|s o n [|]|x| | | | |]; unfold do_load, do_store, do_rmw;
    try destruct (has_acq _); cbn [cviews crel]; rewrite ?cfupd_same;
    first [ apply vle_tick
          | eapply HbProof.vle_trans; [apply vle_tick | apply HbProof.vle_join_l] ].
Qed.

(* an event that is neither a successful CAS nor a store to c->value leaves the release view of c->value alone *)
Lemma hb_rel_same h lab e :
  (forall s o n, e <> EvCas s o n true) -> (forall s u v, e = EvStore s u v -> cloc s u <> LValue) ->
  crel (chb_step h lab e) LValue = crel h LValue.
Proof.
  intros Hc Hs. unfold chb_step. destruct (actor lab) as [t|]; [|reflexivity].
  destruct e as [s v|s x v|s o n [|]|x| | | | |]; unfold do_load, do_store, do_rmw;
    try destruct (has_acq _); try destruct (has_rel _); cbn [cviews crel];
    first [ reflexivity
          | exfalso; eapply Hc; reflexivity
          | apply lupdv_other;
            first [ discriminate | intros E; symmetry in E; revert E; eapply Hs; reflexivity ] ].
Qed.

(* the CAS of nsync_counter_add: acquire and release on c->value *)
Lemma hb_cas103 h lab t o n :
  actor lab = Some t ->
  vle (crel h LValue) (cviews (chb_step h lab (EvCas 103 o n true)) t) /\
  vle (cviews (chb_step h lab (EvCas 103 o n true)) t) (crel (chb_step h lab (EvCas 103 o n true)) LValue) /\
  vle (crel (chb_step h lab (EvCas 103 o n true)) LValue) (cviews (chb_step h lab (EvCas 103 o n true)) t).
Proof.
  intros Ha. destruct cas103 as (Hr & Hq & Hl).
  unfold chb_step. rewrite Ha. unfold do_rmw. rewrite Hr, Hq, Hl. cbn [cviews crel].
  rewrite cfupd_same, lupdv_same. split; [apply HbProof.vle_join_r|]. split; [apply HbProof.vle_join_r|].
  apply vle_join_lub; [apply HbProof.vle_join_r | apply HbProof.vle_refl].
Qed.

(* an acquire load of c->value *)
Lemma hb_value_load h lab t s v :
  actor lab = Some t -> In s [101; 201; 301; 402; 601] ->
  vle (crel h LValue) (cviews (chb_step h lab (EvLoad s v)) t).
Proof.
  intros Ha Hs. destruct (value_load s Hs) as [Hq Hl].
  unfold chb_step. rewrite Ha. unfold do_load. rewrite Hq, Hl. cbn [cviews crel].
  rewrite cfupd_same. apply HbProof.vle_join_r.
Qed.

(* ================================================================== *)
(* Part 3: what one step of the model can be                           *)
(* ================================================================== *)
(* pcs at which the thread holds counter_mu and has read (or written) c->value since it took it *)
Definition locked_reader (p : cpc) : bool :=
  match p with
  | AddChk _ _ | AddStore _ _ | AddV _ _ _ | WDeqLoad _ _ | WDeqStore _ _ => true
  | _ => false
  end.
Lemma locked_reader_holds p : locked_reader p = true -> holds p = true.
Proof. destruct p; cbn; congruence. Qed.

Definition cls (w w' : world) (t : nat) (e : ev) : Prop :=
  (forall s o n, e = EvCas s o n true -> s = 103 /\ exists d v, pc (get w t) = AddCas d v) /\
  (forall s u v, e = EvStore s u v -> In s [105; 401; 502; 503; 603]) /\
  (locked_reader (pc (get w' t)) = true ->
     locked_reader (pc (get w t)) = true \/ (exists v, e = EvLoad 601 v) \/ (exists o n, e = EvCas 103 o n true)) /\
  (forall r, log w' = r :: log w ->
     locked_reader (pc (get w t)) = true \/ (exists s v, e = EvLoad s v /\ In s [101; 201; 301; 402]) \/
     (exists o n, e = EvCas 103 o n true)) /\
  (forall x, hist w' = x :: hist w -> exists o n, e = EvCas 103 o n true) /\
  (forall u, u <> t -> get w' u = get w u).

Lemma cons_self {A} (x : A) l : l = x :: l -> False.
Proof. intros E. apply (f_equal (@length A)) in E. cbn in E. lia. Qed.

Lemma cls_same w t e :
  (forall s o n, e <> EvCas s o n true) -> (forall s u v, e <> EvStore s u v) -> cls w w t e.
Proof.
  intros Hc Hs. unfold cls. split; [|split; [|split; [|split; [|split]]]].
  - intros s o n E. exfalso. eapply Hc. exact E.
  - intros s u v E. exfalso. eapply Hs. exact E.
  - auto.
  - intros r E. exfalso. eapply cons_self. exact E.
  - intros x E. exfalso. eapply cons_self. exact E.
  - reflexivity.
Qed.

Ltac cls_cas Hpc :=
  intros ? ? ? E; first [discriminate E | injection E as <- _ _; split; [reflexivity | rewrite ?Hpc; eauto]].
Ltac cls_store := intros ? ? ? E; first [discriminate E | injection E as <- _ _; cbn; tauto].
Ltac cls_pc L :=
  rewrite ?get_set_pc by (unfold live in *; cbn; exact L); cbn [locked_reader];
  intros E; first [ discriminate E | left; reflexivity | right; left; eexists; reflexivity
                  | right; right; eexists _, _; reflexivity ].
Ltac cls_log :=
  intros ? E; cbn in E;
  first [ exfalso; exact (cons_self _ _ E) | left; reflexivity
        | right; left; eexists _, _; split; [reflexivity | cbn; tauto]
        | right; right; eexists _, _; reflexivity ].
Ltac cls_hist :=
  intros ? E; cbn in E; first [ exfalso; exact (cons_self _ _ E) | eexists _, _; reflexivity ].
Ltac cls_others :=
  let u' := fresh "u" in let H := fresh "Hu" in
  intros u' H; unfold get; cbn; rewrite ?nth_lupd_other by congruence; reflexivity.

Lemma exec_cls w t : cls w (fst (exec w t)) t (snd (exec w t)).
Proof.
  destruct (pc (get w t)) eqn:Hpc0.
  1: { unfold exec. rewrite Hpc0. apply cls_same; intros; discriminate. }
  21: { unfold exec. rewrite Hpc0. apply cls_same; intros; discriminate. }
  all: assert (L : live w t) by (apply live_of_pc; rewrite Hpc0; discriminate).
  all: unfold cls, exec; rewrite Hpc0;
       unfold after_cas, after_chk, after_deq, drain, finish_add, crash, ret; brk; cbn [fst snd];
       (split; [cls_cas Hpc0|]); (split; [cls_store|]); (split; [cls_pc L|]); (split; [cls_log|]);
       (split; [cls_hist | cls_others]).
Qed.

Lemma begin_cases w t :
  begin_call w t = w \/ exists s x, pc (get w t) = Idle /\ begin_call w t = set_g (set_thr w t s) t x.
Proof.
  unfold begin_call. destruct (pc (get w t)) eqn:Hpc; auto. destruct (prog (get w t)); auto. right; eauto.
Qed.
Lemma begin_log_hist w t : log (begin_call w t) = log w /\ hist (begin_call w t) = hist w.
Proof. destruct (begin_cases w t) as [->|(s & x & _ & ->)]; cbn; auto. Qed.
Lemma begin_others w t u : u <> t -> get (begin_call w t) u = get w u.
Proof.
  intros Hu. destruct (begin_cases w t) as [->|(s & x & _ & ->)]; [reflexivity|].
  unfold get. cbn. apply nth_lupd_other. congruence.
Qed.
Lemma begin_held w t : holds (pc (get (begin_call w t) t)) = true -> pc (get w t) = pc (get (begin_call w t) t).
Proof. intros H. apply next_pc_held; [reflexivity | exact H]. Qed.

Lemma step_cls w lab t : actor lab = Some t -> cls w (fst (step w lab)) t (snd (step w lab)).
Proof.
  destruct lab as [t0|t0|d]; cbn [actor]; intros E; try discriminate E; injection E as ->; cbn [step].
  - destruct (enabled_pc (begin_call w t) t (pc (get (begin_call w t) t))) eqn:En.
    2:{ apply cls_same; intros; discriminate. }
    destruct (exec_cls (begin_call w t) t) as (C1 & C2 & C3 & C4 & C5 & C6).
    destruct (begin_log_hist w t) as [Bl Bh].
    assert (Bp : locked_reader (pc (get (begin_call w t) t)) = true -> locked_reader (pc (get w t)) = true).
    { intros H. rewrite (begin_held w t); [exact H | apply locked_reader_holds; exact H]. }
    unfold cls. split; [|split; [|split; [|split; [|split]]]].
    + intros s o n E. destruct (C1 _ _ _ E) as [-> (d & v & Hp)]. split; [reflexivity|].
      exists d, v. rewrite (begin_held w t); [exact Hp | rewrite Hp; reflexivity].
    + exact C2.
    + intros H. destruct (C3 H) as [A|A]; [left; apply Bp; exact A | right; exact A].
    + intros r H. rewrite <- Bl in H. destruct (C4 r H) as [A|A]; [left; apply Bp; exact A | right; exact A].
    + intros x H. rewrite <- Bh in H. exact (C5 x H).
    + intros u Hu. rewrite (C6 u Hu). apply begin_others. exact Hu.
  - destruct (pc (get w t)) eqn:Hpc; try (apply cls_same; intros; discriminate).
    destruct dl as [z|]; [|apply cls_same; intros; discriminate].
    destruct (z <=? clock w); [|apply cls_same; intros; discriminate].
    assert (L : live w t) by (apply live_of_pc; rewrite Hpc; discriminate).
    cbn [fst snd]. unfold cls. split; [|split; [|split; [|split; [|split]]]].
    + intros; discriminate.
    + intros; discriminate.
    + rewrite get_set_pc by (unfold live in *; cbn; exact L). cbn. discriminate.
    + intros r E. cbn in E. exfalso. exact (cons_self _ _ E).
    + intros x E. cbn in E. exfalso. exact (cons_self _ _ E).
    + cls_others.
Qed.

(* ================================================================== *)
(* Part 4: one step of the model against one step of the instrumentation *)
(* ================================================================== *)
(* the thread's view contains the release view of c->value *)
Definition fresh (h : chb) (t : nat) : Prop := vle (crel h LValue) (cviews h t).
(* a thread that holds counter_mu and has read c->value under it has the release view of the CURRENT value:
   nobody else can have written c->value since *)
Definition K (w : world) (h : chb) : Prop := forall u, locked_reader (pc (get w u)) = true -> fresh h u.

Definition cnext (h : chb) (w : world) (lab : label) : chb := chb_step h lab (snd (step w lab)).

Lemma step_stores w lab t : actor lab = Some t ->
  forall s u v, snd (step w lab) = EvStore s u v -> cloc s u <> LValue.
Proof.
  intros Ha s u v E. destruct (step_cls w lab t Ha) as (_ & C2 & _). apply store_not_value. eapply C2. exact E.
Qed.

(* nothing takes anything out of the release view of c->value *)
Lemma keep_step w h lab r : vle r (crel h LValue) -> vle r (crel (cnext h w lab) LValue).
Proof.
  intros Hr. unfold cnext. destruct (actor lab) as [t|] eqn:Ha.
  2:{ unfold chb_step. rewrite Ha. exact Hr. }
  destruct (ev_cas_dec (snd (step w lab))) as [(s & o & n & E)|Hn].
  - destruct (step_cls w lab t Ha) as (C1 & _). destruct (C1 _ _ _ E) as [-> _]. rewrite E.
    destruct (hb_cas103 h lab t o n Ha) as (A & B & _).
    eapply HbProof.vle_trans; [exact Hr|]. eapply HbProof.vle_trans; [exact A | exact B].
  - rewrite hb_rel_same; [exact Hr | exact Hn | apply (step_stores w lab t Ha)].
Qed.

(* the step that changes the counter publishes the adder's view *)
Lemma publish_step w h lab x :
  hist (fst (step w lab)) = x :: hist w ->
  vle (view_of (cnext h w lab) lab) (crel (cnext h w lab) LValue).
Proof.
  intros H. unfold view_of, cnext. destruct (actor lab) as [t|] eqn:Ha.
  2:{ destruct lab; try discriminate Ha. cbn in H. exfalso. exact (cons_self _ _ H). }
  destruct (step_cls w lab t Ha) as (_ & _ & _ & _ & C5 & _). destruct (C5 x H) as (o & n & E). rewrite E.
  apply (hb_cas103 h lab t o n Ha).
Qed.

(* a step at which a call returns: the caller's view contains the release view of c->value *)
Lemma return_step w h lab r :
  K w h -> log (fst (step w lab)) = r :: log w ->
  vle (crel h LValue) (view_of (cnext h w lab) lab).
Proof.
  intros HK H. unfold view_of, cnext. destruct (actor lab) as [t|] eqn:Ha.
  2:{ destruct lab; try discriminate Ha. cbn in H. exfalso. exact (cons_self _ _ H). }
  destruct (step_cls w lab t Ha) as (_ & _ & _ & C4 & _).
  destruct (C4 r H) as [A|[(s & v & E & Hs)|(o & n & E)]].
  - eapply HbProof.vle_trans; [apply HK; exact A | apply hb_grows; exact Ha].
  - rewrite E. apply hb_value_load; [exact Ha|]. cbn in *. tauto.
  - rewrite E. apply (hb_cas103 h lab t o n Ha).
Qed.

Lemma K_step w h lab : Inv w -> K w h -> K (fst (step w lab)) (cnext h w lab).
Proof.
  intros I HK. destruct (actor lab) as [t|] eqn:Ha.
  2:{ destruct lab; try discriminate Ha. unfold cnext, chb_step. cbn [actor step fst snd].
      intros u Hu. apply HK. exact Hu. }
  destruct (step_cls w lab t Ha) as (C1 & C2 & C3 & _ & _ & C6).
  intros u Hu. unfold fresh, cnext. destruct (Nat.eq_dec u t) as [->|Hne].
  - destruct (C3 Hu) as [A|[(v & E)|(o & n & E)]].
    + assert (Hn : forall s o n, snd (step w lab) <> EvCas s o n true).
      { intros s o n E. destruct (C1 _ _ _ E) as [_ (d & v & Hp)]. rewrite Hp in A. discriminate A. }
      rewrite hb_rel_same; [|exact Hn|apply (step_stores w lab t Ha)].
      eapply HbProof.vle_trans; [apply HK; exact A | apply hb_grows; exact Ha].
    + rewrite E. rewrite hb_rel_same; [|intros; discriminate|intros; discriminate].
      apply hb_value_load; [exact Ha|]. cbn. tauto.
    + rewrite E. apply (hb_cas103 h lab t o n Ha).
  - rewrite (C6 u Hne) in Hu. rewrite (hb_others h lab _ t u Ha Hne).
    destruct (ev_cas_dec (snd (step w lab))) as [(s & o & n & E)|Hn].
    + exfalso. destruct (C1 _ _ _ E) as [_ (d & v & Hp)].
      assert (M1 : mu w = Some t) by (apply holder; [exact I | rewrite Hp; reflexivity]).
      assert (M2 : mu w = Some u) by (apply holder; [exact I | apply locked_reader_holds; exact Hu]).
      congruence.
    + rewrite hb_rel_same; [|exact Hn|apply (step_stores w lab t Ha)]. apply HK. exact Hu.
Qed.

Lemma K_init v0 c0 progs : K (init v0 c0 progs) chb0.
Proof.
  intros u Hu. exfalso.
  assert (G : pc (get (init v0 c0 progs) u) = Idle).
  { unfold get, init; cbn [thr]. destruct (nth_in_or_default u (map (fun p => mk_t Idle p) progs) dflt) as [H|H].
    - apply in_map_iff in H. destruct H as (p & <- & _). reflexivity.
    - rewrite H. reflexivity. }
  rewrite G in Hu. discriminate Hu.
Qed.

(* ================================================================== *)
(* Part 5: the hand-off through c->value                               *)
(* ================================================================== *)
Lemma run_hb_counter_cons w h lab rest :
  run_hb_counter w h (lab :: rest) =
  mk_cobs lab w (fst (step w lab)) (snd (step w lab)) (view_of h lab) (view_of (cnext h w lab) lab)
    :: run_hb_counter (fst (step w lab)) (cnext h w lab) rest.
Proof. unfold cnext. cbn [run_hb_counter]. destruct (step w lab); reflexivity. Qed.

Lemma return_later : forall sched w h j oj r x,
  Inv w -> K w h -> vle r (crel h LValue) ->
  nth_error (run_hb_counter w h sched) j = Some oj -> counter_returns x oj -> vle r (co_view oj).
Proof.
  induction sched as [|lab rest IH]; intros w h j oj r x I HK Hr Hj Hret.
  - destruct j; discriminate Hj.
  - rewrite run_hb_counter_cons in Hj. destruct j as [|j]; cbn [nth_error] in Hj.
    + injection Hj as <-. destruct Hret as (c & Hl & _). cbn [co_w co_w' co_view] in *.
      eapply HbProof.vle_trans; [exact Hr | eapply return_step; [exact HK | exact Hl]].
    + eapply (IH (fst (step w lab)) (cnext h w lab));
        [apply step_inv; exact I | apply K_step; assumption | apply keep_step; exact Hr | exact Hj | exact Hret].
Qed.

Lemma handoff_gen : forall sched w h i j oi oj y x,
  Inv w -> K w h ->
  nth_error (run_hb_counter w h sched) i = Some oi -> nth_error (run_hb_counter w h sched) j = Some oj -> (i < j)%nat ->
  hist (co_w' oi) = y :: hist (co_w oi) -> counter_returns x oj -> vle (co_view oi) (co_view oj).
Proof.
  induction sched as [|lab rest IH]; intros w h i j oi oj y x I HK Hi Hj Hlt Hch Hret.
  - destruct i; discriminate Hi.
  - rewrite run_hb_counter_cons in Hi, Hj. destruct j as [|j]; [lia|]. cbn [nth_error] in Hj.
    destruct i as [|i]; cbn [nth_error] in Hi.
    + injection Hi as <-. cbn [co_w co_w' co_view] in *.
      eapply (return_later rest (fst (step w lab)) (cnext h w lab));
        [apply step_inv; exact I | apply K_step; assumption | | exact Hj | exact Hret].
      eapply publish_step. exact Hch.
    + eapply (IH (fst (step w lab)) (cnext h w lab));
        [apply step_inv; exact I | apply K_step; assumption | exact Hi | exact Hj | lia | exact Hch | exact Hret].
Qed.

(* for any initial value, number of threads, programs and schedules: the view of the adder at the CAS that changes the
   counter is contained in the view of every thread at every later return of any call on the counter *)
Lemma counter_handoff_any : forall v0 c0 progs sched i j oi oj y x,
  let tr := run_hb_counter (init v0 c0 progs) chb0 sched in
  nth_error tr i = Some oi -> nth_error tr j = Some oj -> (i < j)%nat ->
  hist (co_w' oi) = y :: hist (co_w oi) -> counter_returns x oj ->
  vle (co_view oi) (co_view oj).
Proof.
  intros v0 c0 progs sched i j oi oj y x tr. subst tr.
  apply handoff_gen; [apply init_inv | apply K_init].
Qed.

(* the instance the property names: the decrement that zeroes the counter, and the calls that report zero *)
Lemma counter_handoff : forall v0 c0 progs sched i j oi oj,
  let tr := run_hb_counter (init v0 c0 progs) chb0 sched in
  nth_error tr i = Some oi -> nth_error tr j = Some oj -> (i < j)%nat ->
  counter_zeroes oi -> counter_returns 0 oj ->
  vle (co_view oi) (co_view oj).
Proof. intros v0 c0 progs sched i j oi oj tr. subst tr. unfold counter_zeroes. apply counter_handoff_any. Qed.

(* ================================================================== *)
(* Part 6: the hand-off through the semaphore, and program order        *)
(* ================================================================== *)
Lemma do_rmw_mono h t l o x : vle (crel h x) (crel (do_rmw h t l o) x).
Proof.
  unfold do_rmw. destruct (has_rel o); cbn [crel]; [|apply HbProof.vle_refl].
  unfold lupdv. destruct (loc_eqb x l) eqn:E; [|apply HbProof.vle_refl].
  apply loc_eqb_eq in E. subst x. apply HbProof.vle_join_l.
Qed.

Lemma sem_keep h lab e u r : vle r (crel h (LSem u)) -> vle r (crel (chb_step h lab e) (LSem u)).
Proof.
  intros Hr. unfold chb_step. destruct (actor lab) as [t|]; [|exact Hr].
  set (h0 := mk_chb _ _). assert (H0 : vle r (crel h0 (LSem u))) by exact Hr. clearbody h0.
  destruct e as [s v|s x v|s o n [|]|x| | | | |];
    try (eapply HbProof.vle_trans; [exact H0 | apply do_rmw_mono]); try exact H0.
  - unfold do_load. destruct (has_acq _); exact H0.
  - unfold do_store. cbn [crel]. rewrite lupdv_other; [exact H0|]. intros E. symmetry in E. revert E. apply cloc_not_sem.
Qed.

Lemma post_step h lab t u : actor lab = Some t ->
  vle (cviews (chb_step h lab (EvV u)) t) (crel (chb_step h lab (EvV u)) (LSem u)).
Proof.
  intros Ha. unfold chb_step. rewrite Ha. unfold do_rmw. rewrite (proj1 sem_orders). cbn [cviews crel].
  rewrite cfupd_same, lupdv_same. apply HbProof.vle_join_r.
Qed.

Lemma woken_step h lab u : actor lab = Some u ->
  vle (crel h (LSem u)) (cviews (chb_step h lab EvP) u).
Proof.
  intros Ha. unfold chb_step. rewrite Ha. unfold do_rmw. rewrite (proj2 sem_orders). cbn [cviews crel].
  rewrite cfupd_same. apply HbProof.vle_join_r.
Qed.

Lemma woken_later : forall sched w h j oj u r,
  vle r (crel h (LSem u)) ->
  nth_error (run_hb_counter w h sched) j = Some oj -> counter_woken u oj -> vle r (co_view oj).
Proof.
  induction sched as [|lab rest IH]; intros w h j oj u r Hr Hj Hw.
  - destruct j; discriminate Hj.
  - rewrite run_hb_counter_cons in Hj. destruct j as [|j]; cbn [nth_error] in Hj.
    + injection Hj as <-. destruct Hw as [He Ha]. cbn [co_ev co_lab co_view] in *.
      unfold view_of, cnext. rewrite Ha, He.
      eapply HbProof.vle_trans; [exact Hr | apply woken_step; exact Ha].
    + eapply IH; [|exact Hj|exact Hw]. apply sem_keep. exact Hr.
Qed.

(* a signal before the woken waiter's return: the adder's view at its V on thread u's semaphore is contained in
   the view of thread u at every later successful P *)
Lemma wake_gen : forall sched w h i j oi oj u,
  nth_error (run_hb_counter w h sched) i = Some oi -> nth_error (run_hb_counter w h sched) j = Some oj -> (i < j)%nat ->
  counter_posts u oi -> counter_woken u oj -> vle (co_view oi) (co_view oj).
Proof.
  induction sched as [|lab rest IH]; intros w h i j oi oj u Hi Hj Hlt Hp Hw.
  - destruct i; discriminate Hi.
  - rewrite run_hb_counter_cons in Hi, Hj. destruct j as [|j]; [lia|]. cbn [nth_error] in Hj.
    destruct i as [|i]; cbn [nth_error] in Hi.
    + injection Hi as <-. unfold counter_posts in Hp. cbn [co_ev co_view] in *.
      eapply woken_later; [|exact Hj|exact Hw].
      unfold view_of, cnext. rewrite Hp.
      destruct (actor lab) as [t|] eqn:Ha.
      * apply post_step. exact Ha.
      * destruct lab; try discriminate Ha. cbn in Hp. discriminate Hp.
    + eapply IH; [exact Hi | exact Hj | lia | exact Hp | exact Hw].
Qed.

Lemma counter_wake_handoff : forall v0 c0 progs sched i j oi oj u,
  let tr := run_hb_counter (init v0 c0 progs) chb0 sched in
  nth_error tr i = Some oi -> nth_error tr j = Some oj -> (i < j)%nat ->
  counter_posts u oi -> counter_woken u oj ->
  vle (co_view oi) (co_view oj).
Proof. intros v0 c0 progs sched i j oi oj u tr. subst tr. apply wake_gen. Qed.

(* program order: a thread's view only grows, so what it had at the call of nsync_counter_add it has at the CAS *)
Lemma view_mono_step h lab e t : vle (cviews h t) (cviews (chb_step h lab e) t).
Proof.
  destruct (actor lab) as [t0|] eqn:Ha.
  - destruct (Nat.eq_dec t t0) as [->|Hne].
    + apply hb_grows. exact Ha.
    + rewrite (hb_others h lab e t0 t Ha Hne). apply HbProof.vle_refl.
  - unfold chb_step. rewrite Ha. apply HbProof.vle_refl.
Qed.

Lemma po_later : forall sched w h j oj t r,
  vle r (cviews h t) -> nth_error (run_hb_counter w h sched) j = Some oj -> actor (co_lab oj) = Some t ->
  vle r (co_view oj).
Proof.
  induction sched as [|lab rest IH]; intros w h j oj t r Hr Hj Ha.
  - destruct j; discriminate Hj.
  - rewrite run_hb_counter_cons in Hj. destruct j as [|j]; cbn [nth_error] in Hj.
    + injection Hj as <-. cbn [co_lab co_view] in *. unfold view_of. rewrite Ha.
      eapply HbProof.vle_trans; [exact Hr | apply view_mono_step].
    + eapply IH; [|exact Hj|exact Ha]. eapply HbProof.vle_trans; [exact Hr | apply view_mono_step].
Qed.

Lemma program_order_gen : forall sched w h i j oi oj t,
  nth_error (run_hb_counter w h sched) i = Some oi -> nth_error (run_hb_counter w h sched) j = Some oj -> (i <= j)%nat ->
  actor (co_lab oi) = Some t -> actor (co_lab oj) = Some t -> vle (co_view oi) (co_view oj).
Proof.
  induction sched as [|lab rest IH]; intros w h i j oi oj t Hi Hj Hle Hai Haj.
  - destruct i; discriminate Hi.
  - rewrite run_hb_counter_cons in Hi, Hj. destruct i as [|i]; cbn [nth_error] in Hi.
    + injection Hi as <-. cbn [co_lab co_view] in *. destruct j as [|j]; cbn [nth_error] in Hj.
      * injection Hj as <-. apply HbProof.vle_refl.
      * eapply po_later; [|exact Hj|exact Haj]. unfold view_of. rewrite Hai. apply HbProof.vle_refl.
    + destruct j as [|j]; [lia|]. cbn [nth_error] in Hj.
      eapply IH; [exact Hi | exact Hj | lia | exact Hai | exact Haj].
Qed.

Lemma counter_program_order : forall v0 c0 progs sched i j oi oj t,
  let tr := run_hb_counter (init v0 c0 progs) chb0 sched in
  nth_error tr i = Some oi -> nth_error tr j = Some oj -> (i <= j)%nat ->
  actor (co_lab oi) = Some t -> actor (co_lab oj) = Some t ->
  vle (co_view oi) (co_view oj).
Proof. intros v0 c0 progs sched i j oi oj t tr. subst tr. apply program_order_gen. Qed.
