(* C17 — proofs that the translation of internal/dll.c (Gen/Dll.v) implements
   sequences.  Statements are in Props/Properties_C17.v, definitions in DllSpec.v.
   The proofs never mention the temporaries of the generated code: every generated
   function is first shown equal (by computation) to a closed form over setnx/setpv. *)
From NsyncBase Require Import CSem.
From NsyncGen Require Import Dll.
From NsyncProof Require Import DllSpec.
From Coq Require Import Permutation.
Local Open Scope Z_scope.

(* ------------------------------------------------------------------ *)
(* 1. field stores                                                      *)
(* ------------------------------------------------------------------ *)
Definition setnx (h : heap) (a v : Z) : heap := upd h a (set_nsync_dll_element_s__next (h a) v).
Definition setpv (h : heap) (a v : Z) : heap := upd h a (set_nsync_dll_element_s__prev (h a) v).
Definition setct (h : heap) (a v : Z) : heap := upd h a (set_nsync_dll_element_s__container (h a) v).

Lemma nx_setnx h a v b : nx (setnx h a v) b = if b =? a then v else nx h b.
Proof. unfold nx, setnx, upd. destruct (b =? a); reflexivity. Qed.
Lemma pv_setnx h a v b : pv (setnx h a v) b = pv h b.
Proof. unfold pv, setnx, upd. destruct (Z.eqb_spec b a); subst; reflexivity. Qed.
Lemma nx_setpv h a v b : nx (setpv h a v) b = nx h b.
Proof. unfold nx, setpv, upd. destruct (Z.eqb_spec b a); subst; reflexivity. Qed.
Lemma pv_setpv h a v b : pv (setpv h a v) b = if b =? a then v else pv h b.
Proof. unfold pv, setpv, upd. destruct (b =? a); reflexivity. Qed.
Lemma nx_setct h a v b : nx (setct h a v) b = nx h b.
Proof. unfold nx, setct, upd. destruct (Z.eqb_spec b a); subst; reflexivity. Qed.
Lemma pv_setct h a v b : pv (setct h a v) b = pv h b.
Proof. unfold pv, setct, upd. destruct (Z.eqb_spec b a); subst; reflexivity. Qed.

Lemma setnx_other h a v b : b <> a -> setnx h a v b = h b.
Proof. intros; unfold setnx; now apply upd_other. Qed.
Lemma setpv_other h a v b : b <> a -> setpv h a v b = h b.
Proof. intros; unfold setpv; now apply upd_other. Qed.
Lemma setct_other h a v b : b <> a -> setct h a v b = h b.
Proof. intros; unfold setct; now apply upd_other. Qed.

(* closed forms of the generated functions *)
Lemma init_eq h e c : nsync_dll_init_ h e c = setct (setpv (setnx h e e) e e) e c.
Proof. reflexivity. Qed.

Lemma splice_eq h p n :
  nsync_dll_splice_after_ h p n =
  setpv (setnx (setpv (setnx h p n) n p) (pv h n) (nx h p)) (nx h p) (pv h n).
Proof. reflexivity. Qed.

Lemma remove_eq h l e :
  nsync_dll_remove_ h l e =
  (if l =? e then if pv h l =? l then 0 else pv h l else l,
   setpv (setnx (setnx (setpv h (nx h e) (pv h e)) (pv h e) (nx h e)) e e) e e).
Proof.
  assert (E : pv (setpv h (nx h e) (pv h e)) e = pv h e).
  { rewrite pv_setpv. destruct (e =? nx h e); reflexivity. }
  transitivity
    (if l =? e then if pv h l =? l then 0 else pv h l else l,
     let h1 := setpv h (nx h e) (pv h e) in
     setpv (setnx (setnx h1 (pv h1 e) (nx h1 e)) e e) e e).
  - reflexivity.
  - cbv zeta. rewrite E, nx_setpv. reflexivity.
Qed.

Lemma make_first_eq h l e :
  nsync_dll_make_first_in_list_ h l e =
  if e =? 0 then (l, h) else if l =? 0 then (pv h e, h) else (l, nsync_dll_splice_after_ h l e).
Proof.
  unfold nsync_dll_make_first_in_list_. destruct (e =? 0); [|destruct (l =? 0)]; reflexivity.
Qed.

Lemma make_last_eq h l e :
  nsync_dll_make_last_in_list_ h l e =
  if e =? 0 then (l, h) else (e, snd (nsync_dll_make_first_in_list_ h l (nx h e))).
Proof.
  unfold nsync_dll_make_last_in_list_, nx. destruct (e =? 0); cbn [negb]; [reflexivity|].
  destruct (nsync_dll_make_first_in_list_ _ _ _); reflexivity.
Qed.

Lemma first_eq h l : nsync_dll_first_ h l = if l =? 0 then 0 else nx h l.
Proof. unfold nsync_dll_first_. destruct (l =? 0); reflexivity. Qed.
Lemma next_eq h l e : nsync_dll_next_ h l e = if e =? l then 0 else nx h e.
Proof. unfold nsync_dll_next_. destruct (e =? l); reflexivity. Qed.
Lemma prev_eq h l e : nsync_dll_prev_ h l e = if e =? nx h l then 0 else pv h e.
Proof. unfold nsync_dll_prev_, nx. destruct (e =? _); reflexivity. Qed.

(* ------------------------------------------------------------------ *)
(* 2. lists                                                             *)
(* ------------------------------------------------------------------ *)
Lemma NoDup_app_iff {A} (a b : list A) :
  NoDup (a ++ b) <-> NoDup a /\ NoDup b /\ (forall x, In x a -> ~ In x b).
Proof.
  induction a as [|x a IH]; cbn [app].
  - split; [intros H; repeat split; auto; constructor | tauto].
  - rewrite !NoDup_cons_iff, IH, in_app_iff. split.
    + intros (H1 & H2 & H3 & H4). repeat split; auto.
      intros y [<-|Hy]; auto.
    + intros ((H1 & H2) & H3 & H4). repeat split; auto.
      * intros [H|H]; auto. apply (H4 x); cbn; auto.
      * intros y Hy. apply H4. now right.
Qed.

Lemma NoDup_snoc {A} (l : list A) x : NoDup (l ++ [x]) <-> NoDup l /\ ~ In x l.
Proof.
  rewrite NoDup_app_iff. split.
  - intros (H1 & _ & H3). split; auto. intros H. apply (H3 x H). now left.
  - intros (H1 & H2). repeat split; auto.
    + constructor; [intros []|constructor].
    + intros y Hy [<-|[]]. auto.
Qed.

Lemma last_cons2 {A} (a b : A) t d : last (a :: b :: t) d = last (b :: t) d.
Proof. reflexivity. Qed.

Lemma last_In {A} (l : list A) d : l <> [] -> In (last l d) l.
Proof.
  intros H. destruct (exists_last H) as (l' & a & ->). rewrite last_last.
  apply in_app_iff; right; now left.
Qed.

Lemma last_app_ne {A} (a b : list A) d : b <> [] -> last (a ++ b) d = last b d.
Proof.
  intros H. destruct (exists_last H) as (b' & x & ->).
  rewrite app_assoc, !last_last. reflexivity.
Qed.

Lemma snoc_ne {A} (l : list A) x : l ++ [x] <> [].
Proof. destruct l; discriminate. Qed.
Lemma app_ne_r {A} (a b : list A) : b <> [] -> a ++ b <> [].
Proof. intros H E. apply app_eq_nil in E. tauto. Qed.

Lemma snoc_case {A} (l : list A) : l = [] \/ exists l' x, l = l' ++ [x].
Proof.
  destruct l as [|a l]; [now left|right].
  destruct (@exists_last _ (a :: l)) as (l' & x & E); [discriminate|eauto].
Qed.

(* ------------------------------------------------------------------ *)
(* 3. segments and rings                                                *)
(* ------------------------------------------------------------------ *)
Lemma seg_ext h h' : forall xs a b,
  (forall c, In c (a :: xs) -> nx h' c = nx h c) ->
  (forall c, In c (xs ++ [b]) -> pv h' c = pv h c) ->
  seg h a xs b -> seg h' a xs b.
Proof.
  induction xs as [|x t IH]; intros a b Hn Hp; cbn [seg].
  - intros [H1 H2]. rewrite Hn, Hp by (cbn; auto). auto.
  - intros (H1 & H2 & H3). rewrite Hn, Hp by (cbn; auto). repeat split; auto.
    apply IH; auto.
    + intros c Hc. apply Hn. now right.
    + intros c Hc. apply Hp. now right.
Qed.

Lemma seg_setnx h c v a xs b : ~ In c (a :: xs) -> seg h a xs b -> seg (setnx h c v) a xs b.
Proof.
  intros Hc. apply seg_ext.
  - intros d Hd. rewrite nx_setnx. destruct (Z.eqb_spec d c); [subst; contradiction|reflexivity].
  - intros d _. apply pv_setnx.
Qed.

Lemma seg_setpv h c v a xs b : ~ In c (xs ++ [b]) -> seg h a xs b -> seg (setpv h c v) a xs b.
Proof.
  intros Hc. apply seg_ext.
  - intros d _. apply nx_setpv.
  - intros d Hd. rewrite pv_setpv. destruct (Z.eqb_spec d c); [subst; contradiction|reflexivity].
Qed.

Lemma seg_setct h c v a xs b : seg h a xs b -> seg (setct h c v) a xs b.
Proof. apply seg_ext; intros; [apply nx_setct|apply pv_setct]. Qed.

Lemma seg_app h : forall xs a y ys b,
  seg h a (xs ++ y :: ys) b <-> seg h a xs y /\ seg h y ys b.
Proof.
  induction xs as [|x t IH]; intros a y ys b; cbn [app seg].
  - tauto.
  - rewrite IH. tauto.
Qed.

Lemma seg_snoc h xs a y b : seg h a (xs ++ [y]) b <-> seg h a xs y /\ nx h y = b /\ pv h b = y.
Proof. rewrite seg_app. cbn [seg]. tauto. Qed.

Lemma seg_last h : forall xs a b, seg h a xs b ->
  pv h b = last (a :: xs) 0 /\ nx h (last (a :: xs) 0) = b.
Proof.
  induction xs as [|x t IH]; intros a b; cbn [seg].
  - cbn. tauto.
  - intros (_ & _ & H). rewrite last_cons2. now apply IH.
Qed.

Lemma ring_ends h x t : ring h (x :: t) -> pv h x = last (x :: t) 0 /\ nx h (last (x :: t) 0) = x.
Proof. intros (H & _). now apply seg_last. Qed.

Lemma ring_nonnull h s a : ring h s -> In a s -> a <> 0.
Proof. intros (_ & _ & H) Ha ->. contradiction. Qed.

Lemma ring_rot1 h x t : ring h (x :: t) <-> ring h (t ++ [x]).
Proof.
  unfold ring.
  assert (Hs : seg h x t x <-> match t ++ [x] with [] => False | y :: r => seg h y r y end).
  { destruct t as [|y t]; cbn [app]; [reflexivity|]. rewrite seg_snoc. cbn [seg]. tauto. }
  assert (Hp : Permutation (x :: t) (t ++ [x])) by apply Permutation_cons_append.
  rewrite <- Hs. split; intros (H1 & H2 & H3); repeat split; auto.
  - eapply Permutation_NoDup; eauto.
  - intros H; apply H3. eapply Permutation_in; [symmetry|]; eauto.
  - eapply Permutation_NoDup; [symmetry|]; eauto.
  - intros H; apply H3. eapply Permutation_in; eauto.
Qed.

Lemma ring_rot h : forall xs ys, ring h (xs ++ ys) -> ring h (ys ++ xs).
Proof.
  induction xs as [|x xs IH]; intros ys H.
  - now rewrite app_nil_r.
  - cbn [app] in H. apply ring_rot1 in H. rewrite <- app_assoc in H. apply IH in H.
    rewrite <- app_assoc in H. exact H.
Qed.

Lemma ring_single h e : e <> 0 -> nx h e = e -> pv h e = e -> ring h [e].
Proof.
  intros H0 H1 H2. repeat split; auto.
  - constructor; [intros []|constructor].
  - intros [H|[]]. congruence.
Qed.

Lemma frame_incl h h' xs ys : (forall a, In a xs -> In a ys) -> frame h h' xs -> frame h h' ys.
Proof. intros Hi Hf a Ha. apply Hf. intros H; apply Ha; auto. Qed.

Lemma ring_frame h h' xs s : frame h h' xs -> disjoint s xs -> ring h s -> ring h' s.
Proof.
  intros Hf Hd (H1 & H2 & H3). repeat split; auto.
  destruct s as [|x t]; [exact H1|].
  assert (E : forall c, In c (x :: t) -> h' c = h c) by (intros c Hc; apply Hf, Hd, Hc).
  revert H1. apply seg_ext.
  - intros c Hc. unfold nx. now rewrite E.
  - intros c Hc. unfold pv. rewrite E; auto.
    apply in_app_iff in Hc. destruct Hc as [Hc|[<-|[]]]; [now right|now left].
Qed.

Lemma lrep_frame : forall h h' xs s l,
  frame h h' xs -> disjoint s xs -> lrep h l s -> lrep h' l s.
Proof.
  intros h h' xs s l Hf Hd. destruct s as [|x t]; [exact (fun H => H)|].
  intros [H1 H2]. split; auto. eapply ring_frame; eauto.
Qed.

Lemma lrep_ne h l s : s <> [] -> (lrep h l s <-> l = last s 0 /\ ring h s).
Proof. destruct s; [congruence|reflexivity]. Qed.

Lemma lrep_null h l s : lrep h l s -> (l = 0 <-> s = []).
Proof.
  destruct s as [|x t]; cbn [lrep].
  - tauto.
  - intros [-> H]. split; [|discriminate]. intros E. exfalso.
    eapply (ring_nonnull h (x :: t)); eauto. apply last_In. discriminate.
Qed.

(* ------------------------------------------------------------------ *)
(* 4. splice_after                                                      *)
(* ------------------------------------------------------------------ *)
Ltac inl :=
  repeat match goal with H : In _ _ |- _ => revert H end;
  clear; intros; cbn [app In] in *; rewrite ?in_app_iff in *; cbn [In] in *; tauto.
Ltac eqb_f H := rewrite (proj2 (Z.eqb_neq _ _) H).

Lemma splice_ring : forall h p ps n ns,
  ring h (p :: ps) -> ring h (n :: ns) -> disjoint (p :: ps) (n :: ns) ->
  let h' := nsync_dll_splice_after_ h p n in
  ring h' (p :: n :: ns ++ ps) /\ frame h h' (p :: ps ++ n :: ns).
Proof.
  intros h p ps n ns Hp Hn Hd h'. subst h'. rewrite splice_eq.
  destruct Hp as (Sp & NDp & Zp). destruct Hn as (Sn & NDn & Zn).
  assert (Hpn : forall a, In a (p :: ps) -> In a (n :: ns) -> False)
    by (intros a H1 H2; exact (Hd a H1 H2)).
  remember (nx h p) as q eqn:Eq. remember (pv h n) as m eqn:Em.
  assert (Hm : m = last (n :: ns) 0) by (subst m; apply seg_last in Sn; tauto).
  assert (Hmin : In m (n :: ns)) by (rewrite Hm; apply last_In; discriminate).
  assert (Hqin : In q (p :: ps)).
  { destruct ps; cbn [seg] in Sp; [left|right; left]; subst q; intuition congruence. }
  assert (Hpm : p <> m) by (intros ->; apply (Hpn m); auto; now left).
  assert (Hnq : n <> q) by (intros ->; apply (Hpn q); auto; now left).
  clear Em.
  split; [split; [|split]|].
  - cbn [seg]. split; [|split].
    + rewrite nx_setpv, nx_setnx. eqb_f Hpm. rewrite nx_setpv, nx_setnx, Z.eqb_refl. reflexivity.
    + rewrite pv_setpv. eqb_f Hnq. rewrite pv_setnx, pv_setpv, Z.eqb_refl. reflexivity.
    + assert (Hmp : seg (setpv (setnx (setpv (setnx h p n) n p) m q) q m) m ps p).
      { destruct ps as [|q' P]; cbn [seg] in Sp |- *.
        - assert (E : q = p) by (subst q; tauto). rewrite E.
          rewrite nx_setpv, nx_setnx, pv_setpv, !Z.eqb_refl. auto.
        - destruct Sp as (Sp1 & Sp2 & Sp3). assert (E : q' = q) by congruence. rewrite E in *. clear E Sp1.
          rewrite nx_setpv, nx_setnx, pv_setpv, !Z.eqb_refl. repeat split; auto.
          apply NoDup_cons_iff in NDp. destruct NDp as [NDp1 NDp2].
          apply NoDup_cons_iff in NDp2. destruct NDp2 as [NDp2 NDp3].
          apply seg_setpv; [|apply seg_setnx; [|apply seg_setpv; [|apply seg_setnx; [|exact Sp3]]]].
          + intros H. apply in_app_iff in H. destruct H as [H|[H|[]]]; [tauto|].
            apply NDp1. now left.
          + intros H. apply (Hpn m); auto. now right.
          + intros H. apply (Hpn n); [|now left]. inl.
          + intros H. apply NDp1. destruct H as [H|H]; [now left|now right]. }
      destruct (snoc_case ns) as [->|(N & m' & ->)].
      * cbn [app]. cbn in Hm. subst m. exact Hmp.
      * assert (m' = m) by (rewrite Hm; change (n :: N ++ [m']) with ((n :: N) ++ [m']);
                            now rewrite last_last).
        subst m'. rewrite <- app_assoc. cbn [app]. apply seg_app. split; [|exact Hmp].
        apply seg_snoc in Sn. destruct Sn as (Sn1 & Sn2 & Sn3).
        apply NoDup_cons_iff in NDn. destruct NDn as [NDn1 NDn2].
        apply NoDup_snoc in NDn2. destruct NDn2 as [NDn2 NDn3].
        apply seg_setpv; [|apply seg_setnx; [|apply seg_setpv; [|apply seg_setnx; [|exact Sn1]]]].
        -- intros H. apply (Hpn q); auto. inl.
        -- intros [H|H]; [|tauto]. apply NDn1. rewrite H. inl.
        -- intros H. apply NDn1. exact H.
        -- intros H. apply (Hpn p); [now left|]. inl.
  - apply (Permutation_NoDup (l := (n :: ns) ++ p :: ps)).
    + symmetry. apply (Permutation_middle (n :: ns) ps p).
    + apply NoDup_app_iff. repeat split; auto. intros a H1 H2. exact (Hpn a H2 H1).
  - intros H. cbn [In] in H. rewrite in_app_iff in H. cbn [In] in Zp, Zn. tauto.
  - intros a Ha.
    rewrite setpv_other, setnx_other, setpv_other, setnx_other; auto.
    + intros ->. apply Ha. now left.
    + intros ->. apply Ha. right. apply in_app_iff. right. now left.
    + intros ->. apply Ha. right. apply in_app_iff. now right.
    + intros ->. apply Ha. destruct Hqin as [H|H]; [now left|]. right. apply in_app_iff. now left.
Qed.

(* ------------------------------------------------------------------ *)
(* 5. make_first / make_last / init                                     *)
(* ------------------------------------------------------------------ *)
Lemma make_first_spec : forall h l s e es,
  lrep h l s -> ring h (e :: es) -> disjoint s (e :: es) ->
  let '(l', h') := nsync_dll_make_first_in_list_ h l e in
  lrep h' l' (e :: es ++ s) /\ frame h h' (s ++ e :: es).
Proof.
  intros h l s e es Hl He Hd. rewrite make_first_eq.
  assert (He0 : e <> 0) by (eapply ring_nonnull; eauto; now left).
  eqb_f He0. pose proof (lrep_null _ _ _ Hl) as Hn.
  destruct (Z.eqb_spec l 0) as [E|E].
  - apply Hn in E. subst s. rewrite app_nil_r. split.
    + split; [|exact He]. apply ring_ends in He. tauto.
    + intros a _. reflexivity.
  - assert (Hs : s <> []) by tauto.
    destruct (exists_last Hs) as (s' & l0 & ->).
    apply lrep_ne in Hl; [|exact Hs]. destruct Hl as [Hl Hr]. rewrite last_last in Hl. subst l0.
    apply ring_rot1 in Hr.
    destruct (splice_ring h l s' e es Hr He) as [H1 H2].
    { intros a Ha. apply Hd. apply in_app_iff. destruct Ha as [<-|Ha]; [right; now left|now left]. }
    split.
    + split.
      * change (e :: es ++ s' ++ [l]) with ((e :: es) ++ s' ++ [l]).
        rewrite app_assoc. now rewrite last_last.
      * apply ring_rot1 in H1. cbn [app] in H1. rewrite <- app_assoc in H1. exact H1.
    + revert H2. apply frame_incl. intros a Ha. inl.
Qed.

Lemma make_last_spec : forall h l s e es,
  lrep h l s -> ring h (es ++ [e]) -> disjoint s (es ++ [e]) ->
  let '(l', h') := nsync_dll_make_last_in_list_ h l e in
  lrep h' l' (s ++ es ++ [e]) /\ frame h h' (s ++ es ++ [e]).
Proof.
  intros h l s e es Hl He Hd. rewrite make_last_eq.
  assert (He0 : e <> 0) by (eapply ring_nonnull; eauto; apply in_app_iff; right; now left).
  eqb_f He0.
  assert (Hf : exists f fs, es ++ [e] = f :: fs /\ nx h e = f).
  { pose proof He as He'. apply ring_rot1 in He'. destruct He' as (S & _).
    destruct es as [|f fs]; cbn [seg app] in *; [exists e, []|exists f, (fs ++ [e])]; tauto. }
  destruct Hf as (f & fs & Ef & Enx). rewrite Enx, Ef in *.
  pose proof (make_first_spec h l s f fs Hl He Hd) as H.
  destruct (nsync_dll_make_first_in_list_ h l f) as [l' h']. cbn [snd].
  destruct H as [H1 H2]. split; [|exact H2].
  apply lrep_ne in H1; [|discriminate]. destruct H1 as [_ H1].
  apply lrep_ne; [destruct s; discriminate|]. split.
  - rewrite <- Ef, app_assoc. now rewrite last_last.
  - apply (ring_rot h' (f :: fs) s). exact H1.
Qed.

Lemma make_null_spec : forall h l,
  nsync_dll_make_first_in_list_ h l 0 = (l, h) /\ nsync_dll_make_last_in_list_ h l 0 = (l, h).
Proof. intros h l. rewrite make_first_eq, make_last_eq. split; reflexivity. Qed.

Lemma init_spec : forall h e c, e <> 0 ->
  ring (nsync_dll_init_ h e c) [e] /\ frame h (nsync_dll_init_ h e c) [e].
Proof.
  intros h e c He. rewrite init_eq. split.
  - apply ring_single; auto.
    + rewrite nx_setct, nx_setpv, nx_setnx, Z.eqb_refl. reflexivity.
    + rewrite pv_setct, pv_setpv, Z.eqb_refl. reflexivity.
  - intros a Ha. assert (a <> e) by (intros ->; apply Ha; now left).
    rewrite setct_other, setpv_other, setnx_other; auto.
Qed.

(* ------------------------------------------------------------------ *)
(* 6. remove                                                            *)
(* ------------------------------------------------------------------ *)
Lemma remove_heap h e t : ring h (e :: t) ->
  let h' := setpv (setnx (setnx (setpv h (nx h e) (pv h e)) (pv h e) (nx h e)) e e) e e in
  (t <> [] -> ring h' t) /\ ring h' [e] /\ frame h h' (e :: t).
Proof.
  intros Hr h'. pose proof (ring_ends _ _ _ Hr) as [Hpv Hnx].
  destruct Hr as (S & ND & Z).
  assert (He0 : e <> 0) by (intros ->; apply Z; now left).
  assert (Hzin : In (pv h e) (e :: t)) by (rewrite Hpv; apply last_In; discriminate).
  assert (Hyin : In (nx h e) (e :: t)).
  { destruct t; cbn [seg] in S; [left|right; left]; intuition congruence. }
  split; [|split].
  - intros Ht. destruct t as [|y t']; [congruence|clear Ht].
    cbn [seg] in S. destruct S as (S1 & S2 & S3).
    apply NoDup_cons_iff in ND. destruct ND as [ND1 ND2].
    assert (Hye : y <> e) by (intros ->; apply ND1; now left).
    repeat split.
    + subst h'. rewrite S1 in *. rewrite last_cons2 in Hpv. remember (pv h e) as z eqn:Ez. clear Ez.
      destruct (snoc_case t') as [->|(T & z' & ->)].
      * cbn in Hpv. subst z. cbn [seg].
        rewrite nx_setpv, nx_setnx. eqb_f Hye. rewrite nx_setnx, Z.eqb_refl.
        rewrite pv_setpv. eqb_f Hye. rewrite !pv_setnx, pv_setpv, Z.eqb_refl. auto.
      * assert (z' = z) by (rewrite Hpv; change (y :: T ++ [z']) with ((y :: T) ++ [z']);
                            now rewrite last_last).
        subst z'. apply seg_snoc in S3. destruct S3 as (S3 & S4 & S5).
        apply NoDup_cons_iff in ND2. destruct ND2 as [ND2 ND3].
        apply NoDup_snoc in ND3. destruct ND3 as [ND3 ND4].
        assert (Hze : z <> e) by (intros ->; apply ND1; inl).
        assert (Hyz : y <> z) by (intros ->; apply ND2; inl).
        apply seg_snoc. split; [|split].
        -- apply seg_setpv; [|apply seg_setnx; [|apply seg_setnx; [|apply seg_setpv; [|exact S3]]]].
           ++ intros H. apply ND1. inl.
           ++ intros H. apply ND1. inl.
           ++ intros [H|H]; [congruence|tauto].
           ++ exact ND2.
        -- rewrite nx_setpv, nx_setnx. eqb_f Hze. rewrite nx_setnx, Z.eqb_refl. reflexivity.
        -- rewrite pv_setpv. eqb_f Hye. rewrite !pv_setnx, pv_setpv, Z.eqb_refl. reflexivity.
    + exact ND2.
    + intros H. apply Z. now right.
  - apply ring_single; auto; subst h'.
    + rewrite nx_setpv, nx_setnx, Z.eqb_refl. reflexivity.
    + rewrite pv_setpv, Z.eqb_refl. reflexivity.
  - intros a Ha. subst h'.
    rewrite setpv_other, setnx_other, setnx_other, setpv_other; auto; intros ->; contradiction || (apply Ha; now left).
Qed.

Lemma remove_spec : forall h l s1 e s2,
  lrep h l (s1 ++ e :: s2) ->
  let '(l', h') := nsync_dll_remove_ h l e in
  lrep h' l' (s1 ++ s2) /\ ring h' [e] /\ frame h h' (s1 ++ e :: s2).
Proof.
  intros h l s1 e s2 Hl. rewrite remove_eq.
  apply lrep_ne in Hl; [|destruct s1; discriminate]. destruct Hl as [Hl Hr].
  pose proof (ring_rot _ _ _ Hr) as Hr'. cbn [app] in Hr'.
  destruct (remove_heap _ _ _ Hr') as (H1 & H2 & H3).
  pose proof (ring_ends _ _ _ Hr') as [Hpv _].
  assert (ND : NoDup (s1 ++ e :: s2)) by apply Hr.
  split; [|split; [exact H2|]].
  - destruct (snoc_case s2) as [->|(s2' & x & ->)].
    + (* e is the last element *)
      rewrite last_last in Hl. subst l. rewrite Z.eqb_refl, app_nil_r in *. cbn [app] in *.
      destruct (snoc_case s1) as [->|(s1' & x & ->)].
      * cbn in Hpv. rewrite Hpv, Z.eqb_refl. reflexivity.
      * change (e :: s1' ++ [x]) with ((e :: s1') ++ [x]) in Hpv. rewrite last_last in Hpv.
        assert (Hxe : x <> e).
        { intros ->. rewrite <- app_assoc in ND. apply NoDup_app_iff in ND.
          destruct ND as (_ & ND & _). cbn [app] in ND. apply NoDup_cons_iff in ND.
          apply ND. now left. }
        rewrite Hpv in H1 |- *. eqb_f Hxe. apply lrep_ne; [destruct s1'; discriminate|].
        split; [now rewrite last_last|]. apply H1. destruct s1'; discriminate.
    + assert (Hle : l <> e).
      { rewrite Hl. change (e :: s2' ++ [x]) with ((e :: s2') ++ [x]).
        rewrite app_assoc, last_last. intros ->.
        apply NoDup_app_iff in ND. destruct ND as (_ & ND & _). apply NoDup_cons_iff in ND.
        apply ND. inl. }
      eqb_f Hle. apply lrep_ne; [apply app_ne_r, snoc_ne|]. split.
      * rewrite Hl. rewrite !last_app_ne by (apply snoc_ne || discriminate).
        change (e :: s2' ++ [x]) with ((e :: s2') ++ [x]). rewrite !last_last. reflexivity.
      * apply ring_rot. apply H1. destruct s2'; discriminate.
  - revert H3. apply frame_incl. intros a Ha. inl.
Qed.

(* ------------------------------------------------------------------ *)
(* 7. traversal                                                         *)
(* ------------------------------------------------------------------ *)
Lemma walk_next_S h l e f :
  walk_next h l e (S f) = if e =? 0 then [] else e :: walk_next h l (nsync_dll_next_ h l e) f.
Proof. reflexivity. Qed.
Lemma walk_prev_S h l e f :
  walk_prev h l e (S f) = if e =? 0 then [] else e :: walk_prev h l (nsync_dll_prev_ h l e) f.
Proof. reflexivity. Qed.

Lemma walk_next_seg h l : forall xs a b,
  seg h a xs b -> NoDup (a :: xs) -> ~ In 0 (a :: xs) -> last (a :: xs) 0 = l ->
  walk_next h l a (S (S (length xs))) = a :: xs.
Proof.
  induction xs as [|x t IH]; intros a b S ND Z L.
  - cbn in L. subst l. assert (a <> 0) by (intros ->; apply Z; now left).
    rewrite walk_next_S. eqb_f H. rewrite next_eq, Z.eqb_refl. reflexivity.
  - cbn [seg] in S. destruct S as (S1 & S2 & S3). rewrite last_cons2 in L.
    apply NoDup_cons_iff in ND. destruct ND as [ND1 ND2].
    assert (a <> 0) by (intros ->; apply Z; now left).
    assert (a <> l).
    { intros ->. apply ND1. rewrite <- L. apply last_In. discriminate. }
    cbn [length]. rewrite walk_next_S. eqb_f H. rewrite next_eq. eqb_f H0. rewrite S1.
    f_equal. apply (IH x b); auto. intros H1. apply Z. now right.
Qed.

Lemma walk_prev_seg h l x : nx h l = x -> forall t l0,
  seg h x t l0 -> NoDup (x :: t ++ [l0]) -> ~ In 0 (x :: t ++ [l0]) ->
  walk_prev h l l0 (S (S (S (length t)))) = l0 :: rev t ++ [x].
Proof.
  intros Hx. induction t as [|z t IH] using rev_ind; intros l0 S ND Z.
  - cbn [seg] in S. destruct S as [S1 S2]. cbn [app] in *.
    assert (l0 <> 0) by (intros ->; apply Z; inl).
    assert (x <> 0) by (intros ->; apply Z; inl).
    assert (l0 <> x).
    { intros ->. apply NoDup_cons_iff in ND. apply ND. now left. }
    cbn [length rev app].
    rewrite walk_prev_S. eqb_f H. rewrite prev_eq, Hx. eqb_f H1. rewrite S2.
    rewrite walk_prev_S. eqb_f H0. rewrite prev_eq, Hx, Z.eqb_refl. reflexivity.
  - apply seg_snoc in S. destruct S as (S1 & S2 & S3).
    change (x :: (t ++ [z]) ++ [l0]) with ((x :: t ++ [z]) ++ [l0]) in ND, Z.
    apply NoDup_snoc in ND. destruct ND as [ND1 ND2].
    assert (l0 <> 0) by (intros ->; apply Z; inl).
    assert (l0 <> x) by (intros ->; apply ND2; now left).
    rewrite app_length, Nat.add_1_r, rev_unit. cbn [length app].
    rewrite walk_prev_S. eqb_f H. rewrite prev_eq, Hx. eqb_f H0. rewrite S3.
    f_equal. apply IH; auto. intros H1. apply Z. inl.
Qed.

Lemma traverse_spec : forall h l s, lrep h l s ->
  traverse_fwd h l (S (length s)) = s /\
  traverse_bwd h l (S (length s)) = rev s /\
  (nsync_dll_is_empty_ l = 1 <-> s = []) /\ (nsync_dll_is_empty_ l = 0 <-> s <> []).
Proof.
  intros h l s Hl. pose proof (lrep_null _ _ _ Hl) as Hn.
  unfold traverse_fwd, traverse_bwd, nsync_dll_last_, nsync_dll_is_empty_. rewrite first_eq.
  destruct s as [|x t].
  - assert (l = 0) by tauto. subst l. cbn. repeat split; auto; try discriminate; congruence.
  - assert (Hl0 : l <> 0) by (rewrite Hn; discriminate). eqb_f Hl0.
    destruct Hl as [Hl Hr]. pose proof (ring_ends _ _ _ Hr) as [Hpv Hnx]. rewrite <- Hl in *.
    destruct Hr as (S & ND & Z).
    split; [|split; [|cbn; split; split; congruence]].
    + rewrite Hnx. cbn [length]. apply (walk_next_seg h l t x x); auto.
    + destruct (snoc_case t) as [->|(t' & l' & ->)].
      * cbn in Hl. subst l. cbn [length rev app].
        rewrite walk_prev_S. eqb_f Hl0. rewrite prev_eq, Hnx, Z.eqb_refl. reflexivity.
      * assert (l' = l) by (rewrite Hl; change (x :: t' ++ [l']) with ((x :: t') ++ [l']);
                            now rewrite last_last).
        subst l'. apply seg_snoc in S. destruct S as (S1 & S2 & S3).
        cbn [length rev]. rewrite app_length, Nat.add_1_r, rev_unit. cbn [length app].
        apply (walk_prev_seg h l x Hnx t' l S1); auto.
Qed.

(* ------------------------------------------------------------------ *)
(* 8. indexed updates of lists of lists                                 *)
(* ------------------------------------------------------------------ *)
Definition setn {A} (l : list A) (i : nat) (v : A) : list A := firstn i l ++ v :: skipn (S i) l.

Lemma set_list_setn st i v : set_list st i v = setn st i v.
Proof. reflexivity. Qed.

Lemma op_spec_setn st o :
  op_spec st o =
  let g i := nth i st [] in
  match o with
  | OpFirst i j => setn (setn st i (g j ++ g i)) j []
  | OpLast i j => setn (setn st i (g i ++ g j)) j []
  | OpRemove i k => setn st i (firstn k (g i) ++ skipn (S k) (g i)) ++ [[nth k (g i) 0]]
  | OpSplice i k j => setn (setn st i (firstn (S k) (g i) ++ g j ++ skipn (S k) (g i))) j []
  end.
Proof. destruct o; reflexivity. Qed.

Lemma setn_cons_S {A} (x : A) l i v : setn (x :: l) (S i) v = x :: setn l i v.
Proof. reflexivity. Qed.
Lemma setn_cons_0 {A} (x : A) l v : setn (x :: l) 0 v = v :: l.
Proof. reflexivity. Qed.

Lemma setn_length {A} (l : list A) : forall i v, (i < length l)%nat -> length (setn l i v) = length l.
Proof.
  induction l as [|x l IH]; intros i v Hi; cbn [length] in *; [lia|].
  destruct i as [|i]; [reflexivity|]. rewrite setn_cons_S. cbn [length]. rewrite IH; auto. lia.
Qed.

Lemma nth_setn {A} (l : list A) d : forall i k v, (i < length l)%nat ->
  nth k (setn l i v) d = if Nat.eqb k i then v else nth k l d.
Proof.
  induction l as [|x l IH]; intros i k v Hi; cbn [length] in *; [lia|].
  destruct i as [|i].
  - rewrite setn_cons_0. destruct k; reflexivity.
  - rewrite setn_cons_S. destruct k as [|k]; [reflexivity|]. cbn [nth Nat.eqb]. apply IH. lia.
Qed.

Lemma map_setn {A B} (f : A -> B) l i v : map f (setn l i v) = setn (map f l) i (f v).
Proof. unfold setn. rewrite map_app, firstn_map, skipn_map. reflexivity. Qed.

Lemma setn_self {A} (l : list A) d : forall i, (i < length l)%nat -> setn l i (nth i l d) = l.
Proof.
  induction l as [|x l IH]; intros i Hi; cbn [length] in *; [lia|].
  destruct i as [|i]; [reflexivity|]. rewrite setn_cons_S. cbn [nth]. rewrite IH; auto. lia.
Qed.

Lemma concat_setn {A} (L : list (list A)) i v :
  Permutation (concat (setn L i v)) (v ++ concat (setn L i [])).
Proof.
  unfold setn. rewrite !concat_app. cbn [concat app]. apply Permutation_app_swap_app.
Qed.

Lemma concat_nth {A} (L : list (list A)) i : (i < length L)%nat ->
  Permutation (concat L) (nth i L [] ++ concat (setn L i [])).
Proof.
  intros Hi. rewrite <- (setn_self L [] i Hi) at 1. apply concat_setn.
Qed.

Lemma concat_setn2 {A} (L : list (list A)) i j v :
  (i < length L)%nat -> (j < length L)%nat -> i <> j ->
  Permutation v (nth j L [] ++ nth i L []) ->
  Permutation (concat (setn (setn L i v) j [])) (concat L).
Proof.
  intros Hi Hj Hij Hv.
  assert (Hj' : (j < length (setn L i v))%nat) by (rewrite setn_length; auto).
  pose proof (concat_nth (setn L i v) j Hj') as P1.
  rewrite nth_setn in P1 by auto.
  replace (Nat.eqb j i) with false in P1 by (symmetry; apply Nat.eqb_neq; auto).
  pose proof (concat_setn L i v) as P2. pose proof (concat_nth L i Hi) as P3.
  apply (Permutation_app_inv_l (nth j L [])).
  rewrite <- P1, P2, Hv, P3, <- app_assoc. reflexivity.
Qed.

Lemma concat_disj {A} (L : list (list A)) i k :
  NoDup (concat L) -> i <> k -> (i < length L)%nat -> (k < length L)%nat ->
  forall a, In a (nth k L []) -> ~ In a (nth i L []).
Proof.
  intros ND Hik Hi Hk a Hak Hai.
  apply (Permutation_NoDup (concat_nth L i Hi)) in ND. apply NoDup_app_iff in ND.
  destruct ND as (_ & _ & ND). apply (ND a Hai).
  apply in_concat. exists (nth k L []). split; auto.
  replace (nth k L []) with (nth k (setn L i []) []).
  - apply nth_In. rewrite setn_length; auto.
  - rewrite nth_setn by auto.
    replace (Nat.eqb k i) with false by (symmetry; apply Nat.eqb_neq; auto). reflexivity.
Qed.

Lemma firstn_S_nth {A} (l : list A) d : forall k, (k < length l)%nat ->
  firstn (S k) l = firstn k l ++ [nth k l d].
Proof.
  induction l as [|x l IH]; intros k Hk; cbn [length] in *; [lia|].
  destruct k as [|k]; [reflexivity|].
  cbn [firstn nth app]. f_equal. apply IH. lia.
Qed.

Lemma split_nth {A} (l : list A) d k : (k < length l)%nat ->
  l = firstn k l ++ nth k l d :: skipn (S k) l.
Proof. intros Hk. symmetry. apply (setn_self l d k Hk). Qed.

(* ------------------------------------------------------------------ *)
(* 9. whole-state invariant                                             *)
(* ------------------------------------------------------------------ *)
Lemma nth_map_snd (st : lists) k : nth k (map snd st) [] = snd (nth_list st k).
Proof. exact (map_nth snd st (0, []) k). Qed.

Lemma srep_nth h st i : srep h st -> (i < length st)%nat ->
  lrep h (fst (nth_list st i)) (snd (nth_list st i)).
Proof. intros [H _] Hi. exact (proj1 (Forall_nth _ _) H i (0, []) Hi). Qed.

Lemma srep_disj h st i k : srep h st -> i <> k -> (i < length st)%nat -> (k < length st)%nat ->
  disjoint (snd (nth_list st k)) (snd (nth_list st i)).
Proof.
  intros [_ H] Hik Hi Hk. unfold disjoint. rewrite <- !nth_map_snd.
  apply concat_disj; rewrite ?map_length; auto.
Qed.

Lemma srep_set1 h h' st i l' v :
  srep h st -> (i < length st)%nat -> lrep h' l' v -> frame h h' (snd (nth_list st i)) ->
  Forall (fun p => lrep h' (fst p) (snd p)) (setn st i (l', v)).
Proof.
  intros Hs Hi Hv Hf. apply Forall_nth. intros k d Hk. rewrite setn_length in Hk by auto.
  rewrite (nth_indep _ d (0, [])) by (rewrite setn_length; auto).
  rewrite nth_setn by auto. destruct (Nat.eqb_spec k i) as [->|Hki]; [exact Hv|].
  eapply lrep_frame; [exact Hf| |apply srep_nth; auto].
  apply (srep_disj h); auto.
Qed.

Lemma srep_set2 h h' st i j l' v :
  srep h st -> (i < length st)%nat -> (j < length st)%nat -> i <> j ->
  lrep h' l' v -> frame h h' (snd (nth_list st i) ++ snd (nth_list st j)) ->
  Permutation v (snd (nth_list st j) ++ snd (nth_list st i)) ->
  srep h' (setn (setn st i (l', v)) j (0, [])).
Proof.
  intros Hs Hi Hj Hij Hv Hf Hp. split.
  - apply Forall_nth. intros k d Hk. rewrite !setn_length in Hk by (rewrite ?setn_length; auto).
    rewrite (nth_indep _ d (0, [])) by (rewrite !setn_length; rewrite ?setn_length; auto).
    rewrite !nth_setn by (rewrite ?setn_length; auto).
    destruct (Nat.eqb_spec k j) as [->|Hkj]; [reflexivity|].
    destruct (Nat.eqb_spec k i) as [->|Hki]; [exact Hv|].
    eapply lrep_frame; [exact Hf| |apply srep_nth; auto].
    intros a Ha Hin. apply in_app_iff in Hin. destruct Hin as [Hin|Hin]; revert Hin.
    + apply (srep_disj h st i k); auto.
    + apply (srep_disj h st j k); auto.
  - rewrite !map_setn. cbn [snd].
    apply (Permutation_NoDup (l := concat (map snd st))); [|apply Hs].
    symmetry. apply concat_setn2; rewrite ?map_length, ?nth_map_snd; auto.
Qed.

Lemma first_lrep h l f fs : lrep h l (f :: fs) -> nsync_dll_first_ h l = f.
Proof.
  intros Hl. pose proof (lrep_null _ _ _ Hl) as Hn. destruct Hl as [Hl Hr].
  rewrite first_eq. destruct (Z.eqb_spec l 0) as [E|E]; [apply Hn in E; discriminate|].
  apply ring_ends in Hr. rewrite Hl. tauto.
Qed.

Lemma two_ok (st : lists) i j :
  Nat.ltb i (length st) && Nat.ltb j (length st) && negb (Nat.eqb i j) = true ->
  (i < length st)%nat /\ (j < length st)%nat /\ i <> j.
Proof.
  intros H. apply andb_true_iff in H. destruct H as [H H3]. apply andb_true_iff in H.
  destruct H as [H1 H2]. apply Nat.ltb_lt in H1, H2. apply negb_true_iff, Nat.eqb_neq in H3. auto.
Qed.

Lemma len_ne {A} (l : list A) : negb (Nat.eqb (length l) 0) = true -> l <> [].
Proof. destruct l; [discriminate|discriminate]. Qed.

Lemma pair_inj {A B} (a c : A) (b d : B) : (a, b) = (c, d) -> a = c /\ b = d.
Proof. intros H; injection H; auto. Qed.

Lemma op_step h st o h' st' :
  srep h st -> op_ok st o = true -> op_impl h st o = (h', st') ->
  srep h' st' /\ map snd st' = op_spec (map snd st) o.
Proof.
  intros Hs Hok Hi. rewrite op_spec_setn. cbv zeta.
  destruct o as [i j|i j|i k|i k j]; unfold op_ok, op_impl in *.
  - (* OpFirst *)
    apply andb_true_iff in Hok. destruct Hok as [Hok Hne]. apply two_ok in Hok.
    destruct Hok as (Hi' & Hj' & Hij). apply len_ne in Hne.
    pose proof (srep_nth h st i Hs Hi') as Li. pose proof (srep_nth h st j Hs Hj') as Lj.
    pose proof (srep_disj h st j i Hs (not_eq_sym Hij) Hj' Hi') as D.
    pose proof (srep_set2 h h' st i j) as S2.
    rewrite !nth_map_snd.
    remember (nth_list st i) as pi eqn:Ei. destruct pi as [li si].
    remember (nth_list st j) as pj eqn:Ej. destruct pj as [lj sj].
    simpl fst in *; simpl snd in *. destruct sj as [|f fs]; [congruence|clear Hne].
    rewrite (first_lrep h lj f fs Lj) in Hi.
    pose proof (make_first_spec h li si f fs Li (proj2 Lj) D) as M.
    destruct (nsync_dll_make_first_in_list_ h li f) as [l' h1].
    apply pair_inj in Hi; destruct Hi as [<- <-]. destruct M as [M1 M2]. change set_list with (@setn (Z * list Z)). split.
    + apply S2; auto.
    + rewrite !map_setn. reflexivity.
  - (* OpLast *)
    apply andb_true_iff in Hok. destruct Hok as [Hok Hne]. apply two_ok in Hok.
    destruct Hok as (Hi' & Hj' & Hij). apply len_ne in Hne.
    pose proof (srep_nth h st i Hs Hi') as Li. pose proof (srep_nth h st j Hs Hj') as Lj.
    pose proof (srep_disj h st j i Hs (not_eq_sym Hij) Hj' Hi') as D.
    pose proof (srep_set2 h h' st i j) as S2.
    rewrite !nth_map_snd.
    remember (nth_list st i) as pi eqn:Ei. destruct pi as [li si].
    remember (nth_list st j) as pj eqn:Ej. destruct pj as [lj sj].
    simpl fst in *; simpl snd in *. destruct (exists_last Hne) as (es & e & ->). clear Hne.
    apply lrep_ne in Lj; [|apply snoc_ne]. destruct Lj as [Lj Rj]. rewrite last_last in Lj. subst lj.
    unfold nsync_dll_last_ in Hi.
    pose proof (make_last_spec h li si e es Li Rj D) as M.
    destruct (nsync_dll_make_last_in_list_ h li e) as [l' h1].
    apply pair_inj in Hi; destruct Hi as [<- <-]. destruct M as [M1 M2]. change set_list with (@setn (Z * list Z)). split.
    + apply S2; auto. apply Permutation_app_comm.
    + rewrite !map_setn. reflexivity.
  - (* OpRemove *)
    apply andb_true_iff in Hok. destruct Hok as [Hi' Hk]. apply Nat.ltb_lt in Hi', Hk.
    pose proof (srep_nth h st i Hs Hi') as Li.
    pose proof (srep_set1 h h' st i) as S1.
    pose proof (concat_nth (map snd st) i) as CN. rewrite map_length in CN. specialize (CN Hi').
    rewrite !nth_map_snd in *.
    remember (nth_list st i) as pi eqn:Ei. destruct pi as [li si]. simpl fst in *; simpl snd in *.
    pose proof (split_nth si 0 k Hk) as Es.
    remember (nth k si 0) as e eqn:Ee. remember (firstn k si) as a eqn:Ea.
    remember (skipn (S k) si) as b eqn:Eb. clear Ee Ea Eb.
    pose proof Li as Li'. rewrite Es in Li'.
    pose proof (remove_spec h li a e b Li') as M.
    destruct (nsync_dll_remove_ h li e) as [l' h1].
    apply pair_inj in Hi; destruct Hi as [<- <-]. destruct M as (M1 & M2 & M3). rewrite <- Es in M3.
    change set_list with (@setn (Z * list Z)). split; [split|].
    + apply Forall_app. split; [apply S1; auto|].
      constructor; [|constructor]. split; [reflexivity|exact M2].
    + rewrite map_app, map_setn, concat_app. cbn [map snd concat]. rewrite app_nil_r.
      apply (Permutation_NoDup (l := concat (map snd st))); [|apply Hs].
      rewrite concat_setn, CN, <- Permutation_cons_append.
      rewrite Es at 1. rewrite <- !app_assoc. cbn [app]. symmetry. apply Permutation_middle.
    + rewrite map_app, map_setn. reflexivity.
  - (* OpSplice *)
    apply andb_true_iff in Hok. destruct Hok as [Hok Hne].
    apply andb_true_iff in Hok. destruct Hok as [Hok Hk]. apply two_ok in Hok.
    destruct Hok as (Hi' & Hj' & Hij). apply len_ne in Hne. apply Nat.ltb_lt in Hk.
    pose proof (srep_nth h st i Hs Hi') as Li. pose proof (srep_nth h st j Hs Hj') as Lj.
    pose proof (srep_disj h st j i Hs (not_eq_sym Hij) Hj' Hi') as D.
    pose proof (srep_set2 h h' st i j) as S2.
    rewrite !nth_map_snd.
    remember (nth_list st i) as pi eqn:Ei. destruct pi as [li si].
    remember (nth_list st j) as pj eqn:Ej. destruct pj as [lj sj].
    simpl fst in *; simpl snd in *. destruct sj as [|f fs]; [congruence|clear Hne].
    rewrite (first_lrep h lj f fs Lj) in Hi. destruct Lj as [_ Rj].
    apply pair_inj in Hi; destruct Hi as [<- <-]. change set_list with (@setn (Z * list Z)). split; [|rewrite !map_setn; reflexivity].
    assert (Hk' : (k < length si)%nat) by lia.
    pose proof (firstn_skipn (S k) si) as Es.
    pose proof (firstn_S_nth si 0 k Hk') as Ef.
    assert (Hb : skipn (S k) si <> []).
    { intros E. apply (f_equal (@length Z)) in E. rewrite skipn_length in E. cbn in E. lia. }
    remember (nth k si 0) as p eqn:Ep. remember (firstn k si) as a eqn:Ea.
    remember (skipn (S k) si) as b eqn:Eb. clear Ep Ea Eb. rewrite Ef in *. clear Ef.
    apply lrep_ne in Li; [|subst si; apply app_ne_r; auto]. destruct Li as [Ll Ri].
    rewrite <- Es in Ri. rewrite <- app_assoc in Ri. apply ring_rot in Ri. cbn [app] in Ri.
    destruct (splice_ring h p (b ++ a) f fs Ri Rj) as [R' F'].
    { intros x Hx Hx'. apply (D x); auto. rewrite <- Es. inl. }
    apply S2; auto.
    + apply lrep_ne; [apply app_ne_r, app_ne_r; auto|]. split.
      * rewrite Ll, <- Es. rewrite !app_assoc. rewrite !last_app_ne by auto. reflexivity.
      * rewrite <- !app_assoc. cbn [app].
        apply (ring_rot _ (p :: f :: fs ++ b) a). cbn [app]. rewrite <- app_assoc. exact R'.
    + revert F'. apply frame_incl. intros x Hx. rewrite <- Es. inl.
    + rewrite <- Es. apply Permutation_app_swap_app.
Qed.

(* ------------------------------------------------------------------ *)
(* 10. operation sequences                                              *)
(* ------------------------------------------------------------------ *)
Lemma run_refines : forall ops h st h' st',
  srep h st -> run h st ops = Some (h', st') ->
  srep h' st' /\ map snd st' = fold_left op_spec ops (map snd st).
Proof.
  induction ops as [|o ops IH]; intros h st h' st' Hs Hr; cbn [run fold_left] in *.
  - injection Hr as <- <-. split; auto.
  - destruct (op_ok st o) eqn:Hok; [|discriminate].
    destruct (op_impl h st o) as [h1 st1] eqn:Hi.
    destruct (op_step _ _ _ _ _ Hs Hok Hi) as [Hs1 Hm1].
    destruct (IH _ _ _ _ Hs1 Hr) as [Hs' Hm']. split; auto.
    rewrite <- Hm1. exact Hm'.
Qed.

Lemma run_sequences : forall ops h st h' st' i,
  srep h st -> run h st ops = Some (h', st') -> (i < length st')%nat ->
  let l := fst (nth i st' (0, [])) in
  let s := nth i (fold_left op_spec ops (map snd st)) [] in
  traverse_fwd h' l (S (length s)) = s /\ traverse_bwd h' l (S (length s)) = rev s.
Proof.
  intros ops h st h' st' i Hs Hr Hi l s.
  destruct (run_refines _ _ _ _ _ Hs Hr) as [Hs' Hm].
  subst s. rewrite <- Hm, nth_map_snd.
  pose proof (traverse_spec h' l _ (srep_nth h' st' i Hs' Hi)) as H. tauto.
Qed.

(* ------------------------------------------------------------------ *)
(* 11. a concrete run                                                   *)
(* ------------------------------------------------------------------ *)
Definition ex_cell (n p : Z) := mk_nsync_dll_element_s_ n p 0.
Definition ex_h : heap := fun a =>
  if a =? 10 then ex_cell 11 11 else
  if a =? 11 then ex_cell 10 10 else
  if a =? 12 then ex_cell 12 12 else
  if a =? 20 then ex_cell 20 20 else
  if a =? 30 then ex_cell 30 30 else zero_nsync_dll_element_s_.
Definition ex_st : lists := [(11, [10; 11]); (20, [20]); (12, [12]); (30, [30])].
Definition ex_ops := [OpLast 0 2; OpFirst 0 1; OpRemove 0 1; OpSplice 0 0 3].

Lemma ex_srep : srep ex_h ex_st.
Proof.
  split.
  - repeat constructor; cbn; try (intros H; intuition (try lia; try discriminate)).
  - repeat constructor; cbn; intuition (try lia; try discriminate).
Qed.

Lemma example_run : exists h st h' st',
  srep h st /\ run h st [OpLast 0 2; OpFirst 0 1; OpRemove 0 1; OpSplice 0 0 3] = Some (h', st') /\
  map snd st = [[10; 11]; [20]; [12]; [30]] /\
  map snd st' = [[20; 30; 11; 12]; []; []; []; [10]].
Proof.
  assert (E : match run ex_h ex_st ex_ops with Some _ => true | None => false end = true)
    by (vm_compute; reflexivity).
  destruct (run ex_h ex_st ex_ops) as [[h' st']|] eqn:Hr; [clear E|discriminate].
  exists ex_h, ex_st, h', st'. split; [exact ex_srep|]. split; [exact Hr|]. split; [reflexivity|].
  destruct (run_refines _ _ _ _ _ ex_srep Hr) as [_ Hm]. rewrite Hm. reflexivity.
Qed.
