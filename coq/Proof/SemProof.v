(* SemProof: proofs of the C12 lemmas about Model/SemModel.v (the futex semaphore).

   Part 1  the sites: the expressions of Gen/Sites.v that SemModel writes to the futex
           word (i - 1 in the two P functions, old_value + 1 in V) and the guards of the
           two P CASes are characterised by UNFOLDING the generated definitions; the
           characterisations carry the no-wrap side conditions.  After that the
           generated names are made (locally) opaque, so every later proof goes
           through these lemmas: if the C expression changes, Part 1 breaks.
   Part 2  list lemmas about lupd / nth_error and the ghost measure [pend]
           (V calls whose CAS has not succeeded yet).
   Part 3  three inductive invariants (InvA count/no-lost-post, InvE timeout, InvC
           deadlines) and their preservation by [step].
   Part 4  the lemmas used by Props/Properties_C12.v. *)
From NsyncBase Require Import CSem.
From NsyncGen Require Import Consts Sites.
From Coq Require Import List ZArith Bool Lia.
From NsyncModel Require Import SemModel.
Import ListNotations.
Local Open Scope Z_scope.

(* ================================================================== *)
(* Part 1: the sites                                                   *)
(* ================================================================== *)

Lemma p_new_id i : 1 <= i < 2 ^ 31 -> nsync_mu_semaphore_p_cas1_new i = i - 1.
Proof.
  intros H. change (2 ^ 31) with 2147483648 in H.
  unfold nsync_mu_semaphore_p_cas1_new.
  rewrite wrap_s_id; [rewrite wrap_u_id | lia | ]; unfold in_u, in_s;
    change (2 ^ (32 - 1)) with 2147483648; change (2 ^ 32) with 4294967296; lia.
Qed.

Lemma pd_new_id i : 1 <= i < 2 ^ 31 -> nsync_mu_semaphore_p_with_deadline_cas1_new i = i - 1.
Proof.
  intros H. change (2 ^ 31) with 2147483648 in H.
  unfold nsync_mu_semaphore_p_with_deadline_cas1_new.
  rewrite wrap_s_id; [rewrite wrap_u_id | lia | ]; unfold in_u, in_s;
    change (2 ^ (32 - 1)) with 2147483648; change (2 ^ 32) with 4294967296; lia.
Qed.

Lemma v_new_id old : 0 <= old < 2 ^ 31 -> nsync_mu_semaphore_v_cas1_new old = old + 1.
Proof.
  intros H. change (2 ^ 31) with 2147483648 in H.
  unfold nsync_mu_semaphore_v_cas1_new.
  rewrite (wrap_u_id 32 1); [rewrite wrap_u_id; [reflexivity|] | ]; unfold in_u;
    change (2 ^ 32) with 4294967296; lia.
Qed.

Lemma p_guard_spec i : nsync_mu_semaphore_p_cas1_guard i = negb (i =? 0).
Proof. reflexivity. Qed.

Lemma pd_guard_spec i : nsync_mu_semaphore_p_with_deadline_cas1_guard 0 i = negb (i =? 0).
Proof. reflexivity. Qed.

Local Opaque nsync_mu_semaphore_p_cas1_new nsync_mu_semaphore_p_with_deadline_cas1_new
  nsync_mu_semaphore_v_cas1_new nsync_mu_semaphore_p_cas1_guard
  nsync_mu_semaphore_p_with_deadline_cas1_guard.

(* boolean tests to propositions *)
Ltac zb := repeat match goal with
  | H : negb _ = true |- _ => apply negb_true_iff in H
  | H : negb _ = false |- _ => apply negb_false_iff in H
  | H : (_ =? _) = true |- _ => apply Z.eqb_eq in H
  | H : (_ =? _) = false |- _ => apply Z.eqb_neq in H
  | H : (_ <=? _) = true |- _ => apply Z.leb_le in H
  | H : (_ <=? _) = false |- _ => apply Z.leb_gt in H
  | H : (_ <? _) = true |- _ => apply Z.ltb_lt in H
  | H : (_ <? _) = false |- _ => apply Z.ltb_ge in H
  end.

(* split the tests and the kernel's choice in a step *)
Ltac brk := repeat match goal with
  | |- context [if ?b then _ else _] => destruct b eqn:?
  | |- context [match ?c with CNormal => _ | CEintr => _ | CEarlyTimeout => _ end] => destruct c
  end.

(* ================================================================== *)
(* Part 2: lists                                                       *)
(* ================================================================== *)

Lemma nth_lupd_same {A} (l : list A) k p q :
  nth_error l k = Some p -> nth_error (lupd l k q) k = Some q.
Proof.
  revert k; induction l as [|x t IH]; intros [|k] H; cbn in *; try discriminate; auto.
Qed.

Lemma nth_lupd_other {A} (l : list A) k k' q :
  k <> k' -> nth_error (lupd l k q) k' = nth_error l k'.
Proof.
  revert k k'; induction l as [|x t IH]; intros [|k] [|k'] H; cbn; auto; try congruence.
Qed.

Definition pend1 (p : ppc * nat) : Z :=
  match fst p with
  | VIdle | VWake => Z.of_nat (snd p)
  | VLoad | VCas _ => Z.of_nat (snd p) + 1
  end.
Fixpoint pend (l : list (ppc * nat)) : Z :=
  match l with [] => 0 | p :: t => pend1 p + pend t end.

Lemma pend1_nonneg p : 0 <= pend1 p.
Proof. destruct p as [[| |o|] n]; unfold pend1; cbn [fst snd]; lia. Qed.

Lemma pend_nonneg l : 0 <= pend l.
Proof. induction l as [|p t IH]; cbn [pend]; [lia | pose proof (pend1_nonneg p); lia]. Qed.

Lemma pend_lupd l k p q :
  nth_error l k = Some p -> pend (lupd l k q) = pend l - pend1 p + pend1 q.
Proof.
  revert k; induction l as [|x t IH]; intros [|k] H; cbn in H; try discriminate.
  - injection H as ->. cbn [lupd pend]. lia.
  - cbn [lupd pend]. rewrite (IH _ H). lia.
Qed.

Lemma pend_init posts : pend (map (fun n => (VIdle, n)) posts) = total_posts posts.
Proof.
  unfold total_posts. induction posts as [|n t IH]; [reflexivity|].
  cbn [map pend fold_right]. rewrite IH, Nat2Z.inj_add. reflexivity.
Qed.

(* some poster is between its successful CAS and its FUTEX_WAKE *)
Definition pw (l : list (ppc * nat)) : Prop := exists k n, nth_error l k = Some (VWake, n).

Lemma pw_lupd_new l k p n : nth_error l k = Some p -> pw (lupd l k (VWake, n)).
Proof. intros H. exists k, n. eapply nth_lupd_same; eauto. Qed.

Lemma pw_lupd_keep l k pc n q :
  nth_error l k = Some (pc, n) -> pc <> VWake -> pw l -> pw (lupd l k q).
Proof.
  intros H Hpc (k' & n' & H'). exists k', n'.
  rewrite nth_lupd_other; auto. intros ->. rewrite H in H'. congruence.
Qed.

(* ================================================================== *)
(* Part 3: invariants                                                  *)
(* ================================================================== *)

(* --- InvA: the count, the successes, no lost post ------------------ *)

Definition cas_ok (o : opc) : Prop :=
  match o with PCas i | TCas _ i => i <> 0 | _ => True end.

Record InvA (T : Z) (w : world) : Prop := mkA {
  ia_word : word w = nV w - nP w;
  ia_nonneg : 0 <= word w;
  ia_nP : 0 <= nP w;
  ia_pend : nV w + pend (posters w) = T;
  ia_ret : ret0 w = nP w;
  ia_cas : cas_ok (owner w);
  ia_sleep : owner_asleep w = true -> word w = 0 \/ pw (posters w)
}.

Lemma begin_owner_A T w : InvA T w -> InvA T (begin_owner w).
Proof.
  intros [H1 H2 H3 H4 H5 H6 H7]. destruct w as [wd ck ow op la ps np nv r0 ea].
  unfold begin_owner; cbn in *.
  destruct ow; try (constructor; cbn; assumption).
  destruct op as [|[d|] rest]; constructor; cbn; auto; discriminate.
Qed.

Lemma word_bound T w : T < 2 ^ 31 -> InvA T w -> word w < 2 ^ 31.
Proof.
  intros HT [H1 H2 H3 H4 H5 H6 H7]. pose proof (pend_nonneg (posters w)). lia.
Qed.

Lemma step_owner_A T w c : T < 2 ^ 31 -> InvA T w -> InvA T (fst (step_owner w c)).
Proof.
  intros HT H. apply begin_owner_A in H. unfold step_owner; cbv zeta.
  revert H. generalize (begin_owner w). clear w. intros w H.
  pose proof (word_bound _ _ HT H) as Hb.
  destruct H as [H1 H2 H3 H4 H5 H6 H7]. destruct w as [wd ck ow op la ps np nv r0 ea].
  cbn in *. destruct ow; cbn in *.
  - (* OIdle *) constructor; cbn; auto.
  - (* PLoad *) rewrite p_guard_spec. brk; zb; constructor; cbn; auto; discriminate.
  - (* PFutex *) brk; zb; constructor; cbn; auto; discriminate.
  - (* PSleep *) brk; constructor; cbn; auto; discriminate.
  - (* PCas *) brk; zb; cbn [fst].
    + subst i. rewrite p_new_id by lia. constructor; cbn; auto; try lia; discriminate.
    + constructor; cbn; auto; discriminate.
  - (* TLoad *) rewrite pd_guard_spec. brk; zb; constructor; cbn; auto; discriminate.
  - (* TFutex *) destruct (ts_of d); brk; zb; constructor; cbn; auto; discriminate.
  - (* TSleep *) destruct (ts_of d); brk; constructor; cbn; auto; discriminate.
  - (* TClock *) brk; constructor; cbn; auto; discriminate.
  - (* TCas *) brk; zb; cbn [fst].
    + subst i. rewrite pd_new_id by lia. constructor; cbn; auto; try lia; discriminate.
    + constructor; cbn; auto; discriminate.
  - (* OCrash *) constructor; cbn; auto.
Qed.

Lemma asleep_wake_owner w : owner_asleep (wake_owner w) = false.
Proof. destruct w as [wd ck ow op la ps np nv r0 ea]. destruct ow; reflexivity. Qed.

Lemma step_poster_A T w k : T < 2 ^ 31 -> InvA T w -> InvA T (fst (step_poster w k)).
Proof.
  intros HT H. pose proof (word_bound _ _ HT H) as Hb.
  destruct H as [H1 H2 H3 H4 H5 H6 H7]. unfold step_poster.
  destruct (nth_error (posters w) k) as [[[| |old|] n]|] eqn:E.
  - (* VIdle *) destruct n as [|n]; cbn [fst]; [constructor; auto|].
    destruct w as [wd ck ow op la ps np nv r0 ea]; cbn in *.
    constructor; cbn; auto.
    + rewrite (pend_lupd _ _ _ _ E). unfold pend1; cbn [fst snd]. lia.
    + intros Hs. destruct (H7 Hs) as [?|Hp]; [now left | right].
      eapply pw_lupd_keep; eauto. discriminate.
  - (* VLoad *) cbn [fst].
    destruct w as [wd ck ow op la ps np nv r0 ea]; cbn in *.
    constructor; cbn; auto.
    + rewrite (pend_lupd _ _ _ _ E). unfold pend1; cbn [fst snd]. lia.
    + intros Hs. destruct (H7 Hs) as [?|Hp]; [now left | right].
      eapply pw_lupd_keep; eauto. discriminate.
  - (* VCas *) destruct w as [wd ck ow op la ps np nv r0 ea]; cbn in *.
    pose proof (pend_nonneg (lupd ps k (VWake, n))) as Hn.
    brk; zb; cbn [fst].
    + subst old. rewrite v_new_id by lia.
      assert (Hp : pend (lupd ps k (VWake, n)) = pend ps - 1).
      { rewrite (pend_lupd _ _ _ _ E). unfold pend1; cbn [fst snd]. lia. }
      constructor; cbn; auto; try lia.
      intros _. right. eapply pw_lupd_new; eauto.
    + constructor; cbn; auto.
      * rewrite (pend_lupd _ _ _ _ E). unfold pend1; cbn [fst snd]. lia.
      * intros Hs. destruct (H7 Hs) as [?|Hp]; [now left | right].
        eapply pw_lupd_keep; eauto. discriminate.
  - (* VWake *) cbn [fst].
    assert (Ha := asleep_wake_owner w).
    destruct w as [wd ck ow op la ps np nv r0 ea]; cbn in *.
    destruct ow; cbn in *; constructor; cbn; auto; try discriminate;
      rewrite (pend_lupd _ _ _ _ E); unfold pend1; cbn [fst snd]; lia.
  - (* no such poster *) constructor; auto.
Qed.

Lemma step_A T w a c : T < 2 ^ 31 -> InvA T w -> InvA T (fst (step w a c)).
Proof.
  intros HT H. destruct a as [|k|dt]; cbn [step].
  - now apply step_owner_A.
  - now apply step_poster_A.
  - destruct H as [H1 H2 H3 H4 H5 H6 H7]. brk; cbn [fst]; constructor; auto.
Qed.

Lemma run_A T w s : T < 2 ^ 31 -> InvA T w -> InvA T (run w s).
Proof.
  intros HT. unfold run. revert w. induction s as [|[a c] s IH]; intros w H; cbn [fold_left fst snd]; auto.
  apply IH. now apply step_A.
Qed.

Lemma init_A prog posts clock0 : InvA (total_posts posts) (init prog posts clock0).
Proof.
  unfold init. constructor; cbn; auto; try lia; try discriminate.
  rewrite pend_init. lia.
Qed.

Lemma reach_A prog posts clock0 sched :
  total_posts posts < 2 ^ 31 -> InvA (total_posts posts) (run (init prog posts clock0) sched).
Proof. intros HT. apply run_A; auto. apply init_A. Qed.

(* --- InvE: ETIMEDOUT only at or after the deadline ------------------ *)

Lemma begin_owner_early w : early (begin_owner w) = early w.
Proof.
  destruct w as [wd ck ow op la ps np nv r0 ea]. unfold begin_owner; cbn.
  destruct ow; try reflexivity. destruct op as [|[d|] rest]; reflexivity.
Qed.

Lemma step_owner_E w c : early w = 0 -> early (fst (step_owner w c)) = 0.
Proof.
  intros H. rewrite <- begin_owner_early in H. unfold step_owner; cbv zeta.
  revert H. generalize (begin_owner w). clear w. intros w H.
  destruct w as [wd ck ow op la ps np nv r0 ea]. cbn in *.
  destruct ow; cbn; try destruct (ts_of d); brk; cbn; auto.
  (* TClock, returning ETIMEDOUT: the test tm_ns d <= clock held *)
  all: brk; zb; lia.
Qed.

Lemma step_poster_E w k : early w = 0 -> early (fst (step_poster w k)) = 0.
Proof.
  intros H. unfold step_poster.
  destruct (nth_error (posters w) k) as [[[| |old|] n]|]; try destruct n; brk; cbn; auto.
  all: destruct w as [wd ck ow op la ps np nv r0 ea]; destruct ow; cbn in *; auto.
Qed.

Lemma step_E w a c : early w = 0 -> early (fst (step w a c)) = 0.
Proof.
  intros H. destruct a as [|k|dt]; cbn [step].
  - now apply step_owner_E.
  - now apply step_poster_E.
  - brk; cbn; auto.
Qed.

Lemma run_E w s : early w = 0 -> early (run w s) = 0.
Proof.
  unfold run. revert w. induction s as [|[a c] s IH]; intros w H; cbn [fold_left fst snd]; auto.
  apply IH. now apply step_E.
Qed.

(* --- InvC: every deadline the owner handles is valid for the kernel -- *)

Definition tm_ok (d : tm) : Prop := normalized d.

(* the timespec handed to the kernel is the epoch {0,0} or d itself with 0 <= t_sec d *)
Lemma ts_of_valid d ts : tm_ok d -> ts_of d = Some ts -> ts_valid ts = true.
Proof.
  unfold tm_ok, normalized, ts_of. intros H E.
  destruct (is_no_deadline d); [discriminate|]. injection E as <-.
  destruct (Z.ltb_spec (t_sec d) 0); [reflexivity|].
  unfold ts_valid.
  apply andb_true_intro; split; [apply andb_true_intro; split|];
    [apply Z.leb_le | apply Z.leb_le | apply Z.ltb_lt]; lia.
Qed.

Definition own_ok (o : opc) : Prop :=
  match o with
  | TLoad d | TFutex d | TSleep d | TClock d | TCas d _ => tm_ok d
  | OCrash => False
  | _ => True
  end.

Record InvC (w : world) : Prop := mkC {
  ic_prog : forall d, In (Some d) (oprog w) -> tm_ok d;
  ic_own : own_ok (owner w)
}.

Lemma begin_owner_C w : InvC w -> InvC (begin_owner w).
Proof.
  intros [H1 H2]. destruct w as [wd ck ow op la ps np nv r0 ea].
  unfold begin_owner; cbn in *.
  destruct ow; try (constructor; cbn; assumption).
  destruct op as [|[d|] rest]; constructor; cbn; auto; intros; apply H1; cbn; auto.
Qed.

Lemma step_owner_C w c : InvC w -> InvC (fst (step_owner w c)).
Proof.
  intros H. apply begin_owner_C in H. unfold step_owner; cbv zeta.
  revert H. generalize (begin_owner w). clear w. intros w [H1 H2].
  destruct w as [wd ck ow op la ps np nv r0 ea]. cbn in *.
  destruct ow; cbn in *; try (brk; constructor; cbn; auto; fail).
  - (* TFutex *) destruct (ts_of d) as [ts|] eqn:E.
    + rewrite (ts_of_valid _ _ H2 E). cbn [negb].
      brk; constructor; cbn; auto.
    + brk; constructor; cbn; auto.
Qed.

Lemma step_poster_C w k : InvC w -> InvC (fst (step_poster w k)).
Proof.
  intros [H1 H2]. unfold step_poster.
  destruct (nth_error (posters w) k) as [[[| |old|] n]|]; try destruct n; brk; cbn [fst];
    try (constructor; cbn; auto; fail).
  all: destruct w as [wd ck ow op la ps np nv r0 ea]; destruct ow; cbn in *; constructor; cbn; auto.
Qed.

Lemma step_C w a c : InvC w -> InvC (fst (step w a c)).
Proof.
  intros H. destruct a as [|k|dt]; cbn [step].
  - now apply step_owner_C.
  - now apply step_poster_C.
  - destruct H as [H1 H2]. brk; cbn [fst]; constructor; auto.
Qed.

Lemma run_C w s : InvC w -> InvC (run w s).
Proof.
  unfold run. revert w. induction s as [|[a c] s IH]; intros w H; cbn [fold_left fst snd]; auto.
  apply IH. now apply step_C.
Qed.

Lemma init_C prog posts clock0 : prog_ok prog -> InvC (init prog posts clock0).
Proof. intros H. constructor; cbn; auto. Qed.

(* ================================================================== *)
(* Part 4: the lemmas of Props/Properties_C12.v                        *)
(* ================================================================== *)

Lemma count_reachable prog posts clock0 sched :
  total_posts posts < 2 ^ 31 ->
  word (run (init prog posts clock0) sched)
    = nV (run (init prog posts clock0) sched) - nP (run (init prog posts clock0) sched)
  /\ 0 <= word (run (init prog posts clock0) sched).
Proof. intros HT. destruct (reach_A prog posts clock0 sched HT); auto. Qed.

Lemma no_free_lunch_reachable prog posts clock0 sched :
  total_posts posts < 2 ^ 31 ->
  ret0 (run (init prog posts clock0) sched) = nP (run (init prog posts clock0) sched)
  /\ nP (run (init prog posts clock0) sched) <= nV (run (init prog posts clock0) sched).
Proof. intros HT. destruct (reach_A prog posts clock0 sched HT). split; [auto | lia]. Qed.

Lemma timeout_sound_reachable prog posts clock0 sched :
  early (run (init prog posts clock0) sched) = 0.
Proof. apply run_E. reflexivity. Qed.

Lemma no_lost_post_reachable prog posts clock0 sched :
  total_posts posts < 2 ^ 31 ->
  owner_asleep (run (init prog posts clock0) sched) = true ->
  word (run (init prog posts clock0) sched) = 0 \/ pending_wake (run (init prog posts clock0) sched).
Proof. intros HT. destruct (reach_A prog posts clock0 sched HT) as [_ _ _ _ _ _ H]. exact H. Qed.

Lemma no_crash_reachable prog posts clock0 sched :
  prog_ok prog -> owner (run (init prog posts clock0) sched) <> OCrash.
Proof.
  intros Hp. destruct (run_C _ sched (init_C prog posts clock0 Hp)) as [_ H].
  intros E. rewrite E in H. exact H.
Qed.

(* --- the owner running alone ---------------------------------------- *)

Section Solo.
  Variables (wd ck : Z) (op : list (option tm)) (la : ores) (ps : list (ppc * nat)) (np nv r0 ea : Z).
  Variable c : choice.
  Let W (v : Z) (o : opc) := mk_w v ck o op la ps np nv r0 ea.
  Let Done := mk_w (wd - 1) ck OIdle op ROk ps (np + 1) nv (r0 + 1) ea.

  Lemma so_PLoad : wd <> 0 -> fst (step_owner (W wd PLoad) c) = W wd (PCas wd).
  Proof.
    intros H. unfold step_owner, begin_owner, W; cbn. rewrite p_guard_spec.
    destruct (Z.eqb_spec wd 0); [contradiction | reflexivity].
  Qed.

  Lemma so_PFutex : wd <> 0 -> fst (step_owner (W wd PFutex) c) = W wd PLoad.
  Proof.
    intros H. unfold step_owner, begin_owner, W; cbn.
    destruct (Z.eqb_spec wd 0); [contradiction | reflexivity].
  Qed.

  Lemma so_PCas_ok : 1 <= wd < 2 ^ 31 -> fst (step_owner (W wd (PCas wd)) c) = Done.
  Proof.
    intros H. unfold step_owner, begin_owner, W, Done; cbn.
    rewrite Z.eqb_refl, p_new_id by assumption. reflexivity.
  Qed.

  Lemma so_PCas_fail i : wd <> i -> fst (step_owner (W wd (PCas i)) c) = W wd PLoad.
  Proof.
    intros H. unfold step_owner, begin_owner, W; cbn.
    destruct (Z.eqb_spec wd i); [contradiction | reflexivity].
  Qed.

  Lemma so_TLoad d : wd <> 0 -> fst (step_owner (W wd (TLoad d)) c) = W wd (TCas d wd).
  Proof.
    intros H. unfold step_owner, begin_owner, W; cbn. rewrite pd_guard_spec.
    destruct (Z.eqb_spec wd 0); [contradiction | reflexivity].
  Qed.

  Lemma so_TFutex d : tm_ok d -> wd <> 0 -> fst (step_owner (W wd (TFutex d)) c) = W wd (TLoad d).
  Proof.
    intros Hd H. unfold step_owner, begin_owner, W; cbn.
    destruct (ts_of d) as [ts|] eqn:E.
    - rewrite (ts_of_valid _ _ Hd E). cbn [negb].
      destruct (Z.eqb_spec wd 0); [contradiction | reflexivity].
    - destruct (Z.eqb_spec wd 0); [contradiction | reflexivity].
  Qed.

  Lemma so_TCas_ok d : 1 <= wd < 2 ^ 31 -> fst (step_owner (W wd (TCas d wd)) c) = Done.
  Proof.
    intros H. unfold step_owner, begin_owner, W, Done; cbn.
    rewrite Z.eqb_refl, pd_new_id by assumption. reflexivity.
  Qed.

  Lemma so_TCas_fail d i : wd <> i -> fst (step_owner (W wd (TCas d i)) c) = W wd (TLoad d).
  Proof.
    intros H. unfold step_owner, begin_owner, W; cbn.
    destruct (Z.eqb_spec wd i); [contradiction | reflexivity].
  Qed.
End Solo.

Ltac solo_run := unfold run; cbn [repeat fold_left fst snd step].

(* [prog_ok prog] is used: a deadline in the owner's pc must have a normalized nsec field, otherwise
   the kernel rejects the timespec (EINVAL) and the ASSERT fires instead of the wait being retried. *)
Lemma solo_reachable : forall prog posts clock0 sched,
  total_posts posts < 2 ^ 31 ->
  prog_ok prog ->
  0 < word (run (init prog posts clock0) sched) ->
  owner (run (init prog posts clock0) sched) <> OIdle ->
  owner (run (init prog posts clock0) sched) <> OCrash ->
  owner_asleep (run (init prog posts clock0) sched) = false ->
  (forall d, owner (run (init prog posts clock0) sched) <> TClock d) ->
  exists n, (n <= 3)%nat /\
    owner (run (run (init prog posts clock0) sched) (repeat (Owner, CNormal) n)) = OIdle /\
    SemModel.last (run (run (init prog posts clock0) sched) (repeat (Owner, CNormal) n)) = ROk /\
    ret0 (run (run (init prog posts clock0) sched) (repeat (Owner, CNormal) n))
      = ret0 (run (init prog posts clock0) sched) + 1.
Proof.
  intros prog posts clock0 sched HT Hp.
  pose proof (reach_A prog posts clock0 sched HT) as HA.
  pose proof (run_C _ sched (init_C prog posts clock0 Hp)) as HC.
  pose proof (word_bound _ _ HT HA) as Hb.
  revert HA HC Hb. generalize (run (init prog posts clock0) sched). intros w HA [_ HC] Hb.
  destruct HA as [_ _ _ _ _ H6 _].
  destruct w as [wd ck ow op la ps np nv r0 ea]. cbn in H6, HC, Hb |- *.
  intros Hw Hi Hcr Hs Hck.
  assert (Hne : wd <> 0) by lia. assert (Hr : 1 <= wd < 2 ^ 31) by lia.
  destruct ow; try congruence; try discriminate.
  - (* PLoad *) exists 2%nat. split; [lia|]. solo_run.
    rewrite so_PLoad, so_PCas_ok by assumption. cbn. auto.
  - (* PFutex *) exists 3%nat. split; [lia|]. solo_run.
    rewrite so_PFutex, so_PLoad, so_PCas_ok by assumption. cbn. auto.
  - (* PCas *) destruct (Z.eq_dec wd i) as [<-|Hn].
    + exists 1%nat. split; [lia|]. solo_run. rewrite so_PCas_ok by assumption. cbn. auto.
    + exists 3%nat. split; [lia|]. solo_run.
      rewrite so_PCas_fail, so_PLoad, so_PCas_ok by assumption. cbn. auto.
  - (* TLoad *) exists 2%nat. split; [lia|]. solo_run.
    rewrite so_TLoad, so_TCas_ok by assumption. cbn. auto.
  - (* TFutex *) exists 3%nat. split; [lia|]. solo_run.
    rewrite so_TFutex, so_TLoad, so_TCas_ok by assumption. cbn. auto.
  - (* TCas *) destruct (Z.eq_dec wd i) as [<-|Hn].
    + exists 1%nat. split; [lia|]. solo_run. rewrite so_TCas_ok by assumption. cbn. auto.
    + exists 3%nat. split; [lia|]. solo_run.
      rewrite so_TCas_fail, so_TLoad, so_TCas_ok by assumption. cbn. auto.
Qed.

(* --- an expired deadline is reported promptly ----------------------- *)

Section Expired.
  Variables (ck : Z) (op : list (option tm)) (la : ores) (ps : list (ppc * nat)) (np nv r0 ea : Z).
  Variable d : tm.
  Let W (o : opc) := mk_w 0 ck o op la ps np nv r0 ea.

  Lemma so_TLoad0 c : fst (step_owner (W (TLoad d)) c) = W (TFutex d).
  Proof. unfold step_owner, begin_owner, W; cbn. rewrite pd_guard_spec. reflexivity. Qed.

  Lemma so_TFutex_expired :
    tm_ok d -> is_no_deadline d = false -> tm_ns d <= ck -> 0 <= ck ->
    fst (step_owner (W (TFutex d)) CNormal) = W (TClock d).
  Proof.
    intros Hd Hn Hc H0. unfold step_owner, begin_owner, W; cbn.
    destruct (ts_of d) as [ts|] eqn:E.
    - rewrite (ts_of_valid _ _ Hd E). cbn [negb].
      assert (Hts : tm_ns ts <= ck).
      { unfold ts_of in E. rewrite Hn in E. injection E as <-.
        destruct (Z.ltb_spec (t_sec d) 0); [unfold tm_ns; cbn [t_sec t_nsec]; lia | assumption]. }
      destruct (Z.leb_spec (tm_ns ts) ck); [reflexivity | lia].
    - unfold ts_of in E. rewrite Hn in E. discriminate.
  Qed.

  Lemma so_TClock_expired c :
    tm_ns d <= ck -> fst (step_owner (W (TClock d)) c) = ret_timeout (W (TClock d)) d.
  Proof.
    intros Hc. unfold step_owner, begin_owner, W; cbn.
    destruct (Z.leb_spec (tm_ns d) ck); [reflexivity | lia].
  Qed.
End Expired.

Lemma expired_prompt_reachable : forall prog posts clock0 sched d,
  total_posts posts < 2 ^ 31 ->
  prog_ok prog ->
  (owner (run (init prog posts clock0) sched) = TLoad d \/
   owner (run (init prog posts clock0) sched) = TFutex d) ->
  word (run (init prog posts clock0) sched) = 0 ->
  is_no_deadline d = false ->
  tm_ns d <= clock (run (init prog posts clock0) sched) ->
  0 <= clock (run (init prog posts clock0) sched) ->
  exists n, (n <= 3)%nat /\
    owner (run (run (init prog posts clock0) sched) (repeat (Owner, CNormal) n)) = OIdle /\
    SemModel.last (run (run (init prog posts clock0) sched) (repeat (Owner, CNormal) n)) = RTimedOut.
Proof.
  intros prog posts clock0 sched d _ Hp.
  pose proof (run_C _ sched (init_C prog posts clock0 Hp)) as HC.
  revert HC. generalize (run (init prog posts clock0) sched). intros w [_ HC].
  destruct w as [wd ck ow op la ps np nv r0 ea]. cbn in HC |- *.
  intros Ho Hw Hn Hc H0. subst wd.
  destruct Ho as [-> | ->]; cbn in HC.
  - exists 3%nat. split; [lia|]. solo_run.
    rewrite so_TLoad0, so_TFutex_expired, so_TClock_expired by assumption. cbn. auto.
  - exists 2%nat. split; [lia|]. solo_run.
    rewrite so_TFutex_expired, so_TClock_expired by assumption. cbn. auto.
Qed.

Lemma pre_epoch_times_out :
  owner (run (init [Some (mk_tm (-5) 999999999)] [] 1000) (repeat (Owner, CNormal) 3)) = OIdle /\
  SemModel.last (run (init [Some (mk_tm (-5) 999999999)] [] 1000) (repeat (Owner, CNormal) 3)) = RTimedOut.
Proof. vm_compute. split; reflexivity. Qed.

(* --- a concrete run: two posters, a plain P and a timed P ----------- *)

Lemma example_two_posts : exists sched,
  ret0 (run (init [None; Some (mk_tm 0 5000)] [1%nat; 1%nat] 1000) sched) = 2 /\
  nV (run (init [None; Some (mk_tm 0 5000)] [1%nat; 1%nat] 1000) sched) = 2 /\
  word (run (init [None; Some (mk_tm 0 5000)] [1%nat; 1%nat] 1000) sched) = 0 /\
  owner (run (init [None; Some (mk_tm 0 5000)] [1%nat; 1%nat] 1000) sched) = OIdle.
Proof.
  exists [(Poster 0%nat, CNormal); (Poster 0%nat, CNormal); (Poster 0%nat, CNormal);
          (Poster 1%nat, CNormal); (Poster 1%nat, CNormal); (Poster 1%nat, CNormal);
          (Owner, CNormal); (Owner, CNormal); (Owner, CNormal); (Owner, CNormal)].
  vm_compute. repeat split; reflexivity.
Qed.
