(* SemProof: proofs of the C12 lemmas about Model/SemModel.v (the futex semaphore).

   Part 1  the sites: the expressions of Gen/Sites.v that SemModel writes to the futex
           word (i - 1 in the two P functions, old_value + 1 in V) and the guards of the
           two P CASes are characterised by UNFOLDING the generated definitions; the
           characterisations carry the no-wrap side conditions.  After that the
           generated names are made (locally) opaque, so every later proof goes
           through these lemmas: if the C expression changes, Part 1 breaks.
   Part 2  list lemmas about lupd / nth_error and the ghost measure [pend]
           (V calls whose CAS has not succeeded yet).
   Part 3  four inductive invariants (InvA count/no-lost-post, InvT clock values read and
           timeouts, InvL the log follows the program, InvC deadlines) and their
           preservation by [step].
   Part 4  the lemmas used by Props/Properties_C12.v and Properties_C15.v. *)
From NsyncBase Require Import CSem.
From NsyncGen Require Import Consts Sites Time.
From Coq Require Import List ZArith Bool Lia.
From NsyncModel Require Import SemModel.
Import ListNotations.
Local Open Scope Z_scope.

(* ================================================================== *)
(* Part 1: the sites                                                   *)
(* ================================================================== *)

Lemma p_new_id i : 1 <= i < 2 ^ 31 -> nsync_mu_semaphore_p_cas1_new i = i - 1.
Proof.
  intros H. change (2 ^ 31) with 2147483648 in H.
  unfold nsync_mu_semaphore_p_cas1_new.
  rewrite wrap_s_id; [rewrite wrap_u_id | lia | ]; unfold in_u, in_s;
    change (2 ^ (32 - 1)) with 2147483648; change (2 ^ 32) with 4294967296; lia.
Qed.

Lemma pd_new_id i : 1 <= i < 2 ^ 31 -> nsync_mu_semaphore_p_with_deadline_cas1_new i = i - 1.
Proof.
  intros H. change (2 ^ 31) with 2147483648 in H.
  unfold nsync_mu_semaphore_p_with_deadline_cas1_new.
  rewrite wrap_s_id; [rewrite wrap_u_id | lia | ]; unfold in_u, in_s;
    change (2 ^ (32 - 1)) with 2147483648; change (2 ^ 32) with 4294967296; lia.
Qed.

Lemma v_new_id old : 0 <= old < 2 ^ 31 -> nsync_mu_semaphore_v_cas1_new old = old + 1.
Proof.
  intros H. change (2 ^ 31) with 2147483648 in H.
  unfold nsync_mu_semaphore_v_cas1_new.
  rewrite (wrap_u_id 32 1); [rewrite wrap_u_id; [reflexivity|] | ]; unfold in_u;
    change (2 ^ 32) with 4294967296; lia.
Qed.

Lemma p_guard_spec i : nsync_mu_semaphore_p_cas1_guard i = negb (i =? 0).
Proof. reflexivity. Qed.

Lemma pd_guard_spec i : nsync_mu_semaphore_p_with_deadline_cas1_guard 0 i = negb (i =? 0).
Proof. reflexivity. Qed.

Local Opaque nsync_mu_semaphore_p_cas1_new nsync_mu_semaphore_p_with_deadline_cas1_new
  nsync_mu_semaphore_v_cas1_new nsync_mu_semaphore_p_cas1_guard
  nsync_mu_semaphore_p_with_deadline_cas1_guard.

(* boolean tests to propositions *)
Ltac zb := repeat match goal with
  | H : negb _ = true |- _ => apply negb_true_iff in H
  | H : negb _ = false |- _ => apply negb_false_iff in H
  | H : (_ =? _) = true |- _ => apply Z.eqb_eq in H
  | H : (_ =? _) = false |- _ => apply Z.eqb_neq in H
  | H : (_ <=? _) = true |- _ => apply Z.leb_le in H
  | H : (_ <=? _) = false |- _ => apply Z.leb_gt in H
  | H : (_ <? _) = true |- _ => apply Z.ltb_lt in H
  | H : (_ <? _) = false |- _ => apply Z.ltb_ge in H
  end.

(* split the tests and the kernel's choice in a step *)
Ltac brk := repeat match goal with
  | |- context [if ?b then _ else _] => destruct b eqn:?
  | |- context [match ?c with CNormal => _ | CEintr => _ | CEarlyTimeout => _ end] => destruct c
  end.

(* ================================================================== *)
(* Part 2: lists                                                       *)
(* ================================================================== *)

Lemma nth_lupd_same {A} (l : list A) k p q :
  nth_error l k = Some p -> nth_error (lupd l k q) k = Some q.
Proof.
  revert k; induction l as [|x t IH]; intros [|k] H; cbn in *; try discriminate; auto.
Qed.

Lemma nth_lupd_other {A} (l : list A) k k' q :
  k <> k' -> nth_error (lupd l k q) k' = nth_error l k'.
Proof.
  revert k k'; induction l as [|x t IH]; intros [|k] [|k'] H; cbn; auto; try congruence.
Qed.

Lemma pend1_nonneg p : 0 <= pend1 p.
Proof. destruct p as [[| |o|] n]; unfold pend1; cbn [fst snd]; lia. Qed.

Lemma pend_nonneg l : 0 <= pend l.
Proof. induction l as [|p t IH]; cbn [pend]; [lia | pose proof (pend1_nonneg p); lia]. Qed.

Lemma pend_lupd l k p q :
  nth_error l k = Some p -> pend (lupd l k q) = pend l - pend1 p + pend1 q.
Proof.
  revert k; induction l as [|x t IH]; intros [|k] H; cbn in H; try discriminate.
  - injection H as ->. cbn [lupd pend]. lia.
  - cbn [lupd pend]. rewrite (IH _ H). lia.
Qed.

Lemma pend_init posts : pend (map (fun n => (VIdle, n)) posts) = total_posts posts.
Proof.
  unfold total_posts. induction posts as [|n t IH]; [reflexivity|].
  cbn [map pend fold_right]. rewrite IH, Nat2Z.inj_add. reflexivity.
Qed.

(* some poster is between its successful CAS and its FUTEX_WAKE *)
Definition pw (l : list (ppc * nat)) : Prop := exists k n, nth_error l k = Some (VWake, n).

Lemma pw_lupd_new l k p n : nth_error l k = Some p -> pw (lupd l k (VWake, n)).
Proof. intros H. exists k, n. eapply nth_lupd_same; eauto. Qed.

Lemma pw_lupd_keep l k pc n q :
  nth_error l k = Some (pc, n) -> pc <> VWake -> pw l -> pw (lupd l k q).
Proof.
  intros H Hpc (k' & n' & H'). exists k', n'.
  rewrite nth_lupd_other; auto. intros ->. rewrite H in H'. congruence.
Qed.

(* ================================================================== *)
(* Part 3: invariants                                                  *)
(* ================================================================== *)

(* --- InvA: the count, the successes, no lost post ------------------ *)

Lemma n_ok_ok a b l : n_ok (mk_ce a b ResOk :: l) = n_ok l + 1.
Proof. cbn [n_ok ce_res]. lia. Qed.
Lemma n_ok_to a b rd l : n_ok (mk_ce a b (ResTimedOut rd) :: l) = n_ok l.
Proof. cbn [n_ok ce_res]. lia. Qed.
Local Arguments n_ok : simpl never.

Definition cas_ok (o : opc) : Prop :=
  match o with PCas i | TCas _ i => i <> 0 | _ => True end.

Record InvA (T : Z) (w : world) : Prop := mkA {
  ia_word : word w = nV w - nP w;
  ia_nonneg : 0 <= word w;
  ia_nP : 0 <= nP w;
  ia_pend : nV w + pend (posters w) = T;
  ia_ret : n_ok (rets w) = nP w;
  ia_cas : cas_ok (owner w);
  ia_sleep : owner_asleep w = true -> word w = 0 \/ pw (posters w)
}.

Lemma begin_owner_A T w : InvA T w -> InvA T (begin_owner w).
Proof.
  intros [H1 H2 H3 H4 H5 H6 H7]. destruct w as [wd ck ow op la ps np nv cb rs].
  unfold begin_owner; cbn in *.
  destruct ow; try (constructor; cbn; assumption).
  destruct op as [|[d|] rest]; constructor; cbn; auto; discriminate.
Qed.

Lemma word_bound T w : T < 2 ^ 31 -> InvA T w -> word w < 2 ^ 31.
Proof.
  intros HT [H1 H2 H3 H4 H5 H6 H7]. pose proof (pend_nonneg (posters w)). lia.
Qed.

Lemma step_owner_A T w c : T < 2 ^ 31 -> InvA T w -> InvA T (fst (step_owner w c)).
Proof.
  intros HT H. apply begin_owner_A in H. unfold step_owner; cbv zeta.
  revert H. generalize (begin_owner w). clear w. intros w H.
  pose proof (word_bound _ _ HT H) as Hb.
  destruct H as [H1 H2 H3 H4 H5 H6 H7]. destruct w as [wd ck ow op la ps np nv cb rs].
  cbn in *. destruct ow; cbn in *.
  - (* OIdle *) constructor; cbn; auto.
  - (* PLoad *) rewrite p_guard_spec. brk; zb; constructor; cbn; auto; discriminate.
  - (* PFutex *) brk; zb; constructor; cbn; auto; discriminate.
  - (* PSleep *) brk; constructor; cbn; auto; discriminate.
  - (* PCas *) brk; zb; cbn [fst].
    + subst i. rewrite p_new_id by lia. constructor; cbn; rewrite ?n_ok_ok; auto; try lia; discriminate.
    + constructor; cbn; auto; discriminate.
  - (* TLoad *) rewrite pd_guard_spec. brk; zb; constructor; cbn; auto; discriminate.
  - (* TFutex *) destruct (ts_of d); brk; zb; constructor; cbn; auto; discriminate.
  - (* TSleep *) destruct (ts_of d); brk; constructor; cbn; auto; discriminate.
  - (* TCas *) brk; zb; cbn [fst].
    + subst i. rewrite pd_new_id by lia. constructor; cbn; rewrite ?n_ok_ok; auto; try lia; discriminate.
    + constructor; cbn; auto; discriminate.
  - (* TClock *) constructor; cbn; auto; discriminate.
  - (* TDecide *) brk; constructor; cbn; rewrite ?n_ok_to; auto; discriminate.
  - (* OCrash *) constructor; cbn; auto.
Qed.

Lemma asleep_wake_owner w : owner_asleep (wake_owner w) = false.
Proof. destruct w as [wd ck ow op la ps np nv cb rs]. destruct ow; reflexivity. Qed.

Lemma step_poster_A T w k : T < 2 ^ 31 -> InvA T w -> InvA T (fst (step_poster w k)).
Proof.
  intros HT H. pose proof (word_bound _ _ HT H) as Hb.
  destruct H as [H1 H2 H3 H4 H5 H6 H7]. unfold step_poster.
  destruct (nth_error (posters w) k) as [[[| |old|] n]|] eqn:E.
  - (* VIdle *) destruct n as [|n]; cbn [fst]; [constructor; auto|].
    destruct w as [wd ck ow op la ps np nv cb rs]; cbn in *.
    constructor; cbn; auto.
    + rewrite (pend_lupd _ _ _ _ E). unfold pend1; cbn [fst snd]. lia.
    + intros Hs. destruct (H7 Hs) as [?|Hp]; [now left | right].
      eapply pw_lupd_keep; eauto. discriminate.
  - (* VLoad *) cbn [fst].
    destruct w as [wd ck ow op la ps np nv cb rs]; cbn in *.
    constructor; cbn; auto.
    + rewrite (pend_lupd _ _ _ _ E). unfold pend1; cbn [fst snd]. lia.
    + intros Hs. destruct (H7 Hs) as [?|Hp]; [now left | right].
      eapply pw_lupd_keep; eauto. discriminate.
  - (* VCas *) destruct w as [wd ck ow op la ps np nv cb rs]; cbn in *.
    pose proof (pend_nonneg (lupd ps k (VWake, n))) as Hn.
    brk; zb; cbn [fst].
    + subst old. rewrite v_new_id by lia.
      assert (Hp : pend (lupd ps k (VWake, n)) = pend ps - 1).
      { rewrite (pend_lupd _ _ _ _ E). unfold pend1; cbn [fst snd]. lia. }
      constructor; cbn; auto; try lia.
      intros _. right. eapply pw_lupd_new; eauto.
    + constructor; cbn; auto.
      * rewrite (pend_lupd _ _ _ _ E). unfold pend1; cbn [fst snd]. lia.
      * intros Hs. destruct (H7 Hs) as [?|Hp]; [now left | right].
        eapply pw_lupd_keep; eauto. discriminate.
  - (* VWake *) cbn [fst].
    assert (Ha := asleep_wake_owner w).
    destruct w as [wd ck ow op la ps np nv cb rs]; cbn in *.
    destruct ow; cbn in *; constructor; cbn; auto; try discriminate;
      rewrite (pend_lupd _ _ _ _ E); unfold pend1; cbn [fst snd]; lia.
  - (* no such poster *) constructor; auto.
Qed.

Lemma step_A T w a c : T < 2 ^ 31 -> InvA T w -> InvA T (fst (step w a c)).
Proof.
  intros HT H. destruct a as [|k|dt]; cbn [step].
  - now apply step_owner_A.
  - now apply step_poster_A.
  - destruct H as [H1 H2 H3 H4 H5 H6 H7]. brk; cbn [fst]; constructor; auto.
Qed.

Lemma run_A T w s : T < 2 ^ 31 -> InvA T w -> InvA T (run w s).
Proof.
  intros HT. unfold run. revert w. induction s as [|[a c] s IH]; intros w H; cbn [fold_left fst snd]; auto.
  apply IH. now apply step_A.
Qed.

Lemma init_A prog posts clock0 : InvA (total_posts posts) (init prog posts clock0).
Proof.
  unfold init. constructor; cbn; auto; try lia; try discriminate.
  rewrite pend_init. lia.
Qed.

Lemma reach_A prog posts clock0 sched :
  total_posts posts < 2 ^ 31 -> InvA (total_posts posts) (run (init prog posts clock0) sched).
Proof. intros HT. apply run_A; auto. apply init_A. Qed.

(* --- InvT: the clock values read, the timeouts ---------------------- *)

Lemma tm_of_ns_ns c : tm_ns (tm_of_ns c) = c.
Proof.
  unfold tm_ns, tm_of_ns; cbn [t_sec t_nsec].
  pose proof (Z.div_mod c 1000000000 ltac:(lia)). lia.
Qed.

Lemma tm_of_ns_norm c : normalized (tm_of_ns c).
Proof.
  unfold normalized, tm_of_ns; cbn [t_nsec]. apply Z.mod_pos_bound. lia.
Qed.

(* the translated nsync_time_cmp on normalized values is the comparison of the nanosecond counts *)
Lemma timed_out_spec d rd : normalized d -> normalized rd ->
  timed_out d rd = (tm_ns d <=? tm_ns rd).
Proof.
  unfold normalized, timed_out, tm_ns, to_ts, nsync_time_cmp. destruct d as [sa na], rd as [sb nb].
  cbn [t_sec t_nsec timespec_tv_sec timespec_tv_nsec]. intros Ha Hb.
  assert (W1 : wrap_s 32 (1 - 0) = 1) by reflexivity.
  assert (W2 : wrap_s 32 (0 - 1) = -1) by reflexivity.
  assert (W3 : wrap_s 32 (0 - 0) = 0) by reflexivity.
  destruct (Z.leb_spec (sa * 1000000000 + na) (sb * 1000000000 + nb)) as [L|L];
  (destruct (Z.gtb_spec sa sb) as [G1|G1]; destruct (Z.ltb_spec sa sb) as [G2|G2]; try lia;
   cbn [b2z]; rewrite ?W1, ?W2, ?W3; cbn [Z.eqb]; try reflexivity;
   destruct (Z.gtb_spec na nb) as [G3|G3]; destruct (Z.ltb_spec na nb) as [G4|G4]; try lia;
   cbn [b2z]; rewrite ?W1, ?W2, ?W3; try reflexivity; try lia).
Qed.

(* a logged call: it began no later than now; a timeout was decided on a clock value rd that the call
   read (between its beginning and now) and that the translated comparison placed at or after the deadline *)
Definition entry_ok (ck : Z) (e : centry) : Prop :=
  ce_begin e <= ck /\
  match ce_res e with
  | ResOk => True
  | ResTimedOut rd => exists d, ce_arg e = Some d /\ timed_out d rd = true /\ normalized rd /\
                                ce_begin e <= tm_ns rd <= ck
  end.

Lemma entry_ok_mono ck ck' e : ck <= ck' -> entry_ok ck e -> entry_ok ck' e.
Proof.
  intros Hc [H1 H2]. split; [lia|]. destruct (ce_res e); auto.
  destruct H2 as (d & ? & ? & ? & ?). exists d. split; [|split; [|split]]; auto. lia.
Qed.

(* the result of the last completed call, as the log has it *)
Definition last_of (l : list centry) : ores :=
  match l with [] => RNone | e :: _ => match ce_res e with ResOk => ROk | ResTimedOut _ => RTimedOut end end.

Record InvT (w : world) : Prop := mkT {
  it_last : SemModel.last w = last_of (rets w);
  it_beg : cbeg w <= clock w;
  it_dec : forall d rd, owner w = TDecide d rd -> normalized rd /\ cbeg w <= tm_ns rd <= clock w;
  it_log : forall e, In e (rets w) -> entry_ok (clock w) e
}.

Lemma begin_owner_T w : InvT w -> InvT (begin_owner w).
Proof.
  intros [H0 H1 H2 H3]. destruct w as [wd ck ow op la ps np nv cb rs].
  unfold begin_owner; cbn in *.
  destruct ow; try (constructor; cbn; assumption).
  destruct op as [|[d|] rest]; constructor; cbn; auto; try lia; discriminate.
Qed.

Lemma step_owner_T w c : InvT w -> InvT (fst (step_owner w c)).
Proof.
  intros H. apply begin_owner_T in H. unfold step_owner; cbv zeta.
  revert H. generalize (begin_owner w). clear w. intros w [H0 H1 H2 H3].
  destruct w as [wd ck ow op la ps np nv cb rs]. cbn in *.
  destruct ow; cbn; try match goal with |- context [ts_of ?x] => destruct (ts_of x) end; brk; cbn [fst];
    try (constructor; cbn; auto; discriminate).
  - (* PCas ok *) constructor; cbn; auto; try discriminate.
    intros e [<-|He]; auto. split; cbn; auto.
  - (* TCas ok *) constructor; cbn; auto; try discriminate.
    intros e [<-|He]; auto. split; cbn; auto.
  - (* TClock: the read *) constructor; cbn; auto.
    intros d' rd' E. injection E as <- <-. split; [apply tm_of_ns_norm|]. rewrite tm_of_ns_ns. lia.
  - (* TDecide, expired *) destruct (H2 d rd eq_refl) as (Hn & Hr).
    constructor; cbn; auto; try discriminate.
    intros e [<-|He]; auto. split; cbn; auto. exists d. auto.
Qed.

Lemma step_poster_T w k : InvT w -> InvT (fst (step_poster w k)).
Proof.
  intros [H0 H1 H2 H3]. unfold step_poster.
  destruct (nth_error (posters w) k) as [[[| |old|] n]|]; try destruct n; brk; cbn [fst];
    try (constructor; cbn; auto; fail).
  all: destruct w as [wd ck ow op la ps np nv cb rs]; destruct ow; cbn in *; constructor; cbn; auto; discriminate.
Qed.

Lemma step_T w a c : InvT w -> InvT (fst (step w a c)).
Proof.
  intros H. destruct a as [|k|dt]; cbn [step].
  - now apply step_owner_T.
  - now apply step_poster_T.
  - destruct H as [H0 H1 H2 H3]. brk; zb; cbn [fst]; constructor; cbn; auto; try lia.
    + intros d rd E. destruct (H2 d rd E). split; auto; lia.
    + intros e He. eapply entry_ok_mono; [|eauto]. lia.
Qed.

Lemma run_T w s : InvT w -> InvT (run w s).
Proof.
  unfold run. revert w. induction s as [|[a c] s IH]; intros w H; cbn [fold_left fst snd]; auto.
  apply IH. now apply step_T.
Qed.

Lemma init_T prog posts clock0 : InvT (init prog posts clock0).
Proof. constructor; cbn; try lia; try discriminate; try tauto. Qed.

(* --- InvL: the log lists the calls of the program, in order ---------- *)

Definition cur_ok (o : opc) (cur : list (option tm)) : Prop :=
  match o with
  | OIdle => cur = []
  | PLoad | PFutex | PSleep | PCas _ => cur = [None]
  | TLoad d | TFutex d | TSleep d | TClock d | TDecide d _ | TCas d _ => cur = [Some d]
  | OCrash => exists d, cur = [Some d]
  end.

Definition InvL (prog : list (option tm)) (w : world) : Prop :=
  exists cur, cur_ok (owner w) cur /\ rev (map ce_arg (rets w)) ++ cur ++ oprog w = prog.

Lemma begin_owner_L prog w : InvL prog w -> InvL prog (begin_owner w).
Proof.
  intros (cur & H1 & H2). destruct w as [wd ck ow op la ps np nv cb rs].
  unfold begin_owner; cbn in *.
  destruct ow; try (exists cur; split; assumption).
  cbn in H1. subst cur. destruct op as [|[d|] rest]; [exists []|exists [Some d]|exists [None]]; cbn; auto.
Qed.

Lemma step_owner_L prog w c : InvL prog w -> InvL prog (fst (step_owner w c)).
Proof.
  intros H. apply begin_owner_L in H. unfold step_owner; cbv zeta.
  revert H. generalize (begin_owner w). clear w. intros w (cur & H1 & H2).
  destruct w as [wd ck ow op la ps np nv cb rs]. cbn in *.
  destruct ow; cbn; try match goal with |- context [ts_of ?x] => destruct (ts_of x) end; brk; cbn [fst];
    try (exists cur; split; cbn; auto; fail).
  all: cbn in H1; subst cur; try (exists []; split; cbn; auto; rewrite <- H2, <- app_assoc; reflexivity).
  (* crash *) exists [Some d]. split; cbn; eauto.
Qed.

Lemma step_poster_L prog w k : InvL prog w -> InvL prog (fst (step_poster w k)).
Proof.
  intros (cur & H1 & H2). unfold step_poster.
  destruct (nth_error (posters w) k) as [[[| |old|] n]|]; try destruct n; brk; cbn [fst];
    try (exists cur; split; cbn; auto; fail).
  all: destruct w as [wd ck ow op la ps np nv cb rs]; destruct ow; cbn in *; exists cur; split; cbn; auto.
Qed.

Lemma step_L prog w a c : InvL prog w -> InvL prog (fst (step w a c)).
Proof.
  intros H. destruct a as [|k|dt]; cbn [step].
  - now apply step_owner_L.
  - now apply step_poster_L.
  - destruct H as (cur & H1 & H2). brk; cbn [fst]; exists cur; split; auto.
Qed.

Lemma run_L prog w s : InvL prog w -> InvL prog (run w s).
Proof.
  unfold run. revert w. induction s as [|[a c] s IH]; intros w H; cbn [fold_left fst snd]; auto.
  apply IH. now apply step_L.
Qed.

Lemma init_L prog posts clock0 : InvL prog (init prog posts clock0).
Proof. exists []. split; reflexivity. Qed.

(* --- InvC: every deadline the owner handles is valid for the kernel -- *)

Definition tm_ok (d : tm) : Prop := normalized d.

(* the timespec handed to the kernel is the epoch {0,0} or d itself with 0 <= t_sec d *)
Lemma ts_of_valid d ts : tm_ok d -> ts_of d = Some ts -> ts_valid ts = true.
Proof.
  unfold tm_ok, normalized, ts_of. intros H E.
  destruct (is_no_deadline d); [discriminate|]. injection E as <-.
  destruct (Z.ltb_spec (t_sec d) 0); [reflexivity|].
  unfold ts_valid.
  apply andb_true_intro; split; [apply andb_true_intro; split|];
    [apply Z.leb_le | apply Z.leb_le | apply Z.ltb_lt]; lia.
Qed.

Definition own_ok (o : opc) : Prop :=
  match o with
  | TLoad d | TFutex d | TSleep d | TClock d | TDecide d _ | TCas d _ => tm_ok d
  | OCrash => False
  | _ => True
  end.

Record InvC (w : world) : Prop := mkC {
  ic_prog : forall d, In (Some d) (oprog w) -> tm_ok d;
  ic_own : own_ok (owner w)
}.

Lemma begin_owner_C w : InvC w -> InvC (begin_owner w).
Proof.
  intros [H1 H2]. destruct w as [wd ck ow op la ps np nv cb rs].
  unfold begin_owner; cbn in *.
  destruct ow; try (constructor; cbn; assumption).
  destruct op as [|[d|] rest]; constructor; cbn; auto; intros; apply H1; cbn; auto.
Qed.

Lemma step_owner_C w c : InvC w -> InvC (fst (step_owner w c)).
Proof.
  intros H. apply begin_owner_C in H. unfold step_owner; cbv zeta.
  revert H. generalize (begin_owner w). clear w. intros w [H1 H2].
  destruct w as [wd ck ow op la ps np nv cb rs]. cbn in *.
  destruct ow; cbn in *; try (brk; constructor; cbn; auto; fail).
  - (* TFutex *) destruct (ts_of d) as [ts|] eqn:E.
    + rewrite (ts_of_valid _ _ H2 E). cbn [negb].
      brk; constructor; cbn; auto.
    + brk; constructor; cbn; auto.
Qed.

Lemma step_poster_C w k : InvC w -> InvC (fst (step_poster w k)).
Proof.
  intros [H1 H2]. unfold step_poster.
  destruct (nth_error (posters w) k) as [[[| |old|] n]|]; try destruct n; brk; cbn [fst];
    try (constructor; cbn; auto; fail).
  all: destruct w as [wd ck ow op la ps np nv cb rs]; destruct ow; cbn in *; constructor; cbn; auto.
Qed.

Lemma step_C w a c : InvC w -> InvC (fst (step w a c)).
Proof.
  intros H. destruct a as [|k|dt]; cbn [step].
  - now apply step_owner_C.
  - now apply step_poster_C.
  - destruct H as [H1 H2]. brk; cbn [fst]; constructor; auto.
Qed.

Lemma run_C w s : InvC w -> InvC (run w s).
Proof.
  unfold run. revert w. induction s as [|[a c] s IH]; intros w H; cbn [fold_left fst snd]; auto.
  apply IH. now apply step_C.
Qed.

Lemma init_C prog posts clock0 : prog_ok prog -> InvC (init prog posts clock0).
Proof. intros H. constructor; cbn; auto. Qed.

(* ================================================================== *)
(* Part 4: the lemmas of Props/Properties_C12.v and Properties_C15.v   *)
(* ================================================================== *)

Lemma count_reachable prog posts clock0 sched :
  total_posts posts < 2 ^ 31 ->
  word (run (init prog posts clock0) sched)
    = nV (run (init prog posts clock0) sched) - nP (run (init prog posts clock0) sched)
  /\ 0 <= word (run (init prog posts clock0) sched).
Proof. intros HT. destruct (reach_A prog posts clock0 sched HT); auto. Qed.

(* conservation over the WORD: every V call of the posters' programs is either still to make its
   successful CAS (read off the posters' pcs), or is in the word, or was taken by a call that returned 0
   (read off the log of returns) *)
Lemma conservation_reachable prog posts clock0 sched :
  total_posts posts < 2 ^ 31 ->
  let w := run (init prog posts clock0) sched in
  ret0 w + word w + posts_pending w = total_posts posts /\ 0 <= word w /\ 0 <= posts_pending w /\ 0 <= ret0 w.
Proof.
  intros HT w. destruct (reach_A prog posts clock0 sched HT) as [H1 H2 H3 H4 H5 H6 H7]. fold w in H1, H2, H3, H4, H5.
  unfold ret0, posts_pending. pose proof (pend_nonneg (posters w)). repeat split; lia.
Qed.

Lemma no_free_lunch_reachable prog posts clock0 sched :
  total_posts posts < 2 ^ 31 ->
  let w := run (init prog posts clock0) sched in
  nV w = ret0 w + word w /\ ret0 w <= nV w /\ nV w <= total_posts posts.
Proof.
  intros HT w. destruct (reach_A prog posts clock0 sched HT) as [H1 H2 H3 H4 H5 H6 H7]. fold w in H1, H2, H3, H4, H5.
  unfold ret0. pose proof (pend_nonneg (posters w)). repeat split; lia.
Qed.

Lemma reach_T prog posts clock0 sched : InvT (run (init prog posts clock0) sched).
Proof. apply run_T, init_T. Qed.
Lemma reach_L prog posts clock0 sched : InvL prog (run (init prog posts clock0) sched).
Proof. apply run_L, init_L. Qed.

Lemma timed_out_le d rd : timed_out d rd = true -> nsync_time_cmp (to_ts d) (to_ts rd) <= 0.
Proof. unfold timed_out. intros H. now apply Z.leb_le. Qed.

(* every call that returned ETIMEDOUT: its argument d is a deadline of the program, the value rd it had read
   from the clock during the call satisfies the C comparison against d, and lies between the clock at the
   beginning of the call and the clock now; for a normalized d this is d <= rd as instants *)
Lemma timeout_sound_reachable prog posts clock0 sched :
  let w := run (init prog posts clock0) sched in
  forall e rd, In e (rets w) -> ce_res e = ResTimedOut rd ->
  exists d, ce_arg e = Some d /\ In (Some d) prog /\
    nsync_time_cmp (to_ts d) (to_ts rd) <= 0 /\ normalized rd /\
    ce_begin e <= tm_ns rd <= clock w /\
    (normalized d -> tm_ns d <= tm_ns rd).
Proof.
  intros w e rd He Hr.
  destruct (reach_T prog posts clock0 sched) as [_ _ _ H3]. fold w in H3.
  destruct (H3 e He) as [_ H]. rewrite Hr in H. destruct H as (d & Ha & Ht & Hn & Hb).
  exists d. split; [exact Ha|]. split.
  - destruct (reach_L prog posts clock0 sched) as (cur & _ & <-). fold w.
    apply in_or_app. left. apply in_rev. rewrite rev_involutive. rewrite <- Ha. now apply in_map.
  - split; [now apply timed_out_le|]. split; [exact Hn|]. split; [exact Hb|].
    intros Hd. rewrite (timed_out_spec _ _ Hd Hn) in Ht. now apply Z.leb_le.
Qed.

(* the same for the call that has just returned: the result the caller sees is the head of the log *)
Lemma last_timeout_reachable prog posts clock0 sched :
  let w := run (init prog posts clock0) sched in
  SemModel.last w = RTimedOut ->
  exists e l d rd, rets w = e :: l /\ ce_arg e = Some d /\ ce_res e = ResTimedOut rd /\ In (Some d) prog /\
    nsync_time_cmp (to_ts d) (to_ts rd) <= 0 /\ normalized rd /\
    ce_begin e <= tm_ns rd <= clock w /\
    (normalized d -> tm_ns d <= tm_ns rd).
Proof.
  intros w Hl.
  destruct (reach_T prog posts clock0 sched) as [H0 _ _ _]. fold w in H0. rewrite Hl in H0.
  destruct (rets w) as [|e l] eqn:E; [discriminate|]. cbn in H0.
  destruct (ce_res e) as [|rd] eqn:Er; [discriminate|].
  destruct (timeout_sound_reachable prog posts clock0 sched e rd) as (d & H); fold w.
  { rewrite E. now left. } { exact Er. }
  exists e, l, d, rd. tauto.
Qed.

(* the log is the program: completed calls, then the current one, then the remaining ones *)
Lemma log_faithful_reachable prog posts clock0 sched :
  let w := run (init prog posts clock0) sched in
  exists cur, (length cur <= 1)%nat /\ (owner w = OIdle -> cur = []) /\
    rev (map ce_arg (rets w)) ++ cur ++ oprog w = prog.
Proof.
  intros w. destruct (reach_L prog posts clock0 sched) as (cur & H1 & H2). fold w in H1, H2.
  exists cur. split; [|split; [|exact H2]].
  - destruct (owner w); cbn in H1; try destruct H1 as (d' & H1); subst cur; cbn; lia.
  - intros E. rewrite E in H1. exact H1.
Qed.

Lemma no_lost_post_reachable prog posts clock0 sched :
  total_posts posts < 2 ^ 31 ->
  owner_asleep (run (init prog posts clock0) sched) = true ->
  word (run (init prog posts clock0) sched) = 0 \/ pending_wake (run (init prog posts clock0) sched).
Proof. intros HT. destruct (reach_A prog posts clock0 sched HT) as [_ _ _ _ _ _ H]. exact H. Qed.

Lemma no_crash_reachable prog posts clock0 sched :
  prog_ok prog -> owner (run (init prog posts clock0) sched) <> OCrash.
Proof.
  intros Hp. destruct (run_C _ sched (init_C prog posts clock0 Hp)) as [_ H].
  intros E. rewrite E in H. exact H.
Qed.

(* --- the owner running alone ---------------------------------------- *)

Section Solo.
  Variables (wd ck : Z) (op : list (option tm)) (la : ores) (ps : list (ppc * nat)) (np nv cb : Z) (rs : list centry).
  Variable c : choice.
  Let W (v : Z) (o : opc) := mk_w v ck o op la ps np nv cb rs.
  Let Done (a : option tm) := mk_w (wd - 1) ck OIdle op ROk ps (np + 1) nv cb (mk_ce a cb ResOk :: rs).

  Lemma so_PLoad : wd <> 0 -> fst (step_owner (W wd PLoad) c) = W wd (PCas wd).
  Proof.
    intros H. unfold step_owner, begin_owner, W; cbn. rewrite p_guard_spec.
    destruct (Z.eqb_spec wd 0); [contradiction | reflexivity].
  Qed.

  Lemma so_PFutex : wd <> 0 -> fst (step_owner (W wd PFutex) c) = W wd PLoad.
  Proof.
    intros H. unfold step_owner, begin_owner, W; cbn.
    destruct (Z.eqb_spec wd 0); [contradiction | reflexivity].
  Qed.

  Lemma so_PCas_ok : 1 <= wd < 2 ^ 31 -> fst (step_owner (W wd (PCas wd)) c) = Done None.
  Proof.
    intros H. unfold step_owner, begin_owner, W, Done; cbn.
    rewrite Z.eqb_refl, p_new_id by assumption. reflexivity.
  Qed.

  Lemma so_PCas_fail i : wd <> i -> fst (step_owner (W wd (PCas i)) c) = W wd PLoad.
  Proof.
    intros H. unfold step_owner, begin_owner, W; cbn.
    destruct (Z.eqb_spec wd i); [contradiction | reflexivity].
  Qed.

  Lemma so_TLoad d : wd <> 0 -> fst (step_owner (W wd (TLoad d)) c) = W wd (TCas d wd).
  Proof.
    intros H. unfold step_owner, begin_owner, W; cbn. rewrite pd_guard_spec.
    destruct (Z.eqb_spec wd 0); [contradiction | reflexivity].
  Qed.

  Lemma so_TFutex d : tm_ok d -> wd <> 0 -> fst (step_owner (W wd (TFutex d)) c) = W wd (TLoad d).
  Proof.
    intros Hd H. unfold step_owner, begin_owner, W; cbn.
    destruct (ts_of d) as [ts|] eqn:E.
    - rewrite (ts_of_valid _ _ Hd E). cbn [negb].
      destruct (Z.eqb_spec wd 0); [contradiction | reflexivity].
    - destruct (Z.eqb_spec wd 0); [contradiction | reflexivity].
  Qed.

  Lemma so_TCas_ok d : 1 <= wd < 2 ^ 31 -> fst (step_owner (W wd (TCas d wd)) c) = Done (Some d).
  Proof.
    intros H. unfold step_owner, begin_owner, W, Done; cbn.
    rewrite Z.eqb_refl, pd_new_id by assumption. reflexivity.
  Qed.

  Lemma so_TCas_fail d i : wd <> i -> fst (step_owner (W wd (TCas d i)) c) = W wd (TLoad d).
  Proof.
    intros H. unfold step_owner, begin_owner, W; cbn.
    destruct (Z.eqb_spec wd i); [contradiction | reflexivity].
  Qed.

  Lemma so_TClock d : fst (step_owner (W wd (TClock d)) c) = W wd (TDecide d (tm_of_ns ck)).
  Proof. reflexivity. Qed.

  Lemma so_TDecide_exp d rd : timed_out d rd = true ->
    fst (step_owner (W wd (TDecide d rd)) c) = ret_timeout (W wd (TDecide d rd)) d rd.
  Proof. intros H. unfold step_owner, begin_owner, W; cbn. rewrite H. reflexivity. Qed.

  Lemma so_TDecide_no d rd : timed_out d rd = false ->
    fst (step_owner (W wd (TDecide d rd)) c) = W wd (TLoad d).
  Proof. intros H. unfold step_owner, begin_owner, W; cbn. rewrite H. reflexivity. Qed.
End Solo.

Ltac solo_run := unfold run; cbn [repeat fold_left fst snd step].

(* [prog_ok prog] is used: a deadline in the owner's pc must have a normalized nsec field, otherwise
   the kernel rejects the timespec (EINVAL) and the ASSERT fires instead of the wait being retried.
   A call that has already been told ETIMEDOUT by the kernel (pc TClock / TDecide) may still report the
   timeout -- if the clock value it reads / has read is at or after its deadline -- and then leaves the
   post in the word for the next call; in every other case the call returns 0 and takes one post. *)
Lemma solo_reachable : forall prog posts clock0 sched,
  total_posts posts < 2 ^ 31 ->
  prog_ok prog ->
  let w := run (init prog posts clock0) sched in
  0 < word w -> owner w <> OIdle -> owner w <> OCrash -> owner_asleep w = false ->
  exists n, (n <= 4)%nat /\
    let w' := run w (repeat (Owner, CNormal) n) in
    owner w' = OIdle /\
    ((SemModel.last w' = ROk /\ ret0 w' = ret0 w + 1 /\ word w' = word w - 1) \/
     (SemModel.last w' = RTimedOut /\ word w' = word w /\
      exists d, owner w = TClock d \/ exists rd, owner w = TDecide d rd)).
Proof.
  intros prog posts clock0 sched HT Hp w.
  pose proof (reach_A prog posts clock0 sched HT) as HA.
  pose proof (run_C _ sched (init_C prog posts clock0 Hp)) as HC.
  pose proof (word_bound _ _ HT HA) as Hb.
  fold w in HA, HC, Hb. revert HA HC Hb. generalize w. clear w. intros w HA [_ HC] Hb.
  destruct HA as [_ _ _ _ _ H6 _].
  destruct w as [wd ck ow op la ps np nv cb rs]. cbn in H6, HC, Hb |- *.
  intros Hw Hi Hcr Hs.
  assert (Hne : wd <> 0) by lia. assert (Hr : 1 <= wd < 2 ^ 31) by lia.
  unfold ret0; cbn [rets].
  destruct ow; try congruence; try discriminate.
  - (* PLoad *) exists 2%nat. split; [lia|]. solo_run.
    rewrite so_PLoad, so_PCas_ok by assumption. cbn [owner SemModel.last rets word]. rewrite n_ok_ok. auto.
  - (* PFutex *) exists 3%nat. split; [lia|]. solo_run.
    rewrite so_PFutex, so_PLoad, so_PCas_ok by assumption. cbn [owner SemModel.last rets word]. rewrite n_ok_ok. auto.
  - (* PCas *) destruct (Z.eq_dec wd i) as [<-|Hn].
    + exists 1%nat. split; [lia|]. solo_run. rewrite so_PCas_ok by assumption.
      cbn [owner SemModel.last rets word]. rewrite n_ok_ok. auto.
    + exists 3%nat. split; [lia|]. solo_run.
      rewrite so_PCas_fail, so_PLoad, so_PCas_ok by assumption. cbn [owner SemModel.last rets word]. rewrite n_ok_ok. auto.
  - (* TLoad *) exists 2%nat. split; [lia|]. solo_run.
    rewrite so_TLoad, so_TCas_ok by assumption. cbn [owner SemModel.last rets word]. rewrite n_ok_ok. auto.
  - (* TFutex *) exists 3%nat. split; [lia|]. solo_run.
    rewrite so_TFutex, so_TLoad, so_TCas_ok by assumption. cbn [owner SemModel.last rets word]. rewrite n_ok_ok. auto.
  - (* TCas *) destruct (Z.eq_dec wd i) as [<-|Hn].
    + exists 1%nat. split; [lia|]. solo_run. rewrite so_TCas_ok by assumption.
      cbn [owner SemModel.last rets word]. rewrite n_ok_ok. auto.
    + exists 3%nat. split; [lia|]. solo_run.
      rewrite so_TCas_fail, so_TLoad, so_TCas_ok by assumption. cbn [owner SemModel.last rets word]. rewrite n_ok_ok. auto.
  - (* TClock *) destruct (timed_out d (tm_of_ns ck)) eqn:E.
    + exists 2%nat. split; [lia|]. solo_run. rewrite so_TClock, so_TDecide_exp by assumption.
      cbn. split; [reflexivity|]. right. split; [reflexivity|]. split; [reflexivity|].
      exists d. left. reflexivity.
    + exists 4%nat. split; [lia|]. solo_run.
      rewrite so_TClock, so_TDecide_no, so_TLoad, so_TCas_ok by assumption.
      cbn [owner SemModel.last rets word]. rewrite n_ok_ok. auto.
  - (* TDecide *) destruct (timed_out d rd) eqn:E.
    + exists 1%nat. split; [lia|]. solo_run. rewrite so_TDecide_exp by assumption.
      cbn. split; [reflexivity|]. right. split; [reflexivity|]. split; [reflexivity|].
      exists d. right. exists rd. reflexivity.
    + exists 3%nat. split; [lia|]. solo_run.
      rewrite so_TDecide_no, so_TLoad, so_TCas_ok by assumption.
      cbn [owner SemModel.last rets word]. rewrite n_ok_ok. auto.
Qed.

(* --- a post makes a FUTURE wait return: with a positive count and an idle owner, the next call, whatever
   its kind, its deadline (expired or not, normalized or not) and the kernel's mood, returns 0 after exactly
   one load and one successful CAS -- it never enters the kernel ---------- *)

Lemma future_reachable : forall prog posts clock0 sched a rest c1 c2,
  total_posts posts < 2 ^ 31 ->
  let w := run (init prog posts clock0) sched in
  owner w = OIdle -> oprog w = a :: rest -> 0 < word w ->
  let w1 := fst (step w Owner c1) in
  let w2 := fst (step w1 Owner c2) in
  (exists s, snd (step w Owner c1) = EvLoad s (word w)) /\
  (exists s, snd (step w1 Owner c2) = EvCas s (word w) (word w - 1) true) /\
  owner w2 = OIdle /\ SemModel.last w2 = ROk /\ word w2 = word w - 1 /\
  rets w2 = mk_ce a (clock w) ResOk :: rets w /\ oprog w2 = rest.
Proof.
  intros prog posts clock0 sched a rest c1 c2 HT w.
  pose proof (reach_A prog posts clock0 sched HT) as HA.
  pose proof (word_bound _ _ HT HA) as Hb.
  fold w in HA, Hb. revert HA Hb. generalize w. clear w. intros w HA Hb.
  destruct w as [wd ck ow op la ps np nv cb rs]. cbn in Hb |- *.
  intros -> -> Hw.
  assert (Hne : wd <> 0) by lia. assert (Hr : 1 <= wd < 2 ^ 31) by lia.
  destruct a as [d|]; unfold step_owner at 1 2 5, begin_owner; cbn.
  - rewrite pd_guard_spec. destruct (Z.eqb_spec wd 0); [contradiction|]. cbn.
    unfold step_owner, begin_owner; cbn. rewrite Z.eqb_refl, pd_new_id by assumption. cbn.
    repeat split; eauto.
  - rewrite p_guard_spec. destruct (Z.eqb_spec wd 0); [contradiction|]. cbn.
    unfold step_owner, begin_owner; cbn. rewrite Z.eqb_refl, p_new_id by assumption. cbn.
    repeat split; eauto.
Qed.

(* --- an expired deadline is reported promptly ----------------------- *)

Section Expired.
  Variables (ck : Z) (op : list (option tm)) (la : ores) (ps : list (ppc * nat)) (np nv cb : Z) (rs : list centry).
  Variable d : tm.
  Let W (o : opc) := mk_w 0 ck o op la ps np nv cb rs.

  Lemma so_TLoad0 c : fst (step_owner (W (TLoad d)) c) = W (TFutex d).
  Proof. unfold step_owner, begin_owner, W; cbn. rewrite pd_guard_spec. reflexivity. Qed.

  Lemma so_TFutex_expired :
    tm_ok d -> is_no_deadline d = false -> tm_ns d <= ck -> 0 <= ck ->
    fst (step_owner (W (TFutex d)) CNormal) = W (TClock d).
  Proof.
    intros Hd Hn Hc H0. unfold step_owner, begin_owner, W; cbn.
    destruct (ts_of d) as [ts|] eqn:E.
    - rewrite (ts_of_valid _ _ Hd E). cbn [negb].
      assert (Hts : tm_ns ts <= ck).
      { unfold ts_of in E. rewrite Hn in E. injection E as <-.
        destruct (Z.ltb_spec (t_sec d) 0); [unfold tm_ns; cbn [t_sec t_nsec]; lia | assumption]. }
      destruct (Z.leb_spec (tm_ns ts) ck); [reflexivity | lia].
    - unfold ts_of in E. rewrite Hn in E. discriminate.
  Qed.

  Lemma timed_out_expired : tm_ok d -> tm_ns d <= ck -> timed_out d (tm_of_ns ck) = true.
  Proof.
    intros Hd Hc. rewrite (timed_out_spec _ _ Hd (tm_of_ns_norm ck)), tm_of_ns_ns. now apply Z.leb_le.
  Qed.
End Expired.

Lemma expired_prompt_reachable : forall prog posts clock0 sched d,
  total_posts posts < 2 ^ 31 ->
  prog_ok prog ->
  (owner (run (init prog posts clock0) sched) = TLoad d \/
   owner (run (init prog posts clock0) sched) = TFutex d) ->
  word (run (init prog posts clock0) sched) = 0 ->
  is_no_deadline d = false ->
  tm_ns d <= clock (run (init prog posts clock0) sched) ->
  0 <= clock (run (init prog posts clock0) sched) ->
  exists n, (n <= 4)%nat /\
    owner (run (run (init prog posts clock0) sched) (repeat (Owner, CNormal) n)) = OIdle /\
    SemModel.last (run (run (init prog posts clock0) sched) (repeat (Owner, CNormal) n)) = RTimedOut.
Proof.
  intros prog posts clock0 sched d _ Hp.
  pose proof (run_C _ sched (init_C prog posts clock0 Hp)) as HC.
  revert HC. generalize (run (init prog posts clock0) sched). intros w [_ HC].
  destruct w as [wd ck ow op la ps np nv cb rs]. cbn in HC |- *.
  intros Ho Hw Hn Hc H0. subst wd.
  destruct Ho as [-> | ->]; cbn in HC.
  - exists 4%nat. split; [lia|]. solo_run.
    rewrite so_TLoad0, so_TFutex_expired, so_TClock, so_TDecide_exp by (auto using timed_out_expired). cbn. auto.
  - exists 3%nat. split; [lia|]. solo_run.
    rewrite so_TFutex_expired, so_TClock, so_TDecide_exp by (auto using timed_out_expired). cbn. auto.
Qed.

Lemma pre_epoch_times_out :
  owner (run (init [Some (mk_tm (-5) 999999999)] [] 1000) (repeat (Owner, CNormal) 4)) = OIdle /\
  SemModel.last (run (init [Some (mk_tm (-5) 999999999)] [] 1000) (repeat (Owner, CNormal) 4)) = RTimedOut.
Proof. vm_compute. split; reflexivity. Qed.

(* --- a concrete run: two posters, a plain P and a timed P ----------- *)

Lemma example_two_posts : exists sched,
  ret0 (run (init [None; Some (mk_tm 0 5000)] [1%nat; 1%nat] 1000) sched) = 2 /\
  nV (run (init [None; Some (mk_tm 0 5000)] [1%nat; 1%nat] 1000) sched) = 2 /\
  word (run (init [None; Some (mk_tm 0 5000)] [1%nat; 1%nat] 1000) sched) = 0 /\
  owner (run (init [None; Some (mk_tm 0 5000)] [1%nat; 1%nat] 1000) sched) = OIdle.
Proof.
  exists [(Poster 0%nat, CNormal); (Poster 0%nat, CNormal); (Poster 0%nat, CNormal);
          (Poster 1%nat, CNormal); (Poster 1%nat, CNormal); (Poster 1%nat, CNormal);
          (Owner, CNormal); (Owner, CNormal); (Owner, CNormal); (Owner, CNormal)].
  vm_compute. repeat split; reflexivity.
Qed.

(* --- a concrete run with an injected EINTR, an early ETIMEDOUT that is retried, a sleep, a real timeout
   (the clock is read at 5500 and the decision taken later, at 5600), then a sleep ended by a post --------- *)

Definition sched_eintr_timeout_post : list (actor * choice) :=
  [ (Owner, CNormal);         (* call 1 (deadline 5000): load 0 *)
    (Owner, CEintr);          (* futex wait: EINTR *)
    (Owner, CNormal);         (* load 0 *)
    (Owner, CEarlyTimeout);   (* futex wait: ETIMEDOUT although the clock is at 1000 *)
    (Owner, CNormal);         (* reads the clock: 1000 *)
    (Owner, CNormal);         (* 5000 <= 1000 is false: retry *)
    (Owner, CNormal);         (* load 0 *)
    (Owner, CNormal);         (* futex wait: sleeps *)
    (Tick 4500, CNormal);     (* the clock reaches 5500 *)
    (Owner, CNormal);         (* the kernel ends the sleep: ETIMEDOUT *)
    (Owner, CNormal);         (* reads the clock: 5500 *)
    (Tick 100, CNormal);
    (Owner, CNormal);         (* 5000 <= 5500: returns ETIMEDOUT *)
    (Owner, CNormal);         (* call 2 (deadline 9000): load 0 *)
    (Owner, CNormal);         (* futex wait: sleeps *)
    (Poster 0%nat, CNormal); (Poster 0%nat, CNormal); (Poster 0%nat, CNormal);   (* load, CAS 0 -> 1, wake *)
    (Owner, CNormal);         (* load 1 *)
    (Owner, CNormal) ].       (* CAS 1 -> 0: returns 0 *)

Lemma example_eintr_timeout_post :
  let w := run (init [Some (mk_tm 0 5000); Some (mk_tm 0 9000)] [1%nat] 1000) sched_eintr_timeout_post in
  rets w = [ mk_ce (Some (mk_tm 0 9000)) 5600 ResOk; mk_ce (Some (mk_tm 0 5000)) 1000 (ResTimedOut (mk_tm 0 5500)) ] /\
  SemModel.last w = ROk /\ word w = 0 /\ nV w = 1 /\ clock w = 5600 /\ owner w = OIdle /\
  map (fun n => snd (step (run (init [Some (mk_tm 0 5000); Some (mk_tm 0 9000)] [1%nat] 1000) (firstn n sched_eintr_timeout_post)) Owner
                          (snd (nth n sched_eintr_timeout_post (Owner, CNormal)))))
      [1; 3; 4; 5; 7; 9; 10; 12]%nat
  = [ EvFutexWait EINTR; EvFutexWait ETIMEDOUT; EvClock (mk_tm 0 1000); EvDecide false;
      EvFutexWait 0; EvFutexWait ETIMEDOUT; EvClock (mk_tm 0 5500); EvDecide true ].
Proof. vm_compute. repeat split; reflexivity. Qed.
