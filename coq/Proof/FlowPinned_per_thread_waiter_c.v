(* The control structure of per_thread_waiter.c between its atomic sites, regenerated from /repo on this run, is the pinned one. *)
From Coq Require Import String List.
From NsyncGen Require Import Flow.
From NsyncModel Require Import FlowExpected.

Lemma flow_current_per_thread_waiter_c : flow_per_thread_waiter_c = expected_flow_per_thread_waiter_c.
Proof. vm_compute. reflexivity. Qed.
