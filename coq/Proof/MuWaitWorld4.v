(* MuWaitWorld4: soundness of MU_ALL_FALSE in every reachable world (C06_allfalse). *)
From NsyncBase Require Import CSem.
From NsyncGen Require Import Consts Sites.
From NsyncModel Require Import MuWaitModel MuWaitSpec.
From NsyncProof Require Import WordView MuWaitProof MuWaitRings MuWaitBits MuWaitWorld1 MuWaitWorld2 MuWaitWorld3.
From Coq Require Import List ZArith Bool Lia PeanoNat.
Import ListNotations.
Local Open Scope Z_scope.

Definition hA (x : Z) : bool := has x MU_ALL_FALSE.
Definition etp (w : world) : Prop := eq_truth_preserving (cls w) (pst w).
Definition AllC (w : world) (l : list nat) : Prop := forall p, In p l -> wcond w p <> None.
Definition AllF (w : world) (l : list nat) : Prop := forall p, In p l -> wtrue (wcond w) (pst w) p = false.
(* every waiter of l has a condition, and (if condition_arg_eq preserves truth) it is false in the current state *)
Definition CF (w : world) (l : list nat) : Prop := AllC w l /\ (etp w -> AllF w l).

Lemma CF_nil w : CF w [].
Proof. split; [intros p [] | intros _ p []]. Qed.
Lemma CF_app w a b : CF w (a ++ b) <-> CF w a /\ CF w b.
Proof.
  unfold CF, AllC, AllF. split.
  - intros [A B]. split; (split; [intros p Hp; apply A; apply in_or_app; auto | intros E p Hp; apply (B E); apply in_or_app; auto]).
  - intros [[A1 B1] [A2 B2]]. split; [intros p Hp | intros E p Hp]; apply in_app_or in Hp; destruct Hp; auto.
Qed.
Lemma CF_ext w w' l : (forall p, In p l -> wcond w' p = wcond w p) -> pst w' = pst w -> cls w' = cls w -> CF w l -> CF w' l.
Proof.
  intros Hc Hp Hl [A B]. unfold CF, AllC, AllF, etp, wtrue in *. rewrite Hp, Hl. split.
  - intros p Hi. rewrite (Hc p Hi). apply A; exact Hi.
  - intros E p Hi. rewrite (Hc p Hi). apply (B E); exact Hi.
Qed.
Lemma CF_uncond w l : CF w l -> uncond w l -> l = [].
Proof.
  intros [A _] U. destruct l as [|p r]; [reflexivity|]. exfalso. apply (A p (or_introl eq_refl)).
  unfold uncond in U. inversion U; assumption.
Qed.

(* the scan's knowledge about the waiters it has passed: waiters ++ the part of new_waiters before the cursor *)
Definition AFI (w : world) (u : uscan) (rest : list nat) : Prop :=
  forall pre, u_new u = pre ++ rest -> hA (u_set u) = true -> CF w (u_done u ++ pre).
(* a scan that did not convert to a writer lock saw only unconditional waiters *)
Definition NTU (w : world) (u : uscan) : Prop := u_late u = 0 -> uncond w (u_done u ++ u_new u).

Lemma noAF_hA s : noAF s -> hA s = true -> False.
Proof. unfold noAF, hA. congruence. Qed.

Lemma AFI_lists w u u' rest : u_done u' = u_done u -> u_new u' = u_new u -> u_set u' = u_set u -> AFI w u rest -> AFI w u' rest.
Proof. intros A B C H pre. rewrite A, B, C. apply H. Qed.
Lemma AFI_noAF w u rest : noAF (u_set u) -> AFI w u rest.
Proof. intros N pre _ H. destruct (noAF_hA _ N H). Qed.
Lemma NTU_lists w u u' : u_done u' = u_done u -> u_new u' = u_new u -> u_late u' = u_late u -> NTU w u -> NTU w u'.
Proof. intros A B C H. unfold NTU. rewrite A, B, C. exact H. Qed.

Lemma inner_AFI w m rest u : AFI w u rest ->
  match inner w m u rest with
  | InPc p => forall k u', sk_of p = Some (k, u') -> AFI w u' (u_rest u') /\ (NTU w u -> NTU w u')
  | InEnd u' => AFI w u' (u_rest u') /\ (NTU w u -> NTU w u') /\ u_late u' = u_late u
  end.
Proof.
  intros H. pose proof (inner_spec w m rest u) as S. destruct (inner w m u rest) as [p|u'].
  - destruct S as [(-> & _) | (u' & sk & x & tl & (A & B & _ & _ & L & _) & Er & Eu & (_ & Sk) & Hp)]; [intros k u' E; discriminate E|].
    intros k u0 E. assert (u0 = u') as -> by (destruct Hp as [(-> & _) | (-> & _)]; injection E; auto).
    split; [| apply NTU_lists; assumption]. rewrite Eu.
    destruct Sk as [[-> Es] | N]; [| apply AFI_noAF; exact N]. simpl in Er. subst rest. eapply AFI_lists; eauto.
  - destruct S as (sk & (A & B & _ & _ & L & _) & Er & (_ & Sk) & _). split; [| split; [apply NTU_lists; assumption | exact L]].
    destruct Sk as [[-> Es] | N]; [| apply AFI_noAF; exact N]. simpl in Er. subst rest. eapply AFI_lists; eauto.
Qed.

Lemma end_inner_AFI w u : AFI w u (u_rest u) ->
  AFI w (end_inner_set u) (u_rest (end_inner_set u)) /\ (u_rest (end_inner_set u) = [] \/ noAF (u_set (end_inner_set u))) /\
  (NTU w u -> NTU w (end_inner_set u)).
Proof.
  intros H. unfold end_inner_set. destruct (u_rest u) as [|p r] eqn:E.
  - rewrite E. auto.
  - cbn [u_rest set_uset]. rewrite E. split; [apply AFI_noAF; apply noAF_clear|]. split; [right; apply noAF_clear | apply NTU_lists; reflexivity].
Qed.

Lemma round_end_AFI w u : AFI w u (u_rest u) -> (u_rest u = [] \/ noAF (u_set u)) ->
  AFI (fst (round_end w u)) (snd (round_end w u)) (u_new (snd (round_end w u))).
Proof.
  intros H Hr. destruct (round_end_fields w u) as (_ & _ & E3 & E4 & _ & _ & _ & _ & E9 & _ & _ & E12).
  rewrite E12. cbn [u_new u_done u_set]. intros pre Ep Hs. cbn [u_new u_done u_set] in *.
  assert (pre = []) as -> by (apply (app_inv_tail (queue w)); rewrite <- Ep; reflexivity).
  rewrite app_nil_r. destruct Hr as [Hr | N]; [| destruct (noAF_hA _ N Hs)].
  apply (CF_ext w); [intros; rewrite E3; reflexivity | exact E9 | exact E4|].
  apply (H (u_new u)); [rewrite Hr; symmetry; apply app_nil_r | exact Hs].
Qed.

(* what is known at the final CAS of the scan *)
Definition FIN (w : world) (f : usl) : Prop :=
  (hA (set_on f) = true -> hA (clear_on f) = false ->
   late f <> 0 /\ (etp w -> AllF w (queue w)) /\ exists p, In p (queue w) /\ wcond w p <> None) /\
  (hA (clear_on f) = false -> hA (set_on f) = true /\ hC (clear_on f) = false).
Definition P3pc (w : world) (p : pc) : Prop :=
  (forall k u, sk_of p = Some (k, u) -> AFI w u (u_rest u) /\ NTU w u /\ (k = SSpin -> u_rest u = [] \/ noAF (u_set u))) /\
  (forall f, fin_of p = Some f -> FIN w f).

Lemma uncond_ext w w' l : wcond w' = wcond w -> uncond w l -> uncond w' l.
Proof. intros E. unfold uncond. rewrite E. auto. Qed.

Lemma finalize_P3 w m u : AFI w u [] -> u_new u = [] -> NTU w u -> P3pc (fst (finalize w m u)) (snd (finalize w m u)).
Proof.
  intros H En Hn. pose proof (bits_finalize_clear w m u) as B. unfold finalize in *. cbn [fst snd] in *.
  destruct B as (Bc & B & _). split; [intros k u0 E; discriminate E|].
  intros f E. injection E as <-. unfold FIN, hA, hC. cbn [set_on clear_on late].
  split.
  2:{ intros C. destruct (proj1 B C) as [C1 C2]. split; [exact C1|].
      apply not_true_is_false. intros Ecc. apply C2. apply (proj1 Bc). exact Ecc. }
  intros Hs Hc. destruct (proj1 B Hc) as [_ Hd].
  assert (Hcf : CF w (u_done u)).
  { rewrite <- (app_nil_r (u_done u)). apply (H []); [rewrite En; reflexivity | exact Hs]. }
  split; [|split].
  - intros L. apply Hd. apply (CF_uncond w); [exact Hcf|]. specialize (Hn L). rewrite En, app_nil_r in Hn. exact Hn.
  - intros E. destruct Hcf as [_ F]. exact (F E).
  - destruct (u_done u) as [|p0 r0] eqn:Ed; [congruence|]. exists p0. split; [left; reflexivity|]. apply (proj1 Hcf). left; reflexivity.
Qed.

Lemma inner_kinds w m rest u : match inner w m u rest with InPc p => forall k u', sk_of p = Some (k, u') -> k <> SSpin | InEnd _ => True end.
Proof.
  pose proof (inner_spec w m rest u) as S. destruct (inner w m u rest) as [p|]; [| exact I].
  destruct S as [(-> & _) | (u' & sk & x & tl & _ & _ & _ & _ & [(-> & _) | (-> & _)])]; intros k u0 E; try discriminate E;
    injection E as <- _; discriminate.
Qed.
Lemma inner_fin w m rest u : match inner w m u rest with InPc p => fin_of p = None | InEnd _ => True end.
Proof. pose proof (inner_scanres w m rest u) as S. destruct (inner w m u rest); [apply S | exact I]. Qed.

Lemma scan_from_P3 m : forall fuel w u, AFI w u (u_new u) -> NTU w u -> (u_late u = 0 -> queue w = []) ->
  P3pc (fst (scan_from fuel w m u)) (snd (scan_from fuel w m u)).
Proof.
  induction fuel as [|f IH]; intros w u H Hn Hq; cbn [scan_from].
  - split; [intros k u0 E; discriminate E | intros f E; discriminate E].
  - destruct (u_new u) as [|p rest] eqn:En; [apply finalize_P3; auto|].
    set (t' := adjust_test w u p).
    set (u1 := mk_us t' (u_late u) (u_done u) (p :: rest) (p :: rest) (u_wake u) (u_wty u) (u_set u)).
    assert (H1 : AFI w u1 (p :: rest)) by (eapply AFI_lists; [| | | exact H]; [reflexivity | symmetry; exact En | reflexivity]).
    assert (Hn1 : NTU w u1) by (eapply NTU_lists; [| | | exact Hn]; [reflexivity | symmetry; exact En | reflexivity]).
    destruct t'.
    + cbn [fst snd]. split; [| intros f0 E; discriminate E]. intros k u0 E. injection E as <- <-.
      split; [exact H1|]. split; [exact Hn1 | discriminate].
    + pose proof (inner_AFI w m (p :: rest) u1 H1) as K. pose proof (inner_kinds w m (p :: rest) u1) as Kk.
      pose proof (inner_fin w m (p :: rest) u1) as Kf.
      destruct (inner w m u1 (p :: rest)) as [p0|u2].
      * cbn [fst snd]. split; [| intros f0 E; rewrite Kf in E; discriminate E].
        intros k u0 E. destruct (K k u0 E) as [A B]. split; [exact A|]. split; [apply B; exact Hn1 | intros ->; destruct (Kk _ _ E eq_refl)].
      * destruct K as (K1 & K2 & K3). destruct (end_inner_AFI w u2 K1) as (E1 & E2 & E3).
        pose proof (round_end_AFI w (end_inner_set u2) E1 E2) as R.
        destruct (round_end_fields w (end_inner_set u2)) as (F1 & _ & F3 & _ & _ & _ & _ & _ & _ & _ & _ & F12).
        assert (Rn : NTU (fst (round_end w (end_inner_set u2))) (snd (round_end w (end_inner_set u2)))).
        { pose proof (E3 (K2 Hn1)) as N. unfold NTU in *. rewrite F12. cbn [u_late u_done u_new]. intros L.
          specialize (N L). apply (uncond_ext w); [exact F3|].
          assert (queue w = []) as ->.
          { apply Hq. destruct (end_inner_set_lists u2) as [(_ & _ & _ & _ & L2 & _) _].
            rewrite L2, K3 in L. exact L. }
          rewrite app_nil_r. exact N. }
        destruct (round_end w (end_inner_set u2)) as [w2 u3]. cbn [fst snd] in *.
        apply IH; [exact R | exact Rn | intros _; exact F1].
Qed.

Lemma after_inner_P3 w m r :
  match r with
  | InPc p => P3pc w p
  | InEnd u => AFI w u (u_rest u) /\ NTU w u /\ (u_late u = 0 -> queue w = [])
  end -> P3pc (fst (after_inner w m r)) (snd (after_inner w m r)).
Proof.
  destruct r as [p|u]; cbn [after_inner]; [auto|]. intros (H & Hn & Hq).
  destruct (end_inner_AFI w u H) as (E1 & E2 & E3). destruct (end_inner_set_lists u) as [(_ & _ & _ & _ & L2 & _) R2].
  destruct (u_test (end_inner_set u)).
  - cbn [fst snd]. split; [| intros f E; discriminate E]. intros k u0 E. injection E as <- <-. auto.
  - pose proof (round_end_AFI w (end_inner_set u) E1 E2) as R.
    destruct (round_end_fields w (end_inner_set u)) as (F1 & _ & F3 & _ & _ & _ & _ & _ & _ & _ & _ & F12).
    assert (Rn : NTU (fst (round_end w (end_inner_set u))) (snd (round_end w (end_inner_set u)))).
    { pose proof (E3 Hn) as N. unfold NTU in *. rewrite F12. cbn [u_late u_done u_new]. intros L.
      specialize (N L). apply (uncond_ext w); [exact F3|]. rewrite L2 in L. rewrite (Hq L), app_nil_r. exact N. }
    destruct (round_end w (end_inner_set u)) as [w2 u3]. cbn [fst snd] in *.
    apply scan_from_P3; [exact R | exact Rn | intros _; exact F1].
Qed.

Lemma inner_after_P3 w m u rest : AFI w u rest -> NTU w u -> (u_late u = 0 -> queue w = []) ->
  P3pc (fst (after_inner w m (inner w m u rest))) (snd (after_inner w m (inner w m u rest))).
Proof.
  intros H Hn Hq. apply after_inner_P3.
  pose proof (inner_AFI w m rest u H) as K. pose proof (inner_kinds w m rest u) as Kk. pose proof (inner_fin w m rest u) as Kf.
  destruct (inner w m u rest) as [p|u'].
  - split; [| intros f E; rewrite Kf in E; discriminate E].
    intros k u0 E. destruct (K k u0 E) as [A B]. split; [exact A|]. split; [apply B; exact Hn | intros ->; destruct (Kk _ _ E eq_refl)].
  - destruct K as (K1 & K2 & K3). split; [exact K1|]. split; [apply K2; exact Hn | rewrite K3; exact Hq].
Qed.

Lemma P3pc_ext w w' p : wcond w' = wcond w -> pst w' = pst w -> cls w' = cls w -> queue w' = queue w -> P3pc w p -> P3pc w' p.
Proof.
  intros Ec Ep El Eq [A B]. split.
  - intros k u E. destruct (A k u E) as (A1 & A2 & A3). split; [|split; [|exact A3]].
    + intros pre Hp Hs. apply (CF_ext w); [intros; rewrite Ec; reflexivity | exact Ep | exact El | apply (A1 pre Hp Hs)].
    + intros L. apply (uncond_ext w); [exact Ec | apply A2; exact L].
  - intros f E. destruct (B f E) as [B1 B2]. split; [| exact B2]. intros Hs Hc. destruct (B1 Hs Hc) as (C1 & C2 & C3). split; [exact C1|].
    unfold etp, AllF, wtrue in *. rewrite Ec, Ep, El, Eq. auto.
Qed.

(* ================= the invariant ================= *)
(* a writer that may have changed the protected state: owns the write lock outside the window of
   mu_try_acquire_after_timeout_or_cancel *)
Definition mutb (s : tstate) : bool :=
  match held s with
  | Some W => match frozen_old (t_pc s) with None => true | Some _ => false end
  | _ => false
  end.
Definition afs_pc (p : pc) : bool := match p with MwRelLoad | MwRelCas _ _ | LsStoreWaiting _ _ => true | _ => false end.
Definition uw_pc (p : pc) : bool := match p with UwFast | UwLoad | UwCas2 _ => true | _ => false end.

Definition L3t (w : world) (s : tstate) : Prop :=
  P3pc w (t_pc s) /\
  (forall k u, sk_of (t_pc s) = Some (k, u) -> u_late u = 0 -> hA (word w) = false) /\
  (forall f, fin_of (t_pc s) = Some f -> late f = 0 -> hA (word w) = false) /\
  (afs_pc (t_pc s) = true -> hA (word w) = false) /\
  (~ In OUnlockNW (t_ops s) /\ uw_pc (t_pc s) = false).
Record L3 (w : world) : Prop := mk_L3 {
  c_g : hA (word w) = true -> (exists t, mutb (get w t) = true) \/ (etp w -> AllF w (queue w));
  c_ac : hA (word w) = true -> hC (word w) = true;
  c_t : forall t, L3t w (get w t) }.

(* the word after a step: MU_ALL_FALSE is not newly set, and MU_CONDITION is kept while it is set *)
Definition AFok (w W : world) : Prop :=
  hA (word W) = true -> hA (word w) = true /\ hC (word W) = hC (word w).
Lemma AFok_refl w W : word W = word w -> AFok w W.
Proof. intros E H. rewrite E in *. auto. Qed.
Lemma AFok_keeps w W : keeps (word w) (word W) -> AFok w W.
Proof. intros [A B] H. unfold hA, hC in *. rewrite B in H. auto. Qed.
Lemma AFok_clears w W : keepsC_clearsA (word w) (word W) -> AFok w W.
Proof. intros [A B] H. unfold hA in H. congruence. Qed.
Lemma AFok_false w W : hA (word W) = false -> AFok w W.
Proof. intros E H. congruence. Qed.

Lemma P3pc_none w p : sk_of p = None -> fin_of p = None -> P3pc w p.
Proof. intros A B. split; [intros k u E; congruence | intros f E; congruence]. Qed.

Section L3facts.
Variable n : nat.
Hypothesis Hn : Z.of_nat n < 16777215.

(* lists of a scanning / finishing thread consist of members *)
Lemma sk_members w y k u x : i_sk (winfo w y) = Some (k, u) -> In x (u_done u ++ u_new u) -> member (queue w) (winfo w) x.
Proof. intros E H. right. exists y. unfold ipl, irl. rewrite E. apply in_or_app; left; exact H. Qed.

Lemma P3pc_frame w W y : L1 w -> P3pc w (t_pc (get w y)) ->
  (forall x, member (queue w) (winfo w) x -> wcond W x = wcond w x) -> pst W = pst w -> cls W = cls w ->
  (forall f, fin_of (t_pc (get w y)) = Some f -> queue W = queue w) ->
  P3pc W (t_pc (get w y)).
Proof.
  intros HL [A B] Hc Hp Hl Hq. split.
  - intros k u E. destruct (A k u E) as (A1 & A2 & A3).
    assert (M : forall x, In x (u_done u ++ u_new u) -> wcond W x = wcond w x).
    { intros x Hx. apply Hc. apply (sk_members w y k u); [unfold winfo, info_of; cbn [i_sk]; exact E | exact Hx]. }
    split; [|split; [|exact A3]].
    + intros pre Ep Hs. apply (CF_ext w); [| exact Hp | exact Hl | apply (A1 pre Ep Hs)].
      intros x Hx. apply M. rewrite Ep. apply in_app_or in Hx. apply in_or_app. destruct Hx as [Hx|Hx]; [left; exact Hx | right].
      apply in_or_app; left; exact Hx.
    + intros L. specialize (A2 L). unfold uncond in *. rewrite Forall_forall in *. intros x Hx. rewrite (M x Hx). apply A2; exact Hx.
  - intros f E. destruct (B f E) as [B1 B2]. split; [| exact B2]. intros Hs Hcl. destruct (B1 Hs Hcl) as (C1 & C2 & (p0 & C3 & C4)). split; [exact C1|].
    rewrite (Hq f E). split.
    + unfold etp, AllF, wtrue in *. rewrite Hp, Hl. intros Ee x Hx. rewrite (Hc x (or_introl Hx)). apply (C2 Ee); exact Hx.
    + exists p0. split; [exact C3 | rewrite (Hc p0 (or_introl C3)); exact C4].
Qed.

Lemma L3t_frame w W t y : L1 w -> L3 w -> y <> t -> get W y = get w y ->
  (hA (word W) = true -> hA (word w) = true) ->
  (forall x, member (queue w) (winfo w) x -> wcond W x = wcond w x) -> pst W = pst w -> cls W = cls w ->
  (forall f, fin_of (t_pc (get w y)) = Some f -> queue W = queue w) ->
  L3t W (get W y).
Proof.
  intros HL H3 Ny Eg Ha Hc Hp Hl Hq. rewrite Eg. destruct (c_t w H3 y) as (A & B & C & D & E).
  assert (K : hA (word w) = false -> hA (word W) = false).
  { intros F. destruct (hA (word W)) eqn:G; [| reflexivity]. rewrite (Ha eq_refl) in F. discriminate F. }
  split; [apply (P3pc_frame w W y HL A Hc Hp Hl Hq)|]. split; [intros k u E1 E2; apply K; apply (B k u E1 E2)|].
  split; [intros f E1 E2; apply K; apply (C f E1 E2)|]. split; [intros E1; apply K; apply (D E1) | exact E].
Qed.

(* the invariant G after a step of t *)
Lemma G_step w W t : L3 w -> (forall y, y <> t -> get W y = get w y) -> AFok w W ->
  mutb (get W t) = true \/ hA (word W) = false \/
  ((mutb (get w t) = true -> False) /\ pst W = pst w /\ cls W = cls w /\
   (forall x, In x (queue W) -> In x (queue w) /\ wcond W x = wcond w x)) ->
  (hA (word W) = true -> (exists t, mutb (get W t) = true) \/ (etp W -> AllF W (queue W))) /\
  (hA (word W) = true -> hC (word W) = true).
Proof.
  intros H3 Ho Hok Hc. split.
  - intros Ha. destruct Hc as [Hc | [Hc | (Hm & Hp & Hl & Hq)]]; [left; exists t; exact Hc | congruence|].
    destruct (Hok Ha) as [Ha0 _]. destruct (c_g w H3 Ha0) as [[y Hy] | Hf].
    + left. exists y. destruct (Nat.eq_dec y t) as [->|N]; [destruct (Hm Hy) | rewrite (Ho y N); exact Hy].
    + right. unfold etp, AllF, wtrue in *. rewrite Hp, Hl. intros Ee x Hx. destruct (Hq x Hx) as [Q1 Q2]. rewrite Q2. apply (Hf Ee); exact Q1.
  - intros Ha. destruct (Hok Ha) as [Ha0 Ec]. rewrite Ec. apply (c_ac w H3 Ha0).
Qed.
End L3facts.

Lemma L3_intro w W t s' : L1 w -> L3 w -> (forall y, y <> t -> get W y = get w y) -> get W t = s' -> AFok w W ->
  (forall x, member (queue w) (winfo w) x -> wcond W x = wcond w x) -> pst W = pst w -> cls W = cls w ->
  (forall y f, y <> t -> fin_of (t_pc (get w y)) = Some f -> queue W = queue w) ->
  (hA (word W) = false \/ (mutb (get w t) = true -> mutb s' = true)) ->
  (mutb s' = true \/ hA (word W) = false \/ (forall x, In x (queue W) -> In x (queue w))) ->
  L3t W s' -> L3 W.
Proof.
  intros HL H3 Ho Eg Hok Hc Hp Hl Hqf Hm Hq Ht.
  assert (G : mutb (get W t) = true \/ hA (word W) = false \/
              ((mutb (get w t) = true -> False) /\ pst W = pst w /\ cls W = cls w /\
               (forall x, In x (queue W) -> In x (queue w) /\ wcond W x = wcond w x))).
  { rewrite Eg. destruct (mutb s') eqn:Ms; [left; reflexivity | right].
    destruct Hm as [Hm | Hm]; [left; exact Hm|]. destruct Hq as [Hq | [Hq | Hq]]; [discriminate Hq | left; exact Hq | right].
    split; [intros E; specialize (Hm E); discriminate Hm|]. split; [exact Hp|]. split; [exact Hl|].
    intros x Hx. split; [apply Hq; exact Hx | apply Hc; left; apply Hq; exact Hx]. }
  destruct (G_step w W t H3 Ho Hok G) as [G1 G2].
  constructor; [exact G1 | exact G2|].
  intros y. destruct (Nat.eq_dec y t) as [->|Ny]; [rewrite Eg; exact Ht|].
  apply (L3t_frame w W t y HL H3 Ny (Ho y Ny)); auto.
  - intros Ha. apply (Hok Ha).
  - intros f E. apply (Hqf y f Ny E).
Qed.

(* a false condition: the scan skips the rest of the same_condition ring *)
Lemma sc_equiv_cond wc cl a b : sc_equiv wc cl a b -> wc b <> None.
Proof. unfold sc_equiv. destruct (wc a) as [[? ?]|]; [| intros []]. destruct (wc b) as [[? ?]|]; [discriminate | intros []]. Qed.

Lemma eval_false_AFI w u p tl0 f a :
  RingInv (wcond w) (cls w) (rings_of w) (u_new u) -> (exists pre, u_new u = pre ++ p :: tl0) ->
  wcond w p = Some (f, a) -> pst w f a = false -> AFI w u (p :: tl0) ->
  AFI w u (skip_past (scp w) (u_new u) (p :: tl0) p).
Proof.
  intros HR [pre Ep] Ec Ef H pre' Ep' Hs.
  assert (Hsk0 : exists skd, tl0 = skd ++ skip_past (scp w) (u_new u) (p :: tl0) p /\ Forall (fun x => sc_equiv (wcond w) (cls w) p x) skd).
  { rewrite Ep in HR. destruct (skip_sound _ _ _ pre p tl0 HR) as (skd & Esk & Hsk). cbn [fst rings_of] in Esk. rewrite <- Ep in Esk. eauto. }
  destruct Hsk0 as (skd & Esk & Hsk).
  remember (skip_past (scp w) (u_new u) (p :: tl0) p) as S eqn:ES. clear ES.
  assert (pre' = pre ++ p :: skd) as ->.
  { apply (app_inv_tail S). rewrite <- Ep', Ep, Esk, <- app_assoc. reflexivity. }
  rewrite app_assoc. apply CF_app. split; [apply (H pre Ep Hs)|].
  change (p :: skd) with ([p] ++ skd). apply CF_app. split.
  - split; [intros x [<-|[]]; congruence|]. intros _ x [<-|[]]. unfold wtrue. rewrite Ec. exact Ef.
  - rewrite Forall_forall in Hsk. split.
    + intros x Hx. exact (sc_equiv_cond _ _ _ _ (Hsk x Hx)).
    + intros Ee x Hx. rewrite (sc_equiv_wtrue _ _ _ _ _ Ee (Hsk x Hx)). unfold wtrue. rewrite Ec. exact Ef.
Qed.

Section Step3.
Variable n : nat.
Hypothesis Hn : Z.of_nat n < 16777215.

Lemma begin_op_cases w t :
  get (begin_op w t) t = get w t \/
  (exists o rest p x, t_pc (get w t) = Idle /\ t_ops (get w t) = o :: rest /\
     get (begin_op w t) t = mk_t p rest (held (get w t)) (conv (get w t)) (spin (get w t)) x (last_ret (get w t)) /\
     idle_class p /\ (p = UwFast -> o = OUnlockNW)).
Proof.
  unfold begin_op. destruct (t_pc (get w t)) eqn:Ep; try (left; reflexivity).
  destruct (t_ops (get w t)) as [|o rest] eqn:Eo; [left; reflexivity|].
  destruct (Nat.lt_ge_cases t (length (thr w))) as [L|L].
  2:{ rewrite (get_oob' w t L) in Eo. discriminate Eo. }
  destruct (match o with OLock m => _ | _ => _ end) as [p x] eqn:Eq0. right. exists o, rest, p, x.
  split; [reflexivity|]. split; [reflexivity|]. split.
  - unfold get at 1, set_t, set_thr; cbn [thr]. rewrite nth_lupd_same by exact L. reflexivity.
  - destruct o as [m|m| | |f a b|c e d k], (held (get w t)) as [[|]|]; injection Eq0 as <- <-; split; first [exact I | discriminate | reflexivity | (intros; discriminate)].
Qed.

Lemma begin_op_pst w t : pst (begin_op w t) = pst w.
Proof.
  unfold begin_op. destruct (t_pc (get w t)); try reflexivity. destruct (t_ops (get w t)); try reflexivity.
  destruct (match o with OLock m => _ | _ => _ end) as [p x]. reflexivity.
Qed.

Lemma begin_op_L3 w t : Inv n w -> L3 w -> L3 (begin_op w t).
Proof.
  intros HI H3. destruct (begin_op_fields w t) as (Eq & _ & Ewc & Ecl & _ & _).
  pose proof (begin_op_word w t) as Ew. pose proof (begin_op_pst w t) as Ep.
  assert (Em : forall y, mutb (get (begin_op w t) y) = mutb (get w y)).
  { intros y. destruct (Nat.eq_dec y t) as [->|N]; [| rewrite begin_op_get_other by exact N; reflexivity].
    destruct (begin_op_cases w t) as [E | (o & rest & p & x & E1 & E2 & E3 & E4 & _)]; [rewrite E; reflexivity|].
    rewrite E3. unfold mutb. cbn [held t_pc]. rewrite E1. destruct (held (get w t)) as [[|]|]; try reflexivity.
    destruct p; try contradiction; reflexivity. }
  assert (K : forall s, L3t w s -> L3t (begin_op w t) s).
  { intros s (A & B & C & D & E). unfold L3t. rewrite Ew. split; [| auto].
    apply (P3pc_ext w); auto. }
  constructor.
  - rewrite Ew. intros Ha. destruct (c_g w H3 Ha) as [[y Hy] | Hf]; [left; exists y; rewrite Em; exact Hy | right].
    unfold etp, AllF, wtrue in *. rewrite Ep, Ecl, Ewc, Eq. exact Hf.
  - rewrite Ew. apply (c_ac w H3).
  - intros y. destruct (Nat.eq_dec y t) as [->|N]; [| rewrite begin_op_get_other by exact N; apply K, (c_t w H3)].
    destruct (begin_op_cases w t) as [E | (o & rest & p & x & E1 & E2 & E3 & E4 & E5)]; [rewrite E; apply K, (c_t w H3)|].
    rewrite E3. destruct (c_t w H3 t) as (_ & _ & _ & _ & N1 & _). rewrite E2 in N1.
    unfold L3t. cbn [t_pc t_ops].
    split; [apply P3pc_none; destruct p; try contradiction; reflexivity|].
    split; [intros k u E; destruct p; try contradiction; discriminate E|].
    split; [intros f E; destruct p; try contradiction; discriminate E|].
    split; [destruct p; try contradiction; discriminate|].
    split; [intros Hi; apply N1; right; exact Hi|].
    destruct p; try contradiction; try reflexivity. exfalso. apply N1. left. apply E5. reflexivity.
Qed.

Ltac cas_split w :=
  unfold cas;
  match goal with |- context [word w =? ?e] => destruct (Z.eqb_spec (word w) e) as [Hcas|Hcas] end;
  cbv beta iota; cbn [fst snd].
Ltac fldr :=
  rewrite ?acq_queue, ?acq_rings, ?acq_wcond, ?acq_cls, ?acq_waiting, ?acq_rcount, ?acq_wtype, ?acq_pst, ?acq_word,
          ?ru_queue, ?ru_rings, ?ru_wcond, ?ru_cls, ?ru_waiting, ?ru_rcount, ?ru_wtype, ?ru_pst, ?ru_word.
Ltac fld := intros; fldr; reflexivity.
Ltac fldp2 :=
  intros; fldr;
  first [ reflexivity | assumption
        | cbn [wcond waiting rcount wtype queue word pst cls set_pc set_t set_thr set_winfo set_waiting set_queue set_rings set_rcount set_sem set_word
               set_own set_held set_spin set_mw upd_mw released mw_return add_ev log_eval set_pst];
          rewrite ?fupd_neq by assumption; first [reflexivity | assumption] ].
Ltac wsimp := fldr; cbn [word set_pc set_t set_thr set_word set_own set_held set_spin set_mw upd_mw released mw_return set_queue set_rings set_rcount set_waiting set_winfo set_sem w_merge].
Ltac mwsome Hok mx :=
  unfold try_frozen, mt_pre, in_mw in Hok; cbn [mw] in Hok;
  let x := fresh "x" in let Hx := fresh "Hx" in
  first [ destruct Hok as ((x & Hx & _) & _) | destruct Hok as (x & Hx & _) ]; subst mx.
Ltac nomem w t HL Hs Hm :=
  let Wt := fresh "Wt" in let Mq := fresh "Mq" in
  exfalso; destruct (a_m _ _ _ _ _ _ _ HL t Hm) as [Wt Mq]; unfold winfo, get in Mq; rewrite Hs in Mq;
  cbn in Mq; first [discriminate Mq | congruence].

Ltac qsub :=
  fldr; cbn [queue set_pc set_t set_thr set_winfo set_waiting set_rcount set_sem set_word set_own set_held set_spin set_mw upd_mw released
             mw_return add_ev log_eval set_pst];
  intros; assumption.
Ltac l3simpl := cbn [t_pc t_ops mw held sk_of fin_of afs_pc uw_pc frozen_old].
Ltac own3 w t H3 Hs :=
  let A := fresh "A" in let B := fresh "B" in let C := fresh "C" in let D := fresh "D" in let E := fresh "E" in
  let Hold := fresh "Hold" in
  pose proof (c_t w H3 t) as Hold; unfold get in Hold; rewrite Hs in Hold; unfold L3t in Hold; cbn [t_pc t_ops sk_of fin_of afs_pc uw_pc] in Hold;
  destruct Hold as (A & B & C & D & E);
  unfold L3t, get; rewrite ?Hs; unfold mw_of; l3simpl;
  (split; [|split; [|split; [|split]]]);
  [ first [ (apply P3pc_none; reflexivity) | (eapply (P3pc_ext w); [fld | fld | fld | fld | exact A]) | idtac ]
  | try (let k0 := fresh "k0" in let u0 := fresh "u0" in let Eu := fresh "Eu" in
         intros k0 u0 Eu; first [discriminate Eu | (injection Eu as <- <-; let L := fresh "L" in intros L; wsimp; exact (B _ _ eq_refl L)) | idtac])
  | try (let f0 := fresh "f0" in let Ef := fresh "Ef" in intros f0 Ef; first [discriminate Ef | (injection Ef as <-; let L := fresh "L" in intros L; wsimp; exact (C _ eq_refl L)) | idtac])
  | try (let Ea := fresh "Ea" in intros Ea; first [discriminate Ea | (wsimp; exact (D eq_refl)) | idtac])
  | first [exact E | idtac] ].

Ltac boring3 w t HL H3 Hs Hlen Ht afok :=
  try (match goal with mx : option mwl |- _ => destruct mx end);
  try (match goal with Ho : own _ _ _ |- _ => unfold own in Ho; cbn [held spin conv] in Ho; destruct Ho as (-> & -> & ->) end);
  let HI' := fresh "HI'" in let Hoth := fresh "Hoth" in
  intros HI' Hoth; cbn [fst] in *;
  lazymatch goal with |- L3 ?W =>
    let HT := fresh "HT" in let Eg := fresh "Eg" in
    eassert (HT : TS t w W _ _) by (ts_solve; rewrite Hlen; exact Ht);
    pose proof (TS_get _ _ _ _ _ HT) as Eg;
    eapply (L3_intro w W t _ HL H3 Hoth Eg);
    [ afok
    | let x := fresh "x" in let Hm := fresh "Hm" in let Nx := fresh "Nx" in
      intros x Hm; first [ fldp2 | (destruct (Nat.eq_dec x t) as [->|Nx]; [nomem w t HL Hs Hm | fldp2]) ]
    | fld | fld
    | try (let y0 := fresh "y0" in let f0 := fresh "f0" in intros y0 f0 _ _; fldp2)
    | try (right; unfold mutb, get; rewrite Hs; cbn [held t_pc frozen_old]; unfold mw_of; cbn [mw];
           try (match goal with |- context [if ?b then _ else _] => destruct b end); cbn [held t_pc frozen_old];
           let Em := fresh "Em" in intros Em; first [exact Em | discriminate Em | reflexivity])
    | try (right; right; qsub)
    | own3 w t H3 Hs ]
  end.

Ltac ak0 := first [ (apply AFok_refl; fld) ].
Ltac akk lem := apply AFok_keeps; wsimp; first [exact lem | (match goal with H : word _ = _ |- _ => rewrite H end; exact lem)].
Ltac akc lem := apply AFok_clears; wsimp; first [exact lem | (match goal with H : word _ = _ |- _ => rewrite H end; exact lem)].
Lemma scan_late w y k u : Inv n w -> sk_of (t_pc (get w y)) = Some (k, u) ->
  (u_late u = MU_WLOCK /\ held (get w y) = Some W) \/ (u_late u = 0 /\ held (get w y) = None).
Proof.
  intros HI E. pose proof (pc_ok_get n w y HI) as Hok. unfold pc_ok, scanning in Hok.
  destruct (t_pc (get w y)) eqn:Ep; cbn in E; try discriminate E; try (destruct k0; cbn in E; try discriminate E);
    injection E as <- <-; destruct Hok as (_ & lt & Hown & Hsc); cbn [scan_pc_ok] in Hsc.
  all: match goal with |- (u_late ?uu = _ /\ _) \/ _ =>
         assert (Hu : uscan_ok lt uu) by (repeat match goal with H : _ /\ _ |- _ => destruct H end; assumption) end.
  all: destruct Hu as (L & _); rewrite L; destruct Hown as [(A & B & _) | (A & B & _)]; [left | right]; auto.
Qed.
Lemma fin_late w y f : Inv n w -> fin_of (t_pc (get w y)) = Some f ->
  (late f = MU_WLOCK /\ held (get w y) = Some W) \/ (late f = 0 /\ held (get w y) = None).
Proof.
  intros HI E. pose proof (pc_ok_get n w y HI) as Hok. unfold pc_ok, scanning in Hok.
  destruct (t_pc (get w y)) eqn:Ep; cbn in E; try discriminate E; injection E as <-;
    destruct Hok as (_ & lt & Hown & Hsc); cbn [scan_pc_ok] in Hsc; destruct Hsc as (_ & _ & L); rewrite L;
    destruct Hown as [(A & B & _) | (A & B & _)]; [left | right | left | right]; auto.
Qed.

Lemma L3_setc w w2 t s' : Inv n w -> L1 w -> L3 w -> (forall y, y <> t -> get w2 y = get w y) -> get w2 t = s' ->
  word w2 = word w -> queue w2 = queue w -> wcond w2 = wcond w -> cls w2 = cls w ->
  held (get w t) = Some W -> held s' = Some W -> t_pc s' = Idle -> t_ops s' = t_ops (get w t) ->
  L3 w2.
Proof.
  intros HI HL H3 Ho Eg Ew Eq Ec El Hh Hh' Hp Hops.
  constructor.
  - intros _. left. exists t. rewrite Eg. unfold mutb. rewrite Hh', Hp. reflexivity.
  - rewrite Ew. apply (c_ac w H3).
  - intros y. destruct (Nat.eq_dec y t) as [->|Ny].
    + rewrite Eg. destruct (c_t w H3 t) as (_ & _ & _ & _ & N1 & _). unfold L3t. rewrite Hp, Hops.
      split; [apply P3pc_none; reflexivity|]. split; [intros k u E; discriminate E|]. split; [intros f E; discriminate E|].
      split; [discriminate | split; [exact N1 | reflexivity]].
    + rewrite (Ho y Ny). destruct (c_t w H3 y) as ((A1 & A2) & B & C & D & E). unfold L3t. rewrite Ew.
      assert (Hny : held (get w y) <> Some W) by (apply (other_holders n w t HI); [rewrite Hh; discriminate | exact Ny]).
      split; [| auto]. split.
      * intros k u Es. destruct (scan_late w y k u HI Es) as [[_ Hw] | [L _]]; [congruence|].
        destruct (A1 k u Es) as (F1 & F2 & F3). split; [|split; [intros _; apply (uncond_ext w); [exact Ec | exact (F2 L)] | exact F3]].
        intros pre Ep Hs. assert (u_done u ++ pre = []) as ->; [| apply CF_nil].
        apply (CF_uncond w); [exact (F1 pre Ep Hs)|]. specialize (F2 L). rewrite Ep in F2.
        unfold uncond in *. rewrite Forall_forall in *. intros x Hx. apply F2. apply in_app_or in Hx. apply in_or_app.
        destruct Hx as [Hx|Hx]; [left; exact Hx | right; apply in_or_app; left; exact Hx].
      * intros f Ef. destruct (fin_late w y f HI Ef) as [[_ Hw] | [L _]]; [congruence|].
        destruct (A2 f Ef) as [F1 F2]. split; [| exact F2]. intros Hs Hc. destruct (F1 Hs Hc) as [N0 _]. contradiction.
Qed.

Lemma scanres_more p : scanres p -> frozen_old p = None /\ afs_pc p = false /\ uw_pc p = false.
Proof. destruct p; cbn [scanres]; try contradiction; try (destruct k; try contradiction); intros _; repeat split. Qed.

Lemma L3_scan_finish w w2 t s' : Inv n w2 -> L1 w -> L3 w -> (forall y, y <> t -> get w2 y = get w y) -> get w2 t = s' ->
  AFok w w2 -> wcond w2 = wcond w -> pst w2 = pst w -> cls w2 = cls w ->
  (forall y f, y <> t -> fin_of (t_pc (get w y)) = Some f -> False) ->
  (held s' = Some W \/ hA (word w2) = false) -> scanres (t_pc s') -> P3pc w2 (t_pc s') -> t_ops s' = t_ops (get w t) ->
  L3 w2.
Proof.
  intros HI' HL H3 Ho Eg Hok Ec Ep El Hnf Hh Hsr Hp3 Hops.
  destruct (scanres_more _ Hsr) as (F1 & F2 & F3).
  assert (Hm : mutb s' = true \/ hA (word w2) = false).
  { destruct Hh as [Hh | Hh]; [left; unfold mutb; rewrite Hh, F1; reflexivity | right; exact Hh]. }
  eapply (L3_intro w w2 t s' HL H3 Ho Eg Hok); auto.
  - intros; rewrite Ec; reflexivity.
  - intros y f Ny Ef. destruct (Hnf y f Ny Ef).
  - destruct Hm as [Hm | Hm]; [right; intros _; exact Hm | left; exact Hm].
  - destruct Hm as [Hm | Hm]; auto.
  - unfold L3t. split; [exact Hp3|]. split; [|split; [|split]].
    + intros k u E L. destruct Hh as [Hh | Hh]; [| exact Hh].
      destruct (scan_late w2 t k u HI') as [[L' _] | [_ Hn']]; [rewrite Eg; exact E | rewrite L' in L; discriminate L | rewrite Eg in Hn'; congruence].
    + intros f E L. destruct Hh as [Hh | Hh]; [| exact Hh].
      destruct (fin_late w2 t f HI') as [[L' _] | [_ Hn']]; [rewrite Eg; exact E | rewrite L' in L; discriminate L | rewrite Eg in Hn'; congruence].
    + rewrite F2. discriminate.
    + rewrite Hops, F3. destruct (c_t w H3 t) as (_ & _ & _ & _ & N1 & _). auto.
Qed.

Lemma test_held (s : tstate) lt u : own_ok s lt -> uscan_ok lt u -> u_test u = true -> held s = Some W /\ u_late u = MU_WLOCK.
Proof.
  intros Hown (L & _ & C & _) T. specialize (C T). rewrite L, C.
  destruct Hown as [(_ & A & _) | (A & _)]; [auto | rewrite C in A; discriminate A].
Qed.
Lemma no_other_fin_U3 w t y u : U1 w -> scl (t_pc (get w t)) = true -> y <> t -> fin_of (t_pc (get w y)) = Some u -> False.
Proof.
  intros HU Ht Ny E. apply Ny. apply HU; [| exact Ht]. unfold scl. destruct (t_pc (get w y)); try discriminate E; reflexivity.
Qed.

Lemma afs_spin w y : Inv n w -> afs_pc (t_pc (get w y)) = true -> spin (get w y) = true.
Proof.
  intros HI E. pose proof (pc_ok_get n w y HI) as Hok. unfold pc_ok, in_mw, own in Hok.
  destruct (t_pc (get w y)); try discriminate E.
  - destruct Hok as ((_ & A & _) & _). exact A.
  - destruct Hok as (x & _ & (_ & A & _) & _). exact A.
  - destruct Hok as (x & _ & (_ & A & _) & _). exact A.
Qed.

Lemma L3_c3 w w2 t f s' : Inv n w -> L1 w -> U1 w -> L2 w -> L3 w ->
  fin_of (t_pc (get w t)) = Some f -> spin (get w t) = true ->
  (forall y, y <> t -> get w2 y = get w y) -> get w2 t = s' ->
  hA (word w2) = ((hA (word w) || hA (set_on f)) && negb (hA (clear_on f))) ->
  hC (word w2) = ((hC (word w) || hC (set_on f)) && negb (hC (clear_on f))) ->
  queue w2 = queue w -> wcond w2 = wcond w -> pst w2 = pst w -> cls w2 = cls w ->
  sk_of (t_pc s') = None -> fin_of (t_pc s') = None -> afs_pc (t_pc s') = false -> uw_pc (t_pc s') = false ->
  t_ops s' = t_ops (get w t) ->
  L3 w2.
Proof.
  intros HI HL HU H2 H3 Ef Hsp Ho Eg Ea Ec Eq Ewc Ep El S1 S2 S3 S4 S5.
  destruct (c_t w H3 t) as ((_ & Hfin) & _ & _ & _ & N1 & _). destruct (Hfin f Ef) as [F1 F2].
  assert (Hscl : scl (t_pc (get w t)) = true) by (unfold scl; destruct (t_pc (get w t)); try discriminate Ef; reflexivity).
  assert (K : hA (word w2) = true -> hA (clear_on f) = false).
  { intros Ha. rewrite Ea in Ha. apply andb_true_iff in Ha. destruct Ha as [_ Ha]. apply negb_true_iff in Ha. exact Ha. }
  constructor.
  - intros Ha. right. destruct (F2 (K Ha)) as [Hs _]. destruct (F1 Hs (K Ha)) as (_ & Hf & _).
    unfold etp, AllF, wtrue in *. rewrite Ep, El, Ewc, Eq. exact Hf.
  - intros Ha. destruct (F2 (K Ha)) as [Hs Hcc]. destruct (F1 Hs (K Ha)) as (_ & _ & (p0 & Hp0 & Hc0)).
    rewrite Ec, Hcc. rewrite (cond_member_C n w p0 HI HL H2); [reflexivity | left; exact Hp0 | exact Hc0].
  - intros y. destruct (Nat.eq_dec y t) as [->|Ny].
    + rewrite Eg. unfold L3t. rewrite S3, S4, S5. split; [apply P3pc_none; assumption|].
      split; [intros k u E; congruence|]. split; [intros f0 E; congruence|]. split; [discriminate | auto].
    + rewrite (Ho y Ny). destruct (c_t w H3 y) as (_ & _ & _ & _ & E).
      assert (Nscl : scl (t_pc (get w y)) = false).
      { destruct (scl (t_pc (get w y))) eqn:Es; [| reflexivity]. exfalso. apply Ny. apply HU; assumption. }
      assert (Ns : sk_of (t_pc (get w y)) = None) by (unfold scl in Nscl; destruct (sk_of (t_pc (get w y))); [discriminate Nscl | reflexivity]).
      assert (Nf : fin_of (t_pc (get w y)) = None).
      { unfold scl in Nscl. rewrite Ns in Nscl. destruct (t_pc (get w y)); try reflexivity; discriminate Nscl. }
      unfold L3t. split; [apply P3pc_none; assumption|]. split; [intros k u E0; congruence|]. split; [intros f0 E0; congruence|].
      split; [| exact E]. intros Eaf. exfalso. apply Ny. apply (spin_unique n w y t HI); [apply afs_spin; assumption | exact Hsp].
Qed.

Lemma no_other_fin3 w W t y u : Inv n W -> spin (get W t) = true -> (forall x, x <> t -> get W x = get w x) ->
  y <> t -> fin_of (t_pc (get w y)) = Some u -> False.
Proof. apply (no_other_fin n). Qed.
Ltac B3h ak :=
  match goal with
  | HL : L1 ?w, H3 : L3 ?w, Hlen : length (thr ?w) = _, Ht : (?t < _)%nat, Hs : nth ?t (thr ?w) dflt_t = _ |- _ =>
      boring3 w t HL H3 Hs Hlen Ht ak
  end.
Ltac B3 := B3h ak0.
Ltac noop3 := cbn [fst]; intros _ _; assumption.

Lemma L3_step_thr w0 t c : Inv n w0 -> frozen_word w0 -> L1 w0 -> U1 w0 -> L2 w0 -> L3 w0 -> L3 (fst (step_thr w0 t c)).
Proof.
  intros H0 HF HL HU H2 H3.
  pose proof (step_thr_ok n Hn w0 t c H0) as (HI' & _ & _ & Hoth).
  apply (begin_op_L1 n _ t H0) in HL. apply (begin_op_U1 n _ t H0) in HU. apply (begin_op_L2 n _ t H0) in H2.
  apply (begin_op_L3 _ t H0) in H3.
  apply (begin_op_frozen _ t) in HF. apply (begin_op_inv n w0 t) in H0.
  revert HI' Hoth. unfold step_thr. set (w := begin_op w0 t) in *. clearbody w. clear w0. cbv zeta.
  destruct (Nat.lt_ge_cases t n) as [Ht|Ht].
  2:{ assert (Eg : get w t = dflt_t) by (apply get_oob'; destruct H0 as (-> & _); exact Ht).
      rewrite Eg. cbn. intros; assumption. }
  pose proof H0 as (Hlen & _ & Hok). specialize (Hok t).
  pose proof (Inv_rng n _ H0) as Rw.
  pose proof (Inv_held n w t) as Hheld. specialize (fun m => Hheld m H0).
  destruct (get w t) as [p ops h cv sp mx lr] eqn:Hs. unfold get in Hs. rewrite Hs in Hok.
  unfold pc_ok in Hok. cbn [t_pc t_ops held conv spin mw last_ret] in *.
  destruct p.
  - (* Idle *) noop3.
  - (* LkFast *) destruct Hok as (Ho & ->). cas_split w; [B3h ltac:(akk (bits_fast_new m)) | B3].
  - (* LkLoad *) destruct Hok as (Ho & ->). destruct (fast_guard2 m (word w)) eqn:G; B3.
  - (* LkCas2 *) destruct Hok as (Ho & -> & G). cas_split w; [subst old; B3h ltac:(akk (bits_fast_new2 m (word w) Rw G)) | B3].
  - (* TryFast *) destruct Hok as (Ho & ->). cas_split w; [B3h ltac:(akk (bits_try_new m)) | B3].
  - (* TryLoad *) destruct Hok as (Ho & ->). destruct (try_guard2 m (word w)) eqn:G; B3.
  - (* TryCas2 *) destruct Hok as (Ho & -> & G). cas_split w; [subst old; B3h ltac:(akk (bits_try_new2 m (word w) Rw G)) | B3].
  - (* LsLoad *) destruct Hok as (Ho & _). destruct (nsync_mu_lock_slow_cas1_guard (word w) (zta l)) eqn:G1; [B3|].
    destruct (nsync_mu_lock_slow_cas2_guard (word w) (zta l)) eqn:G2; [B3 | noop3].
  - (* LsCasAcq *) destruct Hok as (Ho & Hm & Hl & G). cas_split w; [subst old; destruct mx; B3h ltac:(akk (bits_lock_slow_cas1 m l (word w) Rw Hl G)) | B3].
  - (* LsCasEnq *) destruct Hok as (Ho & Hm & Hl & G). cas_split w; [subst old; B3h ltac:(akc (bits_lock_slow_cas2 m l (word w) Rw Hl)) | B3].
    all: wsimp; exact (proj2 (bits_lock_slow_cas2 m l (word w) Rw Hl)).
  - (* LsStoreWaiting *) destruct Hok as (Ho & _). unfold own in Ho. cbn [held spin conv] in Ho. destruct Ho as (-> & -> & ->).
    assert (Haf : hA (word w) = false).
    { destruct (c_t w H3 t) as (_ & _ & _ & D & _). unfold get in D. rewrite Hs in D. exact (D eq_refl). }
    B3.
    all: try (intros y0 f0 Ny0 Ef; exfalso; apply (no_other_fin3 w w t y0 f0 H0); auto; unfold get; rewrite Hs; reflexivity).
    all: right; left; wsimp; exact Haf.
  - (* LsWaitLoad *) destruct Hok as (Ho & _). destruct (waiting w t) eqn:Ew; B3.
  - (* LsSemP *) destruct Hok as (Ho & _). destruct (0 <? sem w t); [B3 | noop3].
  - (* RelLoad *) destruct k; try contradiction; B3.
  - (* RelCas *) destruct k; try contradiction.
    + destruct Hok as (Ho & _). cas_split w; [subst old; B3h ltac:(akk (bits_release_spinlock (word w) Rw)) | B3].
    + cas_split w; [| B3].
      destruct Hok as (Hnh & lt & Hown & Hsc). cbn [scan_pc_ok spin] in Hsc. destruct Hsc as (-> & Hte & Hu).
      destruct (test_held _ lt u Hown Hu Hte) as [Hh Hl]. cbn [held] in Hh. subst h.
      subst old. intros HI' Hoth.
      destruct (c_t w H3 t) as ((Hp3 & _) & _). unfold get in Hp3. rewrite Hs in Hp3. destruct (Hp3 SRel u eq_refl) as (Pa & Pn & _).
      assert (Hl0 : forall q : list nat, u_late u = 0 -> q = []) by (intros q L0; rewrite Hl in L0; discriminate L0).
      match goal with |- context [after_inner ?w2 m ?r] =>
        pose proof (inner_after_P3 w2 m u (u_rest u) Pa Pn (Hl0 _)) as HP;
        pose proof (after_inner_sres w2 m r (inner_scanres w2 m (u_rest u) u)) as [Hsr _];
        pose proof (after_inner_wt w2 m r) as [Hw1 Hw2];
        destruct (after_inner_fields w2 m r) as (F1 & _ & _ & _ & F5 & F6);
        destruct (after_inner w2 m r) as [w3 p'] eqn:Ea; cbn [fst snd] in *;
        eassert (HT : TS t w w2 _ _) by (ts_solve; rewrite Hlen; exact Ht)
      end.
      eassert (HT3 : TS t w (set_pc w3 t p') _ _) by (apply TS_set_pc; eapply TS_eq; [exact HT | exact Hw1 | exact Hw2]).
      pose proof (TS_get _ _ _ _ _ HT3) as Eg.
      eapply (L3_scan_finish w (set_pc w3 t p') t _ HI' HL H3 Hoth Eg).
      * apply AFok_keeps. change (word (set_pc w3 t p')) with (word w3). rewrite Hw1. wsimp. exact (bits_release_spinlock (word w) Rw).
      * change (wcond w3 = wcond w). rewrite F1. reflexivity.
      * change (pst w3 = pst w). rewrite F6. reflexivity.
      * change (cls w3 = cls w). rewrite F5. reflexivity.
      * intros y f0 Ny Ef. apply (no_other_fin_U3 w t y f0 HU); auto; unfold get; rewrite Hs; reflexivity.
      * left. unfold get; rewrite Hs; reflexivity.
      * cbn [t_pc]. exact Hsr.
      * cbn [t_pc]. eapply (P3pc_ext w3); [reflexivity | reflexivity | reflexivity | reflexivity | exact HP].
      * unfold get; rewrite Hs; reflexivity.
  - (* SpinLoad *) destruct k; try contradiction; destruct (nsync_spin_test_and_set_cas1_guard (word w) MU_SPINLOCK) eqn:G; B3.
  - (* SpinCas *) destruct k; try contradiction.
    + unfold spin_set. cbv beta iota. cas_split w; [| B3].
      destruct Hok as (Hnh & lt & Hown & Hsc). cbn [scan_pc_ok spin] in Hsc. destruct Hsc as (-> & Hte & Hu & G).
      destruct (test_held _ lt u Hown Hu Hte) as [Hh Hl]. cbn [held] in Hh. subst h.
      subst old. intros HI' Hoth.
      destruct (c_t w H3 t) as ((Hp3 & _) & _). unfold get in Hp3. rewrite Hs in Hp3. destruct (Hp3 SSpin u eq_refl) as (Pa & Pn & S2).
      specialize (S2 eq_refl).
      match goal with |- context [round_end ?w2 u] =>
        eassert (HT : TS t w w2 _ _) by (ts_solve; rewrite Hlen; exact Ht);
        pose proof (round_end_AFI w2 u Pa S2) as Ra;
        destruct (round_end_fields w2 u) as (R1 & _ & R3 & R4 & _ & _ & _ & _ & R9 & R10 & R11 & R12);
        destruct (round_end w2 u) as [w3 u3] eqn:Ere; cbn [fst snd] in *
      end.
      assert (Rn : NTU w3 u3) by (unfold NTU; rewrite R12; cbn [u_late]; intros L0; rewrite Hl in L0; discriminate L0).
      pose proof (scan_from_P3 m 3 w3 u3 Ra Rn ltac:(intros _; exact R1)) as HP.
      pose proof (scan_from_sres m 3 w3 u3) as [Hsr _].
      pose proof (scan_from_wt m 3 w3 u3) as [Hw1 Hw2].
      destruct (scan_from_fields m 3 w3 u3) as (F1 & _ & _ & _ & F5 & F6).
      destruct (scan_from 3 w3 m u3) as [w4 p'] eqn:Esf. cbn [fst snd] in *.
      rewrite R10 in Hw1. rewrite R11 in Hw2. rewrite R3 in F1. rewrite R4 in F5. rewrite R9 in F6.
      eassert (HT3 : TS t w (set_pc w4 t p') _ _) by (apply TS_set_pc; eapply TS_eq; [exact HT | exact Hw1 | exact Hw2]).
      pose proof (TS_get _ _ _ _ _ HT3) as Eg.
      eapply (L3_scan_finish w (set_pc w4 t p') t _ HI' HL H3 Hoth Eg).
      * apply AFok_keeps. change (word (set_pc w4 t p')) with (word w4). rewrite Hw1. wsimp. exact (bits_spin_scan (word w) Rw).
      * change (wcond w4 = wcond w). rewrite F1. reflexivity.
      * change (pst w4 = pst w). rewrite F6. reflexivity.
      * change (cls w4 = cls w). rewrite F5. reflexivity.
      * intros y f0 Ny Ef0. apply (no_other_fin_U3 w t y f0 HU); auto; unfold get; rewrite Hs; reflexivity.
      * left. unfold get; rewrite Hs; reflexivity.
      * cbn [t_pc]. exact Hsr.
      * cbn [t_pc]. eapply (P3pc_ext w4); [reflexivity | reflexivity | reflexivity | reflexivity | exact HP].
      * unfold get; rewrite Hs; reflexivity.
    + mwsome Hok mx. unfold spin_set. cbv beta iota. cas_split w; [subst old | B3].
      match goal with |- context [mw_first (get_mw ?ww t)] =>
        assert (get_mw ww t = x) as Eg by (erewrite (TS_get_mw t w); [| ts_solve; rewrite Hlen; exact Ht]; unfold get; rewrite Hs; reflexivity);
        rewrite Eg end.
      assert (Egm : get_mw w t = x) by (unfold get_mw, get; rewrite Hs; reflexivity). rewrite Egm.
      destruct (bits_spin_wait (word w) (mw_cond x) Rw) as [_ Ba]. cbv zeta in Ba.
      destruct (mw_first x); B3h ltac:(apply AFok_false; unfold hA; wsimp; exact Ba).
      all: try (intros y0 f0 Ny0 Ef; exfalso;
                match goal with HT : TS ?t0 ?w0 ?W _ _ |- _ => apply (no_other_fin3 w0 W t0 y0 f0 HI'); auto; rewrite (TS_get _ _ _ _ _ HT); reflexivity end).
      all: try (right; left; unfold hA; wsimp; exact Ba).
      all: unfold hA; wsimp; exact Ba.
  - (* RmLoad *) destruct k; try contradiction; B3.
  - (* RmCas *) destruct k; try contradiction.
    + destruct (rcount w (List.hd t (u_rest u)) =? oldv) eqn:Erc; [| B3].
      destruct Hok as (Hnh & lt & Hown & Hsc). cbn [scan_pc_ok spin] in Hsc. destruct Hsc as (-> & Hu).
      assert (Ew : winfo w t = sinfo mx SRm u) by (rewrite (winfo_scan w t SRm u); unfold get; rewrite Hs; reflexivity).
      destruct (a_r2 _ _ _ _ _ _ _ HL t SRm u) as (_ & Rn & [pre Hsuf] & (Hne & Hqe)); [rewrite Ew; reflexivity|].
      destruct (c_t w H3 t) as ((Hp3 & _) & Hb & _). unfold get in Hp3, Hb. rewrite Hs in Hp3, Hb. cbn [t_pc] in Hp3, Hb.
      destruct (Hp3 SRm u eq_refl) as (Pa & Pn & _). specialize (Hb SRm u eq_refl).
      destruct (u_rest u) as [|e tl0] eqn:Er; [congruence|]. cbn [List.hd List.tl] in *.
      assert (Hein : In e (u_new u)) by (rewrite Hsuf; apply in_elt).
      destruct (ring_remove_aux (wcond w) (weq w) (cls w) (rings_of w) (u_new u) e Rn Hein) as (Enl & _).
      assert (Hnd : NoDup (u_new u)) by (apply (RingInv_NoDup _ _ _ _ Rn)).
      assert (Nep : ~ In e pre).
      { rewrite Hsuf in Hnd. apply NoDup_remove_2 in Hnd. intros A. apply Hnd. apply in_or_app; left; exact A. }
      rewrite Hsuf in Enl at 2. rewrite (remove1_app pre e tl0 Nep) in Enl.
      match goal with |- context [remove_from ?a ?b ?c ?d (u_new u) e] =>
        change (remove_from a b c d (u_new u) e) with (remove_from (wcond w) (weq w) (cls w) (rings_of w) (u_new u) e) end.
      destruct (remove_from (wcond w) (weq w) (cls w) (rings_of w) (u_new u) e) as [nl rg] eqn:Erm. cbn [fst] in Enl. subst nl.
      intros HI' Hoth.
      assert (Hlq : forall q : list nat, q = queue w -> u_late u = 0 -> q = []).
      { intros q -> L0. apply Hqe. destruct (u_test u) eqn:T; [| reflexivity]. destruct Hu as (L & _ & C & _). rewrite (C T) in L. rewrite L in L0. discriminate L0. }
      match goal with |- context [after_inner ?w2 m (inner ?w2 m ?u' tl0)] =>
        assert (Pa' : AFI w2 u' tl0);
        [ intros pre' Ep' Hs'; cbn [u_new u_done u_set] in *;
          assert (pre' = pre) as -> by (apply (app_inv_tail tl0); symmetry; exact Ep');
          apply (Pa pre Hsuf Hs')
        | assert (Pn' : NTU w2 u');
          [ unfold NTU; cbn [u_late u_done u_new]; intros L0; specialize (Pn L0); rewrite Hsuf in Pn;
            unfold uncond in *; rewrite Forall_forall in *; intros x Hx; apply Pn;
            apply in_app_or in Hx; apply in_or_app; destruct Hx as [Hx|Hx]; [left; exact Hx | right];
            apply in_app_or in Hx; apply in_or_app; destruct Hx as [Hx|Hx]; [left; exact Hx | right; right; exact Hx]
          | pose proof (inner_after_P3 w2 m u' tl0 Pa' Pn' (Hlq _ eq_refl)) as HP;
            pose proof (after_inner_sres w2 m (inner w2 m u' tl0) (inner_scanres w2 m tl0 u')) as [Hsr _];
            pose proof (after_inner_wt w2 m (inner w2 m u' tl0)) as [Hw1 Hw2];
            destruct (after_inner_fields w2 m (inner w2 m u' tl0)) as (F1 & _ & _ & _ & F5 & F6);
            destruct (after_inner w2 m (inner w2 m u' tl0)) as [w3 p'] eqn:Ea; cbn [fst snd] in *;
            eassert (HT : TS t w w2 _ _) by (ts_solve; rewrite Hlen; exact Ht) ] ]
      end.
      eassert (HT3 : TS t w (set_pc w3 t p') _ _) by (apply TS_set_pc; eapply TS_eq; [exact HT | exact Hw1 | exact Hw2]).
      pose proof (TS_get _ _ _ _ _ HT3) as Eg.
      eapply (L3_scan_finish w (set_pc w3 t p') t _ HI' HL H3 Hoth Eg).
      * apply AFok_refl. change (word (set_pc w3 t p')) with (word w3). rewrite Hw1. reflexivity.
      * change (wcond w3 = wcond w). rewrite F1. reflexivity.
      * change (pst w3 = pst w). rewrite F6. reflexivity.
      * change (cls w3 = cls w). rewrite F5. reflexivity.
      * intros y f0 Ny Ef0. apply (no_other_fin_U3 w t y f0 HU); auto; unfold get; rewrite Hs; reflexivity.
      * destruct Hu as (L & _). destruct Hown as [(A1 & A2 & _) | (A1 & A2 & _)]; cbn [held] in A2.
        -- left. unfold get; rewrite Hs; cbn [held]. exact A2.
        -- right. change (word (set_pc w3 t p')) with (word w3). rewrite Hw1. apply Hb. rewrite L. exact A1.
      * cbn [t_pc]. exact Hsr.
      * cbn [t_pc]. eapply (P3pc_ext w3); [reflexivity | reflexivity | reflexivity | reflexivity | exact HP].
      * unfold get; rewrite Hs; reflexivity.
    + destruct (rcount w t =? oldv) eqn:Erc; [| B3].
      pose proof Hok as Hok'. mwsome Hok mx.
      unfold try_frozen, in_mw, own in Hok'. cbn [mw held spin conv] in Hok'. destruct Hok' as ((x0 & _ & (-> & -> & ->) & _) & _).
      destruct (remove_from _ _ _ _ (queue _) t) as [nl rg] eqn:Erm.
      pose proof (ring_remove_aux (wcond w) (weq w) (cls w) (rings_of w) (queue w) t (a_r1 _ _ _ _ _ _ _ HL)) as Hrr.
      pose proof (a_kt _ _ _ _ _ _ _ HL t) as Hin. unfold winfo, get in Hin. rewrite Hs in Hin. specialize (Hin eq_refl).
      destruct (Hrr Hin) as (Hq' & _). change (remove_from (wcond w) (weq w) (cls w) (rings_of w) (queue w) t) with
        (remove_from (wcond (set_rcount w t (nsync_remove_from_mu_queue_cas1_new oldv))) (weq (set_rcount w t (nsync_remove_from_mu_queue_cas1_new oldv)))
                     (cls (set_rcount w t (nsync_remove_from_mu_queue_cas1_new oldv))) (rings_of (set_rcount w t (nsync_remove_from_mu_queue_cas1_new oldv)))
                     (queue (set_rcount w t (nsync_remove_from_mu_queue_cas1_new oldv))) t) in Hq'.
      rewrite Erm in Hq'. cbn [fst] in Hq'. subst nl.
      B3.
      * intros y0 f0 Ny0 Ef. exfalso. apply (no_other_fin3 w w t y0 f0 H0); auto. unfold get; rewrite Hs; reflexivity.
      * right; right. intros x1 Hx1. cbn [queue set_pc set_t set_thr set_queue] in Hx1. eapply remove1_in; exact Hx1.
  - (* UlFast *) destruct Hok as (Ho & ->). cas_split w; [B3h ltac:(akk (bits_ufast m)) | B3].
    left. wsimp. destruct m; reflexivity.
  - (* UlLoad *) destruct Hok as (Ho & ->). destruct (unlock_try_cas2 m (word w)); [| destruct (unlock_bad m (word w))]; B3.
  - (* UlCas2 *) destruct Hok as (Ho & ->). unfold own in Ho; cbn [held spin conv] in Ho; destruct Ho as (-> & -> & ->).
    pose proof (Hheld m eq_refl) as Hp. cas_split w; [subst old | B3].
    destruct m; [B3h ltac:(akc (bits_unlock_new2_W (word w) Rw (proj1 Hp))) | B3h ltac:(akk (bits_unlock_new2_R (word w) Rw (proj1 Hp)))].
    left. wsimp. exact (proj2 (bits_unlock_new2_W (word w) Rw (proj1 Hp))).
  - (* UwFast *) exfalso. destruct (c_t w H3 t) as (_ & _ & _ & _ & _ & N2). unfold get in N2. rewrite Hs in N2. discriminate N2.
  - (* UwLoad *) exfalso. destruct (c_t w H3 t) as (_ & _ & _ & _ & _ & N2). unfold get in N2. rewrite Hs in N2. discriminate N2.
  - (* UwCas2 *) exfalso. destruct (c_t w H3 t) as (_ & _ & _ & _ & _ & N2). unfold get in N2. rewrite Hs in N2. discriminate N2.
  - (* UsLoad *) destruct Hok as (Ho & _). destruct (nsync_mu_unlock_slow_cas1_guard (word w)); [B3|].
    destruct (nsync_mu_unlock_slow_cas2_guard (word w)) eqn:G2; [B3 | noop3].
  - (* UsCasRel *) destruct Hok as (Ho & Hnh). unfold own in Ho; cbn [held spin conv] in Ho; destruct Ho as (-> & -> & ->).
    pose proof (Hheld m eq_refl) as Hp. cas_split w; [subst old | B3].
    destruct m; destruct mx; [B3h ltac:(akc (bits_unlock_slow_cas1_W (word w) Rw (proj1 Hp))) | B3h ltac:(akc (bits_unlock_slow_cas1_W (word w) Rw (proj1 Hp)))
                             | B3h ltac:(akk (bits_unlock_slow_cas1_R (word w) Rw (proj1 Hp))) | B3h ltac:(akk (bits_unlock_slow_cas1_R (word w) Rw (proj1 Hp)))].
    all: left; wsimp; exact (proj2 (bits_unlock_slow_cas1_W (word w) Rw (proj1 Hp))).
  - (* UsCasSpin *) cas_split w; [| B3].
    destruct Hok as (Ho & Hnh & G). unfold own in Ho. cbn [held spin conv] in Ho. destruct Ho as (-> & -> & ->).
    subst old. pose proof (held_rel_pre2 _ _ (Hheld m eq_refl)) as Hp.
    destruct (has (word w) MU_CONDITION) eqn:Etest; intros HI' Hoth;
    (match goal with |- context [scan_from 3 (set_queue ?w2 []) m ?u] =>
      eassert (HT : TS t w (set_queue w2 []) _ _) by (ts_solve; rewrite Hlen; exact Ht);
      assert (Pa : AFI (set_queue w2 []) u (u_new u));
      [ intros pre Ep _; cbn [u_new u_done] in *;
        assert (pre = []) as -> by (apply (app_inv_tail (queue w2)); rewrite <- Ep; reflexivity); apply CF_nil
      | assert (Pn : NTU (set_queue w2 []) u);
        [ unfold NTU; cbn [u_late u_done u_new];
          first [ (intros L0; discriminate L0)
                | (intros _; unfold uncond; apply Forall_forall; intros p Hp0;
                   change (In p (queue w)) in Hp0; change (wcond w p = None);
                   destruct (wcond w p) eqn:Ecp; [exfalso | reflexivity];
                   assert (hC (word w) = true) as Hcc by (apply (cond_member_C n w p H0 HL H2); [left; exact Hp0 | congruence]);
                   unfold hC in Hcc; congruence) ]
        | pose proof (scan_from_P3 m 3 (set_queue w2 []) u Pa Pn ltac:(intros _; reflexivity)) as HP;
          pose proof (scan_from_sres m 3 (set_queue w2 []) u) as [Hsr _];
          pose proof (scan_from_wt m 3 (set_queue w2 []) u) as [Hw1 Hw2];
          destruct (scan_from_fields m 3 (set_queue w2 []) u) as (F1 & _ & _ & _ & F5 & F6);
          destruct (scan_from 3 (set_queue w2 []) m u) as [w4 p'] eqn:Esf; cbn [fst snd] in * ] ]
    end);
    (eassert (HT3 : TS t w (set_pc w4 t p') _ _) by (apply TS_set_pc; eapply TS_eq; [exact HT | exact Hw1 | exact Hw2]));
    pose proof (TS_get _ _ _ _ _ HT3) as Eg;
    eapply (L3_scan_finish w (set_pc w4 t p') t _ HI' HL H3 Hoth Eg).
    all: try (cbn [t_pc]; exact Hsr).
    all: try (intros y f0 Ny Ef0; apply (no_other_fin3 w (set_pc w4 t p') t y f0 HI'); auto; rewrite Eg; reflexivity).
    all: try (change (wcond w4 = wcond w); rewrite F1; reflexivity).
    all: try (change (pst w4 = pst w); rewrite F6; reflexivity).
    all: try (change (cls w4 = cls w); rewrite F5; reflexivity).
    all: try (cbn [t_pc]; eapply (P3pc_ext w4); [reflexivity | reflexivity | reflexivity | reflexivity | exact HP]).
    all: try (unfold get; rewrite Hs; reflexivity).
    + apply AFok_keeps. change (word (set_pc w4 t p')) with (word w4). rewrite Hw1. wsimp.
      exact (bits_unlock_slow_cas2' m true (word w) Rw Hp).
    + left. reflexivity.
    + apply AFok_keeps. change (word (set_pc w4 t p')) with (word w4). rewrite Hw1. wsimp.
      exact (bits_unlock_slow_cas2' m false (word w) Rw Hp).
    + right. change (word (set_pc w4 t p')) with (word w4). rewrite Hw1. wsimp.
      unfold hA. rewrite (proj2 (bits_unlock_slow_cas2' m false (word w) Rw Hp)).
      destruct (has (word w) MU_ALL_FALSE) eqn:Ea; [| reflexivity].
      pose proof (c_ac w H3 Ea) as Hcc. unfold hC in Hcc. congruence.
  - (* UsEval *)
    destruct Hok as (Hnh & lt & Hown & Hsc). cbn [scan_pc_ok spin] in Hsc. destruct Hsc as (-> & Hte & Hu).
    destruct (test_held _ lt u Hown Hu Hte) as [Hh Hl]. cbn [held] in Hh. subst h.
    assert (Ew : winfo w t = sinfo mx SEval u) by (rewrite (winfo_scan w t SEval u); unfold get; rewrite Hs; reflexivity).
    destruct (a_r2 _ _ _ _ _ _ _ HL t SEval u) as (_ & Rn & [pre Hsuf] & (p & tl0 & Er & Hc)); [rewrite Ew; reflexivity|].
    rewrite Er. rewrite Er in Hsuf. destruct (wcond w p) as [[f a]|] eqn:Ec; [clear Hc | congruence].
    intros HI' Hoth.
    destruct (c_t w H3 t) as ((Hp3 & _) & _). unfold get in Hp3. rewrite Hs in Hp3. destruct (Hp3 SEval u eq_refl) as (Pa & Pn & _).
    rewrite Er in Pa.
    assert (Hl0 : forall q : list nat, u_late u = 0 -> q = []) by (intros q L0; rewrite Hl in L0; discriminate L0).
    match goal with |- context [after_inner ?w2 m ?r] =>
      assert (HP : P3pc (fst (after_inner w2 m r)) (snd (after_inner w2 m r)) /\ scanres (snd (after_inner w2 m r)))
    end.
    { destruct (pst w f a) eqn:Ef.
      - match goal with |- context [wakeable ?ww u p] => destruct (wakeable ww u p) end.
        + cbn [after_inner fst snd]. split; [| exact I]. split; [| intros f0 E; discriminate E].
          intros k u0 E. injection E as <- <-. rewrite Er. split; [exact Pa|]. split; [exact Pn | discriminate].
        + split; [apply inner_after_P3; [apply AFI_noAF; apply noAF_set_ww | exact Pn | apply Hl0]|].
          apply after_inner_sres. apply inner_scanres.
      - split; [apply inner_after_P3; [| exact Pn | apply Hl0] | apply after_inner_sres; apply inner_scanres].
        apply (eval_false_AFI w u p tl0 f a Rn); [exists pre; exact Hsuf | exact Ec | exact Ef | exact Pa]. }
    destruct HP as [HP Hsr].
    match goal with |- context [after_inner ?w2 m ?r] =>
      pose proof (after_inner_wt w2 m r) as [Hw1 Hw2];
      destruct (after_inner_fields w2 m r) as (F1 & _ & _ & _ & F5 & F6);
      destruct (after_inner w2 m r) as [w3 p'] eqn:Ea; cbn [fst snd] in *;
      eassert (HT : TS t w w2 _ _) by (ts_solve; rewrite Hlen; exact Ht)
    end.
    eassert (HT3 : TS t w (set_pc w3 t p') _ _) by (apply TS_set_pc; eapply TS_eq; [exact HT | exact Hw1 | exact Hw2]).
    pose proof (TS_get _ _ _ _ _ HT3) as Eg.
    eapply (L3_scan_finish w (set_pc w3 t p') t _ HI' HL H3 Hoth Eg).
    + apply AFok_refl. change (word (set_pc w3 t p')) with (word w3). rewrite Hw1. reflexivity.
    + change (wcond w3 = wcond w). rewrite F1. reflexivity.
    + change (pst w3 = pst w). rewrite F6. reflexivity.
    + change (cls w3 = cls w). rewrite F5. reflexivity.
    + intros y f0 Ny Ef0. apply (no_other_fin_U3 w t y f0 HU); auto; unfold get; rewrite Hs; reflexivity.
    + left. unfold get; rewrite Hs; reflexivity.
    + cbn [t_pc]. exact Hsr.
    + cbn [t_pc]. eapply (P3pc_ext w3); [reflexivity | reflexivity | reflexivity | reflexivity | exact HP].
    + unfold get; rewrite Hs; reflexivity.
  - (* UsRelLoad *) B3.
  - (* UsRelCas *) cas_split w; [| B3].
    destruct Hok as (Hnh & lt & Hown & Hsc). cbn [scan_pc_ok spin] in Hsc. destruct Hsc as (-> & Hu & Hl).
    assert (HW : late u = MU_WLOCK -> old mod 2 = 1).
    { subst old. destruct Hown as [(E1 & E2 & E3) | (E1 & E2 & E3)]; cbn [held] in E2; rewrite Hl, E1; subst h;
        [intros _; apply (Hheld W eq_refl) | discriminate]. }
    subst old. destruct (bits_cas3_gen u (word w) Rw Hu HW) as [Bc Ba].
    intros HI' Hoth.
    destruct (wake u) as [|q rest] eqn:Ewk; [destruct mx as [x|]|]; cbn [fst] in *;
      (match goal with |- L3 ?W => eassert (HT : TS t w W _ _) by (ts_solve; rewrite Hlen; exact Ht) end);
      pose proof (TS_get _ _ _ _ _ HT) as Eg;
      (eapply (L3_c3 w _ t u _ H0 HL HU H2 H3); [unfold get; rewrite Hs; reflexivity | unfold get; rewrite Hs; reflexivity | exact Hoth | exact Eg | ..]).
    all: try (unfold hA; wsimp; exact Ba).
    all: try (unfold hC; wsimp; exact Bc).
    all: try fld.
    all: unfold get; rewrite ?Hs; reflexivity.
  - (* UsWakeStore *) destruct Hok as (Ho & _). destruct (wake u) as [|q rest] eqn:Ewk; destruct mx; B3.
  - (* UsWakeV *) destruct Hok as (Ho & _). destruct (wake u) as [|q rest] eqn:Ewk; destruct mx; B3.
  - (* SetC *) destruct Hok as (Ho & ->). unfold own in Ho; cbn [held spin conv] in Ho; destruct Ho as (-> & -> & ->).
    intros HI' Hoth. cbn [fst] in *.
    match goal with |- L3 ?W => eassert (HT : TS t w W _ _) by (ts_solve; rewrite Hlen; exact Ht) end.
    pose proof (TS_get _ _ _ _ _ HT) as Eg.
    eapply (L3_setc w _ t _ H0 HL H3 Hoth Eg); try reflexivity; unfold get; rewrite ?Hs; try reflexivity.

  - (* MwLoad *) destruct Hok as (-> & -> & Hh & Hm). destruct h as [h|]; [| congruence]. destruct mx as [x|]; [| congruence].
    destruct (band (word w) MU_ANY_LOCK =? 0); [B3|].
    match goal with |- context [mw_cond (get_mw ?ww t)] =>
      assert (get_mw ww t = mk_mw (if negb (band (word w) MU_RHELD_IF_NON_ZERO =? 0) then R else W) (mw_cond x) (mw_eq x) (mw_dl x) (mw_canc x) (mw_first x) (mw_rc x) (mw_hadw x)
                                  (mw_semout x) (mw_have x) (mw_outcome x) (mw_tmo x) (mw_ent x)) as Eg
        by (erewrite (TS_get_mw t w); [| ts_solve; rewrite Hlen; exact Ht]; unfold get; rewrite Hs; reflexivity);
      rewrite Eg end.
    cbn [mw_cond]. destruct (mw_cond x) eqn:Emc; [B3|].
    unfold mw_after_eval. rewrite Eg. cbn [mw_outcome mw_mode mw_cond mw_eq]. destruct (nsync_mu_wait_with_deadline_store1_guard _ _); B3.
  - (* MwEval *) mwsome Hok mx. unfold get_mw, get. rewrite Hs. cbn [mw].
    destruct (mw_cond x) as [[f a]|] eqn:Emc; unfold mw_after_eval;
      (match goal with |- context [get_mw ?ww t] =>
         assert (get_mw ww t = x) as Eg by (unfold get_mw, get; cbn [thr log_eval add_ev]; rewrite Hs; reflexivity); rewrite Eg end);
      destruct (nsync_mu_wait_with_deadline_store1_guard _ _); B3.
  - (* MwStoreWaiting *) mwsome Hok mx. B3.
  - (* MwRcLoad *) mwsome Hok mx. B3.
  - (* MwRelLoad *) mwsome Hok mx. B3.
  - (* MwRelCas *) unfold in_mw in Hok; cbn [mw] in Hok. destruct Hok as (x & Hx & Ho & Hh & Hadd). subst mx.
    unfold own in Ho; cbn [held spin conv] in Ho; destruct Ho as (-> & -> & ->).
    assert (Haf : hA (word w) = false).
    { destruct (c_t w H3 t) as (_ & _ & _ & D & _). unfold get in D. rewrite Hs in D. exact (D eq_refl). }
    pose proof (held_rel_pre _ _ (Hheld (mw_mode x) eq_refl)) as Hp. cas_split w; [subst old | B3].
    pose proof (bits_mw_cas1 (mw_mode x) (word w) add Rw Hp Hadd) as Bk.
    destruct (add =? 0).
    + match goal with |- context [mw_mode (get_mw ?ww t)] =>
        assert (get_mw ww t = x) as Eg by (erewrite (TS_get_mw t w); [| ts_solve; rewrite Hlen; exact Ht]; unfold get; rewrite Hs; reflexivity);
        rewrite Eg end.
      B3h ltac:(akk Bk).
    + B3h ltac:(akk Bk).
      left. wsimp. unfold hA in *. rewrite (proj2 Bk). exact Haf.
  - (* MwLoadW1 *) mwsome Hok mx. unfold get_mw, get. rewrite Hs. cbn [mw].
    destruct (waiting w t) eqn:Ew.
    + destruct (mw_semout x =? 0); B3.
    + destruct (mw_have x) eqn:Eh; B3.
  - (* MwSemP *) mwsome Hok mx. unfold get_mw, get. rewrite Hs. cbn [mw]. destruct c.
    + destruct (0 <? sem w t); [B3 | noop3].
    + destruct (mw_dl x) as [d|]; [| noop3]. destruct (d <=? clock w); [B3 | noop3].
    + destruct (mw_canc x && note w); [B3 | noop3].
  - (* MwLoadW2 *) mwsome Hok mx. destruct (waiting w t); B3.
  - (* MwLoadW3 *) mwsome Hok mx. B3.
  - (* MtLoad *) mwsome Hok mx. destruct (mu_try_acquire_after_timeout_or_cancel_cas1_guard (word w)) eqn:G1;
      [| destruct (mu_try_acquire_after_timeout_or_cancel_cas2_guard (word w)) eqn:G2]; B3.
  - (* MtCas1 *) unfold mt_pre, in_mw in Hok; cbn [mw] in Hok. destruct Hok as ((x & Hx & Ho & _) & G). subst mx.
    unfold own in Ho; cbn [held spin conv] in Ho; destruct Ho as (-> & -> & ->). cas_split w.
    + subst old. B3h ltac:(akk (bits_mt_cas1 (word w) (mt_cas1_guard_facts _ Rw G))).
    + destruct (mu_try_acquire_after_timeout_or_cancel_cas2_guard old) eqn:G2; B3.
  - (* MtCas2 *) mwsome Hok mx. cas_split w; [subst old; B3h ltac:(akk (bits_mt_cas2 (word w) Rw)) | B3].
  - (* MtLoadW *) mwsome Hok mx. destruct (waiting w t); B3.
  - (* MtLoadRc *) mwsome Hok mx. unfold get_mw, get. rewrite Hs. cbn [mw]. destruct (mw_rc x =? rcount w t); B3.
  - (* MtStoreW *) mwsome Hok mx. B3.
  - (* MtStore2 *) unfold try_frozen, in_mw in Hok; cbn [mw] in Hok. destruct Hok as ((x & Hx & Ho & _) & Hto). subst mx.
    unfold own in Ho; cbn [held spin conv] in Ho; destruct Ho as (-> & -> & ->).
    assert (Ewf : word w = mu_try_acquire_after_timeout_or_cancel_cas1_new old) by (apply (HF t old); unfold get; rewrite Hs; reflexivity).
    unfold get_mw, get. rewrite Hs. cbn [mw].
    B3h ltac:(apply AFok_keeps; wsimp; rewrite Ewf; destruct (bits_mt_store2 old (mw_mode x) Hto) as [K1 K2]; destruct (bits_mt_cas1 old Hto) as [K3 K4];
              split; congruence).
  - (* MtStore3 *) unfold try_frozen, in_mw in Hok; cbn [mw] in Hok. destruct Hok as ((x & Hx & Ho & _) & Hto). subst mx.
    unfold own in Ho; cbn [held spin conv] in Ho; destruct Ho as (-> & -> & ->).
    assert (Ewf : word w = mu_try_acquire_after_timeout_or_cancel_cas1_new old) by (apply (HF t old); unfold get; rewrite Hs; reflexivity).
    B3h ltac:(apply AFok_keeps; wsimp; rewrite Ewf; destruct (bits_mt_store3 old Hto) as [K1 K2]; destruct (bits_mt_cas1 old Hto) as [K3 K4];
              split; congruence).
  - (* Crash *) noop3.
Qed.
End Step3.

(* ================= reachable worlds ================= *)
Definition LInv3 (n : nat) (w : world) : Prop := LInv n w /\ L3 w.

Lemma LInv3_step n (Hn : Z.of_nat n < 16777215) w a : LInv3 n w -> LInv3 n (fst (step w a)).
Proof.
  intros [HL H3]. split; [apply LInv_step; assumption|].
  destruct a as [t c|dt| |p]; cbn [step].
  - destruct HL as ((HI & HFr) & HL1 & HU & H2). apply (L3_step_thr n Hn); assumption.
  - destruct (0 <=? dt); [| exact H3]. destruct H3 as [G A T]. constructor; assumption.
  - destruct H3 as [G A T]. constructor; assumption.
  - destruct (note w); [| exact H3]. destruct H3 as [G A T]. constructor; assumption.
Qed.
Lemma LInv3_run n (Hn : Z.of_nat n < 16777215) sched : forall w, LInv3 n w -> LInv3 n (run w sched).
Proof.
  unfold run. induction sched as [|a rest IH]; intros w H; cbn [fold_left]; [exact H|]. apply IH, LInv3_step; assumption.
Qed.

Definition no_nw (progs : list (list op)) : Prop := forall ops, In ops progs -> ~ In OUnlockNW ops.

Lemma init_L3 progs cl c0 : no_nw progs -> L3 (init progs cl c0).
Proof.
  intros Hnw. constructor.
  - intros Ha. discriminate Ha.
  - intros Ha. discriminate Ha.
  - intros t. destruct (init_get progs cl c0 t) as [Ep _]. unfold L3t. rewrite Ep.
    split; [apply P3pc_none; reflexivity|]. split; [intros k u E; discriminate E|]. split; [intros f E; discriminate E|].
    split; [discriminate|]. split; [| reflexivity].
    unfold init, get; cbn [thr]. destruct (Nat.lt_ge_cases t (length progs)) as [L|L].
    + rewrite (nth_indep _ dflt_t (mk_t Idle (nth t progs []) None false false None None)) by (rewrite map_length; exact L).
      change (mk_t Idle (nth t progs []) None false false None None) with ((fun p => mk_t Idle p None false false None None) (nth t progs [])).
      rewrite map_nth. cbn [t_ops]. apply Hnw. apply nth_In. exact L.
    + rewrite nth_overflow by (rewrite map_length; exact L). intros [].
Qed.

Lemma LInv3_reachable progs cl c0 sched :
  Z.of_nat (length progs) < 2 ^ 24 - 1 -> no_nw progs -> LInv3 (length progs) (run (init progs cl c0) sched).
Proof. intros H Hnw. apply LInv3_run; [exact H | split; [apply init_LInv | apply init_L3; exact Hnw]]. Qed.

(* ================= C06_allfalse ================= *)
Theorem allfalse_sound progs cl c0 sched :
  Z.of_nat (length progs) < 2 ^ 24 - 1 -> no_nw progs ->
  let w := run (init progs cl c0) sched in
  eq_truth_preserving (cls w) (pst w) ->
  has (word w) MU_ALL_FALSE = true -> (forall t, ~ holds w t W) ->
  forall p, In p (queue w) -> exists f a, wcond w p = Some (f, a) /\ pst w f a = false.
Proof.
  intros H Hnw w He Ha Hh p Hp. destruct (LInv3_reachable progs cl c0 sched H Hnw) as [_ H3]. fold w in H3.
  destruct (c_g w H3 Ha) as [[t Ht] | Hf].
  - exfalso. apply (Hh t). unfold holds, mutb in *. destruct (held (get w t)) as [[|]|]; [reflexivity | discriminate Ht | discriminate Ht].
  - specialize (Hf He p Hp). unfold wtrue in Hf. destruct (wcond w p) as [[f a]|]; [exists f, a; auto | discriminate Hf].
Qed.

Print Assumptions allfalse_sound.
Print Assumptions RingInv_reachable.
