(* NoteProof: invariants of NoteModel and the lemmas behind Properties_C08.v / Properties_C09.v. *)
From Coq Require Import String.
From NsyncBase Require Import CSem.
From NsyncGen Require Import Consts Sites.
From NsyncModel Require Import NoteModel.
From Coq Require Import List ZArith Bool Lia Arith.
Import ListNotations.
Local Open Scope Z_scope.

(* ------------------------------------------------------------------------------------------------ *)
(* The site inventory of note.c the model was written against (fails by reflexivity when a site of note.c is added,
   removed, reordered or changes its kind, target or memory order; line numbers are not pinned), and the values the model takes from Gen/Sites.v. *)
Lemma sites_note_pinned :
  map (fun s => (s_fn s, s_ord s, s_kind s, s_order s, s_target s)) sites_note_c =
  [ ("note_notify_child", 1%nat, Kload, Oacq, "notified.n");
    ("note_notify_child", 2%nat, Kstore, Orel, "notified.n");
    ("note_notify_child", 3%nat, Kstore, Orel, "waiting.nw");
    ("notify", 1%nat, Kload, Oacq, "notified.n");
    ("nsync_note_notified_deadline_", 1%nat, Kload, Oacq, "notified.n");
    ("nsync_note_notified_deadline_", 2%nat, Kload, Oacq, "notified.n");
    ("nsync_note_new", 1%nat, Kload, Oacq, "notified.parent");
    ("nsync_note_free", 1%nat, Kload, Oacq, "notified.parent");
    ("note_enqueue", 1%nat, Kload, Oacq, "notified.n");
    ("note_enqueue", 2%nat, Kstore, Orlx, "waiting.nw");
    ("note_enqueue", 3%nat, Kstore, Orlx, "waiting.nw");
    ("note_dequeue", 1%nat, Kload, Oacq, "notified.n");
    ("note_dequeue", 2%nat, Kstore, Orlx, "waiting.nw") ]%string.
Proof. reflexivity. Qed.
Lemma c_store1 : note_notify_child_store1_new = 1. Proof. reflexivity. Qed.
Lemma c_store2 : note_notify_child_store2_new = 0. Proof. reflexivity. Qed.
Lemma free_guard p : nsync_note_free_load1_guard (ptr_of p) = match p with Some _ => true | None => false end.
Proof.
  unfold nsync_note_free_load1_guard, ptr_of. destruct p as [n|]; [|reflexivity].
  destruct (Z.eqb_spec (Z.of_nat n + 1) 0); [lia|reflexivity].
Qed.

(* the guard under which nsync_note_new reaches its load of parent->notified, as generated from the source (0ed6400: n != NULL
   && parent != NULL -- no longer "&& !nsync_note_is_notified (n)"), is the branch ret_D takes when the note's
   nsync_note_is_notified (n) returns: on to W2 iff the parent is not NULL, whatever `expired` is *)
Lemma new_guard n p : nsync_note_new_load1_guard (ptr_of (Some n)) (ptr_of p) = match p with Some _ => true | None => false end.
Proof.
  unfold nsync_note_new_load1_guard, ptr_of. destruct (Z.eqb_spec (Z.of_nat n + 1) 0); [lia|]. destruct p as [q|]; [|reflexivity].
  destruct (Z.eqb_spec (Z.of_nat q + 1) 0); [lia|reflexivity].
Qed.

(* ------------------------------------------------------------------------------------------------ *)
(* step = begin_call, then the step proper *)
Definition stk (w : world) (t : nat) := stack (thr w t).
Definition step1 (w : world) (t : nat) (c : bool) : world * ev :=
  match stack (get w t) with
  | [] => (w, EvNone)
  | f :: rest =>
      match f with
      | FD n s => step_D w t n s rest
      | FN n s par inc => step_N w t c n s par inc rest
      | FC n par s => step_C w t n par s rest
      | FF n s par => step_F w t c n s par rest
      | ANew par dl s => step_New w t c par dl s rest
      | AWait n dl s => step_Wait w t c n dl s rest
      | AExp n => (finish w t (OExpiry n) (RTime (expiry (nt w n))), EvExpiry n (expiry (nt w n)))
      | AIs _ | ANotify _ => (w, EvNone)
      end
  end.
Lemma step_step1 w t c : step w t c = step1 (begin_call w t) t c.
Proof. reflexivity. Qed.

(* ---------- time ---------- *)
Lemma tlt_tpos a b : tlt a b = true -> tpos b = false -> tpos a = false.
Proof.
  destruct a as [x|], b as [y|]; simpl; try discriminate; intros H1 H2.
  apply Z.ltb_lt in H1. apply Z.ltb_ge in H2. apply Z.ltb_ge. lia.
Qed.
Lemma tpos_tzero : tpos tzero = false. Proof. reflexivity. Qed.
Lemma tmin_zero_not_pos dl : tpos (if tlt tzero dl then tzero else dl) = false.
Proof.
  destruct (tlt tzero dl) eqn:E; [reflexivity|].
  destruct dl as [y|]; simpl in *; [|discriminate]. apply Z.ltb_ge in E. apply Z.ltb_ge. lia.
Qed.

(* ---------- lists ---------- *)
Lemma next_in_In l x y : next_in l x = Some y -> In y l.
Proof.
  induction l as [|a r IH]; simpl; [discriminate|].
  destruct (Nat.eqb a x).
  - destruct r; simpl; [discriminate|]. intros E; inversion E; subst. right; left; reflexivity.
  - intros E. right. auto.
Qed.
Lemma hd_error_In {A} (l : list A) y : hd_error l = Some y -> In y l.
Proof. destruct l; simpl; [discriminate|]. intros E; inversion E; subst; left; reflexivity. Qed.
Lemma remove_nat_incl x l y : In y (remove_nat x l) -> In y l.
Proof.
  induction l as [|a r IH]; simpl; [tauto|].
  destruct (Nat.eqb a x); simpl; intuition.
Qed.
Lemma mem_nat_In x l : mem_nat x l = true <-> In x l.
Proof.
  induction l as [|a r IH]; simpl; [split; [discriminate|tauto]|].
  rewrite orb_true_iff, IH. split; intros [H|H]; auto.
  - apply Nat.eqb_eq in H. auto.
  - left. apply Nat.eqb_eq. auto.
Qed.

(* ------------------------------------------------------------------------------------------------ *)
(* Shape of the call stacks (pure control) *)
Definition bottom_ok (f : frame) : Prop :=
  match f with AIs _ | ANotify _ | ANew _ _ _ | AWait _ _ _ | AExp _ | FF _ _ _ => True | _ => False end.
Definition link_ok (callee caller : frame) : Prop :=
  match callee, caller with
  | FD n _, AIs m => n = m
  | FD n _, ANotify m => n = m
  | FD n _, AWait m _ WReady | FD n _, AWait m _ WLoop | FD n _, AWait m _ WDeq => n = m
  | FD n _, ANew _ _ (WD m) => n = m
  | FN n _ _ _, FD m (D5 _) => n = m
  | FN n _ _ _, ANotify m => n = m
  | FC n par _, FN m N9 par' _ => n = m /\ par = par'
  | FC n par _, FC m _ (CR c _) => n = c /\ par = Some m
  | FC n par _, FF m (FR c _) _ => n = c /\ par = Some m
  | _, _ => False
  end.
Fixpoint shape (st : list frame) : Prop :=
  match st with
  | [] => True
  | f :: r => match r with [] => bottom_ok f | g :: _ => link_ok f g /\ shape r end
  end.
Lemma shape_tail f r : shape (f :: r) -> shape r.
Proof. destruct r; simpl; tauto. Qed.

(* ------------------------------------------------------------------------------------------------ *)
(* Tactics for the case analysis of the step function *)
Ltac split_match :=
  repeat match goal with
         | |- context [match ?x with _ => _ end] => destruct x eqn:?
         end.
Ltac norm := cbn [fst snd nt get setst set_thr set_tw set_sem set_note set_gh acquire release notes thr gh nnext clock nthr
                  stack prog hist tw sem sb] in *.
Ltac fupd_cases := unfold nt, fupd; cbn;
  repeat match goal with |- context [Nat.eqb ?a ?b] => destruct (Nat.eqb_spec a b); subst end.
Lemma fupd_same {A} (f : nat -> A) k v : fupd f k v k = v.
Proof. unfold fupd. now rewrite Nat.eqb_refl. Qed.
Lemma fupd_other {A} (f : nat -> A) k v x : x <> k -> fupd f k v x = f x.
Proof. unfold fupd. intros H. destruct (Nat.eqb_spec x k); congruence. Qed.

(* ------------------------------------------------------------------------------------------------ *)
(* Three layers of "what a piece of a step may change":
   tonly  - only the stepping thread's state and ghosts;
   psame  - additionally the lock-protected fields of notes (lock, disconnecting, waiters, parent, children);
   ext    - what EVERY step guarantees (flags only get set, creation data is immutable, expiry changes only in
            nsync_note_new's comparison with the parent, other threads' control state is untouched). *)
Definition tsame (a b : tstate) : Prop := stack a = stack b /\ prog a = prog b /\ hist a = hist b /\ sb a = sb b.
Definition gmono (g g' : ghost) : Prop :=
  freed g' = freed g /\ incl (notify_called g) (notify_called g') /\ incl (seen g) (seen g').
Record tonly (t : nat) (w w' : world) : Prop := mk_tonly {
  to_notes : notes w' = notes w; to_next : nnext w' = nnext w; to_clock : clock w' = clock w; to_nthr : nthr w' = nthr w;
  to_thr : forall t', t' <> t -> tsame (thr w' t') (thr w t');
  to_gh : gmono (gh w) (gh w') }.
Lemma tsame_refl a : tsame a a. Proof. repeat split. Qed.
Lemma tsame_trans a b c : tsame a b -> tsame b c -> tsame a c.
Proof. intros (?&?&?&?) (?&?&?&?). repeat split; congruence. Qed.
Lemma gmono_refl g : gmono g g. Proof. repeat split; apply incl_refl. Qed.
Lemma gmono_trans a b c : gmono a b -> gmono b c -> gmono a c.
Proof. intros (?&?&?) (?&?&?). repeat split; try congruence; eapply incl_tran; eauto. Qed.
Lemma tonly_refl t w : tonly t w w.
Proof. split; auto using tsame_refl, gmono_refl. Qed.
Lemma tonly_setst t w st : tonly t w (setst w t st).
Proof.
  split; try reflexivity; [|apply gmono_refl].
  intros t' H. norm. rewrite fupd_other by auto. apply tsame_refl.
Qed.
Lemma tonly_finish t w o r : tonly t w (finish w t o r).
Proof.
  unfold finish.
  assert (forall g, gmono (gh w) g -> tonly t w (set_gh (set_thr w t (mk_t [] (prog (get w t)) ((o, r) :: hist (get w t)) (tw (get w t)) (sem (get w t)) false)) g)) as X.
  { intros g Hg. split; try reflexivity; [|exact Hg]. intros t' H. norm. rewrite fupd_other by auto. apply tsame_refl. }
  assert (forall n b, gmono (gh w) (g_observe (gh w) t n b (sb (get w t)))) as Y.
  { intros n b. unfold g_observe. repeat split; cbn; try apply incl_refl. destruct b; [apply incl_tl|]; apply incl_refl. }
  destruct o; destruct r; try (apply X; apply Y); split; try reflexivity; try apply gmono_refl;
    intros t' H; norm; rewrite fupd_other by auto; apply tsame_refl.
Qed.
Lemma tonly_set_tw t w v st : tonly t w (setst (set_tw w t v) t st).
Proof.
  split; try reflexivity; [|apply gmono_refl].
  intros t' H. norm. rewrite !fupd_other by auto. apply tsame_refl.
Qed.
Lemma tonly_ret_D t w rest v : tonly t w (ret_D w t rest v).
Proof. unfold ret_D. split_match; auto using tonly_refl, tonly_setst, tonly_finish, tonly_set_tw. Qed.
Lemma tonly_ret_N t w rest : tonly t w (ret_N w t rest).
Proof. unfold ret_N. split_match; auto using tonly_refl, tonly_ret_D, tonly_finish. Qed.
Lemma tonly_ret_C t w rest : tonly t w (ret_C w t rest).
Proof. unfold ret_C. split_match; auto using tonly_refl, tonly_setst. Qed.

Definition nprot (x y : note) : Prop :=
  alive x = alive y /\ expiry x = expiry y /\ flag x = flag y /\ cdl x = cdl y /\ cpar x = cpar y /\ cinh x = cinh y /\ cpz x = cpz y.
Record psame (t : nat) (w w' : world) : Prop := mk_psame {
  ps_notes : forall m, nprot (nt w' m) (nt w m);
  ps_next : nnext w' = nnext w; ps_clock : clock w' = clock w; ps_nthr : nthr w' = nthr w;
  ps_thr : forall t', t' <> t -> tsame (thr w' t') (thr w t');
  ps_gh : gmono (gh w) (gh w') }.
Lemma nprot_refl x : nprot x x. Proof. repeat split. Qed.
Lemma nprot_trans x y z : nprot x y -> nprot y z -> nprot x z.
Proof. unfold nprot. intuition congruence. Qed.
Lemma psame_refl t w : psame t w w.
Proof. split; auto using nprot_refl, tsame_refl, gmono_refl. Qed.
Lemma psame_trans t w1 w2 w3 : psame t w1 w2 -> psame t w2 w3 -> psame t w1 w3.
Proof.
  intros [a1 a2 a3 a4 a5 a6] [b1 b2 b3 b4 b5 b6]. split; try congruence.
  - intros m. eapply nprot_trans; eauto.
  - intros t' H. eapply tsame_trans; eauto.
  - eapply gmono_trans; eauto.
Qed.
Lemma tonly_psame t w w' : tonly t w w' -> psame t w w'.
Proof. intros [a1 a2 a3 a4 a5 a6]. split; auto. intros m. unfold nt. rewrite a1. apply nprot_refl. Qed.
Lemma psame_set_note t w n y : nprot y (nt w n) -> psame t w (set_note w n y).
Proof.
  intros H. split; try reflexivity; auto using tsame_refl, gmono_refl.
  intros m. unfold nt, set_note. cbn. unfold fupd. destruct (Nat.eqb_spec m n); subst; auto using nprot_refl.
Qed.
Ltac nprot_tac := unfold nprot; cbn; repeat split; reflexivity.
Lemma psame_acquire t w t' n : psame t w (acquire w t' n).
Proof. apply psame_set_note. nprot_tac. Qed.
Lemma psame_release t w n : psame t w (release w n).
Proof. apply psame_set_note. nprot_tac. Qed.
Lemma psame_set_disc t w n v : psame t w (set_note w n (set_disc (nt w n) v)).
Proof. apply psame_set_note. nprot_tac. Qed.
Lemma psame_set_waiters t w n v : psame t w (set_note w n (set_waiters (nt w n) v)).
Proof. apply psame_set_note. nprot_tac. Qed.
Lemma psame_set_parent t w n v : psame t w (set_note w n (set_parent (nt w n) v)).
Proof. apply psame_set_note. nprot_tac. Qed.
Lemma psame_set_children t w n v : psame t w (set_note w n (set_children (nt w n) v)).
Proof. apply psame_set_note. nprot_tac. Qed.
Lemma psame_set_adoptions t w n v : psame t w (set_note w n (set_adoptions (nt w n) v)).
Proof. apply psame_set_note. nprot_tac. Qed.
Lemma psame_set_tw t w o v : psame t w (set_tw w o v).
Proof.
  split; try reflexivity; auto using nprot_refl, gmono_refl.
  intros t' _. unfold set_tw, set_thr, get. cbn. unfold fupd. destruct (Nat.eqb_spec t' o); subst; repeat split.
Qed.
Lemma psame_set_sem t w o v : psame t w (set_sem w o v).
Proof.
  split; try reflexivity; auto using nprot_refl, gmono_refl.
  intros t' _. unfold set_sem, set_thr, get. cbn. unfold fupd. destruct (Nat.eqb_spec t' o); subst; repeat split.
Qed.
Lemma psame_crashed t w : psame t w (set_gh w (g_set_crashed (gh w))).
Proof. split; try reflexivity; auto using nprot_refl, tsame_refl. repeat split; apply incl_refl. Qed.
Lemma psame_setst t w st : psame t w (setst w t st). Proof. apply tonly_psame, tonly_setst. Qed.
Lemma psame_ret_C t w rest : psame t w (ret_C w t rest). Proof. apply tonly_psame, tonly_ret_C. Qed.
Lemma psame_ret_D t w rest v : psame t w (ret_D w t rest v). Proof. apply tonly_psame, tonly_ret_D. Qed.
Lemma psame_ret_N t w rest : psame t w (ret_N w t rest). Proof. apply tonly_psame, tonly_ret_N. Qed.
Lemma psame_finish t w o r : psame t w (finish w t o r). Proof. apply tonly_psame, tonly_finish. Qed.
(* peel the layers of an update term: psame t w (f (g (h w))) *)
Ltac ps_layer t w w' :=
  match w' with
  | setst ?a _ _ => apply (psame_trans t w a); [| apply psame_setst]
  | ret_C ?a _ _ => apply (psame_trans t w a); [| apply psame_ret_C]
  | ret_D ?a _ _ _ => apply (psame_trans t w a); [| apply psame_ret_D]
  | ret_N ?a _ _ => apply (psame_trans t w a); [| apply psame_ret_N]
  | finish ?a _ _ _ => apply (psame_trans t w a); [| apply psame_finish]
  | acquire ?a _ _ => apply (psame_trans t w a); [| apply psame_acquire]
  | release ?a _ => apply (psame_trans t w a); [| apply psame_release]
  | set_tw ?a _ _ => apply (psame_trans t w a); [| apply psame_set_tw]
  | set_sem ?a _ _ => apply (psame_trans t w a); [| apply psame_set_sem]
  | set_gh ?a (g_set_crashed (gh ?a)) => apply (psame_trans t w a); [| apply psame_crashed]
  | set_note ?a ?n (set_disc (nt ?a ?n) _) => apply (psame_trans t w a); [| apply psame_set_disc]
  | set_note ?a ?n (set_waiters (nt ?a ?n) _) => apply (psame_trans t w a); [| apply psame_set_waiters]
  | set_note ?a ?n (set_parent (nt ?a ?n) _) => apply (psame_trans t w a); [| apply psame_set_parent]
  | set_note ?a ?n (set_children (nt ?a ?n) _) => apply (psame_trans t w a); [| apply psame_set_children]
  | set_note ?a ?n (set_adoptions (nt ?a ?n) _) => apply (psame_trans t w a); [| apply psame_set_adoptions]
  end.
Ltac ps_chain :=
  repeat first [ apply psame_refl | match goal with |- psame ?t ?w ?w' => ps_layer t w w' end ].
Lemma psame_c_finish t w n par rest : psame t w (c_finish w t n par rest).
Proof. unfold c_finish. destruct par; cbv zeta; ps_chain. Qed.
Lemma psame_c_wait t w n par rest : psame t w (c_wait w t n par rest).
Proof. unfold c_wait. destruct (no_children w n); [apply psame_c_finish | ps_chain]. Qed.
Lemma psame_c_loop t w n par rest p : psame t w (c_loop w t n par rest p).
Proof. unfold c_loop. destruct p; [ps_chain | apply psame_c_wait]. Qed.
Lemma psame_c_wloop t w n par rest : psame t w (c_wloop w t n par rest).
Proof. unfold c_wloop. destruct (waiters (nt w n)); [apply psame_c_loop | ps_chain]. Qed.
Lemma psame_f_post t w n par rest : psame t w (f_post w t n par rest).
Proof. unfold f_post. destruct par; cbv zeta; ps_chain. Qed.
Lemma psame_f_wait t w n par rest : psame t w (f_wait w t n par rest).
Proof. unfold f_wait. destruct (no_children w n); [apply psame_f_post | ps_chain]. Qed.
Lemma psame_f_loop t w n par rest p : psame t w (f_loop w t n par rest p).
Proof. unfold f_loop. destruct p; [ps_chain | apply psame_f_wait]. Qed.
Lemma psame_adopt t w n c par : psame t w (adopt w n c par).
Proof. unfold adopt. destruct par; cbv zeta; ps_chain. Qed.
Lemma psame_f_enter t w n rest : psame t w (f_enter w t n rest).
Proof.
  unfold f_enter. cbv zeta.
  set (w2 := set_note w n (set_disc (nt w n) (S (disc (nt w n))))).
  assert (psame t w w2) as H2 by (unfold w2; ps_chain).
  set (w3 := match waiters (nt w2 n) with [] => w2 | _ :: _ => set_gh w2 (g_set_crashed (gh w2)) end).
  assert (psame t w w3) as H3.
  { unfold w3. destruct (waiters (nt w2 n)); [exact H2|]. eapply psame_trans; [exact H2|apply psame_crashed]. }
  destruct (parent (nt w3 n)).
  - eapply psame_trans; [exact H3|apply psame_setst].
  - eapply psame_trans; [exact H3|apply psame_f_loop].
Qed.
Ltac ps_layer2 t w w' :=
  match w' with
  | c_finish ?a _ _ _ _ => apply (psame_trans t w a); [| apply psame_c_finish]
  | c_wait ?a _ _ _ _ => apply (psame_trans t w a); [| apply psame_c_wait]
  | c_loop ?a _ _ _ _ _ => apply (psame_trans t w a); [| apply psame_c_loop]
  | c_wloop ?a _ _ _ _ => apply (psame_trans t w a); [| apply psame_c_wloop]
  | f_post ?a _ _ _ _ => apply (psame_trans t w a); [| apply psame_f_post]
  | f_wait ?a _ _ _ _ => apply (psame_trans t w a); [| apply psame_f_wait]
  | f_loop ?a _ _ _ _ _ => apply (psame_trans t w a); [| apply psame_f_loop]
  | f_enter ?a _ _ _ => apply (psame_trans t w a); [| apply psame_f_enter]
  | adopt ?a _ _ _ => apply (psame_trans t w a); [| apply psame_adopt]
  | (if ?b then _ else _) => destruct b
  | _ => ps_layer t w w'
  end.
Ltac ps_chain2 :=
  repeat first [ apply psame_refl | match goal with |- psame ?t ?w ?w' => ps_layer2 t w w' end ].

Record ext (t : nat) (w w' : world) : Prop := mk_ext {
  x_next : (nnext w <= nnext w')%nat;
  x_clock : clock w <= clock w';
  x_flag : forall m, (m < nnext w)%nat -> flag (nt w m) <> 0 -> flag (nt w' m) <> 0;
  x_imm : forall m, (m < nnext w)%nat -> cdl (nt w' m) = cdl (nt w m) /\ cpar (nt w' m) = cpar (nt w m);
  x_exp : forall m, (m < nnext w)%nat -> expiry (nt w' m) = expiry (nt w m) \/
                    exists par dl p e rest, stk w t = ANew par dl (W3 m p e) :: rest /\ tlt (expiry (nt w' m)) dl = true /\
                                          expiry (nt w' m) = notified_time w p (flag (nt w p));
  x_thr : forall t', t' <> t -> tsame (thr w' t') (thr w t');
  x_seen : incl (seen (gh w)) (seen (gh w'));
  x_called : incl (notify_called (gh w)) (notify_called (gh w'));
  x_freed : incl (freed (gh w)) (freed (gh w')) }.
Lemma psame_ext t w w' : psame t w w' -> ext t w w'.
Proof.
  intros [a1 a2 a3 a4 a5 (b1&b2&b3)].
  split; rewrite ?a2, ?a3, ?b1; auto using incl_refl; try lia.
  - intros m _. destruct (a1 m) as (_&_&E&_). rewrite E. auto.
  - intros m _. destruct (a1 m) as (_&_&_&E1&E2&_). auto.
  - intros m _. destruct (a1 m) as (_&E&_). auto.
Qed.
Lemma ext_trans_psame t w1 w2 w3 : ext t w1 w2 -> psame t w2 w3 -> ext t w1 w3.
Proof.
  intros [a1 a2 a3 a4 a5 a6 a7 a8 a9] [b1 b2 b3 b4 b5 (c1&c2&c3)].
  split; rewrite ?b2, ?b3, ?c1; auto.
  - intros m H. destruct (b1 m) as (_&_&E&_). rewrite E. auto.
  - intros m H. destruct (b1 m) as (_&_&_&E1&E2&_). rewrite E1, E2. auto.
  - intros m H. destruct (b1 m) as (_&E&_). rewrite E. auto.
  - intros t' H. eapply tsame_trans; eauto.
  - eapply incl_tran; eauto.
  - eapply incl_tran; eauto.
Qed.
Lemma ext_flag t w n : ext t w (set_note w n (set_flag (nt w n) note_notify_child_store1_new)).
Proof.
  rewrite c_store1. split; cbn; auto using incl_refl, tsame_refl; try lia.
  - intros m _. fupd_cases; cbn; auto. discriminate.
  - intros m _. fupd_cases; cbn; auto.
  - intros m _. left. fupd_cases; cbn; auto.
Qed.
Lemma ext_new t w x : ext t w (mk_w (fupd (notes w) (nnext w) x) (S (nnext w)) (clock w) (thr w) (nthr w) (gh w)).
Proof.
  split; cbn; auto using incl_refl, tsame_refl; try lia.
  - intros m H. fupd_cases; cbn; auto. lia.
  - intros m H. fupd_cases; cbn; auto. lia.
  - intros m H. left. fupd_cases; cbn; auto. lia.
Qed.
Lemma ext_free t w n : ext t w (set_gh (set_note w n (set_alive (nt w n) false)) (g_add_freed (gh (set_note w n (set_alive (nt w n) false))) n)).
Proof.
  split; cbn; auto using incl_refl, tsame_refl, incl_tl; try lia.
  - intros m _. fupd_cases; cbn; auto.
  - intros m _. fupd_cases; cbn; auto.
  - intros m _. left. fupd_cases; cbn; auto.
Qed.
Ltac ext_chain :=
  repeat match goal with
         | |- ext ?t ?w ?w' =>
           first [ apply psame_ext; solve [ps_chain2]
                 | apply ext_flag | apply ext_new | apply ext_free
                 | match w' with
                   | setst ?a _ _ => apply (ext_trans_psame t w a); [| apply psame_setst]
                   | finish ?a _ _ _ => apply (ext_trans_psame t w a); [| apply psame_finish]
                   | c_wloop ?a _ _ _ _ => apply (ext_trans_psame t w a); [| apply psame_c_wloop]
                   | set_note ?a ?n (set_parent (nt ?a ?n) _) => apply (ext_trans_psame t w a); [| apply psame_set_parent]
                   | set_note ?a ?n (set_children (nt ?a ?n) _) => apply (ext_trans_psame t w a); [| apply psame_set_children]
                   end ]
         end.
Lemma ext_w3 t w par dl n p e rest z pt :
  stk w t = ANew par dl (W3 n p e) :: rest -> pt = notified_time w p (flag (nt w p)) ->
  let w1 := set_note w n (set_cinh (nt w n) true z) in
  ext t w (if tlt pt dl then set_note w1 n (set_expiry (nt w1 n) pt) else w1).
Proof.
  intros Hst Hpt w1. destruct (tlt pt dl) eqn:E.
  - split; cbn; auto using incl_refl, tsame_refl; try lia.
    + intros m _. fupd_cases; cbn; auto.
    + intros m _. fupd_cases; cbn; auto.
    + intros m _. fupd_cases; cbn; auto; try congruence. right. exists par, dl, p, e, rest. auto.
  - split; cbn; auto using incl_refl, tsame_refl; try lia.
    + intros m _. fupd_cases; cbn; auto.
    + intros m _. fupd_cases; cbn; auto.
    + intros m _. left. fupd_cases; cbn; auto.
Qed.

Lemma step1_ext w t c : ext t w (fst (step1 w t c)).
Proof.
  unfold step1, get.
  destruct (stack (thr w t)) as [|f rest] eqn:Hst; [apply psame_ext, psame_refl|].
  destruct f.
  - (* FD *) unfold step_D. destruct s; split_match; cbn [fst]; ext_chain.
  - (* FN *) unfold step_N. destruct s; split_match; cbn [fst]; ext_chain.
  - (* FC *) unfold step_C. destruct s; split_match; cbn [fst]; ext_chain.
  - (* FF *) unfold step_F. destruct s; split_match; cbn [fst]; ext_chain.
  - apply psame_ext, psame_refl.
  - apply psame_ext, psame_refl.
  - (* ANew *) unfold step_New. destruct s; cbv zeta.
    1,2,3,5: split_match; cbn [fst]; ext_chain.
    cbn [fst].
    match goal with |- ext _ _ (setst ?a _ _) => apply (ext_trans_psame t w a); [| apply psame_setst] end.
    match goal with |- ext _ _ (if ?b then _ else ?a) => apply (ext_trans_psame t w a); [| destruct b; ps_chain2] end.
    eapply ext_w3; [exact Hst | reflexivity].
  - (* AWait *) unfold step_Wait. destruct s; split_match; cbn [fst]; ext_chain.
  - cbn [fst]. ext_chain.
Qed.
(* ---------- begin_call and tick as extensions ---------- *)
Lemma tonly_begin t w : tonly t w (begin_call w t).
Proof.
  unfold begin_call.
  destruct (stack (get w t)); [|apply tonly_refl].
  destruct (prog (get w t)) as [|o rest]; [apply tonly_refl|].
  assert (forall s g, gmono (gh w) g -> tonly t w (set_gh (set_thr w t s) g)) as X.
  { intros s g Hg. split; try reflexivity; [|exact Hg]. intros t' H. norm. rewrite fupd_other by auto. apply tsame_refl. }
  assert (forall s, tonly t w (set_thr w t s)) as Y.
  { intros s. split; try reflexivity; [|apply gmono_refl]. intros t' H. norm. rewrite fupd_other by auto. apply tsame_refl. }
  destruct (op_note o) as [n|].
  - destruct (Nat.ltb n (nnext w)); [|apply Y].
    apply X. destruct (contract_ok w t o); destruct o; repeat split; cbn; auto using incl_refl, incl_tl.
  - destruct o; auto using tonly_refl.
Qed.
Lemma ext_tick t w d : ext t w (tick w d).
Proof.
  split; cbn; auto using incl_refl, tsame_refl; try lia.
Qed.

(* ---------- creation paths ---------- *)
Definition cpar_lt (w : world) : Prop := forall m p, (m < nnext w)%nat -> cpar (nt w m) = Some p -> (p < m)%nat.
Lemma cpath_le w n a : cpar_lt w -> (n < nnext w)%nat -> cpath w n a -> (a <= n)%nat.
Proof.
  intros HL Hn H. induction H; [lia|].
  specialize (HL _ _ Hn H). assert (p < nnext w)%nat by lia. specialize (IHcpath H1). lia.
Qed.
Lemma cpath_trans w a b c : cpath w a b -> cpath w b c -> cpath w a c.
Proof. induction 1; auto. intros. econstructor; eauto. Qed.
Lemma cpath_ext t w w' n a : ext t w w' -> cpar_lt w -> (n < nnext w)%nat -> cpath w n a -> cpath w' n a.
Proof.
  intros E HL Hn H. induction H; [constructor|].
  pose proof (HL _ _ Hn H).
  econstructor.
  - destruct (x_imm _ _ _ E n Hn) as [_ E2]. rewrite E2. exact H.
  - apply IHcpath. lia.
Qed.
Lemma cause_ext t w w' n : ext t w w' -> cpar_lt w -> (n < nnext w)%nat -> cause w n -> cause w' n.
Proof.
  intros E HL Hn (a & Hp & Hc). exists a. split; [eapply cpath_ext; eauto|].
  pose proof (cpath_le _ _ _ HL Hn Hp).
  destruct Hc as [Hc|(d & Hd & Hle)].
  - left. eapply x_called; eauto.
  - right. exists d. destruct (x_imm _ _ _ E a) as [E1 _]; [lia|]. rewrite E1. split; auto.
    pose proof (x_clock _ _ _ E). lia.
Qed.
Lemma cause_up w c n : cpath w c n -> cause w n -> cause w c.
Proof. intros H (a & Hp & Hc). exists a. split; auto. eapply cpath_trans; eauto. Qed.

(* ------------------------------------------------------------------------------------------------ *)
(* The "local" invariant: everything that does not depend on the locking discipline *)
Definition uc_of (f : frame) : option nat :=
  match f with ANew _ _ (WD n) | ANew _ _ (W2 n _ _) | ANew _ _ (W3 n _ _) | ANew _ _ (W4 n _) => Some n | _ => None end.
Definition past_c2 (s : cst) : bool := match s with C1 | C2 => false | _ => true end.
Definition nx_ok (w : world) (n : nat) (nx : option nat) : Prop := forall c', nx = Some c' -> (c' < nnext w)%nat /\ cpath w c' n.
Definition child_ok (w : world) (n c : nat) (nx : option nat) : Prop := (c < nnext w)%nat /\ cpath w c n /\ nx_ok w n nx.
Definition exp_cause (w : world) (n : nat) (x : time) : Prop :=
  forall e, x = Some e -> 0 < e -> exists a, cpath w n a /\ cdl (nt w a) = Some e.

(* where an expiry time comes from: a creation deadline on the creation path, or zero because a creation-time ancestor was
   already notified when the chain of nsync_note_new calls compared with it *)
Definition exp_src (w : world) (m : nat) (e : Z) : Prop :=
  (exists a, cpath w m a /\ cdl (nt w a) = Some e) \/ (e = 0 /\ exists q, cpath w m q /\ flag (nt w q) <> 0).

Definition fok (w : world) (t : nat) (f : frame) : Prop :=
  match f with
  | FD n s => (n < nnext w)%nat /\
      match s with
      | D4 x => (tpos x = false -> obs_notified w n) /\ (sb (thr w t) = true -> tpos x = false) /\ exp_cause w n x
      | D5 x => tpos x = true /\ sb (thr w t) = false /\ exp_cause w n x
      | _ => True
      end
  | FN n s par inc => (n < nnext w)%nat /\ cause w n /\ ((s = N10 \/ s = N11) -> obs_notified w n) /\
      (forall p, par = Some p -> (p < nnext w)%nat /\ cpath w n p)
  | FC n par s => (n < nnext w)%nat /\ cause w n /\ (past_c2 s = true -> flag (nt w n) <> 0) /\
      match s with C5 c nx | CR c nx | C6 c nx _ => child_ok w n c nx | _ => True end
  | FF n s par => (n < nnext w)%nat /\ (forall p, par = Some p -> (p < nnext w)%nat /\ cpath w n p) /\
      match s with F6 c nx | F7 c nx | FR c nx | F8 c nx _ => child_ok w n c nx | _ => True end
  | AIs n => (n < nnext w)%nat /\ (sb (thr w t) = true -> obs_notified w n)
  | ANotify n => (n < nnext w)%nat /\ In n (notify_called (gh w)) /\ sb (thr w t) = false
  | ANew par dl s => (forall p, par = Some p -> (p < nnext w)%nat) /\ sb (thr w t) = false /\
      match s with
      | W1 => True
      | WD n => (n < nnext w)%nat /\ expiry (nt w n) = dl /\ cdl (nt w n) = dl /\ cpar (nt w n) = par
      | W2 n p _ | W3 n p _ => (n < nnext w)%nat /\ expiry (nt w n) = dl /\ cdl (nt w n) = dl /\ cpar (nt w n) = par /\ par = Some p
      | W4 n p => (n < nnext w)%nat /\ par = Some p
      end
  | AWait n dl s => (n < nnext w)%nat /\ (sb (thr w t) = true -> obs_notified w n /\ s = WReady) /\ (s = Q4 false -> obs_notified w n)
  | AExp n => (n < nnext w)%nat
  end.

Record InvA (w : world) : Prop := mk_InvA {
  ia_shape : forall t, shape (stk w t);
  ia_fok : forall t f, In f (stk w t) -> fok w t f;
  ia_uc : forall t t' f f' n, In f (stk w t) -> In f' (stk w t') -> uc_of f = Some n -> uc_of f' = Some n -> t = t';
  ia_lt : cpar_lt w;
  ia_flag : forall m, (m < nnext w)%nat -> flag (nt w m) <> 0 -> cause w m;
  ia_exp : forall m e, (m < nnext w)%nat -> expiry (nt w m) = Some e -> exp_src w m e;
  ia_clock : 0 <= clock w;
  ia_par : forall m p, (m < nnext w)%nat -> parent (nt w m) = Some p -> (p < nnext w)%nat /\ cpath w m p;
  ia_chl : forall m c, (m < nnext w)%nat -> In c (children (nt w m)) -> (c < nnext w)%nat /\ cpath w c m;
  ia_seen : forall n, In n (seen (gh w)) -> (n < nnext w)%nat /\ obs_notified w n;
  ia_mb : mono_bad (gh w) = false }.

Lemma exp_src_ext t w w' m e : cpar_lt w -> ext t w w' -> (m < nnext w)%nat -> exp_src w m e -> exp_src w' m e.
Proof.
  intros Hlt E Hm [(a & Ha & Hd)|(-> & q & Hq & Hf)].
  - left. exists a. split; [eapply cpath_ext; eauto|]. pose proof (cpath_le _ _ _ Hlt Hm Ha).
    destruct (x_imm _ _ _ E a) as [E1 _]; [lia|]. congruence.
  - right. split; auto. exists q. split; [eapply cpath_ext; eauto|]. pose proof (cpath_le _ _ _ Hlt Hm Hq).
    eapply x_flag; eauto. lia.
Qed.
Lemma exp_src_up w m p e : cpath w m p -> exp_src w p e -> exp_src w m e.
Proof.
  intros H [(a & Ha & Hd)|(-> & q & Hq & Hf)].
  - left. exists a. split; [eapply cpath_trans; eauto|exact Hd].
  - right. split; auto. exists q. split; [eapply cpath_trans; eauto|exact Hf].
Qed.

(* obs_notified is stable: the only step that changes an expiry lowers it (nsync_note_new's comparison with the parent) *)
Lemma obs_ext t w w' n : InvA w -> ext t w w' -> (n < nnext w)%nat -> obs_notified w n -> obs_notified w' n.
Proof.
  intros I E Hn [H|H]; [left; eapply x_flag; eauto|].
  destruct (x_exp _ _ _ E n Hn) as [Eq|(par & dl & p & e & rest & Hst & Hlt & _)].
  - right. rewrite Eq. exact H.
  - right. assert (fok w t (ANew par dl (W3 n p e))) as F by (apply (ia_fok _ I); rewrite Hst; left; reflexivity).
    destruct F as (_ & _ & _ & Ex & _). rewrite Ex in H. eapply tlt_tpos; eauto.
Qed.

Lemma nx_ok_ext t w w' n nx : InvA w -> ext t w w' -> nx_ok w n nx -> nx_ok w' n nx.
Proof.
  intros I E H c' Hc. destruct (H c' Hc) as [H1 H2]. split; [pose proof (x_next _ _ _ E); lia|].
  eapply cpath_ext; eauto using ia_lt.
Qed.
Lemma child_ok_ext t w w' n c nx : InvA w -> ext t w w' -> child_ok w n c nx -> child_ok w' n c nx.
Proof.
  intros I E (H1 & H2 & H3). split; [pose proof (x_next _ _ _ E); lia|]. split; [eapply cpath_ext; eauto using ia_lt|].
  eapply nx_ok_ext; eauto.
Qed.
Lemma exp_cause_ext t w w' n x : InvA w -> ext t w w' -> (n < nnext w)%nat -> exp_cause w n x -> exp_cause w' n x.
Proof.
  intros I E Hn H e He Hpos. destruct (H e He Hpos) as (a & Hp & Hd). exists a.
  split; [eapply cpath_ext; eauto using ia_lt|].
  pose proof (cpath_le _ _ _ (ia_lt _ I) Hn Hp).
  destruct (x_imm _ _ _ E a) as [E1 _]; [lia|]. congruence.
Qed.

(* a frame's facts survive any step of the system, provided its own thread's sb is unchanged and -- for a frame of
   nsync_note_new -- the step is not that thread's own comparison with the parent *)
Lemma fok_ext t0 w w' t f :
  InvA w -> ext t0 w w' -> In f (stk w t) -> sb (thr w' t) = sb (thr w t) ->
  (t = t0 -> forall par dl n p e rest, stk w t <> ANew par dl (W3 n p e) :: rest) ->
  fok w t f -> fok w' t f.
Proof.
  intros I E Hin Hsb Hnw3 F.
  pose proof (x_next _ _ _ E) as Hnx.
  assert (forall n, (n < nnext w)%nat -> (n < nnext w')%nat) as LT by (intros; lia).
  destruct f; cbn [fok] in *.
  - (* FD *) destruct F as [Hn F]. split; [auto|]. destruct s; auto.
    + destruct F as (F1 & F2 & F3). rewrite Hsb. repeat split; eauto using obs_ext, exp_cause_ext.
    + destruct F as (F1 & F2 & F3). rewrite Hsb. repeat split; eauto using exp_cause_ext.
  - destruct F as (Hn & F1 & F2 & F3). repeat split; eauto using cause_ext, ia_lt, obs_ext.
    + destruct (F3 _ H); auto.
    + destruct (F3 _ H). eapply cpath_ext; eauto using ia_lt.
  - destruct F as (Hn & F1 & F2 & F3). repeat split; eauto using cause_ext, ia_lt.
    + intros H. eapply x_flag; eauto.
    + destruct s; eauto using child_ok_ext.
  - destruct F as (Hn & F1 & F2). repeat split; auto.
    + destruct (F1 _ H); auto.
    + destruct (F1 _ H). eapply cpath_ext; eauto using ia_lt.
    + destruct s; eauto using child_ok_ext.
  - destruct F as (Hn & F1). rewrite Hsb. split; eauto using obs_ext.
  - destruct F as (Hn & F1 & F2). rewrite Hsb. repeat split; auto. eapply x_called; eauto.
  - (* ANew *) destruct F as (F0 & Fsb & F). split; [intros p Hp; auto|]. rewrite Hsb. split; [exact Fsb|].
    assert (forall n, (n < nnext w)%nat -> uc_of (ANew par dl s) = Some n -> (forall p e, s <> W3 n p e \/ t <> t0) ->
                      expiry (nt w' n) = expiry (nt w n)) as EX.
    { intros n Hn Huc Hs. destruct (x_exp _ _ _ E n Hn) as [Eq|(par' & dl' & p' & e' & rest' & Hst' & _)]; [exact Eq|].
      exfalso.
      assert (t = t0).
      { eapply (ia_uc _ I t t0 (ANew par dl s) (ANew par' dl' (W3 n p' e')) n); eauto. rewrite Hst'. left; reflexivity. }
      subst t0. destruct (Hs p' e') as [Hs'|Hs']; [|congruence].
      (* the ANew frame is the bottom frame of the stack; the top of the stack is an ANew frame at W3: same frame *)
      pose proof (ia_shape _ I t) as Sh. rewrite Hst' in Sh, Hin.
      destruct rest'; [|cbn in Sh; tauto].
      destruct Hin as [Hin|[]]. inversion Hin; subst. congruence. }
    destruct s; auto.
    + destruct F as (Hn & F1 & F2 & F3). destruct (x_imm _ _ _ E n Hn) as [E1 E2].
      rewrite E1, E2, (EX n Hn eq_refl); [auto|]. intros p e'. left. discriminate.
    + destruct F as (Hn & F1 & F2 & F3 & F4). destruct (x_imm _ _ _ E n Hn) as [E1 E2].
      rewrite E1, E2, (EX n Hn eq_refl); [auto|]. intros p' e'. left. discriminate.
    + destruct F as (Hn & F1 & F2 & F3 & F4). destruct (x_imm _ _ _ E n Hn) as [E1 E2].
      rewrite E1, E2, (EX n Hn eq_refl); [auto|]. intros p' e'.
      destruct (Nat.eq_dec t t0); [|auto]. subst t0. exfalso.
      pose proof (ia_shape _ I t) as Sh.
      (* ANew .. (W3 n p) is in the stack, ANew frames are bottom frames; if it is not the top, the top is a callee: impossible for W3 *)
      destruct (stk w t) as [|g r] eqn:Hst; [destruct Hin|].
      destruct Hin as [Hin|Hin].
      * subst g. eapply Hnw3; eauto.
      * (* in the tail: then something is linked above an ANew frame at W3 *)
        clear - Sh Hin. revert g Sh Hin. induction r as [|h r IH]; intros g Sh Hin; [destruct Hin|].
        destruct Hin as [Hin|Hin].
        -- subst h. cbn in Sh. destruct Sh as [L _]. destruct g; cbn in L; try contradiction; destruct s; contradiction.
        -- cbn in Sh. destruct Sh as [_ Sh]. eapply IH; eauto.
    + destruct F as (Hn & F1). auto.
  - destruct F as (Hn & F1 & F2). rewrite Hsb. repeat split; eauto using obs_ext.
    + destruct (F1 H); eauto using obs_ext.
    + destruct (F1 H); auto.
  - auto.
Qed.

(* ------------------------------------------------------------------------------------------------ *)
(* Summaries of what a step can do to the tree, the flags and the allocation counter *)
Ltac unfold_helpers := unfold c_wloop, c_loop, c_wait, c_finish, f_enter, f_loop, f_wait, f_post, adopt; cbv zeta.
Ltac destruct_stage :=
  try match goal with
      | s : dst |- _ => destruct s
      | s : nst |- _ => destruct s
      | s : cst |- _ => destruct s
      | s : fstg |- _ => destruct s
      | s : newst |- _ => destruct s
      | s : wst |- _ => destruct s
      end.
Ltac leaves :=
  unfold step1, get;
  match goal with |- context [stack (thr ?w ?t)] => let Hst := fresh "Hst" in destruct (stack (thr w t)) as [|? ?] eqn:Hst end;
  [| match goal with H : stack _ = ?f :: _ |- _ => destruct f end;
     [ unfold step_D | unfold step_N | unfold step_C | unfold step_F | | | unfold step_New | unfold step_Wait | ];
     destruct_stage; unfold_helpers; split_match; cbn [fst] ].

Definition top (w : world) (t : nat) : option frame := hd_error (stk w t).

Lemma notes_finish w t o r : notes (finish w t o r) = notes w. Proof. apply (to_notes _ _ _ (tonly_finish t w o r)). Qed.
Lemma notes_ret_C w t r : notes (ret_C w t r) = notes w. Proof. apply (to_notes _ _ _ (tonly_ret_C t w r)). Qed.
Lemma notes_ret_D w t r v : notes (ret_D w t r v) = notes w. Proof. apply (to_notes _ _ _ (tonly_ret_D t w r v)). Qed.
Lemma notes_ret_N w t r : notes (ret_N w t r) = notes w. Proof. apply (to_notes _ _ _ (tonly_ret_N t w r)). Qed.
Ltac nsimpl1 :=
  unfold nt;
  rewrite ?notes_finish, ?notes_ret_C, ?notes_ret_D, ?notes_ret_N;
  cbn [fst snd get setst set_thr set_tw set_sem set_note set_gh acquire release notes nnext clock thr gh nthr].
Ltac nsimpl :=
  repeat (progress nsimpl1);
  unfold fupd;
  repeat match goal with |- context [Nat.eqb ?a ?b] => destruct (Nat.eqb_spec a b); subst; try congruence end;
  cbn [alive expiry flag parent children waiters disc lock adoptions cdl cpar cinh cpz
       set_alive set_expiry set_flag set_parent set_children set_waiters set_disc set_lock set_cinh set_adoptions].

Lemma step1_parent w t c m p :
  parent (nt (fst (step1 w t c)) m) = Some p ->
  parent (nt w m) = Some p \/ (exists par dl e, top w t = Some (ANew par dl (W3 m p e)))
  \/ (exists n nx, top w t = Some (FF n (F7 m nx) (Some p))).
Proof.
  unfold top, stk. leaves.
  all: nsimpl.
  all: try (intros H; first [discriminate H | left; exact H | congruence]).
  all: intros H; inversion H; subst; cbn [hd_error]; eauto 7.
Qed.
Lemma step1_children w t c m x :
  In x (children (nt (fst (step1 w t c)) m)) ->
  In x (children (nt w m)) \/ (exists par dl e, top w t = Some (ANew par dl (W3 x m e)))
  \/ (exists n nx, top w t = Some (FF n (F7 x nx) (Some m))).
Proof.
  unfold top, stk. leaves.
  all: nsimpl.
  all: try (intros H; first [left; exact H | destruct H | left; eapply remove_nat_incl; exact H]).
  all: try (intros H; apply in_app_or in H; destruct H as [H|[H|[]]]; [left; auto; try (eapply remove_nat_incl; exact H)| subst; cbn [hd_error]; eauto 7]).
Qed.
Lemma step1_flag w t c m :
  flag (nt (fst (step1 w t c)) m) <> 0 ->
  flag (nt w m) <> 0 \/ (exists par, top w t = Some (FC m par C2)) \/ (nnext w <= m)%nat.
Proof.
  unfold top, stk. leaves.
  all: nsimpl.
  all: try (intros H; first [left; exact H | congruence]).
  all: try (intros _; cbn [hd_error]; eauto).
Qed.
(* allocation *)
Lemma step1_nnext w t c :
  nnext (fst (step1 w t c)) = nnext w \/
  exists par dl rest, stk w t = ANew par dl W1 :: rest /\ nnext (fst (step1 w t c)) = S (nnext w) /\
                      nt (fst (step1 w t c)) (nnext w) = mk_note true dl 0 None [] [] O None O dl par false false /\
                      forall m, m <> nnext w -> nt (fst (step1 w t c)) m = nt w m.
Proof.
  unfold stk.
  assert (forall t w r, nnext (ret_C w t r) = nnext w) as RC by (intros; apply (to_next _ _ _ (tonly_ret_C _ _ _))).
  assert (forall t w r v, nnext (ret_D w t r v) = nnext w) as RD by (intros; apply (to_next _ _ _ (tonly_ret_D _ _ _ _))).
  assert (forall t w r, nnext (ret_N w t r) = nnext w) as RN by (intros; apply (to_next _ _ _ (tonly_ret_N _ _ _))).
  assert (forall t w o r, nnext (finish w t o r) = nnext w) as RF by (intros; apply (to_next _ _ _ (tonly_finish _ _ _ _))).
  leaves.
  all: try (left; rewrite ?RC, ?RD, ?RN, ?RF; reflexivity).
  right. do 3 eexists. split; [reflexivity|]. split; [reflexivity|]. split.
  - unfold nt. cbn. apply fupd_same.
  - intros m Hm. unfold nt. cbn. apply fupd_other; auto.
Qed.

(* ------------------------------------------------------------------------------------------------ *)
(* The stepping thread's own stack after a step *)
(* what is below a frame, according to the shape invariant *)
Definition below_D (n : nat) (l : list frame) : Prop :=
  l = [AIs n] \/ l = [ANotify n] \/ (exists dl, l = [AWait n dl WReady]) \/ (exists dl, l = [AWait n dl WLoop]) \/
  (exists dl, l = [AWait n dl WDeq]) \/ (exists par dl, l = [ANew par dl (WD n)]).
Lemma shape_bottom f l : shape (f :: l) -> bottom_ok f -> l = [].
Proof. destruct l as [|g r]; [reflexivity|]. cbn. intros [L _] B. destruct f; cbn in B, L; try contradiction; destruct g; contradiction. Qed.
Lemma shape_FD n s l : shape (FD n s :: l) -> below_D n l.
Proof.
  unfold below_D. destruct l as [|g r]; [cbn; contradiction|]. intros Sh. pose proof (shape_tail _ _ Sh) as Sh2.
  cbn in Sh. destruct Sh as [L _].
  destruct g; cbn in L; try contradiction; try (destruct s0; try contradiction); subst;
    rewrite (shape_bottom _ _ Sh2 I); eauto 10.
Qed.
Definition below_N (n : nat) (l : list frame) : Prop :=
  (exists x l', l = FD n (D5 x) :: l' /\ below_D n l') \/ l = [ANotify n].
Lemma shape_FN n s par inc l : shape (FN n s par inc :: l) -> below_N n l.
Proof.
  unfold below_N. destruct l as [|g r]; [cbn; contradiction|]. intros Sh. pose proof (shape_tail _ _ Sh) as Sh2.
  cbn in Sh. destruct Sh as [L _].
  destruct g; cbn in L; try contradiction; try (destruct s0; try contradiction); subst.
  - left. do 2 eexists. split; [reflexivity|]. eapply shape_FD; eauto.
  - right. rewrite (shape_bottom _ _ Sh2 I). reflexivity.
Qed.
Definition below_C (n : nat) (par : option nat) (l : list frame) : Prop :=
  (exists inc l', l = FN n N9 par inc :: l') \/
  (exists m par' nx l', l = FC m par' (CR n nx) :: l' /\ par = Some m) \/
  (exists m par' nx l', l = FF m (FR n nx) par' :: l' /\ par = Some m).
Lemma shape_FC n par s l : shape (FC n par s :: l) -> below_C n par l.
Proof.
  unfold below_C. destruct l as [|g r]; [cbn; contradiction|]. intros Sh.
  cbn in Sh. destruct Sh as [L _].
  destruct g; cbn in L; try contradiction; try (destruct s0; try contradiction); destruct L; subst; eauto 10.
Qed.
Lemma stk_setst w t st : stk (setst w t st) t = st.
Proof. unfold stk, setst, set_thr, get. cbn. now rewrite fupd_same. Qed.
Lemma stk_finish w t o r : stk (finish w t o r) t = [].
Proof. unfold stk, finish. destruct o, r; cbn; now rewrite fupd_same. Qed.

Ltac destr_ex := repeat match goal with H : exists _, _ |- _ => destruct H end; repeat match goal with H : _ /\ _ |- _ => destruct H end.
Ltac rets Sh :=
  try match goal with
      | |- context [ret_D _ _ ?l _] =>
        let B := fresh "B" in pose proof (shape_FD _ _ _ Sh) as B; unfold below_D in B;
        repeat (destruct B as [B|B]); destr_ex; subst l
      | |- context [ret_N _ _ ?l] =>
        let B := fresh "B" in pose proof (shape_FN _ _ _ _ _ Sh) as B; unfold below_N in B;
        destruct B as [B|B]; destr_ex; subst l;
        [ match goal with B' : below_D _ _ |- _ => unfold below_D in B'; repeat (destruct B' as [B'|B']); destr_ex; subst end | ]
      | |- context [ret_C _ _ ?l] =>
        let B := fresh "B" in pose proof (shape_FC _ _ _ _ Sh) as B; unfold below_C in B;
        repeat (destruct B as [B|B]); destr_ex; subst
      end;
  cbn [ret_D ret_N ret_C] in *; split_match.
(* the frames below an nsync_note_notified_deadline_ frame, when needed without a return *)
Ltac below_d Sh :=
  match type of Sh with
  | shape (FD _ _ :: ?l) =>
    let B := fresh "B" in pose proof (shape_FD _ _ _ Sh) as B; unfold below_D in B;
    repeat (destruct B as [B|B]); destr_ex; subst l
  end.
Lemma step1_shape w t c : shape (stk w t) -> shape (stk (fst (step1 w t c)) t).
Proof.
  intros Sh. remember (fst (step1 w t c)) as w' eqn:Hw'. revert Hw'. unfold stk in Sh.
  leaves.
  all: intros ->; cbn [fst].
  all: try (unfold stk; rewrite Hst; exact Sh).
  all: rets Sh.
  all: rewrite ?stk_setst, ?stk_finish.
  all: try exact I.
  all: try (cbn [shape link_ok bottom_ok] in *; tauto).
Qed.

Lemma sb_setst w t st : sb (thr (setst w t st) t) = sb (thr w t).
Proof. unfold setst, set_thr, get. cbn. now rewrite fupd_same. Qed.
Lemma sb_set_tw w o v t : sb (thr (set_tw w o v) t) = sb (thr w t).
Proof. unfold set_tw, set_thr, get. cbn. unfold fupd. destruct (Nat.eqb_spec t o); subst; reflexivity. Qed.
Lemma sb_set_sem w o v t : sb (thr (set_sem w o v) t) = sb (thr w t).
Proof. unfold set_sem, set_thr, get. cbn. unfold fupd. destruct (Nat.eqb_spec t o); subst; reflexivity. Qed.
Ltac sb_norm := repeat (progress (rewrite ?sb_setst, ?sb_set_tw, ?sb_set_sem; cbn [thr set_note acquire release set_gh])).
Ltac sb_tac := sb_norm; reflexivity.

Ltac bottom_nil Sh :=
  try match type of Sh with
      | shape (?f :: ?l) => is_var l; let H := fresh in
                            assert (H : l = []) by (apply (shape_bottom f l Sh); exact Logic.I); subst l
      end.
Ltac old_frame I E Fk Hst :=
  eapply (fok_ext _ _ _ _ _ I E);
  [ unfold stk; rewrite Hst; cbn [In]; tauto
  | sb_tac
  | intros _ ? ? ? ? ? ? Heq; unfold stk in Heq; rewrite Hst in Heq; discriminate Heq
  | apply Fk; cbn [In]; tauto ].

Lemma ntime_obs w n : tpos (notified_time w n (flag (nt w n))) = false -> obs_notified w n.
Proof.
  unfold notified_time, obs_notified. destruct (Z.eqb_spec (flag (nt w n)) 0); intros H; [right; exact H | left; exact n0].
Qed.
Lemma child_ok_mk t w w' n c L :
  InvA w -> ext t w w' -> (n < nnext w)%nat -> (c < nnext w)%nat -> cpath w c n -> incl L (children (nt w n)) ->
  child_ok w' n c (next_in L c).
Proof.
  intros I E Hn Hc Hp HL. pose proof (x_next _ _ _ E).
  split; [lia|]. split; [eapply cpath_ext; eauto using ia_lt|].
  intros c' Hc'. apply next_in_In in Hc'. apply HL in Hc'.
  destruct (ia_chl _ I n c' Hn Hc'). split; [lia|]. eapply cpath_ext; eauto using ia_lt.
Qed.
Lemma child_ok_hd t w w' n c L :
  InvA w -> ext t w w' -> (n < nnext w)%nat -> hd_error L = Some c -> incl L (children (nt w n)) ->
  child_ok w' n c (next_in L c).
Proof.
  intros I E Hn Hc HL. apply hd_error_In in Hc. apply HL in Hc. destruct (ia_chl _ I n c Hn Hc).
  eapply child_ok_mk; eauto.
Qed.
Lemma incl_remove x l l' : incl l l' -> incl (remove_nat x l) l'.
Proof. intros H y Hy. apply H. eapply remove_nat_incl; eauto. Qed.
Ltac incl_tac := nsimpl; first [apply incl_refl | apply incl_remove, incl_refl | (intros ? ?; tauto)].
Lemma obs_ntime w n : obs_notified w n -> tpos (notified_time w n (flag (nt w n))) = false.
Proof.
  unfold notified_time, obs_notified. destruct (Z.eqb_spec (flag (nt w n)) 0); intros [H|H]; auto; congruence.
Qed.
Lemma exp_cause_ntime w n : InvA w -> (n < nnext w)%nat -> exp_cause w n (notified_time w n (flag (nt w n))).
Proof.
  intros I Hn e He Hpos. unfold notified_time in He. destruct (flag (nt w n) =? 0).
  - destruct (ia_exp _ I n e Hn He) as [H|[-> _]]; [exact H|lia].
  - inversion He; subst. lia.
Qed.
Lemma cause_due w n x : exp_cause w n x -> tle_z x (clock w) = true -> tpos x = true -> cause w n.
Proof.
  intros H Hd Hp. destruct x as [e|]; [|discriminate]. cbn in Hd, Hp.
  apply Z.leb_le in Hd. apply Z.ltb_lt in Hp. destruct (H e eq_refl Hp) as (a & Ha & Hc).
  exists a. split; auto. right. exists e. auto.
Qed.
Lemma cause_called w n : In n (notify_called (gh w)) -> cause w n.
Proof. intros H. exists n. split; [constructor|left; exact H]. Qed.
Ltac hyp_nsimpl H :=
  match goal with |- ?G => let X := fresh "X" in
    set (X := G); revert H; nsimpl; intros H; subst X end.
Lemma step1_frames w t c : InvA w -> forall f, In f (stk (fst (step1 w t c)) t) -> fok (fst (step1 w t c)) t f.
Proof.
  intros I. pose proof (step1_ext w t c) as E.
  pose proof (ia_shape w I t) as Sh. pose proof (ia_fok w I t) as Fk.
  remember (fst (step1 w t c)) as w' eqn:Hw'. revert Hw'. unfold stk in Sh, Fk.
  leaves.
  all: intros ->; cbn [fst] in *.
  all: try (unfold stk; rewrite Hst; exact Fk).
  all: bottom_nil Sh.
  all: try match goal with Hs : stack _ = FD _ D3 :: _ |- _ => below_d Sh end.
  all: rets Sh.
  all: rewrite ?stk_setst, ?stk_finish.
  all: intros f Hin; cbn [In] in Hin.
  all: try contradiction.
  all: repeat match goal with H : _ \/ _ |- _ => destruct H as [H|H] end; try contradiction.
  all: try (subst f).
  all: try (old_frame I E Fk Hst).
  (* new frames: collect what is known about the old top frames *)
  all: try (pose proof (Fk _ (or_introl eq_refl)) as F0; cbn [fok] in F0).
  all: try (pose proof (Fk _ (or_intror (or_introl eq_refl))) as F1; cbn [fok] in F1).
  all: pose proof (x_next _ _ _ E) as Hnx; pose proof (ia_lt _ I) as Hlt.
  all: destr_ex.
  all: cbn [fok past_c2].
  all: repeat match goal with |- _ /\ _ => split end.
  all: try exact Logic.I.
  all: try lia.
  all: try assumption.
  all: try (eapply cause_ext; solve [eauto]).
  all: try (intros; discriminate).
  all: try solve [intros; eapply obs_ext; eauto].
  all: try solve [intros; eapply x_flag; eauto].
  all: try solve [eapply child_ok_ext; eauto].
  all: try solve [eapply exp_cause_ext; eauto].
  all: try solve [eapply x_called; eauto].
  all: try solve [sb_norm; intros; eauto using obs_ext].
  all: try solve [sb_norm; assumption].
  all: try solve [let p := fresh in let Hp := fresh in intros p Hp;
                  match goal with F : forall q, _ = Some q -> _ /\ cpath _ _ q |- _ => destruct (F p Hp) end;
                  split; [lia | eapply cpath_ext; eauto]].
  all: try solve [let H := fresh in intros [H|H]; discriminate H].
  all: try solve [sb_norm; let Hs := fresh in intros Hs; exfalso;
                  match goal with F : sb _ = true -> _ /\ _ = WReady |- _ => destruct (F Hs) as [_ Hq]; discriminate Hq end].
  all: try solve [sb_norm; let Hs := fresh in intros Hs; exfalso; congruence].
  (* children loops *)
  all: try solve [ eapply child_ok_hd; [exact I | exact E | assumption | eassumption | incl_tac] ].
  all: try solve [ match goal with F : child_ok _ ?n _ (Some ?c) |- child_ok _ ?n ?c _ =>
                     destruct F as (_ & _ & Fx); destruct (Fx c eq_refl);
                     eapply child_ok_mk; [exact I | exact E | assumption | assumption | assumption | incl_tac] end ].
  all: try solve [ match goal with Ho : hd_error _ = Some ?c |- child_ok _ ?n ?c _ =>
                     apply hd_error_In in Ho; hyp_nsimpl Ho;
                     match goal with Hn : (n < nnext _)%nat |- _ => destruct (ia_chl _ I n c Hn Ho) end;
                     eapply child_ok_mk; [exact I | exact E | assumption | assumption | assumption | incl_tac] end ].
  (* notified after note_notify_child / after the check *)
  all: try solve [ let H := fresh in intros H; eapply obs_ext; [exact I | exact E | assumption | ];
                   first [ apply ntime_obs; assumption | left; auto ] ].
  all: try solve [ intros _; left; nsimpl; rewrite ?c_store1; discriminate ].
  all: try solve [ intros _; nsimpl; rewrite ?c_store1; discriminate ].
  (* D3: the notified time just read *)
  all: try solve [ eapply exp_cause_ext; [exact I | exact E | assumption | apply exp_cause_ntime; assumption] ].
  all: try solve [ sb_norm; let Hs := fresh in intros Hs; apply obs_ntime;
                   match goal with F : sb _ = true -> _ |- _ => destruct (F Hs); auto end ].
  all: try solve [ sb_norm; let Hs := fresh in intros Hs; apply obs_ntime;
                   match goal with F : sb _ = true -> obs_notified _ _ |- _ => exact (F Hs) end ].
  (* D4 -> D5 *)
  all: try solve [ sb_norm; match goal with F : sb ?x = true -> tpos ?y = false, G : tpos ?y = true |- sb ?x = false =>
                     destruct (sb x); [rewrite (F eq_refl) in G; discriminate G | reflexivity] end ].
  (* notify called because the deadline passed, or by nsync_note_notify *)
  all: try solve [ eapply cause_ext; [exact E | assumption | assumption | eapply cause_due; eassumption] ].
  all: try solve [ eapply cause_ext; [exact E | assumption | assumption | apply cause_called; assumption] ].
  all: try solve [exfalso; match goal with A : tpos ?x = false, B : tpos ?x && _ = true |- _ => rewrite A in B; discriminate B end].
  (* recursive calls *)
  all: try match goal with F : child_ok _ _ _ _ |- _ => let F' := fresh in pose proof F as F'; destruct F' as (? & ? & ?) end.
  all: try lia.
  all: try solve [ eapply cause_ext; [exact E | assumption | assumption | ];
                   eapply cause_up; [eassumption|]; apply (ia_flag _ I); auto ].
  all: try solve [ eapply cause_ext; [exact E | assumption | assumption | ];
                   match goal with F : forall q, Some ?p = Some q -> _ /\ _ |- _ => destruct (F p eq_refl) end;
                   eapply cause_up; [eassumption|]; eapply cause_up; [eassumption|]; apply (ia_flag _ I); [assumption|];
                   match goal with B : negb (?v =? 0) = true |- _ => destruct (Z.eqb_spec v 0); [discriminate B | assumption] end ].
  (* nsync_note_free reads n->parent *)
  all: try solve [ let p := fresh in let Hp := fresh in intros p Hp; inversion Hp; subst;
                   match goal with Ho : parent _ = Some ?q |- _ => hyp_nsimpl Ho;
                     match goal with Hn : (?n < nnext _)%nat |- _ => destruct (ia_par _ I n q Hn Ho) end end;
                   split; [lia | eapply cpath_ext; eauto] ].
  (* nsync_note_new *)
  all: try solve [ unfold nt in *; nsimpl; congruence ].
  all: try solve [ let p := fresh in let Hp := fresh in intros p Hp;
                   match goal with F : forall q, _ = Some q -> (q < _)%nat |- _ => pose proof (F p Hp) end; cbn; lia ].
  (* nsync_note_new goes on to the parent after the notify (n) inside its nsync_note_is_notified (n): the third frame's facts *)
  all: pose proof (Fk _ (or_intror (or_intror (or_introl eq_refl)))) as F2; cbn [fok] in F2; destr_ex.
  all: try solve [ unfold nt in *; nsimpl; congruence ].
  all: try solve [ let p := fresh in let Hp := fresh in intros p Hp;
                   match goal with F : forall q, _ = Some q -> (q < _)%nat |- _ => pose proof (F p Hp) end; cbn; lia ].
Qed.

(* notes under construction in the stepping thread's stack: inherited, or the freshly allocated one *)
Lemma step1_uc w t c f n :
  shape (stk w t) ->
  In f (stk (fst (step1 w t c)) t) -> uc_of f = Some n ->
  (exists f0, In f0 (stk w t) /\ uc_of f0 = Some n) \/ (n = nnext w /\ nnext (fst (step1 w t c)) = S (nnext w)).
Proof.
  intros Sh. remember (fst (step1 w t c)) as w' eqn:Hw'. revert Hw'. unfold stk in Sh.
  leaves.
  all: intros ->; cbn [fst] in *.
  all: try (intros Hin Hu; left; exists f; unfold stk in *; rewrite Hst in *; solve [auto]).
  all: bottom_nil Sh.
  all: rets Sh.
  all: rewrite ?stk_setst, ?stk_finish.
  all: intros Hin Hu; cbn [In] in Hin.
  all: try contradiction.
  all: repeat match goal with H : _ \/ _ |- _ => destruct H as [H|H] end; try contradiction.
  all: try (subst f; cbn [uc_of] in Hu; try discriminate Hu).
  all: try (left; eexists; split; [|exact Hu]; unfold stk; rewrite Hst; cbn [In]; tauto).
  all: try (left; eexists; split; [unfold stk; rewrite Hst; left; reflexivity | cbn [uc_of]; congruence]).
  all: try (left; eexists; split; [unfold stk; rewrite Hst; right; left; reflexivity | cbn [uc_of]; congruence]).
  all: try (left; eexists; split; [unfold stk; rewrite Hst; right; right; left; reflexivity | cbn [uc_of]; congruence]).
  all: try (right; inversion Hu; subst; split; reflexivity).
Qed.

Lemma finish_isn W t n b :
  seen (gh (finish W t (OIsNotified n) (RBool b))) = (if b then n :: seen (gh W) else seen (gh W)) /\
  mono_bad (gh (finish W t (OIsNotified n) (RBool b))) = (mono_bad (gh W) || (sb (thr W t) && negb b)).
Proof. split; reflexivity. Qed.
Lemma finish_wait W t n dl b :
  seen (gh (finish W t (OWait n dl) (RBool b))) = (if b then n :: seen (gh W) else seen (gh W)) /\
  mono_bad (gh (finish W t (OWait n dl) (RBool b))) = (mono_bad (gh W) || (sb (thr W t) && negb b)).
Proof. split; reflexivity. Qed.
Lemma finish_other W t o r :
  (forall n b, o = OIsNotified n -> r <> RBool b) -> (forall n dl b, o = OWait n dl -> r <> RBool b) ->
  gh (finish W t o r) = gh W.
Proof. intros H1 H2. destruct o, r; try reflexivity; exfalso; [eapply H1|eapply H2]; eauto. Qed.
(* observations complete consistently; the history stays monotone *)
Lemma step1_seen w t c :
  InvA w ->
  (forall n, In n (seen (gh (fst (step1 w t c)))) -> In n (seen (gh w)) \/ ((n < nnext w)%nat /\ obs_notified w n))
  /\ mono_bad (gh (fst (step1 w t c))) = false.
Proof.
  intros I. pose proof (ia_shape w I t) as Sh. pose proof (ia_fok w I t) as Fk. pose proof (ia_mb w I) as Mb.
  remember (fst (step1 w t c)) as w' eqn:Hw'. revert Hw'. unfold stk in Sh, Fk.
  leaves.
  all: intros ->; cbn [fst] in *.
  all: try (split; [intros n1 H1; left; exact H1 | exact Mb]).
  all: bottom_nil Sh.
  all: rets Sh.
  all: try (split; [intros n1 H1; left; exact H1 | exact Mb]).
  all: try (pose proof (Fk _ (or_introl eq_refl)) as F0; cbn [fok] in F0).
  all: try (pose proof (Fk _ (or_intror (or_introl eq_refl))) as F1; cbn [fok] in F1).
  all: try (pose proof (Fk _ (or_intror (or_intror (or_introl eq_refl)))) as F2; cbn [fok] in F2).
  all: destr_ex.
  all: match goal with
       | |- context [finish ?W ?t (OIsNotified ?n) (RBool ?b)] => destruct (finish_isn W t n b) as [Es Em]; rewrite Es, Em; clear Es Em
       | |- context [finish ?W ?t (OWait ?n ?dl) (RBool ?b)] => destruct (finish_wait W t n dl b) as [Es Em]; rewrite Es, Em; clear Es Em
       | |- context [finish ?W ?t ?o ?r] => rewrite (finish_other W t o r) by (intros; discriminate)
       | |- _ => idtac
       end.
  all: cbn [gh thr set_note acquire release set_gh].
  all: try (split; [intros n1 H1; left; exact H1 | exact Mb]).
  all: try (rewrite Mb; cbn [orb]).
  all: cbn [gh setst set_thr set_gh set_note acquire release g_set_crashed g_add_freed seen mono_bad].
  all: try (split; [intros n1 H1; left; exact H1 | exact Mb]).
  all: try match goal with was : bool |- context [negb ?b] => is_var b; destruct b end.
  all: cbn [negb tpos tzero Z.ltb Z.compare].
  all: try match goal with |- context [tpos ?v] => destruct (tpos v) eqn:Hv end; cbn [negb].
  all: rewrite ?andb_false_r.
  all: split; try reflexivity; try exact Mb.
  (* the call reports "not notified": nobody may have seen it notified before it started *)
  all: try solve [let k := fresh in let Hk := fresh in intros k Hk; left; exact Hk].
  all: try solve [destruct (sb (thr w t)) eqn:Hs; [exfalso|reflexivity];
                  repeat match goal with F : true = true -> _ |- _ => specialize (F eq_refl) end; destr_ex; congruence].
  (* the call reports "notified" *)
  all: try solve [let k := fresh in let Hk := fresh in intros k [<-|Hk]; [right; split; [assumption|] | left; exact Hk];
                  first [ solve [auto]
                        | left; match goal with B : (?v =? 0) = false |- _ => destruct (Z.eqb_spec v 0); [discriminate B | assumption] end ] ].
  all: exfalso; congruence.
Qed.


(* ------------------------------------------------------------------------------------------------ *)
(* InvA is inductive *)
Lemma stk_other t w w' t' : ext t w w' -> t' <> t -> stk w' t' = stk w t'.
Proof. intros E H. destruct (x_thr _ _ _ E t' H) as (H1 & _). exact H1. Qed.
Lemma sb_other t w w' t' : ext t w w' -> t' <> t -> sb (thr w' t') = sb (thr w t').
Proof. intros E H. destruct (x_thr _ _ _ E t' H) as (_ & _ & _ & H1). exact H1. Qed.

Lemma top_In w t f : top w t = Some f -> In f (stk w t).
Proof. unfold top. destruct (stk w t); cbn; [discriminate|]. intros E; inversion E; subst; left; reflexivity. Qed.

Lemma InvA_step1 w t c : InvA w -> InvA (fst (step1 w t c)).
Proof.
  intros I. pose proof (step1_ext w t c) as E. set (w' := fst (step1 w t c)) in *.
  pose proof (x_next _ _ _ E) as Hnx. pose proof (ia_lt _ I) as Hlt.
  assert (forall m, (m < nnext w')%nat -> (m < nnext w)%nat \/
            (m = nnext w /\ exists par dl rest, stk w t = ANew par dl W1 :: rest /\ nnext w' = S (nnext w) /\
                        nt w' m = mk_note true dl 0 None [] [] O None O dl par false false)) as Fresh.
  { intros m Hm. destruct (step1_nnext w t c) as [Eq|(par & dl & rest & Hst & Eq & Hn & _)]; fold w' in Eq; try fold w' in Hn.
    - left. lia.
    - destruct (Nat.eq_dec m (nnext w)); [right; subst; eauto 10|left; lia]. }
  split.
  - (* shape *) intros t'. destruct (Nat.eq_dec t' t) as [->|Ht].
    + apply step1_shape, (ia_shape _ I).
    + rewrite (stk_other _ _ _ _ E Ht). apply (ia_shape _ I).
  - (* frames *) intros t' f Hin. destruct (Nat.eq_dec t' t) as [->|Ht].
    + apply step1_frames; auto.
    + rewrite (stk_other _ _ _ _ E Ht) in Hin.
      eapply fok_ext; eauto using sb_other, ia_fok; intros ->; congruence.
  - (* notes under construction are private *)
    assert (forall t1 f1 n, In f1 (stk w' t1) -> uc_of f1 = Some n ->
              (exists f0, In f0 (stk w t1) /\ uc_of f0 = Some n) \/ (t1 = t /\ n = nnext w)) as U.
    { intros t1 f1 n Hin Hu. destruct (Nat.eq_dec t1 t) as [->|Ht].
      - destruct (step1_uc w t c f1 n (ia_shape _ I t) Hin Hu) as [H|[H _]]; auto.
      - rewrite (stk_other _ _ _ _ E Ht) in Hin. eauto. }
    assert (forall t1 f0 n, In f0 (stk w t1) -> uc_of f0 = Some n -> (n < nnext w)%nat) as B.
    { intros t1 f0 n Hin Hu. pose proof (ia_fok _ I _ _ Hin) as F. destruct f0; cbn in Hu; try discriminate.
      destruct s; inversion Hu; subst; cbn in F; tauto. }
    intros t1 t2 f1 f2 n H1 H2 U1 U2.
    destruct (U _ _ _ H1 U1) as [(g1 & G1 & V1)|[-> ->]], (U _ _ _ H2 U2) as [(g2 & G2 & V2)|[-> E2]]; auto.
    + eapply (ia_uc _ I); eauto.
    + subst n. pose proof (B _ _ _ G1 V1). lia.
    + pose proof (B _ _ _ G2 V2). lia.
  - (* creation parents are older *)
    intros m p Hm Hp. destruct (Fresh m Hm) as [Hm'|(-> & par & dl & rest & Hst & Eq & Hn)].
    + destruct (x_imm _ _ _ E m Hm') as [_ E2]. rewrite E2 in Hp. eauto.
    + rewrite Hn in Hp. cbn in Hp. subst par.
      assert (fok w t (ANew (Some p) dl W1)) as F by (apply (ia_fok _ I); rewrite Hst; left; reflexivity).
      destruct F as (F & _). apply F. reflexivity.
  - (* a set flag has a cause *)
    intros m Hm Hf. destruct (Fresh m Hm) as [Hm'|(-> & par & dl & rest & Hst & Eq & Hn)].
    + destruct (step1_flag w t c m Hf) as [H|[(par & H)|H]]; [| |lia].
      * eapply cause_ext; eauto. apply (ia_flag _ I); auto.
      * apply top_In in H. destruct (ia_fok _ I _ _ H) as (_ & Hc & _). eapply cause_ext; eauto.
    + fold w' in Hf. rewrite Hn in Hf. cbn in Hf. congruence.
  - (* an expiry is a creation deadline on the path, or zero because of a notified ancestor *)
    intros m e Hm He. destruct (Fresh m Hm) as [Hm'|(-> & par & dl & rest & Hst & Eq & Hn)].
    + destruct (x_exp _ _ _ E m Hm') as [Eq|(par & dl & p & e0 & rest & Hst & _ & Eq)].
      * rewrite Eq in He. eapply exp_src_ext; eauto. apply (ia_exp _ I); auto.
      * assert (fok w t (ANew par dl (W3 m p e0))) as F by (apply (ia_fok _ I); rewrite Hst; left; reflexivity).
        destruct F as (Fp & _ & _ & _ & _ & Fc & ->).
        pose proof (Fp p eq_refl) as Hp.
        assert (cpath w m p) as Hmp by (econstructor; [eauto|constructor]).
        eapply exp_src_ext; eauto.
        rewrite Eq in He. unfold notified_time in He. destruct (Z.eqb_spec (flag (nt w p)) 0).
        -- eapply exp_src_up; eauto. apply (ia_exp _ I); auto.
        -- inversion He; subst. right. split; auto. exists p. auto.
    + left. exists (nnext w). split; [constructor|]. rewrite Hn in *. cbn in *. congruence.
  - pose proof (x_clock _ _ _ E). pose proof (ia_clock _ I). lia.
  - (* parent pointers go to creation-time ancestors *)
    intros m p Hm Hp. destruct (Fresh m Hm) as [Hm'|(-> & par & dl & rest & Hst & Eq & Hn)].
    + destruct (step1_parent w t c m p Hp) as [H|[(par & dl & e0 & H)|(n & nx & H)]].
      * destruct (ia_par _ I m p Hm' H). split; [lia|eapply cpath_ext; eauto].
      * apply top_In in H. destruct (ia_fok _ I _ _ H) as (Fp & _ & _ & _ & _ & Fc & ->).
        pose proof (Fp p eq_refl). split; [lia|]. eapply cpath_ext; eauto. econstructor; [eauto|constructor].
      * apply top_In in H. destruct (ia_fok _ I _ _ H) as (Fn & Fp & (Fc1 & Fc2 & _)).
        destruct (Fp p eq_refl). split; [lia|]. eapply cpath_ext; eauto. eapply cpath_trans; eauto.
    + fold w' in Hp. rewrite Hn in Hp. cbn in Hp. discriminate.
  - (* children are creation-time descendants *)
    intros m x Hm Hx. destruct (Fresh m Hm) as [Hm'|(-> & par & dl & rest & Hst & Eq & Hn)].
    + destruct (step1_children w t c m x Hx) as [H|[(par & dl & e0 & H)|(n & nx & H)]].
      * destruct (ia_chl _ I m x Hm' H). split; [lia|eapply cpath_ext; eauto].
      * apply top_In in H. destruct (ia_fok _ I _ _ H) as (Fp & _ & Fn & _ & _ & Fc & ->).
        split; [lia|]. eapply cpath_ext; eauto. econstructor; [eauto|constructor].
      * apply top_In in H. destruct (ia_fok _ I _ _ H) as (Fn & Fp & (Fc1 & Fc2 & _)).
        destruct (Fp m eq_refl). split; [lia|]. eapply cpath_ext; eauto. eapply cpath_trans; eauto.
    + fold w' in Hx. rewrite Hn in Hx. cbn in Hx. contradiction.
  - (* seen *)
    intros n Hn. destruct (step1_seen w t c I) as [S _]. destruct (S n Hn) as [H|[H1 H2]].
    + destruct (ia_seen _ I n H). split; [lia|]. eapply obs_ext; eauto.
    + split; [lia|]. eapply obs_ext; eauto.
  - destruct (step1_seen w t c I) as [_ M]. exact M.
Qed.

(* the note-level clauses of InvA only depend on notes, nnext, clock and the ghosts *)
Lemma InvA_transfer t w w' :
  InvA w -> ext t w w' -> notes w' = notes w -> nnext w' = nnext w ->
  (forall t', shape (stk w' t')) ->
  (forall f, In f (stk w' t) -> fok w' t f) ->
  (forall f n, In f (stk w' t) -> uc_of f = Some n -> exists f0, In f0 (stk w t) /\ uc_of f0 = Some n) ->
  (forall n, In n (seen (gh w')) -> In n (seen (gh w))) -> mono_bad (gh w') = false ->
  InvA w'.
Proof.
  intros I E En Ex Sh Fk Uc Sn Mb. pose proof (ia_lt _ I) as Hlt.
  assert (forall m, nt w' m = nt w m) as N by (intros; unfold nt; now rewrite En).
  split; auto.
  - intros t' f Hin. destruct (Nat.eq_dec t' t) as [->|Ht]; [auto|].
    rewrite (stk_other _ _ _ _ E Ht) in Hin. eapply fok_ext; eauto using sb_other, ia_fok; intros ->; congruence.
  - intros t1 t2 f1 f2 n H1 H2 U1 U2.
    assert (forall t0 f0, In f0 (stk w' t0) -> uc_of f0 = Some n -> exists g, In g (stk w t0) /\ uc_of g = Some n) as U.
    { intros t0 f0 Hin Hu. destruct (Nat.eq_dec t0 t) as [->|Ht]; [eauto|]. rewrite (stk_other _ _ _ _ E Ht) in Hin. eauto. }
    destruct (U _ _ H1 U1) as (g1 & ? & ?), (U _ _ H2 U2) as (g2 & ? & ?). eapply (ia_uc _ I); eauto.
  - intros m p Hm. rewrite N. rewrite Ex in Hm. eauto.
  - intros m Hm Hf. rewrite N in Hf. rewrite Ex in Hm. eapply cause_ext; eauto. apply (ia_flag _ I); auto.
  - intros m e Hm He. rewrite N in He. rewrite Ex in Hm. eapply exp_src_ext; eauto. apply (ia_exp _ I); auto.
  - pose proof (x_clock _ _ _ E). pose proof (ia_clock _ I). lia.
  - intros m p Hm Hp. rewrite N in Hp. rewrite Ex in *. destruct (ia_par _ I m p Hm Hp). split; [auto|eapply cpath_ext; eauto].
  - intros m x Hm Hx. rewrite N in Hx. rewrite Ex in *. destruct (ia_chl _ I m x Hm Hx). split; [auto|eapply cpath_ext; eauto].
  - intros n Hn. apply Sn in Hn. destruct (ia_seen _ I n Hn). rewrite Ex. split; [auto|eapply obs_ext; eauto].
Qed.

Lemma InvA_tick w d : InvA w -> InvA (tick w d).
Proof.
  intros I.
  assert (forall t, ext t w (tick w d)) as E by (intros; apply ext_tick).
  apply (InvA_transfer 0%nat w _ I (E _) eq_refl eq_refl).
  - intros t'. apply (ia_shape _ I).
  - intros f Hin. eapply (fok_ext 1%nat); eauto using ia_fok. intros; discriminate.
  - intros f n Hin Hu. eauto.
  - auto.
  - apply (ia_mb _ I).
Qed.

Lemma InvA_begin w t : InvA w -> InvA (begin_call w t).
Proof.
  intros I. pose proof (tonly_begin t w) as T. pose proof (psame_ext _ _ _ (tonly_psame _ _ _ T)) as E.
  destruct (stk w t) as [|f0 r0] eqn:Hst.
  2:{ (* inside a call: nothing happens *)
      assert (begin_call w t = w) as -> by (unfold begin_call, get; unfold stk in Hst; rewrite Hst; reflexivity). exact I. }
  destruct (prog (thr w t)) as [|o rest] eqn:Hpr.
  { assert (begin_call w t = w) as -> by (unfold begin_call, get; unfold stk in Hst; rewrite Hst, Hpr; reflexivity). exact I. }
  assert (forall t', t' <> t -> stk (begin_call w t) t' = stk w t') as So by (intros; eapply stk_other; eauto).
  (* the new stack of t and its sb *)
  assert (exists st b g, stk (begin_call w t) t = st /\ sb (thr (begin_call w t) t) = b /\ gh (begin_call w t) = g /\
            ((st = [] /\ g = gh w) \/
             (exists n, op_note o = Some n /\ (n < nnext w)%nat /\ seen g = seen (gh w) /\ mono_bad g = mono_bad (gh w) /\
                        (forall m, o = ONotify m -> In m (notify_called g)) /\
                        b = match o with OIsNotified _ | OWait _ _ => mem_nat n (seen (gh w)) | _ => false end /\
                        st = match o with
                             | ONew p dl => [ANew p dl W1] | ONotify m => [FD m D1; ANotify m] | OIsNotified m => [FD m D1; AIs m]
                             | OWait m dl => [FD m D1; AWait m dl WReady] | OExpiry m => [AExp m] | OFree m => [FF m F1 None] end) \/
             (exists dl, o = ONew None dl /\ st = [ANew None dl W1] /\ b = false /\ g = gh w))) as (st & b & g & Sst & Sb & Sg & Cases).
  { unfold begin_call, get, stk. unfold stk in Hst. rewrite Hst, Hpr.
    destruct (op_note o) as [n|] eqn:Hop.
    - destruct (Nat.ltb_spec n (nnext w)).
      + do 3 eexists. cbn. rewrite fupd_same. cbn. split; [reflexivity|]. split; [reflexivity|]. split; [reflexivity|].
        right; left. exists n. repeat split; auto.
        * destruct (contract_ok w t o); destruct o; reflexivity.
        * destruct (contract_ok w t o); destruct o; reflexivity.
        * intros m ->. destruct (contract_ok w t (ONotify m)); left; reflexivity.
        * destruct o; reflexivity.
      + exists [], false, (gh w). cbn. rewrite fupd_same. cbn. repeat split; auto.
    - destruct o; try discriminate Hop. destruct par; try discriminate Hop.
      do 3 eexists. cbn. rewrite fupd_same. cbn. split; [reflexivity|]. split; [reflexivity|]. split; [reflexivity|].
      right; right; eauto. }
  assert (nnext (begin_call w t) = nnext w) as Sn by (apply (to_next _ _ _ T)).
  assert (forall n, mem_nat n (seen (gh w)) = true -> obs_notified (begin_call w t) n) as Hobs.
  { intros n Hmem. apply mem_nat_In in Hmem. destruct (ia_seen _ I _ Hmem) as [Hn Ho]. eapply (obs_ext t w); eauto. }
  apply (InvA_transfer t w _ I E (to_notes _ _ _ T) Sn).
  - intros t'. destruct (Nat.eq_dec t' t) as [->|Ht]; [|rewrite (So _ Ht); apply (ia_shape _ I)].
    rewrite Sst. destruct Cases as [[-> _]|[(n & _ & _ & _ & _ & _ & _ & ->)|(dl & _ & -> & _)]]; cbn; auto.
    destruct o; cbn; auto.
  - intros f Hin. rewrite Sst in Hin.
    destruct Cases as [[-> _]|[(n & Hop & Hn & Hs & Hm & Hc & -> & ->)|(dl & -> & -> & -> & ->)]]; [destruct Hin| |].
    + destruct o; cbn in Hop; inversion Hop; subst; cbn [In] in Hin;
        repeat match goal with H : _ \/ _ |- _ => destruct H as [H|H] end; try contradiction; subst f; cbn [fok];
        rewrite ?Sb, ?Sn, ?Sg; repeat split; auto; try discriminate; try (intros; discriminate).
      all: try (intros p Hp; inversion Hp; subst; auto).
      all: try (intros Hmem; split; [|reflexivity]; apply Hobs; exact Hmem).
    + destruct Hin as [<-|[]]. cbn [fok]. rewrite Sb. repeat split; auto. intros; discriminate.
  - intros f n Hin Hu. rewrite Sst in Hin. exfalso.
    destruct Cases as [[-> _]|[(n' & _ & _ & _ & _ & _ & _ & ->)|(dl & _ & -> & _)]]; [destruct Hin| |].
    + destruct o; cbn [In] in Hin; repeat match goal with H : _ \/ _ |- _ => destruct H as [H|H] end; try contradiction; subst f; discriminate.
    + destruct Hin as [<-|[]]. discriminate.
  - rewrite Sg. destruct Cases as [[_ ->]|[(n' & _ & _ & -> & _)|(dl & _ & _ & _ & ->)]]; auto.
  - rewrite Sg. destruct Cases as [[_ ->]|[(n' & _ & _ & _ & -> & _)|(dl & _ & _ & _ & ->)]]; apply (ia_mb _ I).
Qed.

Lemma InvA_init c0 progs : 0 <= c0 -> InvA (init c0 progs).
Proof.
  assert (forall t, stk (init c0 progs) t = []) as S.
  { intros t. unfold stk, init. cbn. destruct (nth_in_or_default t (map (fun p => mk_t [] p [] 0 O false) progs) dflt) as [H|H].
    - apply in_map_iff in H. destruct H as (p & <- & _). reflexivity.
    - rewrite H. reflexivity. }
  intros Hc0. split.
  - intros t. rewrite S. exact Logic.I.
  - intros t f. rewrite S. intros [].
  - intros t t' f f' n. rewrite S. intros [].
  - intros m p Hm. cbn in Hm. lia.
  - intros m Hm. cbn in Hm. lia.
  - intros m e Hm. cbn in Hm. lia.
  - exact Hc0.
  - intros m p Hm. cbn in Hm. lia.
  - intros m c Hm. cbn in Hm. lia.
  - intros n [].
  - reflexivity.
Qed.
Lemma InvA_exec w a : InvA w -> InvA (exec w a).
Proof.
  intros I. destruct a as [t c|d]; cbn [exec].
  - rewrite step_step1. apply InvA_step1, InvA_begin, I.
  - apply InvA_tick, I.
Qed.
Lemma InvA_run sched : forall w, InvA w -> InvA (run w sched).
Proof. induction sched as [|a r IH]; intros w I; cbn; auto. apply IH, InvA_exec, I. Qed.
Theorem InvA_reachable w : reachable w -> InvA w.
Proof. intros (c0 & progs & sched & H0 & ->). apply InvA_run, InvA_init, H0. Qed.

(* ------------------------------------------------------------------------------------------------ *)
(* ================= C08: monotone ================= *)
Lemma step1_flag_val w t c m :
  flag (nt (fst (step1 w t c)) m) = flag (nt w m) \/ flag (nt (fst (step1 w t c)) m) = 1 \/
  (m = nnext w /\ flag (nt (fst (step1 w t c)) m) = 0).
Proof.
  leaves.
  all: nsimpl.
  all: rewrite ?c_store1; auto.
Qed.
Definition flag_ok (w : world) : Prop := forall m, (m < nnext w)%nat -> flag (nt w m) = 0 \/ flag (nt w m) = 1.
Lemma notes_begin w t : notes (begin_call w t) = notes w. Proof. apply (to_notes _ _ _ (tonly_begin t w)). Qed.
Lemma nnext_begin w t : nnext (begin_call w t) = nnext w. Proof. apply (to_next _ _ _ (tonly_begin t w)). Qed.
Lemma flag_ok_exec w a : flag_ok w -> flag_ok (exec w a).
Proof.
  intros F. destruct a as [t c|d]; cbn [exec]; [|exact F].
  rewrite step_step1. set (w1 := begin_call w t).
  assert (flag_ok w1) as F1.
  { intros m Hm. unfold w1 in *. rewrite nnext_begin in Hm. unfold nt. rewrite notes_begin. apply F, Hm. }
  intros m Hm. destruct (step1_nnext w1 t c) as [Eq|(par & dl & rest & Hst & Eq & Hn & Ho)].
  - rewrite Eq in Hm. destruct (step1_flag_val w1 t c m) as [H|[H|[-> H]]]; auto. rewrite H; auto.
  - destruct (Nat.eq_dec m (nnext w1)) as [->|Hne].
    + rewrite Hn. cbn. auto.
    + rewrite (Ho m Hne). apply F1. lia.
Qed.
Lemma flag_ok_reachable w : reachable w -> flag_ok w.
Proof.
  intros (c0 & progs & sched & _ & ->).
  assert (forall sched w, flag_ok w -> flag_ok (run w sched)) as R.
  { induction sched0 as [|a r IH]; intros w F; cbn; auto. apply IH, flag_ok_exec, F. }
  apply R. intros m Hm. cbn in Hm. lia.
Qed.
Lemma flag_kept w a m : (m < nnext w)%nat -> flag (nt w m) <> 0 -> flag (nt (exec w a) m) <> 0.
Proof.
  intros Hm Hf. destruct a as [t c|d]; cbn [exec]; [|exact Hf].
  rewrite step_step1. eapply (x_flag _ _ _ (step1_ext _ t c)).
  - rewrite nnext_begin. exact Hm.
  - unfold nt. rewrite notes_begin. exact Hf.
Qed.
Lemma mono_ok w : reachable w -> mono_bad (gh w) = false.
Proof. intros R. apply (ia_mb _ (InvA_reachable _ R)). Qed.

(* ================= C08: sound ================= *)
Lemma sound_flag w m : reachable w -> (m < nnext w)%nat -> flag (nt w m) <> 0 -> cause w m.
Proof. intros R. apply (ia_flag _ (InvA_reachable _ R)). Qed.
Lemma sound_obs w m : reachable w -> (m < nnext w)%nat -> obs_notified w m -> cause w m.
Proof.
  intros R Hm [H|H]; [eapply sound_flag; eauto|].
  pose proof (InvA_reachable _ R) as I.
  destruct (expiry (nt w m)) as [e|] eqn:He; [|discriminate]. cbn in H. apply Z.ltb_ge in H.
  destruct (ia_exp _ I m e Hm He) as [(a & Ha & Hd)|(-> & q & Hq & Hf)].
  - exists a. split; auto. right. exists e. split; auto. pose proof (ia_clock _ I). lia.
  - eapply cause_up; eauto. apply (ia_flag _ I); auto.
    pose proof (cpath_le _ _ _ (ia_lt _ I) Hm Hq). lia.
Qed.

(* ================= C08: notify_post ================= *)
Lemma hist_setst w t st : hist (thr (setst w t st) t) = hist (thr w t).
Proof. unfold setst, set_thr, get. cbn. now rewrite fupd_same. Qed.
Lemma hist_set_tw w o v t : hist (thr (set_tw w o v) t) = hist (thr w t).
Proof. unfold set_tw, set_thr, get. cbn. unfold fupd. destruct (Nat.eqb_spec t o); subst; reflexivity. Qed.
Lemma hist_set_sem w o v t : hist (thr (set_sem w o v) t) = hist (thr w t).
Proof. unfold set_sem, set_thr, get. cbn. unfold fupd. destruct (Nat.eqb_spec t o); subst; reflexivity. Qed.
Lemma hist_finish w t o r : hist (thr (finish w t o r) t) = (o, r) :: hist (thr w t).
Proof. unfold finish. destruct o, r; cbn; now rewrite fupd_same. Qed.
Ltac hist_norm := repeat (progress (rewrite ?hist_finish, ?hist_setst, ?hist_set_tw, ?hist_set_sem; cbn [thr set_note acquire release set_gh])).
Lemma cons_neq {A} (x : A) l : l <> x :: l.
Proof. intros H. apply (f_equal (@length A)) in H. cbn in H. lia. Qed.

Lemma step1_notify_post w t c n r :
  InvA w -> hist (thr (fst (step1 w t c)) t) = (ONotify n, r) :: hist (thr w t) -> obs_notified (fst (step1 w t c)) n.
Proof.
  intros I. pose proof (step1_ext w t c) as E.
  pose proof (ia_shape w I t) as Sh. pose proof (ia_fok w I t) as Fk.
  remember (fst (step1 w t c)) as w' eqn:Hw'. revert Hw'. unfold stk in Sh, Fk.
  leaves.
  all: intros ->; cbn [fst] in *.
  all: try (intros H; exfalso; exact (cons_neq _ _ H)).
  all: bottom_nil Sh.
  all: rets Sh.
  all: hist_norm.
  all: try (intros H; exfalso; exact (cons_neq _ _ H)).
  all: intros H; inversion H; subst.
  all: try (pose proof (Fk _ (or_introl eq_refl)) as F0; cbn [fok] in F0).
  all: try (pose proof (Fk _ (or_intror (or_introl eq_refl))) as F1; cbn [fok] in F1).
  all: destr_ex.
  all: eapply obs_ext; [exact I | exact E | assumption | ].
  all: try solve [auto].
  all: try solve [left; match goal with B : (?v =? 0) = false |- _ => destruct (Z.eqb_spec v 0); [discriminate B | assumption] end].
  all: exfalso; congruence.
Qed.

(* ================= C08: local (frame condition) ================= *)
(* the bottom frame of a stack = the API call the thread is in, and the note it names *)
Fixpoint bottom (st : list frame) : option frame :=
  match st with [] => None | f :: r => match r with [] => Some f | _ :: _ => bottom r end end.
Definition call_note (st : list frame) : option nat := match bottom st with Some f => frame_note f | None => None end.
Definition frame_target (f : frame) : option nat :=
  match f with FD n _ | FN n _ _ _ | FC n _ _ => Some n | _ => None end.
(* every frame of notify / note_notify_child / notified_deadline in a stack works on a creation-time descendant of the
   note the call names *)
Lemma stack_targets w t st n :
  shape st -> (forall f, In f st -> fok w t f) -> call_note st = Some n ->
  forall f m, In f st -> frame_target f = Some m -> cpath w m n.
Proof.
  unfold call_note.
  induction st as [|g r IH]; intros Sh Fk Hc f m Hin Ht; [destruct Hin|].
  destruct r as [|h r'].
  - (* g is the bottom frame *) destruct Hin as [<-|[]]. cbn in Sh. destruct g; cbn in Sh, Ht; try contradiction; discriminate.
  - pose proof (shape_tail _ _ Sh) as Sh'.
    assert (forall f0, In f0 (h :: r') -> fok w t f0) as Fk' by (intros; apply Fk; right; auto).
    assert (forall f0 m0, In f0 (h :: r') -> frame_target f0 = Some m0 -> cpath w m0 n) as IH' by (eapply IH; eauto).
    destruct Hin as [<-|Hin]; [|eapply IH'; eauto].
    cbn in Sh. destruct Sh as [L _].
    pose proof (Fk' h (or_introl eq_refl)) as Fh.
    (* the callee g and its caller h *)
    destruct g; cbn in Ht; inversion Ht; subst; destruct h; cbn in L; try contradiction.
    all: try (destruct s0; try contradiction).
    all: try (destruct L; subst).
    all: subst.
    (* caller is a bottom frame naming m, or a frame with the same target, or a parent loop *)
    all: try (destruct r'; [cbn in Hc; inversion Hc; subst; constructor | cbn in Sh'; destruct Sh' as [[] _]]).
    all: try (eapply IH'; [left; reflexivity | reflexivity]).
    all: cbn [fok] in Fh; destr_ex.
    all: try match goal with F : child_ok _ _ _ _ |- _ => destruct F as (? & ? & ?) end.
    all: try (eapply cpath_trans; [eassumption|]; eapply IH'; [left; reflexivity | reflexivity]).
    all: try (pose proof (shape_bottom _ _ Sh' Logic.I); subst r'; cbn in Hc; inversion Hc; subst; assumption).
    all: try (pose proof (shape_bottom _ _ Sh' Logic.I); subst r'; cbn in Hc; inversion Hc; subst; constructor).
    pose proof (shape_bottom _ _ Sh' Logic.I); subst r'; cbn in Hc. econstructor; [rewrite H4; exact Hc | constructor].
Qed.

Lemma step1_flag_change w t c m :
  flag (nt (fst (step1 w t c)) m) <> flag (nt w m) -> (exists par, top w t = Some (FC m par C2)) \/ m = nnext w.
Proof.
  unfold top, stk. leaves.
  all: nsimpl.
  all: try (intros H; exfalso; apply H; reflexivity).
  all: cbn [hd_error]; eauto.
Qed.
Lemma step1_waiters_change w t c m :
  waiters (nt (fst (step1 w t c)) m) <> waiters (nt w m) ->
  (exists par s, top w t = Some (FC m par s)) \/ (exists dl s, top w t = Some (AWait m dl s)) \/ m = nnext w.
Proof.
  unfold top, stk. leaves.
  all: nsimpl.
  all: try (intros H; exfalso; apply H; reflexivity).
  all: cbn [hd_error]; eauto 6.
Qed.
Lemma local_step w t c n m :
  InvA w -> call_note (stk (begin_call w t) t) = Some n -> (m < nnext w)%nat ->
  flag (nt (fst (step w t c)) m) <> flag (nt w m) \/ waiters (nt (fst (step w t c)) m) <> waiters (nt w m) ->
  cpath w m n.
Proof.
  intros I Hc Hm Hch. rewrite step_step1 in Hch. pose proof (InvA_begin w t I) as I1.
  set (w1 := begin_call w t) in *.
  assert (forall x, nt w1 x = nt w x) as N by (intros; unfold nt, w1; now rewrite notes_begin).
  assert (nnext w1 = nnext w) as Nx by apply nnext_begin.
  assert (forall a b, cpath w1 a b -> cpath w a b) as CP.
  { induction 1; [constructor|]. econstructor; eauto. rewrite <- N. exact H. }
  rewrite <- !N in Hch.
  assert (forall f, top w1 t = Some f -> frame_target f = Some m -> cpath w m n) as Tgt.
  { intros f Hf Ht. apply CP. eapply (stack_targets w1 t (stk w1 t)); eauto using ia_shape, ia_fok, top_In. }
  destruct Hch as [H|H].
  - destruct (step1_flag_change _ _ _ _ H) as [(par & Hf)|Hf]; [|lia]. eapply Tgt; eauto.
  - destruct (step1_waiters_change _ _ _ _ H) as [(par & s & Hf)|[(dl & s & Hf)|Hf]]; [| |lia].
    + eapply Tgt; eauto.
    + (* the thread's own nsync_note_wait: the note it names *)
      pose proof (ia_shape _ I1 t) as Sh. unfold top in Hf. unfold call_note in Hc.
      destruct (stk w1 t) as [|g r]; [discriminate|]. cbn in Hf. inversion Hf; subst g.
      rewrite (shape_bottom _ _ Sh Logic.I) in Hc. cbn in Hc. inversion Hc; subst. constructor.
Qed.

Lemma begin_hist w t :
  hist (thr (begin_call w t) t) = hist (thr w t) \/
  (exists o, hist (thr (begin_call w t) t) = (o, RSkip) :: hist (thr w t) /\ stk (begin_call w t) t = []).
Proof.
  unfold begin_call, get, stk.
  destruct (stack (thr w t)) eqn:Hs; [|left; reflexivity].
  destruct (prog (thr w t)) as [|o rest]; [left; reflexivity|].
  destruct (op_note o) as [n|].
  - destruct (Nat.ltb n (nnext w)).
    + left. cbn. rewrite fupd_same. reflexivity.
    + right. exists o. cbn. rewrite fupd_same. auto.
  - destruct o; try (left; reflexivity). left. cbn. rewrite fupd_same. reflexivity.
Qed.
Lemma notify_post w t c n :
  reachable w -> returned w (fst (step w t c)) t (ONotify n) RNone -> obs_notified (fst (step w t c)) n.
Proof.
  intros R Hr. unfold returned, get in Hr. rewrite step_step1 in *.
  pose proof (InvA_begin w t (InvA_reachable _ R)) as I1.
  destruct (begin_hist w t) as [E|(o & E & Es)].
  - rewrite <- E in Hr. eapply step1_notify_post; eauto.
  - exfalso. unfold step1, get in Hr. unfold stk in Es. rewrite Es in Hr. cbn in Hr. rewrite E in Hr. inversion Hr.
Qed.
