(* MuXferProofG: GENERIC-interface cv waiters (nsync_cv_wait_with_deadline_generic with the caller's own lock routines: cv_mu ==
   NULL, l_type == NULL) are never transferred to the mutex queue (the repair of finding F16: wake_waiters transfers only
   waiters whose cv_mu is pmu), and the first element of wake_waiters' list, while pmu != NULL is in use, is not one of them. *)
From NsyncBase Require Import CSem.
From NsyncGen Require Import Consts Sites.
From NsyncModel Require Import MuModel MuSpec.
From NsyncProof Require Import WordView MuProof MuProof2 MuProof3.
From NsyncModel Require Import MuXferModel.
From NsyncProof Require Import MuXferProof MuXferProof2 MuXferProof3 MuXferProof4 MuXferProof5 MuXferProof6.
From Coq Require Import List ZArith Bool Lia PeanoNat Permutation.
Import ListNotations.
Local Open Scope Z_scope.

Ltac xnorm :=
  unfold set_xpc, add_xret, set_xt, set_mw, set_cvq, set_xferred, xget; cbn [mw cvq xferred xthr];
  rewrite ?lupd_lupd.
Ltac xn Hx := xnorm; rewrite ?Hx; cbn [x_pc x_ops x_rets].

Definition GHd (xw : xworld) : Prop := forall t f, vhd (x_pc (xget xw t)) = Some f -> xg_rec (x_pc (xget xw f)) = false.
Definition GInv (xw : xworld) : Prop := forall t, xg_rec (x_pc (xget xw t)) = true -> xferred xw t = false.
Definition GI (xw : xworld) : Prop := GHd xw /\ GInv xw.

Lemma GI_upd xw m' q' f' t xs' : GI xw -> PInv xw -> (t < length (xthr xw))%nat ->
  (forall f, vhd (x_pc xs') = Some f -> f <> t -> xg_rec (x_pc (xget xw f)) = false) ->
  xg_rec (x_pc xs') = false \/ xg_rec (x_pc xs') = xg_rec (x_pc (xget xw t)) \/ cvs xw t = false ->
  (xg_rec (x_pc xs') = true -> f' t = false) ->
  (forall p, p <> t -> f' p = true -> xferred xw p = true \/ xg_rec (x_pc (xget xw p)) = false) ->
  GI (mk_xw m' q' f' (lupd (xthr xw) t xs')).
Proof.
  intros [HG HV] (_ & HC & _) Ht C1 C2 C3 C4. split.
  - intros u f Hv. destruct (Nat.eq_dec u t) as [->|Nu].
    + rewrite xget_lupd_same in Hv by exact Ht.
      destruct (Nat.eq_dec f t) as [->|Nf]; [rewrite xget_lupd_same by exact Ht; destruct (x_pc xs'); try discriminate Hv; reflexivity|].
      rewrite xget_lupd_other by exact Nf. apply C1; assumption.
    + rewrite xget_lupd_other in Hv by exact Nu.
      destruct (Nat.eq_dec f t) as [->|Nf]; [|rewrite xget_lupd_other by exact Nf; apply (HG u f Hv)].
      rewrite xget_lupd_same by exact Ht. pose proof (HG u t Hv) as Old.
      destruct C2 as [E | [E | E]]; [exact E | congruence|].
      destruct HC as (_ & _ & _ & Hw & _). destruct (Hw u t (proj1 (vhd_in _ _ Hv))) as (_ & b & _). congruence.
  - intros u G. cbn [xferred]. destruct (Nat.eq_dec u t) as [->|Nu].
    + rewrite xget_lupd_same in G by exact Ht. apply C3, G.
    + rewrite xget_lupd_other in G by exact Nu. destruct (f' u) eqn:Fu; [|reflexivity].
      destruct (C4 u Nu Fu) as [X | X]; [rewrite (HV u G) in X; discriminate X | congruence].
Qed.

Lemma GI_xthr xw xw' : xthr xw' = xthr xw -> xferred xw' = xferred xw -> GI xw -> GI xw'.
Proof. intros E F [HG HV]. split; [intros u f | intros u]; unfold xget; rewrite E, ?F; [apply HG | apply HV]. Qed.

Lemma xbegin_gi xw t : GI xw -> GI (xbegin xw t).
Proof.
  intros H0. unfold xbegin. cbv zeta.
  destruct (xget xw t) as [xp xo xr] eqn:Hx. cbn [x_pc x_ops x_rets].
  destruct xp; try exact H0. destruct xo as [|o rest]; try exact H0.
  destruct (mu_idle (mw xw) t) eqn:MI; try exact H0.
  assert (t < length (xthr xw))%nat as Ht by (apply xget_inb; rewrite Hx; discriminate).
  assert (forall m' q' p, (forall f, vhd p <> Some f) -> xg_rec p = false ->
            GI (mk_xw m' q' (xferred xw) (lupd (xthr xw) t (mk_xt p rest xr)))) as GEN.
  { intros m' q' p Hv Hn. destruct H0 as [HG HV]. split.
    - intros u f Hu. destruct (Nat.eq_dec u t) as [->|Nu].
      + rewrite xget_lupd_same in Hu by exact Ht. now elim (Hv f).
      + rewrite xget_lupd_other in Hu by exact Nu.
        destruct (Nat.eq_dec f t) as [->|Nf]; [rewrite xget_lupd_same by exact Ht; exact Hn | rewrite xget_lupd_other by exact Nf; apply (HG u f Hu)].
    - intros u G. cbn [xferred]. destruct (Nat.eq_dec u t) as [->|Nu].
      + rewrite xget_lupd_same in G by exact Ht. cbn [x_pc] in G. congruence.
      + rewrite xget_lupd_other in G by exact Nu. apply HV, G. }
  unfold xget in Hx.
  destruct o as [o'|m| | |[m|]|m]; xnorm; rewrite ?Hx; cbn [x_pc x_ops x_rets]; rewrite ?nth_lupd_same by exact Ht; cbn [x_pc x_ops x_rets];
    try (apply GEN; [intros f; discriminate | reflexivity]).
  all: destruct (held (get (mw xw) t)) as [m'|]; [destruct (mode_eqb m m')|]; apply GEN; try (intros f; discriminate); reflexivity.
Qed.

Section GenericInvariant.
Variable n : nat.
Hypothesis Hn : Z.of_nat n < 16777215.

Lemma xstep_thr_gi xw0 t c : XInv n xw0 -> PInv xw0 -> GI xw0 -> GI (fst (xstep_thr xw0 t c)).
Proof.
  intros HI0 HP0 HG0. pose proof (xbegin_gi _ t HG0) as HG1. apply (xbegin_pinv _ t) in HP0.
  apply (xbegin_inv n Hn _ t) in HI0. clear HG0.
  unfold xstep_thr. set (xw := xbegin xw0 t) in *. clearbody xw. clear xw0. cbv zeta.
  destruct (xget xw t) as [xp xo xr] eqn:Hx. cbn [x_pc x_ops x_rets] in *.
  assert (xp <> XIdle -> (t < length (xthr xw))%nat) as HtN.
  { intros NE. apply xget_inb. rewrite Hx. intros E. inversion E. contradiction. }
  pose proof Hx as Hx'. unfold xget in Hx.
  pose proof HG1 as [HGh HGv]. pose proof HP0 as (_ & _ & HF & _).
  Local Ltac gi HG1 HP0 HGv Ht Hx' :=
    first [ exact HG1
          | apply (GI_xthr _ _ eq_refl eq_refl HG1)
          | apply GI_upd;
            [ exact HG1 | exact HP0 | exact Ht
            | let f := fresh "f" in let Hv := fresh "Hv" in let Nf := fresh "Nf" in
              intros f Hv Nf; cbn [x_pc vhd] in Hv; try discriminate Hv
            | cbn [x_pc xg_rec w_gen wl_set_so wl_set_out]; first [ left; reflexivity | right; left; rewrite Hx'; reflexivity | idtac ]
            | cbn [x_pc xg_rec w_gen wl_set_so wl_set_out];
              first [ let G := fresh "G" in intros G; discriminate G
                    | let G := fresh "G" in intros G; apply HGv; rewrite Hx'; exact G | idtac ]
            | let p := fresh "p" in let N := fresh "N" in let Hf := fresh "Hf" in
              intros p N Hf; first [ left; exact Hf | left; rewrite fupd_other in Hf by exact N; exact Hf | idtac ] ] ].
  destruct xp.
  - unfold mu_step. destruct (step (mw xw) t) as [m' e]. cbn [fst]. xnorm. gi HG1 HP0 HGv Ht Hx'.
  - exact HG1.
  - assert (t < length (xthr xw))%nat as Ht by (apply HtN; discriminate). cbn [fst]. xn Hx. gi HG1 HP0 HGv Ht Hx'.
  - assert (t < length (xthr xw))%nat as Ht by (apply HtN; discriminate).
    destruct (has (word (mw xw)) MU_WHELD_IF_NON_ZERO), (has (word (mw xw)) MU_RHELD_IF_NON_ZERO); cbn [fst]; xn Hx; gi HG1 HP0 HGv Ht Hx'.
  - (* XwEnq *) assert (t < length (xthr xw))%nat as Ht by (apply HtN; discriminate). cbn [fst]. xn Hx. gi HG1 HP0 HGv Ht Hx'.
    + right; right. unfold cvs. rewrite Hx'. reflexivity.
    + intros _. apply (HF t). rewrite Hx'. reflexivity.
  - assert (t < length (xthr xw))%nat as Ht by (apply HtN; discriminate).
    unfold mu_step. destruct (step (mw xw) t) as [m' e]. xnorm. cbn [mw].
    destruct (mu_pc_idle m' t); cbn [fst]; xn Hx; gi HG1 HP0 HGv Ht Hx'.
  - assert (t < length (xthr xw))%nat as Ht by (apply HtN; discriminate).
    destruct (waiting (mw xw) t); cbn [fst]; xn Hx; [destruct (w_so l)|]; gi HG1 HP0 HGv Ht Hx'.
  - assert (t < length (xthr xw))%nat as Ht by (apply HtN; discriminate).
    destruct c; [destruct (0 <? sem (mw xw) t)|]; cbn [fst]; xn Hx; gi HG1 HP0 HGv Ht Hx'.
  - assert (t < length (xthr xw))%nat as Ht by (apply HtN; discriminate).
    destruct (waiting (mw xw) t); cbn [fst]; xn Hx; gi HG1 HP0 HGv Ht Hx'.
  - assert (t < length (xthr xw))%nat as Ht by (apply HtN; discriminate).
    destruct (mem_id t (cvq xw)); cbn [fst]; xn Hx; gi HG1 HP0 HGv Ht Hx'.
  - assert (t < length (xthr xw))%nat as Ht by (apply HtN; discriminate). cbn [fst]. xn Hx. gi HG1 HP0 HGv Ht Hx'.
  - assert (t < length (xthr xw))%nat as Ht by (apply HtN; discriminate).
    unfold mu_step. destruct (step (mw xw) t) as [m' e]. xnorm. cbn [mw].
    destruct (mu_pc_idle m' t); cbn [fst]; xn Hx; rewrite ?lupd_lupd; gi HG1 HP0 HGv Ht Hx'.
  - assert (t < length (xthr xw))%nat as Ht by (apply HtN; discriminate).
    destruct c; [|destruct (cvq xw)]; cbn [fst]; xn Hx; gi HG1 HP0 HGv Ht Hx'.
  - (* XkSelect *) assert (t < length (xthr xw))%nat as Ht by (apply HtN; discriminate).
    destruct (if bc then sel_broadcast (xrd xw) (cvq xw) else sel_signal (xrd xw) (cvq xw)) as [[wk kp] allr].
    destruct wk as [|f wk']; [|destruct (nrec xw f) eqn:Nf0]; cbn [fst]; xn Hx; gi HG1 HP0 HGv Ht Hx'.
    cbn [k_wake hd_error] in Hv. inversion Hv. subst. unfold nrec in Nf0. apply orb_false_elim in Nf0. apply Nf0.
  - (* XvLoad1 *) assert (t < length (xthr xw))%nat as Ht by (apply HtN; discriminate).
    destruct (xfer_wanted (wtype (mw xw)) (word (mw xw)) k); cbn [fst]; xn Hx;
      [|unfold wake_loop; destruct (k_wake k)]; gi HG1 HP0 HGv Ht Hx'.
    apply (HGh t f). rewrite Hx'. exact Hv.
  - (* XvCas1 *) assert (t < length (xthr xw))%nat as Ht by (apply HtN; discriminate).
    unfold cas. destruct (word (mw xw) =? wake_waiters_cas1_old old); cbv beta iota.
    + assert (forall p, In p (fst (fst (xfer (nrec xw) (wtype (mw xw)) (first_cant_acquire (wtype (mw xw)) old (k_wake k)) (k_wake k)))) ->
                        xg_rec (x_pc (xget xw p)) = false) as MN.
      { intros p Hpm. destruct (xfer_moved_cases _ _ _ _ _ Hpm) as [Hd | Nn].
        - apply (HGh t p). rewrite Hx'. exact Hd.
        - unfold nrec in Nn. apply orb_false_elim in Nn. apply Nn. }
      destruct (xfer (nrec xw) (wtype (mw xw)) (first_cant_acquire (wtype (mw xw)) old (k_wake k)) (k_wake k)) as [[moved stay] set_on].
      cbn [fst snd] in MN. cbn [fst]. xn Hx. gi HG1 HP0 HGv Ht Hx'.
      apply set_all_true in Hf. destruct Hf as [Hf | [Hf _]]; [left; exact Hf | right; apply MN, Hf].
    + cbn [fst]. xn Hx. unfold wake_loop; destruct (k_wake k); gi HG1 HP0 HGv Ht Hx'.
  - assert (t < length (xthr xw))%nat as Ht by (apply HtN; discriminate). cbn [fst]. xn Hx. gi HG1 HP0 HGv Ht Hx'.
  - assert (t < length (xthr xw))%nat as Ht by (apply HtN; discriminate).
    unfold cas. destruct (word (mw xw) =? wake_waiters_cas2_old old); cbv beta iota; cbn [fst]; xn Hx;
      [unfold wake_loop; destruct (k_wake k)|]; gi HG1 HP0 HGv Ht Hx'.
  - assert (t < length (xthr xw))%nat as Ht by (apply HtN; discriminate). cbn [fst]. xn Hx. gi HG1 HP0 HGv Ht Hx'.
  - assert (t < length (xthr xw))%nat as Ht by (apply HtN; discriminate).
    destruct (k_wake k) as [|p rest]; cbn [fst]; xn Hx; gi HG1 HP0 HGv Ht Hx'.
  - assert (t < length (xthr xw))%nat as Ht by (apply HtN; discriminate).
    cbn [fst]; xn Hx; unfold wake_loop; destruct (k_wake k); gi HG1 HP0 HGv Ht Hx'.
  - assert (t < length (xthr xw))%nat as Ht by (apply HtN; discriminate). cbn [fst]. xn Hx. gi HG1 HP0 HGv Ht Hx'.
  - assert (t < length (xthr xw))%nat as Ht by (apply HtN; discriminate).
    destruct om as [m|]; cbn [fst]; xn Hx; gi HG1 HP0 HGv Ht Hx'.
  - assert (t < length (xthr xw))%nat as Ht by (apply HtN; discriminate).
    unfold mu_step. destruct (step (mw xw) t) as [m' e]. xnorm. cbn [mw].
    destruct (mu_pc_idle m' t); cbn [fst]; xn Hx; gi HG1 HP0 HGv Ht Hx'.
  - assert (t < length (xthr xw))%nat as Ht by (apply HtN; discriminate).
    destruct (cv_ready_time_load1_guard (b2z (waiting (mw xw) t))); cbn [fst]; xn Hx; gi HG1 HP0 HGv Ht Hx'.
  - assert (t < length (xthr xw))%nat as Ht by (apply HtN; discriminate).
    destruct c; [destruct (0 <? sem (mw xw) t)|]; cbn [fst]; xn Hx; gi HG1 HP0 HGv Ht Hx'.
  - assert (t < length (xthr xw))%nat as Ht by (apply HtN; discriminate).
    destruct (waiting (mw xw) t && cv_dequeue_store1_guard (b2z (mem_id t (cvq xw)))); [destruct om as [m|]|]; cbn [fst]; xn Hx;
      gi HG1 HP0 HGv Ht Hx'.
  - assert (t < length (xthr xw))%nat as Ht by (apply HtN; discriminate).
    destruct (waiting (mw xw) t); [|destruct om as [m|]]; cbn [fst]; xn Hx; gi HG1 HP0 HGv Ht Hx'.
  - assert (t < length (xthr xw))%nat as Ht by (apply HtN; discriminate).
    unfold mu_step. destruct (step (mw xw) t) as [m' e]. xnorm. cbn [mw].
    destruct (mu_pc_idle m' t); cbn [fst]; xn Hx; rewrite ?lupd_lupd; gi HG1 HP0 HGv Ht Hx'.
  - assert (t < length (xthr xw))%nat as Ht by (apply HtN; discriminate). cbn [fst]. xn Hx. gi HG1 HP0 HGv Ht Hx'.
Qed.

Lemma xstep_gi xw a : XInv n xw -> PInv xw -> GI xw -> GI (fst (xstep xw a)).
Proof.
  destruct a as [t c|p]; [apply xstep_thr_gi|]. intros _ _ H0. cbn [xstep fst]. apply (GI_xthr xw); [reflexivity | reflexivity | exact H0].
Qed.
End GenericInvariant.

Lemma xinit_gi progs : GI (xinit progs).
Proof.
  destruct (xinit_pcs progs) as [PX _]. split; [intros t f Hv | intros t G]; rewrite PX in *; discriminate.
Qed.

Lemma xreachable_gi progs sched : Z.of_nat (length progs) < 2 ^ 24 - 1 -> GI (xrun (xinit progs) sched).
Proof.
  intros H. assert (forall xw, AllInv (length progs) xw -> GI xw -> GI (xrun xw sched)) as R.
  { unfold xrun. induction sched as [|a rest IH]; intros xw HA HG; cbn [fold_left]; [exact HG|].
    apply IH; [apply (xstep_all _ H), HA|]. destruct HA as (HI & _ & HP & _). apply (xstep_gi _ H); assumption. }
  apply R; [|apply xinit_gi].
  split; [apply xinit_inv|]. split; [apply xinit_sinv|]. split; [apply xinit_pinv|]. split; [apply xinit_tinv | apply xinit_hxinv].
Qed.
