(* MuWaitWorld2: the world invariant L1 (queue membership, same_condition rings, private lists of the scan) is
   preserved by every step of Model/MuWaitModel.v. *)
From NsyncBase Require Import CSem.
From NsyncGen Require Import Consts Sites.
From NsyncModel Require Import MuWaitModel MuWaitSpec.
From NsyncProof Require Import WordView MuWaitProof MuWaitRings MuWaitWorld1.
From Coq Require Import List ZArith Bool Lia PeanoNat.
Import ListNotations.
Local Open Scope Z_scope.

(* ================= the information read off a thread state ================= *)
Definition sk_of (p : pc) : option (skind * uscan) :=
  match p with
  | RelLoad (KScan _ u) _ | RelCas (KScan _ u) _ => Some (SRel, u)
  | SpinLoad (KScan _ u) _ | SpinCas (KScan _ u) _ => Some (SSpin, u)
  | UsEval _ u => Some (SEval, u)
  | RmLoad (KScan _ u) | RmCas (KScan _ u) _ => Some (SRm, u)
  | _ => None
  end.
Definition wk_of (p : pc) : list nat :=
  match p with UsRelLoad _ u _ | UsRelCas _ u _ | UsWakeStore _ u | UsWakeV _ _ u => wake u | _ => [] end.
(* inside nsync_mu_unlock_slow_ *)
Definition us_pc (p : pc) : bool :=
  match p with
  | UsLoad _ | UsCasRel _ _ | UsCasSpin _ _ | UsEval _ _ | UsRelLoad _ _ _ | UsRelCas _ _ _ | UsWakeStore _ _ | UsWakeV _ _ _
  | RelLoad (KScan _ _) _ | RelCas (KScan _ _) _ | SpinLoad (KScan _ _) _ | SpinCas (KScan _ _) _
  | RmLoad (KScan _ _) | RmCas (KScan _ _) _ => true
  | _ => false
  end.
(* inside nsync_mu_wait_with_deadline, between queueing the waiter and the end of that iteration *)
Definition pe_pc (p : pc) : bool :=
  us_pc p ||
  match p with
  | MwRelLoad | MwRelCas _ _ | MwLoadW1 | MwSemP | MwLoadW2 | MwLoadW3 | MtLoad _ | MtCas1 _ | MtCas2 _
  | MtLoadW _ | MtLoadRc _ | RmLoad (KTry _) | RmCas (KTry _) _ | MtStoreW _ | MtStore2 _ | MtStore3 _ => true
  | _ => false
  end.
Definition mwb (mx : option mwl) : bool := match mx with Some _ => true | None => false end.
Definition mq_of (p : pc) (mx : option mwl) : bool :=
  (us_pc p && mwb mx) ||
  match p with
  | RelLoad (KLs _ _) _ | RelCas (KLs _ _) _ | LsWaitLoad _ _ | LsSemP _ _
  | MwRelLoad | MwRelCas _ _ | MwLoadW1 | MwSemP | MwLoadW2 | MwLoadW3 | MtLoad _ | MtCas1 _ | MtCas2 _
  | MtLoadW _ | MtLoadRc _ | RmLoad (KTry _) | RmCas (KTry _) _ | MtStore3 _ => true
  | _ => false
  end.
Definition pq_of (p : pc) (mx : option mwl) : option (option Z) :=
  match p, mx with
  | MwRcLoad, _ => Some None
  | SpinLoad KWait _, Some x | SpinCas KWait _, Some x => Some (Some (mw_rc x))
  | _, _ => None
  end.
Definition kt_of (p : pc) : bool := match p with RmLoad (KTry _) | RmCas (KTry _) _ => true | _ => false end.
Definition peb (p : pc) (mx : option mwl) : option Z :=
  match mx with Some x => if pe_pc p then Some (mw_rc x) else None | None => None end.
Definition info_of (p : pc) (mx : option mwl) : info :=
  mk_info (sk_of p) (wk_of p) (mq_of p mx) (peb p mx) (pq_of p mx) (kt_of p).
Definition winfo (w : world) (t : nat) : info := info_of (t_pc (get w t)) (mw (get w t)).

Definition L1v (w : world) (I : nat -> info) : Prop :=
  L1a (queue w) (rings_of w) (wcond w) (cls w) (waiting w) (rcount w) I.
Definition L1 (w : world) : Prop := L1v w (winfo w).

(* scanner-like pcs: inside the scan or at its final CAS *)
Definition scl (p : pc) : bool :=
  match sk_of p with Some _ => true | None => match p with UsRelLoad _ _ _ | UsRelCas _ _ _ => true | _ => false end end.
Definition U1 (w : world) : Prop :=
  forall t1 t2, scl (t_pc (get w t1)) = true -> scl (t_pc (get w t2)) = true -> t1 = t2.

(* the info of a thread inside the scan *)
Definition sinfo (mx : option mwl) (k : skind) (u : uscan) : info :=
  mk_info (Some (k, u)) [] (mwb mx) (match mx with Some x => Some (mw_rc x) | None => None end) None false.

Lemma info_of_scan p mx k u : sk_of p = Some (k, u) -> info_of p mx = sinfo mx k u.
Proof.
  destruct p; cbn [sk_of]; try discriminate; try (destruct k0; try discriminate);
    intros E; injection E as <- <-; destruct mx; reflexivity.
Qed.

(* ================= the pure part of the scan: what [inner] returns ================= *)
Definition same_lists (u u' : uscan) : Prop :=
  u_done u' = u_done u /\ u_new u' = u_new u /\ u_wake u' = u_wake u /\ u_test u' = u_test u /\
  u_late u' = u_late u /\ u_wty u' = u_wty u.
Lemma same_lists_refl u : same_lists u u. Proof. repeat split. Qed.
Lemma same_lists_trans a b c : same_lists a b -> same_lists b c -> same_lists a c.
Proof. unfold same_lists. intuition congruence. Qed.

Definition noAF (s : Z) : Prop := has s MU_ALL_FALSE = false.
Lemma noAF_clear s : noAF (band s (bnot32 MU_ALL_FALSE)).
Proof.
  unfold noAF, has, band, bnot32. change MU_ALL_FALSE with 128. change (4294967295 - 128) with 4294967167.
  rewrite <- Z.land_assoc. change (Z.land 4294967167 128) with 0. rewrite Z.land_0_r. reflexivity.
Qed.
Lemma noAF_set_ww s : noAF (set_ww s).
Proof. unfold set_ww. apply noAF_clear. Qed.

(* the waiters [inner] stepped over: unconditional ones that could not be woken; MU_ALL_FALSE was dropped for them *)
Definition skipped_ok (w : world) (u u' : uscan) (sk : list nat) : Prop :=
  Forall (fun x => wcond w x = None) sk /\ ((sk = [] /\ u_set u' = u_set u) \/ noAF (u_set u')).

Lemma inner_spec w m : forall rest u,
  match inner w m u rest with
  | InPc p =>
      (p = Crash 5 /\ u_test u = false /\ u_wty u <> Some W /\ exists x, In x rest /\ wcond w x <> None) \/
      exists u' sk x tl, same_lists u u' /\ rest = sk ++ x :: tl /\ u_rest u' = x :: tl /\ skipped_ok w u u' sk /\
        ((p = UsEval m u' /\ wcond w x <> None /\ u_test u = true) \/
         (p = RmLoad (KScan m u') /\ wcond w x = None /\ wakeable w u' x = true))
  | InEnd u' => exists sk, same_lists u u' /\ rest = sk ++ u_rest u' /\ skipped_ok w u u' sk /\
                           (u_rest u' = [] \/ u_wty u = Some W)
  end.
Proof.
  induction rest as [|p tl IH]; intros u; cbn [inner].
  - exists []. split; [repeat split|]. split; [reflexivity|]. split; [| left; reflexivity].
    split; [constructor | left; split; reflexivity].
  - assert (K : forall r, r = (match wcond w p with
            | Some _ => if u_test u then InPc (UsEval m (set_rest u (p :: tl))) else InPc (Crash 5)
            | None => if wakeable w u p then InPc (RmLoad (KScan m (set_rest u (p :: tl))))
                      else inner w m (set_uset u (set_ww (u_set u))) tl
            end) -> u_wty u <> Some W ->
            match r with
            | InPc p0 =>
                (p0 = Crash 5 /\ u_test u = false /\ u_wty u <> Some W /\ exists x, In x (p :: tl) /\ wcond w x <> None) \/
                exists u' sk x tl', same_lists u u' /\ p :: tl = sk ++ x :: tl' /\ u_rest u' = x :: tl' /\ skipped_ok w u u' sk /\
                  ((p0 = UsEval m u' /\ wcond w x <> None /\ u_test u = true) \/
                   (p0 = RmLoad (KScan m u') /\ wcond w x = None /\ wakeable w u' x = true))
            | InEnd u' => exists sk, same_lists u u' /\ p :: tl = sk ++ u_rest u' /\ skipped_ok w u u' sk /\
                                     (u_rest u' = [] \/ u_wty u = Some W)
            end).
    { intros r -> HW. destruct (wcond w p) as [c|] eqn:Ec.
      - destruct (u_test u) eqn:T.
        + right. exists (set_rest u (p :: tl)), [], p, tl. split; [repeat split|]. split; [reflexivity|].
          split; [reflexivity|]. split; [split; [constructor | left; split; reflexivity]|].
          left. split; [reflexivity|]. split; [congruence | reflexivity].
        + left. split; [reflexivity|]. split; [reflexivity|]. split; [exact HW|]. exists p. split; [left; reflexivity | congruence].
      - destruct (wakeable w u p) eqn:Wk.
        + right. exists (set_rest u (p :: tl)), [], p, tl. split; [repeat split|]. split; [reflexivity|].
          split; [reflexivity|]. split; [split; [constructor | left; split; reflexivity]|].
          right. split; [reflexivity|]. split; [exact Ec | exact Wk].
        + specialize (IH (set_uset u (set_ww (u_set u)))).
          destruct (inner w m (set_uset u (set_ww (u_set u))) tl) as [p0|u'].
          * destruct IH as [(A & B & C & x & D & E) | (u' & sk & x & tl' & A & B & C & (D1 & D2) & E)].
            -- left. split; [exact A|]. split; [exact B|]. split; [exact C|]. exists x. split; [right; exact D | exact E].
            -- right. exists u', (p :: sk), x, tl'. split; [exact A|]. split; [rewrite B; reflexivity|]. split; [exact C|].
               split; [| exact E]. split; [constructor; [exact Ec | exact D1]|]. right.
               destruct D2 as [[_ D2] | D2]; [rewrite D2; apply noAF_set_ww | exact D2].
          * destruct IH as (sk & A & B & (D1 & D2) & E). exists (p :: sk). split; [exact A|]. split; [rewrite B; reflexivity|].
            split; [| exact E]. split; [constructor; [exact Ec | exact D1]|]. right.
            destruct D2 as [[_ D2] | D2]; [rewrite D2; apply noAF_set_ww | exact D2]. }
    destruct (u_wty u) as [[|]|] eqn:Ew.
    + exists []. split; [repeat split|]. split; [reflexivity|]. split; [| right; reflexivity].
      split; [constructor | left; split; reflexivity].
    + apply K; [reflexivity | discriminate].
    + apply K; [reflexivity | discriminate].
Qed.

(* ================= world-level helpers ================= *)
Lemma winfo_TS t wb W x s' : TS t wb W x s' -> forall y, winfo W y = fupd (winfo wb) t (info_of (t_pc s') (mw s')) y.
Proof.
  intros HT y. pose proof (TS_get _ _ _ _ _ HT) as Eg. destruct HT as (_ & E & L).
  unfold winfo. destruct (Nat.eq_dec y t) as [->|N].
  - rewrite fupd_eq, Eg. reflexivity.
  - rewrite fupd_neq by exact N. unfold get. rewrite E, nth_lupd_other by exact N. reflexivity.
Qed.
Lemma L1_of_TS t wb W x s' : TS t wb W x s' -> L1v W (fupd (winfo wb) t (info_of (t_pc s') (mw s'))) -> L1 W.
Proof. intros HT H. unfold L1. eapply L1a_ext; [apply (winfo_TS _ _ _ _ _ HT) | exact H]. Qed.

Lemma fupd_fupd (A : Type) (f : nat -> A) t a b x : fupd (fupd f t a) t b x = fupd f t b x.
Proof. unfold fupd. destruct (Nat.eqb x t); reflexivity. Qed.

Lemma L1v_ext w I I' : (forall y, I' y = I y) -> L1v w I -> L1v w I'.
Proof. apply L1a_ext. Qed.

(* thread t "holds the spinlock": nobody is inside nsync_remove_from_mu_queue_ after a timeout, nobody else is at a pc
   of the scan at which mu->waiters is known to be empty *)
Definition quiet (I : nat -> info) (t : nat) : Prop :=
  (forall x, i_kt (I x) = false) /\ (forall x k u, x <> t -> i_sk (I x) = Some (k, u) -> ~ wants_empty k u).
Lemma quiet_fupd I t i : quiet I t -> i_kt i = false -> quiet (fupd I t i) t.
Proof.
  intros [A B] E. split.
  - intros x. destruct (Nat.eq_dec x t) as [->|N]; [rewrite fupd_eq; exact E | rewrite fupd_neq by exact N; apply A].
  - intros x k u N. rewrite fupd_neq by exact N. apply B; exact N.
Qed.

Lemma sinfo_local w I t mx k u k' u' :
  L1v w I -> I t = sinfo mx k u -> u_done u' = u_done u -> u_new u' = u_new u -> u_wake u' = u_wake u ->
  (exists pre, u_new u' = pre ++ u_rest u') ->
  kind_ok (queue w) (wcond w) k' u' -> L1v w (fupd I t (sinfo mx k' u')).
Proof.
  intros H E A B C Hs Hk. unfold L1v in *.
  eapply L1a_local; [exact H | rewrite E; cbn [i_sk sinfo lists_rel]; auto | unfold iwk; rewrite E; cbn [i_sk sinfo]; exact C
                    | reflexivity | reflexivity | reflexivity | reflexivity | | | | ];
    cbn [sinfo i_mq i_pe i_pq i_kt]; rewrite ?E; cbn [sinfo i_mq i_pe i_pq i_kt]; try discriminate; auto; congruence.
Qed.

(* ================= the scan on worlds ================= *)
Lemma end_inner_set_lists u : same_lists u (end_inner_set u) /\ u_rest (end_inner_set u) = u_rest u.
Proof. unfold end_inner_set. destruct (u_rest u) eqn:E; (split; [repeat split | try exact E; reflexivity]). Qed.
Lemma rings_of_set_rings w pn : rings_of (set_rings w pn) = pn.
Proof. destruct pn; reflexivity. Qed.

Lemma round_end_fields w u :
  queue (fst (round_end w u)) = [] /\
  rings_of (fst (round_end w u)) = maybe_merge (wcond w) (weq w) (cls w) (rings_of w) (last_opt (u_done u)) (first_opt (u_new u)) /\
  wcond (fst (round_end w u)) = wcond w /\ cls (fst (round_end w u)) = cls w /\ waiting (fst (round_end w u)) = waiting w /\
  rcount (fst (round_end w u)) = rcount w /\ wtype (fst (round_end w u)) = wtype w /\ weq (fst (round_end w u)) = weq w /\
  pst (fst (round_end w u)) = pst w /\ word (fst (round_end w u)) = word w /\ thr (fst (round_end w u)) = thr w /\
  snd (round_end w u) = mk_us (u_test u) (u_late u) (u_done u ++ u_new u) (queue w) [] (u_wake u) (u_wty u) (u_set u).
Proof.
  unfold round_end, w_merge. cbn [fst snd]. split; [reflexivity|]. split; [| repeat split].
  set (pn := maybe_merge _ _ _ _ _ _). unfold rings_of. cbn [scp scn set_queue set_rings]. symmetry. apply surjective_pairing.
Qed.

Lemma round_end_L1 mx t w u k I :
  L1v w I -> I t = sinfo mx k u -> (forall x, i_kt (I x) = false) ->
  L1v (fst (round_end w u)) (fupd I t (sinfo mx SRel (snd (round_end w u)))).
Proof.
  intros H E Hk. destruct (round_end_fields w u) as (E1 & E2 & E3 & E4 & E5 & E6 & _ & _ & _ & _ & _ & E7).
  unfold L1v. rewrite E1, E2, E3, E4, E5, E6, E7.
  eapply (L1a_round_end (queue w) (rings_of w) (wcond w) (weq w) (cls w) (waiting w) (rcount w) I t k u);
    [exact H | rewrite E; reflexivity | reflexivity | reflexivity | reflexivity | reflexivity | reflexivity
    | rewrite E; reflexivity | rewrite E; reflexivity | reflexivity | reflexivity | exact Hk].
Qed.

Lemma finalize_L1 mx t m w u k I :
  L1v w I -> I t = sinfo mx k u -> queue w = [] -> u_new u = [] -> quiet I t ->
  L1v (fst (finalize w m u)) (fupd I t (info_of (snd (finalize w m u)) mx)).
Proof.
  intros H E Hq Hn [_ Hne]. unfold finalize, L1v in *. cbn [fst snd]. rewrite Hq in H.
  eapply (L1a_finalize (rings_of w) (wcond w) (cls w) (waiting w) (rcount w) I t k u);
    [exact H | rewrite E; reflexivity | exact Hn | reflexivity | reflexivity
    | rewrite E; destruct mx; reflexivity | rewrite E; destruct mx; reflexivity | reflexivity | reflexivity | exact Hne].
Qed.

Lemma scan_from_nil f w m u : u_new u = [] -> scan_from (S f) w m u = finalize w m u.
Proof. intros E. cbn [scan_from]. rewrite E. reflexivity. Qed.


Definition lists_eq (u u' : uscan) : Prop := u_done u' = u_done u /\ u_new u' = u_new u /\ u_wake u' = u_wake u.

Lemma collapse3 (I : nat -> info) t a b c y : fupd (fupd (fupd I t a) t b) t c y = fupd I t c y.
Proof. rewrite !fupd_fupd. reflexivity. Qed.
Lemma collapse2 (I : nat -> info) t a b y : fupd (fupd I t a) t b y = fupd I t b y.
Proof. apply fupd_fupd. Qed.

(* the end of a round that is followed by another look at mu->waiters while the spinlock is held:
   nothing can have arrived, the scan is over *)
Lemma round_end_then_scan mx t m w u k I f :
  L1v w I -> I t = sinfo mx k u -> queue w = [] -> quiet I t ->
  let '(w2, u3) := round_end w u in
  L1v (fst (scan_from (S f) w2 m u3)) (fupd I t (info_of (snd (scan_from (S f) w2 m u3)) mx)).
Proof.
  intros H E Hq HQ. pose proof (round_end_L1 mx t w u k I H E (proj1 HQ)) as H2.
  destruct (round_end_fields w u) as (E1 & _ & _ & _ & _ & _ & _ & _ & _ & _ & _ & E7).
  destruct (round_end w u) as [w2 u3]. cbn [fst snd] in *.
  assert (En : u_new u3 = []) by (rewrite E7, Hq; reflexivity).
  rewrite scan_from_nil by exact En.
  eapply L1v_ext; [intros y; symmetry; apply collapse2|].
  eapply (finalize_L1 mx t m w2 u3 SRel); [exact H2 | apply fupd_eq | exact E1 | exact En | apply quiet_fupd; [exact HQ | reflexivity]].
Qed.

Lemma scan_from_L1 mx t m w u k I f :
  L1v w I -> I t = sinfo mx k u -> queue w = [] -> quiet I t ->
  snd (scan_from (S (S f)) w m u) = Crash 5 \/
  L1v (fst (scan_from (S (S f)) w m u)) (fupd I t (info_of (snd (scan_from (S (S f)) w m u)) mx)).
Proof.
  intros H E Hq HQ. destruct (u_new u) as [|p rest] eqn:En.
  - rewrite scan_from_nil by exact En. right. eapply finalize_L1; eauto.
  - cbn [scan_from]. rewrite En.
    set (t' := adjust_test w u p).
    set (u1 := mk_us t' (u_late u) (u_done u) (p :: rest) (p :: rest) (u_wake u) (u_wty u) (u_set u)).
    destruct t' eqn:Et.
    + right. cbn [fst snd]. rewrite (info_of_scan (RelLoad (KScan m u1) true) mx SRel u1 eq_refl).
      eapply sinfo_local; [exact H | exact E | reflexivity | cbn; symmetry; exact En | reflexivity | exists []; reflexivity | exact Hq].
    + pose proof (inner_spec w m (p :: rest) u1) as Hin.
      destruct (inner w m u1 (p :: rest)) as [p0|u2].
      * cbn [fst snd]. destruct Hin as [(-> & _) | (u' & sk & x & tl & SL & Er & Eu & _ & [(-> & _ & T) | (-> & Hc & _)])]; [left; reflexivity | discriminate T |].
        right. rewrite (info_of_scan (RmLoad (KScan m u')) mx SRm u' eq_refl). destruct SL as (A & B & C & _).
        eapply sinfo_local; [exact H | exact E | rewrite A; reflexivity | rewrite B; cbn; symmetry; exact En | rewrite C; reflexivity
                            | exists sk; rewrite B, Eu; exact Er |].
        cbn [kind_ok]. rewrite Eu. split; [discriminate | intros _; exact Hq].
      * right. destruct Hin as (sk & (A & B & C & _) & Er & _ & _).
        destruct (end_inner_set_lists u2) as [(A2 & B2 & C2 & _) R2].
        assert (H1 : L1v w (fupd I t (sinfo mx SSpin (end_inner_set u2)))).
        { eapply sinfo_local; [exact H | exact E | rewrite A2, A; reflexivity | rewrite B2, B; cbn; symmetry; exact En
                              | rewrite C2, C; reflexivity | exists sk; rewrite B2, B, R2; exact Er | exact Logic.I]. }
        pose proof (round_end_then_scan mx t m w (end_inner_set u2) SSpin _ f H1 (fupd_eq _ _ _ _) Hq
                      (quiet_fupd I t (sinfo mx SSpin (end_inner_set u2)) HQ eq_refl)) as K.
        destruct (round_end w (end_inner_set u2)) as [w2 u3].
        eapply L1v_ext; [intros y; symmetry; apply collapse2 | exact K].
Qed.

Lemma after_inner_L1 mx t m w u0 k I r :
  L1v w I -> I t = sinfo mx k u0 ->
  match r with
  | InPc p => p = Crash 5 \/ exists k' u', sk_of p = Some (k', u') /\ lists_eq u0 u' /\ (exists pre, u_new u' = pre ++ u_rest u') /\
                                           kind_ok (queue w) (wcond w) k' u'
  | InEnd u' => lists_eq u0 u' /\ (exists pre, u_new u' = pre ++ u_rest u') /\ (u_test u' = false -> queue w = [] /\ quiet I t)
  end ->
  snd (after_inner w m r) = Crash 5 \/
  L1v (fst (after_inner w m r)) (fupd I t (info_of (snd (after_inner w m r)) mx)).
Proof.
  intros H E Hr. destruct r as [p|u]; cbn [after_inner].
  - cbn [fst snd]. destruct Hr as [-> | (k' & u' & Es & (A & B & C) & Hs & Hk)]; [left; reflexivity | right].
    rewrite (info_of_scan _ mx k' u' Es). eapply sinfo_local; eauto.
  - destruct Hr as ((A & B & C) & Hs & Hq). destruct (end_inner_set_lists u) as [(A2 & B2 & C2 & T2 & _) R2].
    assert (H1 : L1v w (fupd I t (sinfo mx SSpin (end_inner_set u)))).
    { eapply sinfo_local; [exact H | exact E | rewrite A2, A; reflexivity | rewrite B2, B; reflexivity
                          | rewrite C2, C; reflexivity | rewrite B2, R2; exact Hs | exact Logic.I]. }
    destruct (u_test (end_inner_set u)) eqn:T.
    + right. cbn [fst snd]. rewrite (info_of_scan (SpinLoad (KScan m (end_inner_set u)) true) mx SSpin (end_inner_set u) eq_refl). exact H1.
    + right. symmetry in T2. destruct (Hq T2) as [Hq1 Hq2].
      pose proof (round_end_then_scan mx t m w (end_inner_set u) SSpin _ 2 H1 (fupd_eq _ _ _ _) Hq1
                    (quiet_fupd I t (sinfo mx SSpin (end_inner_set u)) Hq2 eq_refl)) as K.
      destruct (round_end w (end_inner_set u)) as [w2 u3].
      eapply L1v_ext; [intros y; symmetry; apply collapse2 | exact K].
Qed.

(* from [inner_spec] to the hypothesis of [after_inner_L1] *)
Lemma inner_pre w m u0 u rest I t :
  lists_eq u0 u -> (exists pre, u_new u0 = pre ++ rest) -> (u_test u = false -> queue w = [] /\ quiet I t) ->
  match inner w m u rest with
  | InPc p => p = Crash 5 \/ exists k' u', sk_of p = Some (k', u') /\ lists_eq u0 u' /\ (exists pre, u_new u' = pre ++ u_rest u') /\
                                           kind_ok (queue w) (wcond w) k' u'
  | InEnd u' => lists_eq u0 u' /\ (exists pre, u_new u' = pre ++ u_rest u') /\ (u_test u' = false -> queue w = [] /\ quiet I t)
  end.
Proof.
  intros (A & B & C) [pre Hp] Hq. pose proof (inner_spec w m rest u) as Hin.
  destruct (inner w m u rest) as [p|u'].
  - destruct Hin as [(-> & _) | (u' & sk & x & tl & (A1 & B1 & C1 & T1 & _) & Er & Eu & _ & Hc)]; [left; reflexivity | right].
    assert (L : lists_eq u0 u') by (unfold lists_eq; rewrite A1, B1, C1; auto).
    assert (S : exists pre0, u_new u' = pre0 ++ u_rest u').
    { exists (pre ++ sk). rewrite B1, B, Hp, Er, Eu, app_assoc. reflexivity. }
    destruct Hc as [(-> & Hc & T) | (-> & Hc & _)].
    + exists SEval, u'. split; [reflexivity|]. split; [exact L|]. split; [exact S|]. exists x, tl. auto.
    + exists SRm, u'. split; [reflexivity|]. split; [exact L|]. split; [exact S|]. cbn [kind_ok]. rewrite Eu.
      split; [discriminate|]. rewrite T1. intros T. apply Hq; exact T.
  - destruct Hin as (sk & (A1 & B1 & C1 & T1 & _) & Er & _ & _).
    split; [unfold lists_eq; rewrite A1, B1, C1; auto|]. split.
    + exists (pre ++ sk). rewrite B1, B, Hp, Er, app_assoc. reflexivity.
    + rewrite T1. exact Hq.
Qed.

(* ================= ownership facts from the invariant of MuWaitProof ================= *)
Section World.
Variable n : nat.
Hypothesis Hn : Z.of_nat n < 16777215.

Lemma spin_unique w t1 t2 : Inv n w -> spin (get w t1) = true -> spin (get w t2) = true -> t1 = t2.
Proof.
  intros (L & (Rx & HW & HR & HX & HS) & _) H1 H2. unfold get in *.
  assert (forall t, spin (nth t (thr w) dflt_t) = true -> (t < length (thr w))%nat) as LT.
  { intros t H. destruct (Nat.lt_ge_cases t (length (thr w))) as [|G]; [assumption|]. rewrite nth_overflow in H by assumption. discriminate H. }
  destruct (Nat.eq_dec t1 t2) as [|N]; [assumption | exfalso].
  pose proof (cntp_two spin (thr w) t1 t2 eq_refl (LT _ H1) (LT _ H2) N H1 H2). pose proof (b1_range (word w)).
  unfold cntS in HS. lia.
Qed.

Lemma pc_ok_get w x : Inv n w -> pc_ok (get w x).
Proof. intros (_ & _ & H). apply H. Qed.

Lemma scl_own w x : Inv n w -> scl (t_pc (get w x)) = true -> spin (get w x) = true \/ held (get w x) = Some W.
Proof.
  intros HI H. pose proof (pc_ok_get w x HI) as Hok. unfold pc_ok, scanning in Hok.
  assert (K : forall u lt, u_test u = true -> uscan_ok lt u -> own_ok (get w x) lt -> held (get w x) = Some W).
  { intros u lt T (_ & _ & C & _) [(_ & E & _) | (E & _)]; [exact E | rewrite (C T) in E; discriminate E]. }
  destruct (t_pc (get w x)) eqn:Ep; cbn in H; try discriminate H; try (destruct k; cbn in H; try discriminate H);
    destruct Hok as (_ & lt & Hown & Hsc); cbn [scan_pc_ok] in Hsc.
  all: try (destruct Hsc as (-> & _); left; reflexivity).
  all: try (destruct Hsc as (_ & T & Hu); right; apply (K u lt T); [first [exact Hu | apply Hu] | exact Hown]).
  all: destruct Hsc as (Es & Hu); destruct (u_test u) eqn:T; [right; apply (K u lt T Hu Hown) | left; exact Es].
Qed.

Lemma wants_empty_spin w x k u : Inv n w -> sk_of (t_pc (get w x)) = Some (k, u) -> wants_empty k u -> spin (get w x) = true.
Proof.
  intros HI E Hw. pose proof (pc_ok_get w x HI) as Hok. unfold pc_ok, scanning in Hok.
  destruct (t_pc (get w x)) eqn:Ep; cbn in E; try discriminate E; try (destruct k0; cbn in E; try discriminate E);
    injection E as <- <-; destruct Hok as (_ & lt & Hown & Hsc); cbn [scan_pc_ok] in Hsc;
    destruct Hw as [Hw | [Hw T]]; try discriminate Hw.
  all: try (destruct Hsc as (-> & _); reflexivity).
  all: destruct Hsc as (Es & _); rewrite T in Es; exact Es.
Qed.

Lemma kt_own w x : Inv n w -> kt_of (t_pc (get w x)) = true -> spin (get w x) = true /\ held (get w x) = Some W.
Proof.
  intros HI H. pose proof (pc_ok_get w x HI) as Hok. unfold pc_ok, try_frozen, in_mw, own in Hok.
  destruct (t_pc (get w x)) eqn:Ep; cbn in H; try discriminate H; destruct k; try discriminate H;
    destruct Hok as ((y & _ & (A & B & _) & _) & _); auto.
Qed.

(* when t owns the spinlock after a step that left the other threads alone *)
Lemma quiet_of_spin w w' t : Inv n w' -> spin (get w' t) = true -> (forall x, x <> t -> get w' x = get w x) ->
  kt_of (t_pc (get w t)) = false -> quiet (winfo w) t.
Proof.
  intros HI Hs Ho Hk. split.
  - intros x. unfold winfo, info_of; cbn [i_kt]. destruct (Nat.eq_dec x t) as [->|N]; [exact Hk|].
    destruct (kt_of (t_pc (get w x))) eqn:E; [exfalso | reflexivity]. rewrite <- (Ho x N) in E.
    destruct (kt_own w' x HI E) as [A _]. apply N. exact (spin_unique w' x t HI A Hs).
  - intros x k u N E Hw. unfold winfo, info_of in E; cbn [i_sk] in E. rewrite <- (Ho x N) in E.
    apply N. apply (spin_unique w' x t HI); [exact (wants_empty_spin w' x k u HI E Hw) | exact Hs].
Qed.
Lemma quiet_of_spin0 w t : Inv n w -> spin (get w t) = true -> kt_of (t_pc (get w t)) = false -> quiet (winfo w) t.
Proof. intros HI Hs Hk. apply (quiet_of_spin w w t HI Hs); auto. Qed.

Lemma U1_step w w' t : U1 w -> (forall x, x <> t -> get w' x = get w x) ->
  (scl (t_pc (get w' t)) = true -> scl (t_pc (get w t)) = true) -> U1 w'.
Proof.
  intros HU Ho Hs t1 t2 A B.
  assert (K : forall x, scl (t_pc (get w' x)) = true -> scl (t_pc (get w x)) = true).
  { intros x. destruct (Nat.eq_dec x t) as [->|N]; [exact Hs | rewrite (Ho x N); auto]. }
  apply HU; apply K; assumption.
Qed.
End World.

(* ================= world-level packaging of the local transition ================= *)
Lemma lists_rel_same q rg wc cl wa rc I t : L1a q rg wc cl wa rc I -> lists_rel q wc (i_sk (I t)) (i_sk (I t)).
Proof.
  intros H. unfold lists_rel. destruct (i_sk (I t)) as [[k u]|] eqn:E; [| exact Logic.I].
  destruct (a_r2 _ _ _ _ _ _ _ H t k u E) as (_ & _ & A & B). auto.
Qed.

Lemma L1_local w W t x s' :
  L1 w -> TS t w W x s' ->
  queue W = queue w -> rings_of W = rings_of w -> cls W = cls w -> rcount W = rcount w ->
  (forall p, p <> t -> wcond W p = wcond w p) -> (i_mq (winfo w t) = true -> waiting w t = true -> wcond W t = wcond w t) ->
  (forall p, p <> t -> waiting W p = waiting w p) -> (i_mq (winfo w t) = true -> waiting w t = true -> waiting W t = waiting w t) ->
  forall i', i' = info_of (t_pc s') (mw s') ->
  lists_rel (queue w) (wcond W) (i_sk (winfo w t)) (i_sk i') -> iwk i' = iwk (winfo w t) ->
  (i_mq i' = false -> i_mq (winfo w t) = true -> waiting w t = false) ->
  (forall v, i_pe i' = Some v -> i_pe (winfo w t) = Some v) ->
  (forall o, i_pq i' = Some o -> waiting W t = true /\ i_mq i' = false /\ forall v, o = Some v -> rcount w t = v) ->
  (i_kt i' = true -> In t (queue w)) ->
  L1 W.
Proof.
  intros H HT Eq Er Ec Erc Hwc Hwct Hwa Hwat i' -> HL Hwk Hlv Hpe Hpq Hkt.
  apply (L1_of_TS _ _ _ _ _ HT). unfold L1v. rewrite Eq, Er, Ec, Erc.
  eapply L1a_local; eauto.
Qed.

(* ================= fields untouched by the thread-state updates ================= *)
Lemma acquire_proj (A : Type) (f : world -> A) w t m : (forall w l, f (set_thr w l) = f w) -> f (acquire w t m) = f w.
Proof. intros H. unfold acquire. destruct (mw (get _ t)); unfold set_pc, set_held, set_own, set_t; rewrite !H; reflexivity. Qed.
Lemma ret_unlock_proj (A : Type) (f : world -> A) w t : (forall w l, f (set_thr w l) = f w) -> f (ret_unlock w t) = f w.
Proof. intros H. unfold ret_unlock. destruct (mw (get _ t)); unfold set_pc, set_t; rewrite !H; reflexivity. Qed.
Definition acq_queue w t m := acquire_proj _ queue w t m (fun _ _ => eq_refl).
Definition acq_rings w t m := acquire_proj _ rings_of w t m (fun _ _ => eq_refl).
Definition acq_wcond w t m := acquire_proj _ wcond w t m (fun _ _ => eq_refl).
Definition acq_cls w t m := acquire_proj _ cls w t m (fun _ _ => eq_refl).
Definition acq_waiting w t m := acquire_proj _ waiting w t m (fun _ _ => eq_refl).
Definition acq_rcount w t m := acquire_proj _ rcount w t m (fun _ _ => eq_refl).
Definition acq_wtype w t m := acquire_proj _ wtype w t m (fun _ _ => eq_refl).
Definition acq_pst w t m := acquire_proj _ pst w t m (fun _ _ => eq_refl).
Definition acq_word w t m := acquire_proj _ word w t m (fun _ _ => eq_refl).
Definition ru_queue w t := ret_unlock_proj _ queue w t (fun _ _ => eq_refl).
Definition ru_rings w t := ret_unlock_proj _ rings_of w t (fun _ _ => eq_refl).
Definition ru_wcond w t := ret_unlock_proj _ wcond w t (fun _ _ => eq_refl).
Definition ru_cls w t := ret_unlock_proj _ cls w t (fun _ _ => eq_refl).
Definition ru_waiting w t := ret_unlock_proj _ waiting w t (fun _ _ => eq_refl).
Definition ru_rcount w t := ret_unlock_proj _ rcount w t (fun _ _ => eq_refl).
Definition ru_wtype w t := ret_unlock_proj _ wtype w t (fun _ _ => eq_refl).
Definition ru_pst w t := ret_unlock_proj _ pst w t (fun _ _ => eq_refl).
Definition ru_word w t := ret_unlock_proj _ word w t (fun _ _ => eq_refl).
Ltac fldr :=
  rewrite ?acq_queue, ?acq_rings, ?acq_wcond, ?acq_cls, ?acq_waiting, ?acq_rcount, ?acq_wtype, ?acq_pst, ?acq_word,
          ?ru_queue, ?ru_rings, ?ru_wcond, ?ru_cls, ?ru_waiting, ?ru_rcount, ?ru_wtype, ?ru_pst, ?ru_word.
Ltac fldp :=
  intros; fldr;
  first [ reflexivity
        | cbn [wcond waiting rcount set_pc set_t set_thr set_winfo set_waiting set_queue set_rings set_rcount set_sem set_word
               set_own set_held set_spin set_mw upd_mw released mw_return add_ev log_eval set_pst];
          rewrite ?fupd_neq by assumption; reflexivity ].
Ltac fld :=
  intros;
  rewrite ?acq_queue, ?acq_rings, ?acq_wcond, ?acq_cls, ?acq_waiting, ?acq_rcount, ?acq_wtype, ?acq_pst, ?acq_word,
          ?ru_queue, ?ru_rings, ?ru_wcond, ?ru_cls, ?ru_waiting, ?ru_rcount, ?ru_wtype, ?ru_pst, ?ru_word;
  reflexivity.
Section Step.
Variable n : nat.
Hypothesis Hn : Z.of_nat n < 16777215.

Lemma get_oob' w t : (length (thr w) <= t)%nat -> get w t = dflt_t.
Proof. intros. unfold get. now apply nth_overflow. Qed.

Lemma info_begin p x : 
  match p with LkFast _ | TryFast _ | Crash _ | UlFast _ | UwFast | SetC _ _ _ | MwLoad => True | _ => False end ->
  info_of p x = info_of Idle None.
Proof. destruct p; intros []; destruct x; reflexivity. Qed.

Lemma begin_op_winfo w t : Inv n w -> forall y, winfo (begin_op w t) y = winfo w y.
Proof.
  intros HI y. destruct (Nat.eq_dec y t) as [->|N]; [| unfold winfo; rewrite begin_op_get_other by exact N; reflexivity].
  pose proof (pc_ok_get n w t HI) as Hok. unfold pc_ok in Hok.
  unfold winfo, begin_op. destruct (t_pc (get w t)) eqn:Ep; try (rewrite Ep; reflexivity).
  destruct (t_ops (get w t)) as [|o rest] eqn:Eo; [rewrite Ep; reflexivity|].
  destruct Hok as (_ & _ & Em). rewrite Em.
  destruct (Nat.lt_ge_cases t (length (thr w))) as [L|L].
  2:{ rewrite (get_oob' w t L) in Eo. discriminate Eo. }
  destruct (match o with OLock m => _ | _ => _ end) as [p x] eqn:Eq.
  unfold get at 1 2, set_t, set_thr; cbn [thr]. rewrite nth_lupd_same by exact L. cbn [t_pc mw].
  apply info_begin. destruct o as [m|m| | |f a b|c e d k], (held (get w t)) as [[|]|]; injection Eq as <- <-; exact Logic.I.
Qed.

Lemma begin_op_fields w t :
  queue (begin_op w t) = queue w /\ rings_of (begin_op w t) = rings_of w /\ wcond (begin_op w t) = wcond w /\
  cls (begin_op w t) = cls w /\ waiting (begin_op w t) = waiting w /\ rcount (begin_op w t) = rcount w.
Proof.
  unfold begin_op. destruct (t_pc (get w t)); try (repeat split; reflexivity).
  destruct (t_ops (get w t)); [repeat split; reflexivity|].
  destruct (match o with OLock m => _ | _ => _ end) as [p x]. repeat split; reflexivity.
Qed.

Lemma begin_op_L1 w t : Inv n w -> L1 w -> L1 (begin_op w t).
Proof.
  intros HI H. unfold L1, L1v. destruct (begin_op_fields w t) as (-> & -> & -> & -> & -> & ->).
  eapply L1a_ext; [apply (begin_op_winfo w t HI) | exact H].
Qed.
Lemma begin_op_U1 w t : Inv n w -> U1 w -> U1 (begin_op w t).
Proof.
  intros HI H t1 t2 A B.
  assert (K : forall y, scl (t_pc (get (begin_op w t) y)) = true -> scl (t_pc (get w y)) = true).
  { intros y. pose proof (begin_op_winfo w t HI y) as E. unfold winfo, info_of in E.
    injection E as E1 E2 _ _ _ _. unfold scl. rewrite E1.
    destruct (sk_of (t_pc (get w y))); [auto|].
    destruct (Nat.eq_dec y t) as [->|N]; [| rewrite begin_op_get_other by exact N; auto].
    unfold begin_op. destruct (t_pc (get w t)) eqn:Ep; try (rewrite Ep; auto; fail).
    destruct (t_ops (get w t)) as [|o rest] eqn:Eo; [rewrite Ep; auto|].
    destruct (Nat.lt_ge_cases t (length (thr w))) as [L|L].
    2:{ rewrite (get_oob' w t L) in Eo. discriminate Eo. }
    destruct (match o with OLock m => _ | _ => _ end) as [p x] eqn:Eq.
    unfold get at 1, set_t, set_thr; cbn [thr]. rewrite nth_lupd_same by exact L. cbn [t_pc].
    destruct o as [m|m| | |f a b|c e d k], (held (get w t)) as [[|]|]; injection Eq as <- <-; discriminate. }
  apply H; apply K; assumption.
Qed.

Lemma frozen_in_queue w t v : Inv n w -> L1 w -> held (get w t) = Some W -> spin (get w t) = true ->
  sk_of (t_pc (get w t)) = None -> i_pe (winfo w t) = Some v -> rcount w t = v -> In t (queue w).
Proof.
  intros HI HL Hh Hsp Hsk Hpe Hrc.
  destruct (proj2 (a_i3 _ _ _ _ _ _ _ HL t v Hpe) Hrc) as [A | [t' A]]; [exact A | exfalso].
  unfold winfo, info_of, irl in A; cbn [i_sk] in A.
  destruct (sk_of (t_pc (get w t'))) as [[k u]|] eqn:E; [| destruct A].
  destruct (Nat.eq_dec t' t) as [->|N]; [congruence|].
  destruct (Inv_sole n w t t' HI Hh Hsp N) as [P1 P2].
  destruct (scl_own n w t' HI) as [B|B]; [unfold scl; rewrite E; reflexivity | congruence | congruence].
Qed.

Lemma L1_wake w W t x s' p rest :
  L1 w -> TS t w W x s' ->
  queue W = queue w -> rings_of W = rings_of w -> cls W = cls w -> rcount W = rcount w -> wcond W = wcond w ->
  waiting W = fupd (waiting w) p false ->
  i_sk (winfo w t) = None -> i_wk (winfo w t) = p :: rest ->
  forall i', i' = info_of (t_pc s') (mw s') ->
  i_sk i' = None -> i_wk i' = rest -> i_mq i' = i_mq (winfo w t) -> i_pe i' = i_pe (winfo w t) -> i_pq i' = None -> i_kt i' = false ->
  L1 W.
Proof.
  intros H HT Eq Er Ec Erc Ewc Ewa Hsk Hwk i' -> A1 A2 A3 A4 A5 A6.
  apply (L1_of_TS _ _ _ _ _ HT). unfold L1v. rewrite Eq, Er, Ec, Erc, Ewc, Ewa.
  eapply L1a_wake; eauto.
Qed.

Lemma L1_enq w W t x s' :
  L1 w -> TS t w W x s' ->
  (queue W = queue w ++ [t] \/ queue W = t :: queue w) -> cls W = cls w -> rcount W = rcount w -> wcond W = wcond w ->
  (~ In t (queue w) -> single (rings_of w) t ->
   RingInv (wcond w) (cls w) (rings_of W) (queue W) /\ frame (rings_of w) (rings_of W) (t :: queue w)) ->
  waiting W t = true -> (forall p, p <> t -> waiting W p = waiting w p) ->
  i_mq (winfo w t) = false -> i_sk (winfo w t) = None -> i_wk (winfo w t) = [] ->
  forall i', i' = info_of (t_pc s') (mw s') ->
  i_sk i' = None -> i_wk i' = [] -> i_mq i' = true -> (forall v, i_pe i' = Some v -> rcount w t = v) ->
  i_pq i' = None -> i_kt i' = false ->
  (forall y k u, i_sk (winfo w y) = Some (k, u) -> ~ wants_empty k u) ->
  L1 W.
Proof.
  intros H HT Eq Ec Erc Ewc Hr Hwt Hwa B1 B2 B3 i' -> A1 A2 A3 A4 A5 A6 Hne.
  apply (L1_of_TS _ _ _ _ _ HT). unfold L1v. rewrite Ec, Erc, Ewc.
  eapply (L1a_enq (queue w) (queue W) (rings_of w) (rings_of W)); eauto.
Qed.

Lemma no_wants_empty w W t : Inv n W -> spin (get W t) = true -> (forall y, y <> t -> get W y = get w y) ->
  sk_of (t_pc (get w t)) = None -> forall y k u, i_sk (winfo w y) = Some (k, u) -> ~ wants_empty k u.
Proof.
  intros HI Hsp Ho Hsk y k u E Hw. unfold winfo, info_of in E; cbn [i_sk] in E.
  destruct (Nat.eq_dec y t) as [->|N]; [congruence|]. rewrite <- (Ho y N) in E.
  apply N. apply (spin_unique n W y t HI); [exact (wants_empty_spin n W y k u HI E Hw) | exact Hsp].
Qed.

Lemma frame_refl r l : frame r r l.
Proof. intros x _. split; reflexivity. Qed.

Lemma rc_new_neq v : nsync_remove_from_mu_queue_cas1_new v <> v.
Proof.
  unfold nsync_remove_from_mu_queue_cas1_new, wrap_u. change (1 mod 2 ^ 32) with 1. change (2 ^ 32) with 4294967296.
  intros E. pose proof (Z.mod_pos_bound (v + 1) 4294967296 ltac:(lia)) as B.
  assert (v mod 4294967296 = v) as E2 by (apply Z.mod_small; lia).
  rewrite <- E2 in E at 2. 
  assert ((v + 1 - v) mod 4294967296 = 0) as E3.
  { rewrite Zminus_mod, E, Z.sub_diag. reflexivity. }
  replace (v + 1 - v) with 1 in E3 by lia. discriminate E3.
Qed.

Lemma L1_self_remove w W t x s' v' :
  L1 w -> TS t w W x s' ->
  queue W = fst (remove_from (wcond w) (weq w) (cls w) (rings_of w) (queue w) t) ->
  rings_of W = snd (remove_from (wcond w) (weq w) (cls w) (rings_of w) (queue w) t) ->
  cls W = cls w -> wcond W = wcond w -> waiting W = waiting w -> rcount W = fupd (rcount w) t v' ->
  v' <> rcount w t -> In t (queue w) -> i_sk (winfo w t) = None -> i_wk (winfo w t) = [] ->
  forall i', i' = info_of (t_pc s') (mw s') ->
  i_sk i' = None -> i_wk i' = [] -> i_pe i' = i_pe (winfo w t) -> i_pq i' = None -> i_kt i' = false ->
  L1 W.
Proof.
  intros H HT Eq Er Ec Ewc Ewa Erc Hv Hin B1 B2 i' -> A1 A2 A3 A4 A5.
  apply (L1_of_TS _ _ _ _ _ HT). unfold L1v. rewrite Eq, Er, Ec, Ewc, Ewa, Erc.
  eapply L1a_self_remove; eauto.
Qed.

Lemma scan_finish w w2 w3 t x s2 p' :
  TS t w w2 x s2 -> word w3 = word w2 -> thr w3 = thr w2 ->
  (p' = Crash 5 \/ L1v w3 (fupd (winfo w) t (info_of p' (mw s2)))) ->
  (t_pc (get (set_pc w3 t p') t) = Crash 5 -> False) ->
  L1 (set_pc w3 t p') /\ t_pc (get (set_pc w3 t p') t) = p'.
Proof.
  intros HT Ew Et Hp Hnc.
  assert (HT3 : TS t w (set_pc w3 t p') x (mk_t p' (t_ops s2) (held s2) (conv s2) (spin s2) (mw s2) (last_ret s2))).
  { apply TS_set_pc. eapply TS_eq; [exact HT | exact Ew | exact Et]. }
  pose proof (TS_get _ _ _ _ _ HT3) as Eg. split; [| rewrite Eg; reflexivity].
  destruct Hp as [-> | Hp]; [exfalso; apply Hnc; rewrite Eg; reflexivity|].
  apply (L1_of_TS _ _ _ _ _ HT3). exact Hp.
Qed.

Lemma winfo_scan w t k u : sk_of (t_pc (get w t)) = Some (k, u) -> winfo w t = sinfo (mw (get w t)) k u.
Proof. intros E. unfold winfo. apply info_of_scan. exact E. Qed.

Lemma L1v_scan_remove w w2 t mx k u e tl v' u2 :
  L1 w -> winfo w t = sinfo mx k u -> u_rest u = e :: tl -> v' <> rcount w e ->
  queue w2 = queue w -> rings_of w2 = snd (remove_from (wcond w) (weq w) (cls w) (rings_of w) (u_new u) e) ->
  wcond w2 = wcond w -> cls w2 = cls w -> waiting w2 = waiting w -> rcount w2 = fupd (rcount w) e v' ->
  u_done u2 = u_done u -> u_new u2 = fst (remove_from (wcond w) (weq w) (cls w) (rings_of w) (u_new u) e) ->
  u_wake u2 = u_wake u ++ [e] -> u_rest u2 = tl ->
  L1v w2 (fupd (winfo w) t (sinfo mx SSpin u2)).
Proof.
  intros H Ew Er Hv Eq Erg Ewc Ec Ewa Erc A1 A2 A3 A4. unfold L1v. rewrite Eq, Erg, Ewc, Ec, Ewa, Erc.
  eapply (L1a_scan_remove _ _ _ _ _ _ _ _ t k u e tl); [exact H | rewrite Ew; reflexivity | exact Er | exact Hv | reflexivity
    | exact A1 | exact A2 | exact A3 | exact A4 | rewrite Ew; reflexivity | rewrite Ew; reflexivity | reflexivity | reflexivity
    | rewrite Ew; reflexivity].
Qed.

Lemma L1v_scan_start w w' t mx u m old :
  L1 w -> winfo w t = info_of (UsCasSpin m old) mx ->
  u_done u = [] -> u_new u = queue w -> u_wake u = [] -> u_rest u = [] ->
  (forall y, i_kt (winfo w y) = false) ->
  queue w' = [] -> rings_of w' = rings_of w -> wcond w' = wcond w -> cls w' = cls w -> waiting w' = waiting w -> rcount w' = rcount w ->
  L1v w' (fupd (winfo w) t (sinfo mx SSpin u)).
Proof.
  intros H Ew A1 A2 A3 A4 Hk Eq Er Ewc Ec Ewa Erc. unfold L1v. rewrite Eq, Er, Ewc, Ec, Ewa, Erc.
  eapply (L1a_scan_start (queue w)); [exact H | rewrite Ew; reflexivity | rewrite Ew; reflexivity | reflexivity | exact A1 | exact A2 | exact A3
    | exists (queue w); rewrite A4; symmetry; apply app_nil_r | | | reflexivity | reflexivity | exact Hk];
    rewrite Ew; destruct mx; reflexivity.
Qed.

Ltac cas_split w :=
  unfold cas;
  match goal with |- context [word w =? ?e] => destruct (Z.eqb_spec (word w) e) as [Hcas|Hcas] end;
  cbv beta iota; cbn [fst snd].
Ltac info_simpl Hs :=
  unfold winfo, get; rewrite ?Hs;
  cbn [t_pc mw info_of sk_of wk_of mq_of us_pc pe_pc peb pq_of kt_of mwb i_sk i_wk i_mq i_pe i_pq i_kt iwk orb andb
       mw_rc mw_mode mw_cond mw_eq mw_dl mw_canc mw_first mw_hadw mw_semout mw_have mw_outcome mw_tmo mw_ent mw_of].

Lemma lists_rel_w w t k u wc' : L1 w -> i_sk (winfo w t) = Some (k, u) -> wc' = wcond w ->
  lists_rel (queue w) wc' (Some (k, u)) (Some (k, u)).
Proof. intros H E ->. rewrite <- E. eapply lists_rel_same. exact H. Qed.

Lemma pq_keep w t o wt : L1 w -> i_pq (winfo w t) = Some o -> wt = waiting w t ->
  forall o', Some o = Some o' -> wt = true /\ false = false /\ (forall v : Z, o' = Some v -> rcount w t = v).
Proof.
  intros H E -> o' Eo. injection Eo as <-. destruct (a_pq _ _ _ _ _ _ _ H t o E) as (A & _ & C). auto.
Qed.

Lemma kt_keep w t : L1 w -> i_kt (winfo w t) = true -> true = true -> In t (queue w).
Proof. intros H E _. exact (a_kt _ _ _ _ _ _ _ H t E). Qed.

Ltac boring_side w t Hs HL :=
  first [ exact Logic.I
        | discriminate
        | reflexivity
        | assumption
        | (intros; discriminate)
        | (intros; assumption)
        | (intros; congruence)
        | (eapply (lists_rel_w w t); [exact HL | info_simpl Hs; reflexivity | fld])
        | (eapply (pq_keep w t); [exact HL | info_simpl Hs; reflexivity | fldp])
        | (eapply (kt_keep w t); [exact HL | info_simpl Hs; reflexivity])
        | idtac ].

Ltac u1_tac w t HU Hoth HT Hs :=
  apply (U1_step w _ t HU Hoth); rewrite (TS_get _ _ _ _ _ HT); unfold get; rewrite ?Hs; cbn [t_pc]; unfold mw_of; cbn [mw];
  try (match goal with |- context [match ?mx with Some _ => _ | None => _ end] => destruct mx end);
  try (match goal with |- context [if ?b then _ else _] => destruct b end);
  cbn; intros; first [assumption | discriminate | reflexivity].
Ltac boring w t HL HU Hs Hlen Ht :=
  let HI' := fresh "HI'" in let Hoth := fresh "Hoth" in let Hnc := fresh "Hnc" in
  try (match goal with mx : option mwl |- _ => destruct mx end);
  intros HI' Hoth Hnc; cbn [fst] in *;
  lazymatch goal with |- L1 ?W /\ U1 ?W =>
    let HT := fresh "HT" in
    eassert (HT : TS t w W _ _) by (ts_solve; rewrite Hlen; exact Ht);
    split;
    [ eapply (L1_local w W t _ _ HL HT);
      [ fld | fld | fld | fld | try fldp | try fldp | try fldp | try fldp | reflexivity | .. ];
      info_simpl Hs; boring_side w t Hs HL
    | u1_tac w t HU Hoth HT Hs ]
  end.

Ltac mwsome Hok mx :=
  unfold try_frozen, mt_pre, in_mw in Hok; cbn [mw] in Hok;
  let x := fresh "x" in let Hx := fresh "Hx" in
  first [ destruct Hok as ((x & Hx & _) & _) | destruct Hok as (x & Hx & _) ]; subst mx.
Ltac B :=
  match goal with
  | HL : L1 ?w, HU : U1 ?w, Hlen : length (thr ?w) = _, Ht : (?t < _)%nat, Hs : nth ?t (thr ?w) dflt_t = _ |- _ =>
      boring w t HL HU Hs Hlen Ht
  end.
Lemma L1_step_thr w0 t c : Inv n w0 -> L1 w0 -> U1 w0 ->
  (t_pc (get (fst (step_thr w0 t c)) t) = Crash 5 -> t_pc (get (begin_op w0 t) t) = Crash 5) ->
  L1 (fst (step_thr w0 t c)) /\ U1 (fst (step_thr w0 t c)).
Proof.
  intros H0 HL HU Hnc.
  pose proof (step_thr_ok n Hn w0 t c H0) as (HI' & _ & _ & Hoth).
  apply (begin_op_L1 _ t H0) in HL. apply (begin_op_U1 _ t H0) in HU. apply (begin_op_inv n w0 t) in H0.
  revert HI' Hoth Hnc. unfold step_thr. set (w := begin_op w0 t) in *. clearbody w. clear w0. cbv zeta.
  destruct (Nat.lt_ge_cases t n) as [Ht|Ht].
  2:{ rewrite get_oob' by (destruct H0 as (-> & _); exact Ht). cbn. intros; split; assumption. }
  pose proof H0 as (Hlen & _ & Hok). specialize (Hok t).
  pose proof (Inv_rng n _ H0) as Rw.
  destruct (get w t) as [p ops h cv sp mx lr] eqn:Hs. unfold get in Hs. rewrite Hs in Hok.
  unfold pc_ok in Hok. cbn [t_pc t_ops held conv spin mw last_ret] in *.
  destruct p.
  - (* Idle *) cbn. intros; split; assumption.
  - (* LkFast *) destruct Hok as (Ho & ->). cas_split w; B.
  - (* LkLoad *) destruct Hok as (Ho & ->). destruct (fast_guard2 m (word w)) eqn:G; B.
  - (* LkCas2 *) destruct Hok as (Ho & -> & G). cas_split w; B.
  - (* TryFast *) destruct Hok as (Ho & ->). cas_split w; B.
  - (* TryLoad *) destruct Hok as (Ho & ->). destruct (try_guard2 m (word w)) eqn:G; B.
  - (* TryCas2 *) destruct Hok as (Ho & -> & G). cas_split w; B.
  - (* LsLoad *) destruct (nsync_mu_lock_slow_cas1_guard (word w) (zta l)) eqn:G1; [B|].
    destruct (nsync_mu_lock_slow_cas2_guard (word w) (zta l)) eqn:G2; [B | cbn; intros; split; assumption].
  - (* LsCasAcq *) cas_split w; destruct mx; B.
  - (* LsCasEnq *) cas_split w; B.
  - (* LsStoreWaiting *) destruct Hok as (Ho & _). unfold own in Ho. cbn [held spin conv] in Ho. destruct Ho as (-> & -> & ->).
    intros HI' Hoth Hnc. cbn [fst] in *.
    match goal with |- L1 ?W /\ U1 ?W => eassert (HT : TS t w W _ _) by (ts_solve; rewrite Hlen; exact Ht) end.
    split; [| u1_tac w t HU Hoth HT Hs].
    eapply (L1_enq w _ t _ _ HL HT); try reflexivity; info_simpl Hs; try reflexivity; try (destruct mx; reflexivity); try (intros; discriminate).
    + cbn [queue set_pc set_t set_thr set_queue set_waiting]. destruct (wcount l =? 0); auto.
    + intros Nt Hsg. change (rings_of (set_pc _ _ _)) with (rings_of w). split; [| apply frame_refl].
      cbn [queue set_pc set_t set_thr set_queue set_waiting]. pose proof (a_r1 _ _ _ _ _ _ _ HL) as R1.
      destruct (wcount l =? 0); [apply ring_enqueue_plain_last | apply ring_enqueue_plain_first]; assumption.
    + cbn [waiting set_pc set_t set_thr set_queue set_waiting]. apply fupd_eq.
    + intros p Np. cbn [waiting set_pc set_t set_thr set_queue set_waiting]. apply fupd_neq; exact Np.
    + destruct mx; intros; discriminate.
    + assert (Hsp : spin (get w t) = true) by (unfold get; rewrite Hs; reflexivity).
      assert (Hsk : sk_of (t_pc (get w t)) = None) by (unfold get; rewrite Hs; reflexivity).
      exact (no_wants_empty w w t H0 Hsp (fun _ _ => eq_refl) Hsk).
  - (* LsWaitLoad *) destruct (waiting w t) eqn:Ew; B.
  - (* LsSemP *) destruct (0 <? sem w t); [B | cbn; intros; split; assumption].
  - (* RelLoad *) destruct k; try contradiction; B.
  - (* RelCas *) destruct k; try contradiction.
    + cas_split w; B.
    + cas_split w; [| B].
      destruct Hok as (Hnh & lt & Hown & Hsc). cbn [scan_pc_ok spin] in Hsc. destruct Hsc as (-> & Hte & Hu).
      intros HI' Hoth Hnc.
      assert (Ew : winfo w t = sinfo mx SRel u) by (rewrite (winfo_scan w t SRel u); unfold get; rewrite Hs; reflexivity).
      destruct (a_r2 _ _ _ _ _ _ _ HL t SRel u) as (_ & _ & Hsuf & _); [rewrite Ew; reflexivity|].
      match goal with |- context [after_inner ?w2 m ?r] =>
        pose proof (inner_pre w2 m u u (u_rest u) (winfo w) t (conj eq_refl (conj eq_refl eq_refl)) Hsuf
                      ltac:(intros T; rewrite Hte in T; discriminate T)) as Hpre;
        pose proof (after_inner_L1 mx t m w2 u SRel (winfo w) r HL Ew Hpre) as Hai;
        pose proof (after_inner_wt w2 m r) as [Hw1 Hw2];
        destruct (after_inner w2 m r) as [w3 p'] eqn:Ea; cbn [fst snd] in *;
        eassert (HT : TS t w w2 _ _) by (ts_solve; rewrite Hlen; exact Ht)
      end.
      destruct (scan_finish w _ w3 t _ _ p' HT Hw1 Hw2) as [K1 K2].
      * unfold get; rewrite Hs; cbn [mw]. exact Hai.
      * intros E. specialize (Hnc E). discriminate Hnc.
      * split; [exact K1|]. apply (U1_step w _ t HU Hoth). intros _. unfold get; rewrite Hs; reflexivity.
  - (* SpinLoad *) destruct k; try contradiction; destruct (nsync_spin_test_and_set_cas1_guard (word w) MU_SPINLOCK) eqn:G; B.
  - (* SpinCas *) destruct k; try contradiction.
    + unfold spin_set. cbv beta iota. cas_split w; [| B].
      destruct Hok as (Hnh & lt & Hown & Hsc). cbn [scan_pc_ok spin] in Hsc. destruct Hsc as (-> & Hte & Hu & G).
      assert (Ew : winfo w t = sinfo mx SSpin u) by (rewrite (winfo_scan w t SSpin u); unfold get; rewrite Hs; reflexivity).
      intros HI' Hoth Hnc.
      match goal with |- context [round_end ?w2 u] =>
        eassert (HT : TS t w w2 _ _) by (ts_solve; rewrite Hlen; exact Ht);
        destruct (round_end_fields w2 u) as (F1 & _ & _ & _ & _ & _ & _ & _ & _ & F10 & F11 & _);
        pose proof (fun Hk => round_end_L1 mx t w2 u SSpin (winfo w) HL Ew Hk) as H3;
        destruct (round_end w2 u) as [w3 u3] eqn:Ere; cbn [fst snd] in *
      end.
      pose proof (scan_from_wt m 3 w3 u3) as [Hw1 Hw2].
      pose proof (fun H3' HQ => scan_from_L1 mx t m w3 u3 SRel (fupd (winfo w) t (sinfo mx SRel u3)) 1 H3' (fupd_eq _ _ _ _) F1 HQ) as H4.
      destruct (scan_from 3 w3 m u3) as [w4 p'] eqn:Esf. cbn [fst snd] in *.
      rewrite F10 in Hw1. rewrite F11 in Hw2.
      assert (Hsp : spin (get (set_pc w4 t p') t) = true).
      { erewrite TS_get; [| apply TS_set_pc; eapply TS_eq; [exact HT | exact Hw1 | exact Hw2]]. reflexivity. }
      assert (HQ : quiet (winfo w) t) by (apply (quiet_of_spin n w _ t HI' Hsp Hoth); unfold get; rewrite Hs; reflexivity).
      specialize (H3 (proj1 HQ)). specialize (H4 H3 (quiet_fupd (winfo w) t (sinfo mx SRel u3) HQ eq_refl)).
      destruct (scan_finish w _ w4 t _ _ p' HT Hw1 Hw2) as [K1 K2].
      * unfold get; rewrite Hs; cbn [mw]. destruct H4 as [H4|H4]; [left; exact H4 | right].
        eapply L1v_ext; [intros y; symmetry; apply collapse2 | exact H4].
      * intros E. specialize (Hnc E). discriminate Hnc.
      * split; [exact K1|]. apply (U1_step w _ t HU Hoth). intros _. unfold get; rewrite Hs; reflexivity.
    + mwsome Hok mx. unfold spin_set. cbv beta iota. cas_split w; [| B].
      match goal with |- context [mw_first (get_mw ?ww t)] =>
        assert (get_mw ww t = x) as Eg by (erewrite (TS_get_mw t w); [| ts_solve; rewrite Hlen; exact Ht]; unfold get; rewrite Hs; reflexivity);
        rewrite Eg end.
      destruct (a_pq _ _ _ _ _ _ _ HL t (Some (mw_rc x))) as (Pw & _ & Prc); [unfold winfo, get; rewrite Hs; reflexivity|].
      specialize (Prc _ eq_refl).
      assert (Hsk : sk_of (t_pc (get w t)) = None) by (unfold get; rewrite Hs; reflexivity).
      pose proof (a_r1 _ _ _ _ _ _ _ HL) as R1.
      destruct (mw_first x) eqn:Ef; intros HI' Hoth Hnc; cbn [fst] in *;
        match goal with |- L1 ?W /\ U1 ?W => eassert (HT : TS t w W _ _) by (ts_solve; rewrite Hlen; exact Ht) end;
        (split; [| u1_tac w t HU Hoth HT Hs]).
      * match goal with |- L1 ?W => assert (Hsp : spin (get W t) = true) by (rewrite (TS_get _ _ _ _ _ HT); reflexivity);
          assert (Er : rings_of W = maybe_merge (wcond w) (weq w) (cls w) (rings_of w) (last_opt (queue w)) (Some t))
            by (unfold rings_of at 1; cbn [scp scn queue wcond weq cls w_merge set_rings set_queue set_pc set_t set_thr upd_mw set_mw set_spin set_own set_word];
                symmetry; apply surjective_pairing) end.
        eapply (L1_enq w _ t _ _ HL HT); try reflexivity; info_simpl Hs; try reflexivity; try (intros; discriminate).
        -- left; reflexivity.
        -- intros Nt Hsg. rewrite Er. cbn [queue set_pc set_t set_thr upd_mw set_mw set_queue].
           apply ring_enqueue_last; assumption.
        -- exact Pw.
        -- intros v Ev; injection Ev as <-; exact Prc.
        -- exact (no_wants_empty w _ t HI' Hsp Hoth Hsk).
      * match goal with |- L1 ?W => assert (Hsp : spin (get W t) = true) by (rewrite (TS_get _ _ _ _ _ HT); reflexivity);
          assert (Er : rings_of W = maybe_merge (wcond w) (weq w) (cls w) (rings_of w) (Some t) (first_opt (queue w)))
            by (unfold rings_of at 1; cbn [scp scn queue wcond weq cls w_merge set_rings set_queue set_pc set_t set_thr upd_mw set_mw set_spin set_own set_word];
                symmetry; apply surjective_pairing) end.
        eapply (L1_enq w _ t _ _ HL HT); try reflexivity; info_simpl Hs; try reflexivity; try (intros; discriminate).
        -- right; reflexivity.
        -- intros Nt Hsg. rewrite Er. cbn [queue set_pc set_t set_thr upd_mw set_mw set_queue].
           apply ring_enqueue_first; assumption.
        -- exact Pw.
        -- intros v Ev; injection Ev as <-; exact Prc.
        -- exact (no_wants_empty w _ t HI' Hsp Hoth Hsk).
  - (* RmLoad *) destruct k; try contradiction; B.
  - (* RmCas *) destruct k; try contradiction.
    + destruct (Z.eqb_spec (rcount w (List.hd t (u_rest u))) oldv) as [Erc|Erc]; [| B].
      destruct Hok as (Hnh & lt & Hown & Hsc). cbn [scan_pc_ok spin] in Hsc. destruct Hsc as (-> & Hu).
      assert (Ew : winfo w t = sinfo mx SRm u) by (rewrite (winfo_scan w t SRm u); unfold get; rewrite Hs; reflexivity).
      destruct (a_r2 _ _ _ _ _ _ _ HL t SRm u) as (_ & _ & Hsuf & (Hne & Hqe)); [rewrite Ew; reflexivity|].
      destruct (u_rest u) as [|e tl0] eqn:Er; [congruence|]. cbn [List.hd List.tl] in *.
      match goal with |- context [remove_from ?a ?b ?c ?d (u_new u) e] =>
        change (remove_from a b c d (u_new u) e) with (remove_from (wcond w) (weq w) (cls w) (rings_of w) (u_new u) e) end.
      destruct (remove_from (wcond w) (weq w) (cls w) (rings_of w) (u_new u) e) as [nl rg] eqn:Erm.
      intros HI' Hoth Hnc.
      match goal with |- context [after_inner ?w2 m (inner ?w2 m ?u' tl0)] =>
        set (u2 := set_rest u' tl0);
        assert (H2 : L1v w2 (fupd (winfo w) t (sinfo mx SSpin u2)))
          by (eapply (L1v_scan_remove w w2 t mx SRm u e tl0 (nsync_remove_from_mu_queue_cas1_new oldv) u2 HL Ew Er);
              [rewrite Erc; apply rc_new_neq | reflexivity | rewrite Erm; cbn [snd]; destruct rg; reflexivity | reflexivity | reflexivity
              | reflexivity | reflexivity | reflexivity | rewrite Erm; reflexivity | reflexivity | reflexivity]);
        destruct (a_r2 _ _ _ _ _ _ _ H2 t SSpin u2) as (_ & _ & Hsuf2 & _); [rewrite fupd_eq; reflexivity|];
        assert (Hq2 : u_test u' = false -> queue w2 = [] /\ quiet (fupd (winfo w) t (sinfo mx SSpin u2)) t)
          by (intros T; cbn [u_test] in T; split;
              [apply Hqe; exact T
              | apply quiet_fupd; [| reflexivity]; apply (quiet_of_spin0 n w t H0);
                unfold get; rewrite Hs; cbn [spin t_pc kt_of]; [rewrite T|]; reflexivity]);
        pose proof (inner_pre w2 m u2 u' tl0 _ t (conj eq_refl (conj eq_refl eq_refl)) Hsuf2 Hq2) as Hpre;
        pose proof (after_inner_L1 mx t m w2 u2 SSpin _ (inner w2 m u' tl0) H2 (fupd_eq _ _ _ _) Hpre) as Hai;
        pose proof (after_inner_wt w2 m (inner w2 m u' tl0)) as [Hw1 Hw2];
        destruct (after_inner w2 m (inner w2 m u' tl0)) as [w3 p'] eqn:Ea; cbn [fst snd] in *;
        eassert (HT : TS t w w2 _ _) by (ts_solve; rewrite Hlen; exact Ht)
      end.
      destruct (scan_finish w _ w3 t _ _ p' HT Hw1 Hw2) as [K1 K2].
      * unfold get; rewrite Hs; cbn [mw]. destruct Hai as [Hai|Hai]; [left; exact Hai | right].
        eapply L1v_ext; [intros y; symmetry; apply collapse2 | exact Hai].
      * intros E. specialize (Hnc E). discriminate Hnc.
      * split; [exact K1|]. apply (U1_step w _ t HU Hoth). intros _. unfold get; rewrite Hs; reflexivity.
    + destruct (Z.eqb_spec (rcount w t) oldv) as [Erc|Erc]; [| B].
      pose proof (a_kt _ _ _ _ _ _ _ HL t) as Hin. unfold winfo, get in Hin. rewrite Hs in Hin. specialize (Hin eq_refl).
      match goal with |- context [remove_from ?a ?b ?c ?d ?e t] =>
        change (remove_from a b c d e t) with (remove_from (wcond w) (weq w) (cls w) (rings_of w) (queue w) t) end.
      destruct (remove_from (wcond w) (weq w) (cls w) (rings_of w) (queue w) t) as [nl rg] eqn:Erm.
      intros HI' Hoth Hnc. cbn [fst] in *.
      match goal with |- L1 ?W /\ U1 ?W => eassert (HT : TS t w W _ _) by (ts_solve; rewrite Hlen; exact Ht) end.
      split; [| u1_tac w t HU Hoth HT Hs].
      eapply (L1_self_remove w _ t _ _ (nsync_remove_from_mu_queue_cas1_new oldv) HL HT); try reflexivity; info_simpl Hs; try reflexivity;
        try exact Hin.
      * rewrite Erm. reflexivity.
      * rewrite Erm. cbn [snd]. destruct rg; reflexivity.
      * rewrite Erc. apply rc_new_neq.
  - (* UlFast *) destruct Hok as (Ho & ->). cas_split w; B.
  - (* UlLoad *) destruct Hok as (Ho & ->). destruct (unlock_try_cas2 m (word w)); [| destruct (unlock_bad m (word w))]; B.
  - (* UlCas2 *) destruct Hok as (Ho & ->). cas_split w; B.
  - (* UwFast *) destruct Hok as (Ho & ->). cas_split w; B.
  - (* UwLoad *) destruct Hok as (Ho & ->). destruct (nsync_mu_unlock_without_wakeup_cas2_guard (word w)); [| destruct (uw_bad (word w))]; B.
  - (* UwCas2 *) destruct Hok as (Ho & ->). cas_split w; B.
  - (* UsLoad *) destruct (nsync_mu_unlock_slow_cas1_guard (word w)); [B|].
    destruct (nsync_mu_unlock_slow_cas2_guard (word w)) eqn:G2; [B | cbn; intros; split; assumption].
  - (* UsCasRel *) cas_split w; destruct mx; B.
  - (* UsCasSpin *) cas_split w; [| B].
    destruct Hok as (Ho & Hnh & G). unfold own in Ho. cbn [held spin conv] in Ho. destruct Ho as (-> & -> & ->).
    assert (Ew : winfo w t = info_of (UsCasSpin m old) mx) by (unfold winfo, get; rewrite Hs; reflexivity).
    assert (Hheld : held (get w t) = Some m) by (unfold get; rewrite Hs; reflexivity).
    destruct (has old MU_CONDITION) eqn:Etest; intros HI' Hoth Hnc;
    (match goal with |- context [scan_from 3 (set_queue ?w2 []) m ?u] =>
      eassert (HT : TS t w (set_queue w2 []) _ _) by (ts_solve; rewrite Hlen; exact Ht);
      pose proof (fun Hk => L1v_scan_start w (set_queue w2 []) t mx u m old HL Ew eq_refl eq_refl eq_refl eq_refl Hk eq_refl
                              eq_refl eq_refl eq_refl eq_refl eq_refl) as H3;
      pose proof (scan_from_wt m 3 (set_queue w2 []) u) as [Hw1 Hw2];
      pose proof (fun H3' HQ => scan_from_L1 mx t m (set_queue w2 []) u SSpin (fupd (winfo w) t (sinfo mx SSpin u)) 1 H3' (fupd_eq _ _ _ _) eq_refl HQ) as H4;
      destruct (scan_from 3 (set_queue w2 []) m u) as [w4 p'] eqn:Esf; cbn [fst snd] in *;
      assert (Hsp : spin (get (set_pc w4 t p') t) = true)
        by (erewrite TS_get; [| apply TS_set_pc; eapply TS_eq; [exact HT | exact Hw1 | exact Hw2]]; reflexivity);
      assert (HQ : quiet (winfo w) t) by (apply (quiet_of_spin n w _ t HI' Hsp Hoth); unfold get; rewrite Hs; reflexivity);
      specialize (H3 (proj1 HQ)); specialize (H4 H3 (quiet_fupd (winfo w) t (sinfo mx SSpin u) HQ eq_refl));
      destruct (scan_finish w _ w4 t _ _ p' HT Hw1 Hw2) as [K1 K2];
      [ unfold get; rewrite Hs; cbn [mw]; destruct H4 as [H4|H4]; [left; exact H4 | right];
        eapply L1v_ext; [intros y; symmetry; apply collapse2 | exact H4]
      | intros E; specialize (Hnc E); discriminate Hnc
      | split; [exact K1|] ]
    end).
    all: intros t1 t2 A1 A2;
      assert (K : forall y, y <> t -> scl (t_pc (get (set_pc w4 t p') y)) = true -> False)
        by (intros y Ny Hy; destruct (scl_own n _ y HI' Hy) as [B|B];
            [ apply Ny; exact (spin_unique n _ y t HI' B Hsp)
            | rewrite (Hoth y Ny) in B; apply (other_holders n w t H0 ltac:(rewrite Hheld; discriminate) y Ny); exact B ]);
      destruct (Nat.eq_dec t1 t) as [->|N1], (Nat.eq_dec t2 t) as [->|N2]; auto;
      [ destruct (K t2 N2 A2) | destruct (K t1 N1 A1) | destruct (K t1 N1 A1) ].
  - (* UsEval *)
    destruct Hok as (Hnh & lt & Hown & Hsc). cbn [scan_pc_ok spin] in Hsc. destruct Hsc as (-> & Hte & Hu).
    assert (Ew : winfo w t = sinfo mx SEval u) by (rewrite (winfo_scan w t SEval u); unfold get; rewrite Hs; reflexivity).
    destruct (a_r2 _ _ _ _ _ _ _ HL t SEval u) as (_ & Rn & [pre Hsuf] & (p & tl0 & Er & Hc)); [rewrite Ew; reflexivity|].
    rewrite Er. rewrite Er in Hsuf. destruct (wcond w p) as [[f a]|] eqn:Ec; [clear Hc | congruence].
    intros HI' Hoth Hnc.
    assert (Hq : forall u', u_test u' = u_test u -> u_test u' = false -> queue (log_eval w t f a (pst w f a)) = [] /\ quiet (winfo w) t)
      by (intros u' E T; rewrite E, Hte in T; discriminate T).
    match goal with |- context [after_inner ?w2 m ?r] =>
      assert (Hpre : match r with
        | InPc p0 => p0 = Crash 5 \/ exists k' u', sk_of p0 = Some (k', u') /\ lists_eq u u' /\ (exists pre, u_new u' = pre ++ u_rest u') /\
                                                  kind_ok (queue w2) (wcond w2) k' u'
        | InEnd u' => lists_eq u u' /\ (exists pre, u_new u' = pre ++ u_rest u') /\ (u_test u' = false -> queue w2 = [] /\ quiet (winfo w) t)
        end)
    end.
    { destruct (pst w f a).
      - match goal with |- context [wakeable ?ww u p] => destruct (wakeable ww u p) end.
        + right. exists SRm, u. split; [reflexivity|]. split; [repeat split|]. split; [exists pre; rewrite Er; exact Hsuf|].
          cbn [kind_ok]. rewrite Er. split; [discriminate | intros T; rewrite Hte in T; discriminate T].
        + apply (inner_pre _ m u); [repeat split | exists (pre ++ [p]); rewrite <- app_assoc; exact Hsuf | apply Hq; reflexivity].
      - apply (inner_pre _ m u); [repeat split | | apply Hq; reflexivity].
        rewrite Hsuf in Rn. destruct (skip_sound _ _ _ pre p tl0 Rn) as (skd & Esk & _).
        exists (pre ++ p :: skd). rewrite <- Hsuf in Esk. cbn [fst rings_of] in Esk.
        rewrite Hsuf at 1. rewrite Esk at 1. rewrite <- app_assoc. reflexivity. }
    match goal with |- context [after_inner ?w2 m ?r] =>
      pose proof (after_inner_L1 mx t m w2 u SEval (winfo w) r HL Ew Hpre) as Hai;
      pose proof (after_inner_wt w2 m r) as [Hw1 Hw2];
      destruct (after_inner w2 m r) as [w3 p'] eqn:Ea; cbn [fst snd] in *;
      eassert (HT : TS t w w2 _ _) by (ts_solve; rewrite Hlen; exact Ht)
    end.
    destruct (scan_finish w _ w3 t _ _ p' HT Hw1 Hw2) as [K1 K2].
    + unfold get; rewrite Hs; cbn [mw]. exact Hai.
    + intros E. specialize (Hnc E). discriminate Hnc.
    + split; [exact K1|]. apply (U1_step w _ t HU Hoth). intros _. unfold get; rewrite Hs; reflexivity.
  - (* UsRelLoad *) B.
  - (* UsRelCas *) cas_split w; [destruct (wake u) eqn:Ewk; destruct mx; B | B].
  - (* UsWakeStore *) destruct (wake u) as [|q rest] eqn:Ewk; [destruct mx; B |].
    intros HI' Hoth Hnc. cbn [fst] in *.
    match goal with |- L1 ?W /\ U1 ?W => eassert (HT : TS t w W _ _) by (ts_solve; rewrite Hlen; exact Ht) end.
    split.
    + eapply (L1_wake w _ t _ _ q rest HL HT); try reflexivity; info_simpl Hs; try reflexivity; try exact Ewk.
    + u1_tac w t HU Hoth HT Hs.
  - (* UsWakeV *) destruct (wake u) as [|q rest] eqn:Ewk; destruct mx; B.
  - (* SetC *) destruct Hok as (Ho & ->). B.
  - (* MwLoad *) destruct Hok as (-> & -> & Hh & Hm). destruct h as [h|]; [| congruence]. destruct mx as [x|]; [| congruence].
    destruct (band (word w) MU_ANY_LOCK =? 0); [B|].
    match goal with |- context [mw_cond (get_mw ?ww t)] =>
      assert (get_mw ww t = mk_mw (if negb (band (word w) MU_RHELD_IF_NON_ZERO =? 0) then R else W) (mw_cond x) (mw_eq x) (mw_dl x) (mw_canc x) (mw_first x) (mw_rc x) (mw_hadw x)
                                  (mw_semout x) (mw_have x) (mw_outcome x) (mw_tmo x) (mw_ent x)) as Eg
        by (erewrite (TS_get_mw t w); [| ts_solve; rewrite Hlen; exact Ht]; unfold get; rewrite Hs; reflexivity);
      rewrite Eg end.
    cbn [mw_cond]. destruct (mw_cond x); [B|].
    unfold mw_after_eval. destruct (nsync_mu_wait_with_deadline_store1_guard _ _); B.
  - (* MwEval *) mwsome Hok mx. unfold get_mw, get. rewrite Hs. cbn [mw].
    destruct (mw_cond x) as [[f a]|]; unfold mw_after_eval; destruct (nsync_mu_wait_with_deadline_store1_guard _ _); B.
  - (* MwStoreWaiting *) mwsome Hok mx. B.
    all: intros o Eo; injection Eo as <-; split; [cbn [waiting set_pc set_t set_thr set_waiting]; apply fupd_eq | split; [reflexivity | intros; discriminate]].
  - (* MwRcLoad *) mwsome Hok mx. B.
    intros o Eo; injection Eo as <-.
    destruct (a_pq _ _ _ _ _ _ _ HL t None) as (A & _ & _); [unfold winfo, get; rewrite Hs; reflexivity|].
    split; [exact A | split; [reflexivity | intros v Ev; injection Ev as <-; reflexivity]].
  - (* MwRelLoad *) mwsome Hok mx. B.
  - (* MwRelCas *) mwsome Hok mx. cas_split w; [destruct (add =? 0) | ]; B.
  - (* MwLoadW1 *) mwsome Hok mx. unfold get_mw, get. rewrite Hs. cbn [mw].
    destruct (waiting w t) eqn:Ew.
    + destruct (mw_semout x =? 0); B.
    + destruct (mw_have x) eqn:Eh; B.
  - (* MwSemP *) mwsome Hok mx. unfold get_mw, get. rewrite Hs. cbn [mw]. destruct c.
    + destruct (0 <? sem w t); [B | cbn; intros; split; assumption].
    + destruct (mw_dl x) as [d|]; [| cbn; intros; split; assumption]. destruct (d <=? clock w); [B | cbn; intros; split; assumption].
    + destruct (mw_canc x && note w); [B | cbn; intros; split; assumption].
  - (* MwLoadW2 *) mwsome Hok mx. destruct (waiting w t); B.
  - (* MwLoadW3 *) mwsome Hok mx. B.
  - (* MtLoad *) mwsome Hok mx. destruct (mu_try_acquire_after_timeout_or_cancel_cas1_guard (word w)) eqn:G1;
      [| destruct (mu_try_acquire_after_timeout_or_cancel_cas2_guard (word w)) eqn:G2]; B.
  - (* MtCas1 *) mwsome Hok mx. cas_split w; [| destruct (mu_try_acquire_after_timeout_or_cancel_cas2_guard old) eqn:G2]; B.
  - (* MtCas2 *) mwsome Hok mx. cas_split w; B.
  - (* MtLoadW *) mwsome Hok mx. destruct (waiting w t); B.
  - (* MtLoadRc *) pose proof Hok as Hok'. mwsome Hok mx. unfold get_mw, get. rewrite Hs. cbn [mw].
    destruct (Z.eqb_spec (mw_rc x) (rcount w t)) as [Erc|Erc]; B.
    intros _. unfold try_frozen, in_mw, own in Hok'. cbn [mw held spin] in Hok'. destruct Hok' as ((y & Ey & (Oh & Os & _) & _) & _).
    apply (frozen_in_queue w t (mw_rc x) H0 HL); unfold winfo, get; rewrite ?Hs; cbn [held spin t_pc]; auto.
  - (* MtStoreW *) mwsome Hok mx. B.
  - (* MtStore2 *) mwsome Hok mx. B.
  - (* MtStore3 *) mwsome Hok mx. B.
  - (* Crash *) cbn. intros; split; assumption.
Qed.
End Step.
