(* NoteProof5: C08 expiry (note.c as of 0ed6400: nsync_note_new compares with the parent also when abs_deadline has already
   passed).  The expiry time of EVERY completed note is min (abs_deadline, the parent's notification time at the comparison)
   (InvX / expiry_spec), hence never later than the parent's expiry unless both are not after the epoch (expiry_monotone),
   and equal to the minimum over the creation path with an already-notified parent counting as zero (expiry_path);
   it is the minimum of the creation deadlines alone unless the note is already notified (InvY / expiry_min);
   the literal reading "always the minimum of the abs_deadline values" is refuted by a three-call single-thread run with an
   explicitly notified parent (expiry_literal_refuted). *)
From Coq Require Import String.
From NsyncBase Require Import CSem.
From NsyncGen Require Import Consts Sites.
From NsyncModel Require Import NoteModel.
From NsyncProof Require Import NoteProof NoteProof2 NoteProof3 NoteProof4.
From Coq Require Import List ZArith Bool Lia Arith.
Import ListNotations.
Local Open Scope Z_scope.

(* ================= C08: expiry ================= *)
Definition uc (w : world) (x : nat) : Prop := exists t f, In f (stk w t) /\ uc_of f = Some x.
(* what nsync_note_new computes *)
Definition espec (w : world) (n : nat) : time :=
  match cpar (nt w n) with
  | Some p => tmin (if cpz (nt w n) then tzero else expiry (nt w p)) (cdl (nt w n))
  | None => cdl (nt w n)
  end.

(* the ghost fields cinh / cpz change only in nsync_note_new's comparison step *)
Lemma step1_cinh w t c m :
  (m < nnext w)%nat ->
  (cinh (nt (fst (step1 w t c)) m) = cinh (nt w m) /\ cpz (nt (fst (step1 w t c)) m) = cpz (nt w m)) \/
  (exists par dl p e rest, stk w t = ANew par dl (W3 m p e) :: rest).
Proof.
  intros Hm. unfold stk.
  leaves.
  all: unfold nt in *; nsimpl.
  all: try solve [left; split; reflexivity].
  all: try solve [right; eauto 8].
  all: try lia.
Qed.
(* the comparison step itself *)
Lemma step1_w3 w t c par dl n p e rest :
  stk w t = ANew par dl (W3 n p e) :: rest -> n <> p -> cdl (nt w n) = dl -> cpar (nt w n) = Some p -> expiry (nt w n) = dl ->
  let w' := fst (step1 w t c) in
  stk w' t = ANew par dl (W4 n p) :: rest /\ expiry (nt w' n) = espec w' n /\ expiry (nt w' p) = expiry (nt w p).
Proof.
  intros Hst Hne Hd Hp He w'. unfold w', step1, get. unfold stk in Hst. rewrite Hst. unfold step_New. cbv zeta. cbn [fst].
  rewrite stk_setst. split; [reflexivity|].
  assert ((p =? n)%nat = false) as Hpn by (apply Nat.eqb_neq; auto).
  assert ((n =? p)%nat = false) as Hnp by (apply Nat.eqb_neq; auto).
  unfold espec, notified_time, tmin, nt in *.
  destruct e; destruct (flag (notes w p) =? 0) eqn:Ef; destruct (tlt _ dl) eqn:E1; destruct (tpos _) eqn:E2; cbn [negb andb].
  all: repeat (progress (cbn [notes setst set_thr set_note]; unfold fupd; rewrite ?Nat.eqb_refl, ?Hpn, ?Hnp;
    cbn [alive expiry flag parent children waiters disc lock adoptions cdl cpar cinh cpz
         set_alive set_expiry set_flag set_parent set_children set_waiters set_disc set_lock set_cinh set_adoptions negb];
    rewrite ?Hd, ?Hp, ?E1)).
  all: auto.
Qed.

(* the stepping thread's nsync_note_new either goes on or returns *)
Lemma step1_new_persist w t c par dl s n :
  shape (stk w t) -> In (ANew par dl s) (stk w t) -> uc_of (ANew par dl s) = Some n ->
  (exists s', In (ANew par dl s') (stk (fst (step1 w t c)) t) /\ uc_of (ANew par dl s') = Some n) \/
  (stk (fst (step1 w t c)) t = [] /\ ((s = WD n /\ par = None) \/ exists p, s = W4 n p)).
Proof.
  intros Sh. remember (fst (step1 w t c)) as w' eqn:Hw'. revert Hw'. unfold stk in Sh.
  leaves.
  all: intros ->; cbn [fst] in *.
  all: change (stk w t) with (stack (thr w t)); rewrite ?Hst.
  all: try (intros Hin; exfalso; exact Hin).
  all: try (unfold stk; rewrite Hst; intros Hin Hu; left; exists s; solve [auto]).
  all: bottom_nil Sh.
  all: rets Sh.
  all: rewrite ?stk_setst, ?stk_finish.
  all: intros Hin Hu; cbn [In] in Hin.
  all: try contradiction.
  all: repeat match goal with H : _ \/ _ |- _ => destruct H as [H|H] end; try contradiction; try discriminate.
  all: try (inversion Hin; subst; cbn [uc_of] in Hu; try discriminate Hu; try (inversion Hu; subst)).
  all: try solve [left; exists s; split; [cbn [In]; tauto | exact Hu]].
  all: try solve [left; eexists; split; [cbn [In]; eauto 6 | reflexivity]].
  all: try solve [right; split; [reflexivity | eauto]].
Qed.

Record InvX (w : world) : Prop := mk_InvX {
  ex_done : forall n, (n < nnext w)%nat -> ~ uc w n -> expiry (nt w n) = espec w n;
  ex_w4 : forall t par dl n p, In (ANew par dl (W4 n p)) (stk w t) -> expiry (nt w n) = espec w n;
  ex_par : forall m p, (m < nnext w)%nat -> cpar (nt w m) = Some p -> ~ uc w p }.

Lemma uc_step_back w t c x : InvA w -> uc (fst (step1 w t c)) x -> uc w x \/ (x = nnext w /\ nnext (fst (step1 w t c)) = S (nnext w)).
Proof.
  intros I (t0 & f & Hf & Hu). pose proof (step1_ext w t c) as E.
  destruct (Nat.eq_dec t0 t) as [->|Ht0].
  - destruct (step1_uc w t c f x (ia_shape _ I t) Hf Hu) as [(f0 & Hf0 & Hu0)|H]; [left; exists t, f0; auto|right; auto].
  - rewrite (stk_other _ _ _ _ E Ht0) in Hf. left. exists t0, f. auto.
Qed.

Lemma uc_in_dec st n : (exists f, In f st /\ uc_of f = Some n) \/ ~ (exists f, In f st /\ uc_of f = Some n).
Proof.
  induction st as [|g r IH]; [right; intros (f & [] & _)|].
  destruct (uc_of g) as [m|] eqn:Eg.
  - destruct (Nat.eq_dec m n) as [->|Hne]; [left; exists g; split; [left; reflexivity|exact Eg]|].
    destruct IH as [(f & Hf & Hu)|IH]; [left; exists f; split; [right|]; auto|].
    right. intros (f & [<-|Hf] & Hu); [congruence|]. apply IH. eauto.
  - destruct IH as [(f & Hf & Hu)|IH]; [left; exists f; split; [right|]; auto|].
    right. intros (f & [<-|Hf] & Hu); [congruence|]. apply IH. eauto.
Qed.

Lemma new_top st par dl s : shape st -> In (ANew par dl s) st -> (forall m, s <> WD m) -> st = [ANew par dl s].
Proof.
  induction st as [|f r IH]; intros Sh Hin Hs; [destruct Hin|].
  destruct r as [|g r'].
  - destruct Hin as [->|[]]. reflexivity.
  - destruct Sh as [L Sh]. destruct Hin as [->|Hin]; [destruct g; contradiction|].
    specialize (IH Sh Hin Hs). inversion IH; subst. destruct f; cbn in L; try contradiction.
    destruct s; try contradiction. exfalso. eapply Hs; eauto.
Qed.

Lemma InvX_step1 w t c : InvC w -> broken (gh w) = false -> InvX w -> InvX (fst (step1 w t c)).
Proof.
  intros (I & H & N & U) B X. specialize (U B). pose proof (step1_ext w t c) as E.
  pose proof (InvA_step1 w t c I) as I'.
  assert (forall t0, t0 <> t -> stk (fst (step1 w t c)) t0 = stk w t0) as So by (intros; eapply stk_other; eauto).
  pose proof (x_next _ _ _ E) as Hnx.
  (* a note that is not being compared right now keeps its expiry and the ghost fields *)
  assert (forall m, (m < nnext w)%nat -> (forall par dl p e rest, stk w t <> ANew par dl (W3 m p e) :: rest) ->
            expiry (nt (fst (step1 w t c)) m) = expiry (nt w m) /\ cinh (nt (fst (step1 w t c)) m) = cinh (nt w m) /\
            cpz (nt (fst (step1 w t c)) m) = cpz (nt w m) /\ cdl (nt (fst (step1 w t c)) m) = cdl (nt w m) /\
            cpar (nt (fst (step1 w t c)) m) = cpar (nt w m)) as Keep.
  { intros m Hm Hn3. destruct (x_imm _ _ _ E m Hm) as [E1 E2].
    destruct (x_exp _ _ _ E m Hm) as [E3|(par & dl & p & e & rest & Hst & _)]; [|exfalso; eapply Hn3; eauto].
    destruct (step1_cinh w t c m Hm) as [[E4 E5]|(par & dl & p & e & rest & Hst)]; [|exfalso; eapply Hn3; eauto]. auto. }
  assert (forall m par dl p e rest, stk w t = ANew par dl (W3 m p e) :: rest -> uc w m) as W3uc.
  { intros m par dl p e rest Hst. exists t. eexists. split; [rewrite Hst; left; reflexivity|reflexivity]. }
  assert (forall m, (m < nnext w)%nat -> (forall par dl p e rest, stk w t <> ANew par dl (W3 m p e) :: rest) ->
            (forall q, cpar (nt w m) = Some q -> ~ uc w q) ->
            espec (fst (step1 w t c)) m = espec w m /\ expiry (nt (fst (step1 w t c)) m) = expiry (nt w m)) as KeepSpec.
  { intros m Hm Hn3 Hq. destruct (Keep m Hm Hn3) as (K1 & K2 & K3 & K4 & K5).
    split; [|exact K1]. unfold espec. rewrite K3, K4, K5.
    destruct (cpar (nt w m)) as [q|] eqn:Eq; [|reflexivity].
    assert (q < nnext w)%nat as Hql by (pose proof (ia_lt _ I m q Hm Eq); lia).
    destruct (Keep q Hql) as (Kq & _); [intros par dl p e rest Hst; apply (Hq q eq_refl); eapply W3uc; eauto|]. rewrite Kq. reflexivity. }
  (* the thread's nsync_note_new frame is its bottom frame *)
  assert (forall par dl s par' dl' s' rest, In (ANew par dl s) (stk w t) -> stk w t = ANew par' dl' s' :: rest -> par' = par /\ dl' = dl /\ s' = s /\ rest = []) as Bot.
  { intros par dl s par' dl' s' rest Hin Hst. pose proof (ia_shape _ I t) as Sh.
    pose proof (bottom_of _ _ Sh Hin Logic.I) as B1. rewrite Hst in Sh, B1. pose proof (shape_bottom _ _ Sh Logic.I). subst rest.
    cbn in B1. inversion B1. auto. }
  split.
  - (* finished notes *)
    intros n Hn' Hnuc'.
    destruct (Nat.lt_ge_cases n (nnext w)) as [Hn|Hn].
    2:{ exfalso. apply Hnuc'. destruct (step1_nnext w t c) as [Eq|(par & dl & rest & Hst & Eq & _)]; [lia|].
        assert (n = nnext w) as -> by lia. exists t, (ANew par dl (WD (nnext w))). split; [|reflexivity].
        unfold step1, get. unfold stk in Hst. rewrite Hst. unfold step_New.
        destruct c; cbn [fst] in *.
        - exfalso. revert Eq. unfold step1, get. rewrite Hst. cbn [step_New fst]. rewrite nnext_finish. lia.
        - change (stack (thr ?W t)) with (stk W t). rewrite stk_setst. right; left; reflexivity. }
    destruct (uc_in_dec (stk w t) n) as [(f & Hf & Huf)|Hmine].
    + destruct f as [| | | |? | |par dl s| |]; try discriminate Huf.
      pose proof (ia_fok _ I t _ Hf) as Fk. cbn [fok] in Fk. destruct Fk as (_ & _ & Fk).
      destruct (step1_new_persist w t c par dl s n (ia_shape _ I t) Hf Huf) as [(s' & Hin' & Hu')|(Hnil & Hs)].
      { exfalso. apply Hnuc'. exists t. eauto. }
      assert (forall par' dl' p e rest, stk w t <> ANew par' dl' (W3 n p e) :: rest) as Hn3.
      { intros par' dl' p e rest Hst. destruct (Bot _ _ _ _ _ _ _ Hf Hst) as (_ & _ & <- & _). destruct Hs as [[Hs _]|(q & Hs)]; discriminate Hs. }
      destruct (KeepSpec n Hn Hn3) as [K1 K2]; [intros q Hq; eapply (ex_par _ X); eauto|]. rewrite K1, K2.
      destruct Hs as [[-> ->]|(q & ->)].
      * (* nsync_note_new (NULL, dl) returns right after its nsync_note_is_notified (n) *)
        destruct Fk as (_ & Fe & Fd & Fc). unfold espec. rewrite Fc. congruence.
      * eapply (ex_w4 _ X); eauto.
    + assert (~ uc w n) as Hu.
      { intros (t0 & f & Hf & Huf). destruct (Nat.eq_dec t0 t) as [->|Ht0]; [apply Hmine; eauto|].
        apply Hnuc'. exists t0, f. rewrite (So t0 Ht0). auto. }
      destruct (KeepSpec n Hn) as [K1 K2].
      * intros par dl p e rest Hst. apply Hu. eapply W3uc; eauto.
      * intros q Hq. eapply (ex_par _ X); eauto.
      * rewrite K1, K2. apply (ex_done _ X); auto.
  - (* just compared *)
    intros t0 par dl n p Hin.
    destruct (Nat.eq_dec t0 t) as [->|Ht0].
    + destruct (step1_new_frame w t c par dl (W4 n p) n (ia_shape _ I t) Hin eq_refl) as [(_ & Hs & _)|(s0 & Hin0 & Hu0 & _ & _ & Hs0)]; [discriminate Hs|].
      pose proof (ia_fok _ I t _ Hin0) as Fk. cbn [fok] in Fk. destruct Fk as (_ & _ & Fk).
      destruct (Hs0 p eq_refl) as [->|(e & ->)].
      * destruct Fk as (Hn & _).
        destruct (KeepSpec n Hn) as [K1 K2].
        -- intros par' dl' p' e' rest Hst. destruct (Bot _ _ _ _ _ _ _ Hin0 Hst) as (_ & _ & Hs & _). discriminate Hs.
        -- intros q Hq. eapply (ex_par _ X); eauto.
        -- rewrite K1, K2. eapply (ex_w4 _ X); eauto.
      * destruct Fk as (Hn & Fe & Fd & Fp & Fpar).
        pose proof (new_top _ _ _ _ (ia_shape _ I t) Hin0 ltac:(intros m; discriminate)) as Hst.
        assert (n <> p) as Hnp. { rewrite Fpar in Fp. pose proof (ia_lt _ I n p Hn Fp). lia. }
        destruct (step1_w3 w t c par dl n p e [] Hst Hnp Fd ltac:(congruence) Fe) as (_ & Hx & _). exact Hx.
    + rewrite (So t0 Ht0) in Hin.
      pose proof (ia_fok _ I t0 _ Hin) as Fk. cbn [fok] in Fk. destruct Fk as (_ & _ & Hn & _).
      destruct (KeepSpec n Hn) as [K1 K2].
      * intros par' dl' p' e' rest Hst. apply Ht0. eapply (ia_uc _ I t0 t); [exact Hin|rewrite Hst; left; reflexivity|reflexivity|reflexivity].
      * intros q Hq. eapply (ex_par _ X); eauto.
      * rewrite K1, K2. eapply (ex_w4 _ X); eauto.
  - (* a creation parent is complete *)
    intros m p Hm Hp Hucp.
    destruct (step1_nnext w t c) as [Eq|(par & dl & rest & Hst & Eq & Hnt & Hoth)].
    + rewrite Eq in Hm. destruct (x_imm _ _ _ E m Hm) as [_ E2]. rewrite E2 in Hp.
      destruct (uc_step_back w t c p I Hucp) as [Hu|[_ Hu]]; [eapply (ex_par _ X); eauto|lia].
    + destruct (Nat.eq_dec m (nnext w)) as [->|Hne].
      * rewrite Hnt in Hp. cbn [cpar] in Hp. subst par.
        assert (In (ANew (Some p) dl W1) (stk w t)) as Hin by (rewrite Hst; left; reflexivity).
        pose proof (ia_fok _ I t _ Hin) as Fk. cbn [fok] in Fk. destruct Fk as (Fp & _). specialize (Fp p eq_refl).
        destruct (uc_step_back w t c p I Hucp) as [(t0 & f & Hf & Hu)|[Hu _]]; [|lia].
        destruct (Nat.eq_dec t0 t) as [->|Ht0].
        -- pose proof (ia_shape _ I t) as Sh. rewrite Hst in Sh. pose proof (shape_bottom _ _ Sh Logic.I). subst rest.
           rewrite Hst in Hf. destruct Hf as [<-|[]]. discriminate Hu.
        -- eapply (p_uc _ (iu_priv _ U) t0 f p Hf Hu t _ (not_eq_sym Ht0) Hin). cbn. auto.
      * assert (m < nnext w)%nat as Hm0 by lia. rewrite (Hoth m Hne) in Hp.
        destruct (uc_step_back w t c p I Hucp) as [Hu|[Hu _]]; [eapply (ex_par _ X); eauto|].
        pose proof (ia_lt _ I m p Hm0 Hp). lia.
Qed.

Lemma nt_begin w t m : nt (begin_call w t) m = nt w m.
Proof. unfold nt. rewrite notes_begin. reflexivity. Qed.
Lemma espec_begin w t m : espec (begin_call w t) m = espec w m.
Proof. unfold espec. rewrite !nt_begin. destruct (cpar (nt w m)); rewrite ?nt_begin; reflexivity. Qed.
Lemma begin_new_frames w t t0 par dl s :
  In (ANew par dl s) (stk (begin_call w t) t0) -> In (ANew par dl s) (stk w t0) \/ s = W1.
Proof.
  destruct (Nat.eq_dec t0 t) as [->|Ht0].
  - destruct (begin_stack w t) as [->|[[_ ->]|(_ & o & rest & _ & -> & _)]]; auto; [intros []|].
    destruct o; cbn; intros H; repeat (destruct H as [H|H]; try discriminate H; try contradiction); inversion H; auto.
  - pose proof (tonly_begin t w) as T. pose proof (psame_ext _ _ _ (tonly_psame _ _ _ T)) as E.
    rewrite (stk_other _ _ _ _ E Ht0). auto.
Qed.
Lemma uc_begin w t n : uc (begin_call w t) n -> uc w n.
Proof.
  intros (t0 & f & Hf & Hu). destruct f; try discriminate Hu.
  destruct (begin_new_frames _ _ _ _ _ _ Hf) as [H| ->]; [|discriminate Hu]. exists t0; eauto.
Qed.
Lemma InvX_begin w t : InvX w -> InvX (begin_call w t).
Proof.
  intros [X1 X2 X4]. split.
  - intros n Hn Hu. rewrite nnext_begin in Hn. rewrite espec_begin, nt_begin. apply X1; auto.
    intros (t0 & f & Hf & Huf). apply Hu.
    destruct (Nat.eq_dec t0 t) as [->|Ht0].
    + destruct (begin_stack w t) as [E|[[E _]|(E & _)]]; [exists t, f; rewrite E; auto| |]; rewrite E in Hf; destruct Hf.
    + pose proof (tonly_begin t w) as T. pose proof (psame_ext _ _ _ (tonly_psame _ _ _ T)) as E.
      exists t0, f. rewrite (stk_other _ _ _ _ E Ht0). auto.
  - intros t0 par dl n p Hin. rewrite espec_begin, nt_begin.
    destruct (begin_new_frames _ _ _ _ _ _ Hin) as [H|H]; [eauto|discriminate H].
  - intros m p Hm Hp Hu. rewrite nnext_begin in Hm. rewrite nt_begin in Hp. apply (X4 m p Hm Hp). apply (uc_begin _ _ _ Hu).
Qed.
Lemma InvX_tick w d : InvX w -> InvX (tick w d).
Proof. intros [X1 X2 X4]. split; auto. Qed.
Lemma InvX_init c0 progs : InvX (init c0 progs).
Proof.
  assert (forall t, stk (init c0 progs) t = []) as S.
  { intros t. unfold stk, init. cbn. destruct (nth_in_or_default t (map (fun p => mk_t [] p [] 0 O false) progs) dflt) as [H|H].
    - apply in_map_iff in H. destruct H as (p & <- & _). reflexivity.
    - rewrite H. reflexivity. }
  split.
  - intros n Hn. cbn in Hn. lia.
  - intros t par dl n p. rewrite S. intros [].
  - intros m p Hm. cbn in Hm. lia.
Qed.
Definition InvXC (w : world) : Prop := broken (gh w) = false -> InvX w.
Lemma InvXC_exec w a : InvC w -> InvXC w -> InvXC (exec w a).
Proof.
  intros C X. destruct a as [t c|d]; cbn [exec].
  - rewrite step_step1. intros B. destruct (step1_ghost (begin_call w t) t c) as (Eb & _). rewrite Eb in B.
    apply InvX_step1; [apply InvC_begin, C|exact B|]. apply InvX_begin, X. apply (begin_broken w t B).
  - intros B. apply InvX_tick, X, B.
Qed.
Lemma InvXC_run sched : forall w, InvC w -> InvXC w -> InvXC (run w sched).
Proof. induction sched as [|a r IH]; intros w C X; cbn; auto. apply IH; [apply InvC_exec, C|apply InvXC_exec; auto]. Qed.
Theorem InvX_reachable w : reachable w -> broken (gh w) = false -> InvX w.
Proof. intros (c0 & progs & sched & H0 & ->). apply InvXC_run; [apply InvC_init, H0|intros _; apply InvX_init]. Qed.

(* the comparison step, explicitly *)
Lemma step1_w3b w t c par dl n p e rest :
  stk w t = ANew par dl (W3 n p e) :: rest -> n <> p -> expiry (nt w n) = dl ->
  let w' := fst (step1 w t c) in
  expiry (nt w' n) = tmin (notified_time w p (flag (nt w p))) dl /\ flag (nt w' n) = flag (nt w n).
Proof.
  intros Hst Hne He w'. unfold w', step1, get. unfold stk in Hst. rewrite Hst. unfold step_New. cbv zeta. cbn [fst].
  assert ((p =? n)%nat = false) as Hpn by (apply Nat.eqb_neq; auto).
  assert ((n =? p)%nat = false) as Hnp by (apply Nat.eqb_neq; auto).
  unfold notified_time, tmin, nt in *.
  destruct e; destruct (flag (notes w p) =? 0) eqn:Ef; destruct (tlt _ dl) eqn:E1; destruct (tpos _) eqn:E2; cbn [negb andb].
  all: repeat (progress (cbn [notes setst set_thr set_note]; unfold fupd; rewrite ?Nat.eqb_refl, ?Hpn, ?Hnp;
    cbn [alive expiry flag parent children waiters disc lock adoptions cdl cpar cinh cpz
         set_alive set_expiry set_flag set_parent set_children set_waiters set_disc set_lock set_cinh set_adoptions negb])).
  all: auto.
Qed.

(* the minimum of the creation deadlines from n to the root of its creation path *)
Fixpoint dl_min (w : world) (fuel n : nat) : time :=
  match fuel with
  | O => cdl (nt w n)
  | S k => match cpar (nt w n) with Some p => tmin (dl_min w k p) (cdl (nt w n)) | None => cdl (nt w n) end
  end.
Lemma dl_min_ext t w w' : InvA w -> ext t w w' -> forall k n, (n < nnext w)%nat -> dl_min w' k n = dl_min w k n.
Proof.
  intros I E. induction k as [|k IH]; intros n Hn; cbn [dl_min]; destruct (x_imm _ _ _ E n Hn) as [E1 E2]; rewrite E1; [reflexivity|rewrite E2].
  destruct (cpar (nt w n)) as [p|] eqn:Ep; [|reflexivity]. rewrite IH; [reflexivity|]. pose proof (ia_lt _ I n p Hn Ep). lia.
Qed.
Lemma dl_min_fuel w : cpar_lt w -> forall k k' n, (n < nnext w)%nat -> (n <= k)%nat -> (n <= k')%nat -> dl_min w k n = dl_min w k' n.
Proof.
  intros L. induction k as [|k IH]; intros k' n Hn H1 H2.
  - assert (n = O) as -> by lia. destruct k'; cbn [dl_min]; [reflexivity|].
    destruct (cpar (nt w O)) as [p|] eqn:Ep; [|reflexivity]. pose proof (L _ _ Hn Ep). lia.
  - destruct k' as [|k']; cbn [dl_min].
    + assert (n = O) as -> by lia. destruct (cpar (nt w O)) as [p|] eqn:Ep; [|reflexivity]. pose proof (L _ _ Hn Ep). lia.
    + destruct (cpar (nt w n)) as [p|] eqn:Ep; [|reflexivity]. pose proof (L _ _ Hn Ep). rewrite (IH k' p); [reflexivity|lia..].
Qed.
Lemma tmin_npos a b : tpos a = false -> tpos (tmin a b) = false.
Proof. unfold tmin. destruct a as [x|], b as [y|]; cbn; try discriminate; auto. destruct (x <? y) eqn:E; auto. intros H. apply Z.ltb_ge in H, E. apply Z.ltb_ge. lia. Qed.

Definition Qx (w : world) (n : nat) : Prop := expiry (nt w n) = dl_min w n n \/ obs_notified w n.
Record InvY (w : world) : Prop := mk_InvY {
  y_done : forall n, (n < nnext w)%nat -> ~ uc w n -> Qx w n;
  y_w4 : forall t par dl n p, In (ANew par dl (W4 n p)) (stk w t) -> Qx w n }.

Lemma InvY_step1 w t c : InvC w -> broken (gh w) = false -> InvX w -> InvY w -> InvY (fst (step1 w t c)).
Proof.
  intros (I & H & N & U) B X Y. specialize (U B). pose proof (step1_ext w t c) as E.
  assert (forall t0, t0 <> t -> stk (fst (step1 w t c)) t0 = stk w t0) as So by (intros; eapply stk_other; eauto).
  assert (forall m, (m < nnext w)%nat -> (forall par dl p e rest, stk w t <> ANew par dl (W3 m p e) :: rest) -> Qx w m -> Qx (fst (step1 w t c)) m) as Keep.
  { intros m Hm Hn3 [Q|Q]; [left|right; eapply obs_ext; eauto].
    rewrite (dl_min_ext _ _ _ I E m m Hm), <- Q.
    destruct (x_exp _ _ _ E m Hm) as [E3|(par & dl & p & e & rest & Hst & _)]; [exact E3|exfalso; eapply Hn3; eauto]. }
  assert (forall m par dl p e rest, stk w t = ANew par dl (W3 m p e) :: rest -> uc w m) as W3uc.
  { intros m par dl p e rest Hst. exists t. eexists. split; [rewrite Hst; left; reflexivity|reflexivity]. }
  assert (forall par dl s par' dl' s' rest, In (ANew par dl s) (stk w t) -> stk w t = ANew par' dl' s' :: rest -> par' = par /\ dl' = dl /\ s' = s /\ rest = []) as Bot.
  { intros par dl s par' dl' s' rest Hin Hst. pose proof (ia_shape _ I t) as Sh.
    pose proof (bottom_of _ _ Sh Hin Logic.I) as B1. rewrite Hst in Sh, B1. pose proof (shape_bottom _ _ Sh Logic.I). subst rest.
    cbn in B1. inversion B1. auto. }
  split.
  - intros n Hn' Hnuc'.
    destruct (Nat.lt_ge_cases n (nnext w)) as [Hn|Hn].
    2:{ exfalso. apply Hnuc'. destruct (step1_nnext w t c) as [Eq|(par & dl & rest & Hst & Eq & _)]; [lia|].
        assert (n = nnext w) as -> by lia. exists t, (ANew par dl (WD (nnext w))). split; [|reflexivity].
        unfold step1, get. unfold stk in Hst. rewrite Hst. unfold step_New.
        destruct c; cbn [fst] in *.
        - exfalso. revert Eq. unfold step1, get. rewrite Hst. cbn [step_New fst]. rewrite nnext_finish. lia.
        - change (stack (thr ?W t)) with (stk W t). rewrite stk_setst. right; left; reflexivity. }
    destruct (uc_in_dec (stk w t) n) as [(f & Hf & Huf)|Hmine].
    + destruct f as [| | | |? | |par dl s| |]; try discriminate Huf.
      pose proof (ia_fok _ I t _ Hf) as Fk. cbn [fok] in Fk. destruct Fk as (_ & _ & Fk).
      destruct (step1_new_persist w t c par dl s n (ia_shape _ I t) Hf Huf) as [(s' & Hin' & Hu')|(Hnil & Hs)].
      { exfalso. apply Hnuc'. exists t. eauto. }
      assert (forall par' dl' p e rest, stk w t <> ANew par' dl' (W3 n p e) :: rest) as Hn3.
      { intros par' dl' p e rest Hst. destruct (Bot _ _ _ _ _ _ _ Hf Hst) as (_ & _ & <- & _). destruct Hs as [[Hs _]|(q & Hs)]; discriminate Hs. }
      apply (Keep n Hn Hn3).
      destruct Hs as [[-> ->]|(q & ->)]; [|eapply (y_w4 _ Y); eauto].
      destruct Fk as (_ & Fe & Fd & Fp).
      left. rewrite Fe, <- Fd. destruct n; cbn [dl_min]; [reflexivity|]. rewrite Fp. reflexivity.
    + assert (~ uc w n) as Hu.
      { intros (t0 & f & Hf & Huf). destruct (Nat.eq_dec t0 t) as [->|Ht0]; [apply Hmine; eauto|].
        apply Hnuc'. exists t0, f. rewrite (So t0 Ht0). auto. }
      apply (Keep n Hn); [|apply (y_done _ Y); auto].
      intros par dl p e rest Hst. apply Hu. eapply W3uc; eauto.
  - intros t0 par dl n p Hin.
    destruct (Nat.eq_dec t0 t) as [->|Ht0].
    + destruct (step1_new_frame w t c par dl (W4 n p) n (ia_shape _ I t) Hin eq_refl) as [(_ & Hs & _)|(s0 & Hin0 & Hu0 & _ & _ & Hs0)]; [discriminate Hs|].
      pose proof (ia_fok _ I t _ Hin0) as Fk. cbn [fok] in Fk. destruct Fk as (_ & _ & Fk).
      destruct (Hs0 p eq_refl) as [->|(e & ->)].
      * destruct Fk as (Hn & _). apply (Keep n Hn); [|eapply (y_w4 _ Y); eauto].
        intros par' dl' p' e' rest Hst. destruct (Bot _ _ _ _ _ _ _ Hin0 Hst) as (_ & _ & Hs & _). discriminate Hs.
      * destruct Fk as (Hn & Fe & Fd & Fp & Fpar).
        pose proof (new_top _ _ _ _ (ia_shape _ I t) Hin0 ltac:(intros m; discriminate)) as Hst.
        rewrite Fpar in Fp. pose proof (ia_lt _ I n p Hn Fp) as Hpn.
        assert (n <> p) as Hnp by lia. assert (p < nnext w)%nat as Hp by lia.
        destruct (step1_w3b w t c par dl n p e [] Hst Hnp Fe) as (Hx & Hfl).
        assert (Qx w p) as Qp by (apply (y_done _ Y); [exact Hp|exact (ex_par _ X n p Hn Fp)]).
        unfold Qx, obs_notified in *. rewrite Hx. unfold notified_time.
        destruct (Z.eqb_spec (flag (nt w p)) 0) as [Ef|Ef].
        2:{ right. right. apply tmin_npos. reflexivity. }
        destruct Qp as [Qp|[Qp|Qp]]; [|contradiction|right; right; apply tmin_npos; exact Qp].
        left. rewrite Qp. rewrite (dl_min_ext _ _ _ I E n n Hn). destruct n as [|n0]; [lia|]. cbn [dl_min]. rewrite Fp, Fd.
        rewrite (dl_min_fuel w (ia_lt _ I) n0 p p Hp); [reflexivity|lia|lia].
    + rewrite (So t0 Ht0) in Hin.
      pose proof (ia_fok _ I t0 _ Hin) as Fk. cbn [fok] in Fk. destruct Fk as (_ & _ & Hn & _).
      apply (Keep n Hn); [|eapply (y_w4 _ Y); eauto].
      intros par' dl' p' e' rest Hst. apply Ht0. eapply (ia_uc _ I t0 t); [exact Hin|rewrite Hst; left; reflexivity|reflexivity|reflexivity].
Qed.

Lemma dl_min_begin w t k n : dl_min (begin_call w t) k n = dl_min w k n.
Proof. revert n. induction k as [|k IH]; intros n; cbn [dl_min]; rewrite !nt_begin; [reflexivity|]. destruct (cpar (nt w n)); [rewrite IH|]; reflexivity. Qed.
Lemma Qx_begin w t n : Qx (begin_call w t) n <-> Qx w n.
Proof. unfold Qx, obs_notified. rewrite dl_min_begin, !nt_begin. tauto. Qed.
Lemma InvY_begin w t : InvY w -> InvY (begin_call w t).
Proof.
  intros [Y1 Y2]. split.
  - intros n Hn Hu. rewrite nnext_begin in Hn. apply Qx_begin. apply Y1; auto.
    intros (t0 & f & Hf & Huf). apply Hu.
    destruct (Nat.eq_dec t0 t) as [->|Ht0].
    + destruct (begin_stack w t) as [E|[[E _]|(E & _)]]; [exists t, f; rewrite E; auto| |]; rewrite E in Hf; destruct Hf.
    + pose proof (tonly_begin t w) as T. pose proof (psame_ext _ _ _ (tonly_psame _ _ _ T)) as E.
      exists t0, f. rewrite (stk_other _ _ _ _ E Ht0). auto.
  - intros t0 par dl n p Hin. apply Qx_begin.
    destruct (begin_new_frames _ _ _ _ _ _ Hin) as [H|H]; [eauto|discriminate H].
Qed.
Lemma InvY_tick w d : InvY w -> InvY (tick w d).
Proof.
  assert (forall k n, dl_min (tick w d) k n = dl_min w k n) as Dm.
  { induction k as [|k IH]; intros n; cbn [dl_min]; change (nt (tick w d) n) with (nt w n); [reflexivity|].
    destruct (cpar (nt w n)); [rewrite IH|]; reflexivity. }
  assert (forall n, Qx (tick w d) n <-> Qx w n) as Qt.
  { intros n. unfold Qx, obs_notified. rewrite Dm. change (nt (tick w d) n) with (nt w n). tauto. }
  intros [Y1 Y2]. split.
  - intros n Hn Hu. apply Qt. apply Y1; auto.
  - intros t par dl n p Hin. apply Qt. eapply Y2; eauto.
Qed.
Lemma InvY_init c0 progs : InvY (init c0 progs).
Proof.
  assert (forall t, stk (init c0 progs) t = []) as S.
  { intros t. unfold stk, init. cbn. destruct (nth_in_or_default t (map (fun p => mk_t [] p [] 0 O false) progs) dflt) as [H|H].
    - apply in_map_iff in H. destruct H as (p & <- & _). reflexivity.
    - rewrite H. reflexivity. }
  split.
  - intros n Hn. cbn in Hn. lia.
  - intros t par dl n p. rewrite S. intros [].
Qed.
Definition InvXY (w : world) : Prop := broken (gh w) = false -> InvX w /\ InvY w.
Lemma InvXY_exec w a : InvC w -> InvXY w -> InvXY (exec w a).
Proof.
  intros C X. destruct a as [t c|d]; cbn [exec].
  - rewrite step_step1. intros B. destruct (step1_ghost (begin_call w t) t c) as (Eb & _). rewrite Eb in B.
    destruct (X (proj1 (begin_broken w t B))) as [X1 Y1].
    split; [apply InvX_step1|apply InvY_step1]; auto using InvC_begin, InvX_begin, InvY_begin.
  - intros B. destruct (X B). split; [apply InvX_tick|apply InvY_tick]; auto.
Qed.
Lemma InvXY_run sched : forall w, InvC w -> InvXY w -> InvXY (run w sched).
Proof. induction sched as [|a r IH]; intros w C X; cbn; auto. apply IH; [apply InvC_exec, C|apply InvXY_exec; auto]. Qed.
Theorem InvXY_reachable w : reachable w -> broken (gh w) = false -> InvX w /\ InvY w.
Proof. intros (c0 & progs & sched & H0 & ->). apply InvXY_run; [apply InvC_init, H0|intros _; split; [apply InvX_init|apply InvY_init]]. Qed.

(* a completed note's expiry time never changes again (no invariant needed: the only step that writes an expiry is the
   comparison step of the nsync_note_new that is still constructing the note) *)
Lemma expiry_stable w a n : (n < nnext w)%nat -> ~ uc w n -> expiry (nt (exec w a) n) = expiry (nt w n).
Proof.
  intros Hn Hu. destruct a as [t c|d]; cbn [exec]; [|reflexivity].
  rewrite step_step1. rewrite <- (nt_begin w t n).
  destruct (x_exp _ _ _ (step1_ext (begin_call w t) t c) n) as [E|(par & dl & p & e & rest & Hst & _)]; [rewrite nnext_begin; exact Hn|exact E|].
  exfalso. apply Hu. apply (uc_begin w t). exists t. eexists. split; [rewrite Hst; left; reflexivity|reflexivity].
Qed.

(* ---- the comparison step, for a reachable world: whatever `expired` is, the new note's expiry becomes
        min (NOTIFIED_TIME (parent), abs_deadline), the ghost cpz records whether the parent's word was set, and the note is
        linked under the parent iff it was not expired and the parent is not notified ---- *)
Lemma new_compare_step w t c par dl n p e rest :
  reachable w -> stk w t = ANew par dl (W3 n p e) :: rest ->
  let w' := fst (step1 w t c) in
  let pt := notified_time w p (flag (nt w p)) in
  expiry (nt w' n) = tmin pt dl /\ cdl (nt w' n) = dl /\ cpar (nt w' n) = Some p /\
  cpz (nt w' n) = negb (flag (nt w p) =? 0) /\
  parent (nt w' n) = (if negb e && tpos pt then Some p else parent (nt w n)).
Proof.
  intros R Hst w' pt. pose proof (InvA_reachable w R) as I.
  assert (fok w t (ANew par dl (W3 n p e))) as F by (apply (ia_fok _ I); rewrite Hst; left; reflexivity).
  cbn [fok] in F. destruct F as (_ & _ & Hn & Fe & Fd & Fp & Fpar).
  assert (n <> p) as Hne. { rewrite Fpar in Fp. pose proof (ia_lt _ I n p Hn Fp). lia. }
  destruct (step1_w3b w t c par dl n p e rest Hst Hne Fe) as (Hx & _). fold w' in Hx.
  split; [exact Hx|].
  unfold w', pt, step1, get. unfold stk in Hst. rewrite Hst. unfold step_New. cbv zeta. cbn [fst].
  assert ((p =? n)%nat = false) as Hpn by (apply Nat.eqb_neq; auto).
  assert ((n =? p)%nat = false) as Hnp by (apply Nat.eqb_neq; auto).
  unfold nt in *.
  destruct e; destruct (tlt _ dl) eqn:E1; destruct (tpos _) eqn:E2; cbn [negb andb].
  all: repeat (progress (cbn [notes setst set_thr set_note]; unfold fupd; rewrite ?Nat.eqb_refl, ?Hpn, ?Hnp;
    cbn [alive expiry flag parent children waiters disc lock adoptions cdl cpar cinh cpz
         set_alive set_expiry set_flag set_parent set_children set_waiters set_disc set_lock set_cinh set_adoptions])).
  all: rewrite Fd, Fp, Fpar; auto.
Qed.

(* ---- order on times ---- *)
Definition tle (a b : time) : Prop := tlt b a = false.       (* nsync_time_cmp (a, b) <= 0 *)
Lemma tle_tmin_l a b : tle (tmin a b) a.
Proof. unfold tle, tmin. destruct a as [x|], b as [y|]; cbn; auto using Z.ltb_irrefl. destruct (Z.ltb_spec x y); [apply Z.ltb_irrefl|apply Z.ltb_ge; lia]. Qed.
Lemma tle_tmin_r a b : tle (tmin a b) b.
Proof. unfold tle, tmin. destruct a as [x|], b as [y|]; cbn; auto using Z.ltb_irrefl. destruct (Z.ltb_spec x y); [apply Z.ltb_ge; lia|apply Z.ltb_irrefl]. Qed.
Lemma tle_trans a b c : tle a b -> tle b c -> tle a c.
Proof.
  unfold tle. destruct a as [x|], b as [y|], c as [z|]; cbn; auto; try discriminate.
  intros H1 H2. apply Z.ltb_ge in H1, H2. apply Z.ltb_ge. lia.
Qed.

(* ---- C08 expiry ---- *)
Theorem expiry_spec w n : reachable w -> broken (gh w) = false -> (n < nnext w)%nat -> ~ uc w n -> expiry (nt w n) = espec w n.
Proof. intros R B Hn Hu. apply (ex_done _ (proj1 (InvXY_reachable w R B))); auto. Qed.
Theorem expiry_min w n : reachable w -> broken (gh w) = false -> (n < nnext w)%nat -> ~ uc w n ->
  expiry (nt w n) = dl_min w n n \/ obs_notified w n.
Proof. intros R B Hn Hu. apply (y_done _ (proj2 (InvXY_reachable w R B))); auto. Qed.

(* the child's expiry is never later than the creation parent's -- except that a parent whose `notified` word was set counts
   as time zero, which is later than a parent expiry before the epoch (possible only with an abs_deadline before the epoch
   somewhere on the path) *)
Theorem expiry_monotone w n p : reachable w -> broken (gh w) = false -> (n < nnext w)%nat -> ~ uc w n -> cpar (nt w n) = Some p ->
  tle (expiry (nt w n)) (expiry (nt w p)) \/
  (cpz (nt w n) = true /\ tle (expiry (nt w n)) tzero /\ tlt (expiry (nt w p)) tzero = true).
Proof.
  intros R B Hn Hu Hp. rewrite (expiry_spec w n R B Hn Hu). unfold espec. rewrite Hp.
  destruct (cpz (nt w n)).
  - destruct (tlt (expiry (nt w p)) tzero) eqn:E.
    + right. split; [reflexivity|]. split; [apply tle_tmin_l|reflexivity].
    + left. eapply tle_trans; [apply tle_tmin_l|exact E].
  - left. apply tle_tmin_l.
Qed.
(* an expiry time is not before the epoch when no creation deadline on the path is *)
Lemma expiry_nonneg w p : reachable w -> (p < nnext w)%nat ->
  (forall a d, cpath w p a -> cdl (nt w a) = Some d -> 0 <= d) -> tlt (expiry (nt w p)) tzero = false.
Proof.
  intros R Hp Hd. pose proof (InvA_reachable w R) as I.
  destruct (expiry (nt w p)) as [e|] eqn:He; [|reflexivity]. cbn. apply Z.ltb_ge.
  destruct (ia_exp _ I p e Hp He) as [(a & Ha & Hc)|[-> _]]; [eapply Hd; eauto|lia].
Qed.
Theorem expiry_monotone_epoch w n p : reachable w -> broken (gh w) = false -> (n < nnext w)%nat -> ~ uc w n -> cpar (nt w n) = Some p ->
  (forall a d, cpath w p a -> cdl (nt w a) = Some d -> 0 <= d) ->
  tle (expiry (nt w n)) (expiry (nt w p)).
Proof.
  intros R B Hn Hu Hp Hd. destruct (expiry_monotone w n p R B Hn Hu Hp) as [H|(_ & _ & H)]; [exact H|].
  pose proof (ia_lt _ (InvA_reachable w R) n p Hn Hp) as Hlt.
  rewrite (expiry_nonneg w p R ltac:(lia) Hd) in H. discriminate H.
Qed.

(* the path form: the minimum of the creation deadlines up the creation path, cut off at (and counting as zero) the first
   parent that was already notified when its child was created *)
Lemma path_min_fuel w : cpar_lt w -> forall k k' n, (n < nnext w)%nat -> (n <= k)%nat -> (n <= k')%nat -> path_min w k n = path_min w k' n.
Proof.
  intros L. induction k as [|k IH]; intros k' n Hn H1 H2.
  - assert (n = O) as -> by lia. destruct k'; cbn [path_min]; [reflexivity|].
    destruct (cpar (nt w O)) as [p|] eqn:Ep; [|reflexivity]. pose proof (L _ _ Hn Ep). lia.
  - destruct k' as [|k']; cbn [path_min].
    + assert (n = O) as -> by lia. destruct (cpar (nt w O)) as [p|] eqn:Ep; [|reflexivity]. pose proof (L _ _ Hn Ep). lia.
    + destruct (cpar (nt w n)) as [p|] eqn:Ep; [|reflexivity]. pose proof (L _ _ Hn Ep).
      destruct (cpz (nt w n)); [reflexivity|]. rewrite (IH k' p); [reflexivity|lia..].
Qed.
Theorem expiry_path w : reachable w -> broken (gh w) = false ->
  forall n, (n < nnext w)%nat -> ~ uc w n -> expiry (nt w n) = path_min w n n.
Proof.
  intros R B. destruct (InvXY_reachable w R B) as [X _]. pose proof (InvA_reachable w R) as I.
  induction n as [n IH] using lt_wf_ind. intros Hn Hu.
  rewrite (ex_done _ X n Hn Hu). unfold espec. destruct n as [|n0]; cbn [path_min].
  - destruct (cpar (nt w 0)) as [p|] eqn:Ep; [pose proof (ia_lt _ I _ _ Hn Ep); lia|reflexivity].
  - destruct (cpar (nt w (S n0))) as [p|] eqn:Ep; [|reflexivity].
    pose proof (ia_lt _ I _ _ Hn Ep) as Hlt. destruct (cpz (nt w (S n0))); [reflexivity|].
    rewrite (IH p); [|lia|lia|eapply (ex_par _ X); eauto].
    rewrite (path_min_fuel w (ia_lt _ I) n0 p p); [reflexivity|lia..].
Qed.

(* ---- the literal reading: the minimum of the abs_deadline values alone ---- *)
Definition expiry_literal : Prop := forall w n, reachable w -> broken (gh w) = false -> (n < nnext w)%nat -> ~ uc w n -> expiry (nt w n) = dl_min w n n.
(* clock 20; a = new (NULL, 5); b = new (a, 10) (both deadlines already passed at creation): before 0ed6400 expiry (b) was 10,
   later than expiry (a) = 5.  Now expiry (b) = 0: a was notified by the deadline check inside its own nsync_note_new, so
   NOTIFIED_TIME (a) is zero and b takes min (10, 0).  No longer "later than the parent's"; against the literal formula
   (5) it is now the same case as wit2 -- a notified ancestor counts as zero. *)
Definition wit1 := run (init 20 [[ONew None (Some 5); ONew (Some O) (Some 10)]]) (repeat (AStep O false) 40).
(* clock 0; a = new (NULL, 5); the clock moves to 20; b = new (a, 10): b's deadline has passed at creation, a's has passed
   too but a's `notified` word is not set.  Before 0ed6400: expiry (b) = 10.  Now 5 = expiry (a) = the literal minimum. *)
Definition wit1b := run (init 0 [[ONew None (Some 5); ONew (Some O) (Some 10)]]) (repeat (AStep O false) 10 ++ [ATick 20] ++ repeat (AStep O false) 40).
(* a = new (NULL, no deadline); notify (a); b = new (a, 10): expiry (b) = 0 *)
Definition wit2 := run (init 0 [[ONew None None; ONotify O; ONew (Some O) (Some 10)]]) (repeat (AStep O false) 30).
(* clock 20; a = new (NULL, -5); b = new (a, 10); c = new (b, no deadline): expiry (b) = -5 but expiry (c) = 0 *)
Definition wit3 := run (init 20 [[ONew None (Some (-5)); ONew (Some O) (Some 10); ONew (Some 1%nat) None]]) (repeat (AStep O false) 60).

Lemma wit1_value : (expiry (nt wit1 0), flag (nt wit1 0), expiry (nt wit1 1), dl_min wit1 1 1, stk wit1 0, broken (gh wit1)) = (Some 5, 1, Some 0, Some 5, [], false).
Proof. vm_compute. reflexivity. Qed.
Lemma wit1b_value : (expiry (nt wit1b 0), flag (nt wit1b 0), expiry (nt wit1b 1), dl_min wit1b 1 1, parent (nt wit1b 1), stk wit1b 0, broken (gh wit1b), clock wit1b)
                    = (Some 5, 0, Some 5, Some 5, None, [], false, 20).
Proof. vm_compute. reflexivity. Qed.
Lemma wit2_reachable : reachable wit2.
Proof. exists 0, [[ONew None None; ONotify O; ONew (Some O) (Some 10)]], (repeat (AStep O false) 30). split; [lia|reflexivity]. Qed.
Lemma wit2_idle t : stk wit2 t = [].
Proof. destruct t as [|[|t]]; vm_compute; reflexivity. Qed.
Lemma wit2_value : (expiry (nt wit2 1), dl_min wit2 1 1, cpz (nt wit2 1)) = (Some 0, Some 10, true).
Proof. vm_compute. reflexivity. Qed.
Theorem expiry_literal_refuted : ~ expiry_literal.
Proof.
  intros F. specialize (F wit2 1%nat wit2_reachable).
  assert (expiry (nt wit2 1) = dl_min wit2 1 1) as E.
  { apply F; [vm_compute; reflexivity|vm_compute; lia|]. intros (t & f & Hf & _). rewrite wit2_idle in Hf. destruct Hf. }
  vm_compute in E. discriminate E.
Qed.
(* the plain "never later than the parent's" fails only through a deadline before the epoch *)
Definition expiry_monotone_plain : Prop := forall w n p, reachable w -> broken (gh w) = false -> (n < nnext w)%nat -> ~ uc w n ->
  cpar (nt w n) = Some p -> tle (expiry (nt w n)) (expiry (nt w p)).
Lemma wit3_reachable : reachable wit3.
Proof. exists 20, [[ONew None (Some (-5)); ONew (Some O) (Some 10); ONew (Some 1%nat) None]], (repeat (AStep O false) 60). split; [lia|reflexivity]. Qed.
Lemma wit3_idle t : stk wit3 t = [].
Proof. destruct t as [|[|t]]; vm_compute; reflexivity. Qed.
Lemma wit3_value : (expiry (nt wit3 0), expiry (nt wit3 1), expiry (nt wit3 2), flag (nt wit3 1)) = (Some (-5), Some (-5), Some 0, 1).
Proof. vm_compute. reflexivity. Qed.
Theorem expiry_monotone_plain_refuted : ~ expiry_monotone_plain.
Proof.
  intros F. specialize (F wit3 2%nat 1%nat wit3_reachable).
  assert (tle (expiry (nt wit3 2)) (expiry (nt wit3 1))) as E.
  { apply F; [vm_compute; reflexivity|vm_compute; lia| |vm_compute; reflexivity]. intros (t & f & Hf & _). rewrite wit3_idle in Hf. destruct Hf. }
  vm_compute in E. discriminate E.
Qed.
