(* The control structure of note.c between its atomic sites, regenerated from /repo on this run, is the pinned one. *)
From Coq Require Import String List.
From NsyncGen Require Import Flow.
From NsyncModel Require Import FlowExpected.

Lemma flow_current_note_c : flow_note_c = expected_flow_note_c.
Proof. vm_compute. reflexivity. Qed.
